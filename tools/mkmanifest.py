"""Assemble MANIFEST.json from harness/meta/*.json (one file per claimed property)."""
import json, os, glob
ROOT = os.path.dirname(os.path.dirname(os.path.abspath(__file__)))
props = [json.loads(l) for l in open(os.path.join(ROOT, "properties.jsonl"))]
metas = {}
for f in sorted(glob.glob(os.path.join(ROOT, "harness", "meta", "C*.json"))):
    m = json.load(open(f)); metas[m["property_id"]] = m
na_path = os.path.join(ROOT, "harness", "meta", "not_applicable.json")
na = json.load(open(na_path)) if os.path.exists(na_path) else {}
checks, not_app = [], []
for p in props:
    pid = p["id"]
    if pid in metas:
        m = metas[pid]
        checks.append({
            "property_id": pid,
            "quick_cmd": "./check %s --tier quick" % pid,
            "thorough_cmd": "./check %s --tier thorough" % pid,
            "evidence_file": "/verif/evidence/%s.json" % pid,
            "replay_cmd_template": "./check %s --replay {path}" % pid,
            "engine": m.get("engine", "coq"),
            "level_claimed": m["level_claimed"],
            "level_note": m["level_note"],
            "technique": m["technique"],
        })
    else:
        not_app.append({"property_id": pid, "reason": na.get(pid, "no check registered in this revision: the Coq model and correspondence for it are still being built (see DESIGN.md section 4)")})
hooks_path = os.path.join(ROOT, "harness", "meta", "hooks.json")
hooks = json.load(open(hooks_path))
man = {
    "version": 1,
    "setup_cmd": "sh /verif/setup.sh",
    "hooks": hooks,
    "engines": [
        {"name": "coq", "path": "coq/", "serves_properties": sorted(metas), "kind_free_text": "Coq 8.16.1 development (Lib/Model/Proofs/Props hand-written, Gen regenerated from /repo on every run)"},
        {"name": "translators", "path": "tools/", "serves_properties": sorted(metas), "kind_free_text": "fail-closed Python-ast translators from pyrex source to Coq definitions"},
        {"name": "harness", "path": "harness/", "serves_properties": sorted(metas), "kind_free_text": "correspondence (model vs implementation), failing-input search, evidence writer"},
    ],
    "checks": checks,
    "notes": "Machine-checked proof in Coq; see DESIGN.md. Every check: regenerate model inputs from /repo, build the proof closure, audit Print Assumptions, run correspondence model-vs-implementation, search for a failing input when anything breaks.",
    "not_applicable": not_app,
}
json.dump(man, open(os.path.join(ROOT, "MANIFEST.json"), "w"), indent=1)
print("checks:", [c["property_id"] for c in checks])
