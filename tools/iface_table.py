"""C10 interface table: Python ast of the pyrex source -> coq/Gen/Gen_iface.v

usage: iface_table.py <repo> <out.v> <out.json>

Collects (statically, from the source as it is now)
  * the call sites inside EventKernel.event (kernel.py) that reach exchangeable components:
    self.ray_tracer(...), self.signal_model(...), path.propagate(...), ant.receive(...),
    EmptySignal(...)  -- number of positional arguments and keyword names;
  * the signature of every shipped callee of those calls: __init__ of every class named
    *RayTracer, __init__ of every class named *AskaryanSignal, every method named
    `propagate` of a class named *Path, `receive` of Antenna-like classes (every class
    defining `receive`), EmptySignal.__init__  (inherited methods resolved through the
    base-class names inside the scanned files).
Fail-closed: star-args at a call site, an unresolvable constructor, or a missing call site
abort the generation (the check then reports the broken obligation).
"""
import ast
import json
import os
import sys


def fail(msg):
    sys.stderr.write("iface_table: " + msg + "\n")
    sys.exit(2)


def scan(repo):
    classes = {}
    for root, _, files in os.walk(os.path.join(repo, "pyrex")):
        for f in sorted(files):
            if not f.endswith(".py"):
                continue
            path = os.path.join(root, f)
            rel = os.path.relpath(path, repo)
            try:
                tree = ast.parse(open(path).read())
            except SyntaxError as e:
                fail("cannot parse %s: %s" % (rel, e))
            for node in ast.walk(tree):
                if isinstance(node, ast.ClassDef):
                    bases = []
                    for b in node.bases:
                        if isinstance(b, ast.Name):
                            bases.append(b.id)
                        elif isinstance(b, ast.Attribute):
                            bases.append(b.attr)
                    methods = {n.name: n for n in node.body if isinstance(n, ast.FunctionDef)}
                    classes.setdefault(node.name, []).append({"file": rel, "line": node.lineno, "bases": bases,
                                                              "methods": methods, "name": node.name})
    return classes


def resolve(classes, cls, meth, seen=()):
    """find the FunctionDef of cls.meth through the base-class names"""
    if meth in cls["methods"]:
        return cls["methods"][meth], cls
    for b in cls["bases"]:
        for cand in classes.get(b, []):
            if cand["name"] in seen:
                continue
            r = resolve(classes, cand, meth, seen + (cls["name"],))
            if r:
                return r
    return None


def signature(fn):
    a = fn.args
    pos = list(a.posonlyargs) + list(a.args)
    if not pos or pos[0].arg not in ("self", "cls"):
        fail("method %s at line %d has no self parameter" % (fn.name, fn.lineno))
    pos = pos[1:]
    ndef = len(a.defaults)
    params = []
    for i, p in enumerate(pos):
        params.append((p.arg, i >= len(pos) - ndef))
    kwonly = [(p.arg, d is not None) for p, d in zip(a.kwonlyargs, a.kw_defaults)]
    return {"params": params, "kwonly": kwonly, "varargs": a.vararg is not None, "varkw": a.kwarg is not None}


def kernel_calls(repo):
    path = os.path.join(repo, "pyrex", "kernel.py")
    tree = ast.parse(open(path).read())
    ev = None
    for node in ast.walk(tree):
        if isinstance(node, ast.ClassDef) and node.name == "EventKernel":
            for n in node.body:
                if isinstance(n, ast.FunctionDef) and n.name == "event":
                    ev = n
    if ev is None:
        fail("EventKernel.event not found in kernel.py")
    sites = {"ray_tracer": [], "signal_model": [], "propagate": [], "receive": [], "EmptySignal": []}
    for node in ast.walk(ev):
        if not isinstance(node, ast.Call):
            continue
        f = node.func
        kind = None
        if isinstance(f, ast.Attribute) and f.attr in ("ray_tracer", "signal_model") and \
                isinstance(f.value, ast.Name) and f.value.id == "self":
            kind = f.attr
        elif isinstance(f, ast.Attribute) and f.attr in ("propagate", "receive"):
            kind = f.attr
        elif isinstance(f, ast.Name) and f.id == "EmptySignal":
            kind = "EmptySignal"
        if kind is None:
            continue
        if any(isinstance(a, ast.Starred) for a in node.args) or any(k.arg is None for k in node.keywords):
            fail("kernel.py:%d: star-arguments at a component call site are outside the translatable subset" % node.lineno)
        sites[kind].append({"line": node.lineno, "npos": len(node.args), "kw": [k.arg for k in node.keywords]})
    for k in ("ray_tracer", "signal_model", "propagate", "receive"):
        if not sites[k]:
            fail("no %s call site found in EventKernel.event" % k)
    return sites


def main():
    repo, out_v, out_json = sys.argv[1:4]
    classes = scan(repo)
    sites = kernel_calls(repo)
    callees = []   # (label, kind, signature)
    for name in sorted(classes):
        for cls in classes[name]:
            label = "%s:%s" % (cls["file"], name)
            if name.endswith("RayTracer"):
                r = resolve(classes, cls, "__init__")
                if not r:
                    fail("cannot resolve %s.__init__" % label)
                callees.append((label + ".__init__", "ray_tracer", signature(r[0])))
            if name.endswith("AskaryanSignal"):
                r = resolve(classes, cls, "__init__")
                if not r:
                    fail("cannot resolve %s.__init__" % label)
                callees.append((label + ".__init__", "signal_model", signature(r[0])))
            if "propagate" in cls["methods"] and name.endswith("Path"):
                callees.append((label + ".propagate", "propagate", signature(cls["methods"]["propagate"])))
            elif name.endswith("Path") and name != "Path":
                r = resolve(classes, cls, "propagate")
                if r:
                    callees.append((label + ".propagate", "propagate", signature(r[0])))
            if "receive" in cls["methods"]:
                callees.append((label + ".receive", "receive", signature(cls["methods"]["receive"])))
            if name == "EmptySignal":
                r = resolve(classes, cls, "__init__")
                if r:
                    callees.append((label + ".__init__", "EmptySignal", signature(r[0])))
    kinds = {k for _, k, _ in callees}
    for k in ("ray_tracer", "signal_model", "propagate", "receive"):
        if k not in kinds:
            fail("no shipped callee of kind %s found" % k)
    # name codes
    names = {}

    def code(n):
        if n not in names:
            names[n] = len(names)
        return names[n]

    rows, table = [], []
    for label, kind, sg in callees:
        for site in sites[kind]:
            ps = "[" + "; ".join("(%d, %s)" % (code(p), "true" if d else "false") for p, d in sg["params"]) + "]"
            # keyword-only parameters: acceptable as keywords only; modelled as named parameters
            # placed after an unreachable positional index by requiring *no* positional reaches them
            if sg["kwonly"]:
                fail("%s has keyword-only parameters: outside the translatable subset" % label)
            kw = "[" + "; ".join(str(code(k)) for k in site["kw"]) + "]"
            rows.append('  ("%s <- kernel.py:%d"%%string, mksig %s %s %s, mkcall %d%%nat %s)' % (
                label, site["line"], ps, "true" if sg["varargs"] else "false", "true" if sg["varkw"] else "false",
                site["npos"], kw))
            table.append({"callee": label, "kind": kind, "signature": sg, "site": site})
    v = ("(* GENERATED by tools/iface_table.py from the pyrex source -- do not edit *)\n"
         "From Coq Require Import List ZArith Bool String.\n"
         "From PyrexModel Require Import KernelModel.\nImport ListNotations.\nOpen Scope Z_scope.\n\n"
         "(* every (shipped callee, kernel call site) pair *)\n"
         "Definition calls : list (string * signature * callsite) := [\n" + ";\n".join(rows) + "\n].\n\n"
         "Definition n_calls : nat := %d%%nat.\n" % len(rows) +
         "(* name codes: %s *)\n" % ", ".join("%d=%s" % (c, n) for n, c in sorted(names.items(), key=lambda x: x[1])))
    open(out_v, "w").write(v)
    json.dump({"table": table, "names": names, "sites": sites}, open(out_json, "w"), indent=1)


if __name__ == "__main__":
    main()
