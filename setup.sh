#!/bin/sh
# MANIFEST.setup_cmd: offline build of the framework from files on disk only.
HERE="$(cd "$(dirname "$0")" && pwd)"
REPO="${VERIF_REPO:-/repo}"
export VERIF_ROOT="$HERE" VERIF_REPO="$REPO"
export PYTHONPATH="$REPO:$HERE" PYTHONHASHSEED=0 PYREX_VERIF=1 PYTHONDONTWRITEBYTECODE=1
cd "$HERE" && exec /venv/bin/python -W ignore -m harness.setup
