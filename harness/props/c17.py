"""C17: thermal noise is band-limited, has the requested RMS, is reproducible in absolute time.

prove : Props/C17.v (DFT theory Lib/DFT.v, model Model/NoiseModel.v)
corr  : numpy.random seeded from ctx.seed and recorded; freqs / amps / phases / rms / values /
        with_times(t).values of FFTThermalNoise (= ThermalNoise) and FullThermalNoise against the
        extracted Coq model evaluated from the published basis
search: cosine-sum oracle on the sampling lattice, out-of-band power, re-gridding, basis copy,
        independent objects, unit-amplitude RMS, Antenna.make_noise
"""
import logging
import math
import os

import numpy as np

from harness import common, dft_extract
from harness.dft_extract import hexs, parse_floats

EPS = 2.0 ** -52
logging.getLogger("pyrex").setLevel(logging.ERROR)

EXTRACT_REQ = "From PyrexLib Require Import DFT.\nFrom PyrexModel Require Import NoiseModel."
EXTRACT_CMD = ('Extract Constant Int_part => "(fun x -> int_of_float (floor x))".\n'
               'Extraction "noise.ml" fft_noise_values fft_freqs fft_M full_noise_values full_freqs full_nfreqs noise_rms zero_dc.')
AMP_KINDS = ["rayleigh", "constant", "function", "scalar-function"]


def amp_spec(kind, c):
    if kind == "rayleigh":
        return None
    if kind == "constant":
        return c
    if kind == "function":
        return lambda f: c + 0.5 * np.asarray(f) / (1.0 + np.abs(np.asarray(f)))
    if kind == "scalar-function":
        return lambda f: c + 0.5 * float(f) / (1.0 + abs(float(f)))
    raise ValueError(kind)


def amp_expected(kind, c, freqs, rs):
    """Amplitudes before the DC bin is zeroed (the model applies zero_dc)."""
    if kind == "rayleigh":
        return rs.rayleigh(1 / np.sqrt(2), size=np.shape(freqs))
    if kind == "constant":
        return np.full(len(freqs), c, dtype=float)
    return np.array([c + 0.5 * float(f) / (1.0 + abs(float(f))) for f in freqs], dtype=float).reshape(len(freqs))


class Recorder:
    """Records the numpy.random calls made while a noise object is built."""
    def __enter__(self):
        self.calls = []
        self.orig = (np.random.rayleigh, np.random.rand)

        def rayleigh(scale=1.0, size=None):
            self.calls.append(("rayleigh", float(scale), size))
            return self.orig[0](scale, size)

        def rand(*a):
            self.calls.append(("rand", a))
            return self.orig[1](*a)
        np.random.rayleigh, np.random.rand = rayleigh, rand
        return self

    def __exit__(self, *a):
        np.random.rayleigh, np.random.rand = self.orig


def build(c):
    """Construct the implementation object for a case (seeds numpy.random first)."""
    from pyrex.signals import FFTThermalNoise, FullThermalNoise
    cls = FFTThermalNoise if c["cls"] == "fft" else FullThermalNoise
    kw = {}
    if c["rms"] is not None:
        kw["rms_voltage"] = c["rms"]
    if c["T"] is not None:
        kw["temperature"] = c["T"]
    if c["R"] is not None:
        kw["resistance"] = c["R"]
    np.random.seed(c["seed"])
    with Recorder() as rec:
        obj = cls(np.array(c["times"]), (c["fmin"], c["fmax"]), f_amplitude=amp_spec(c["amp"], c["ampc"]),
                  uniqueness_factor=c["uf"], **kw)
    return obj, rec.calls


def model_lines(c, freqs, amps, phases, rms, ts):
    t = c["times"]
    if c["cls"] == "fft":
        u = max(1, int(c["uf"]))
        return "fft %s %s %s %d %d %s %s %s %d %s %s %d %s" % (
            hexs([t[0]]), hexs([t[-1]]), hexs([t[1] - t[0]]), u, len(t), hexs([c["fmin"]]), hexs([c["fmax"]]),
            hexs([rms]), len(amps), hexs(amps), hexs(phases), len(ts), hexs(ts))
    return "full %d %s %s %s %s %d %s" % (len(freqs), hexs(freqs), hexs(amps), hexs(phases), hexs([rms]), len(ts), hexs(ts))


def freq_line(c):
    t = c["times"]
    if c["cls"] == "fft":
        return "fftfreq %d %d %s %s %s" % (max(1, int(c["uf"])), len(t), hexs([t[1] - t[0]]), hexs([c["fmin"]]), hexs([c["fmax"]]))
    return "fullfreq %s %s %s %s" % (hexs([c["fmin"]]), hexs([c["fmax"]]), hexs([t[-1] - t[0]]), hexs([float(c["uf"])]))


def rms_line(c):
    def opt(v):
        return "1 %s" % hexs([v]) if v is not None else "0 0x0p+0"
    return "rms %s %s %s %s %s" % (opt(c["rms"]), opt(c["T"]), opt(c["R"]), hexs([c["fmin"]]), hexs([c["fmax"]]))


def vbound(obj):
    n = max(1, len(obj.freqs))
    return abs(obj.rms) * math.sqrt(2.0 / n) * float(np.sum(np.abs(obj.amps))) if len(obj.freqs) else 0.0


def value_tol(c, obj, ts):
    """Upper bound on |implementation - exact model| at times ts.  FFT variant: the periodic
    linear interpolant has slope <= 2*vb/dt; rounding of t-t0, of the period and of the modulo
    moves the abscissa by <= 8 eps (|t|+|t0|+P); the transforms add ~M eps vb."""
    vb = vbound(obj)
    t = c["times"]
    if c["cls"] == "fft":
        dt = t[1] - t[0]
        m = max(1, int(c["uf"])) * len(t)
        span = max([abs(x) for x in ts] + [0.0]) + abs(t[0]) + m * dt
        return vb * (1e-10 + 64 * EPS * span / dt) + 1e-300
    return vb * 1e-11 + 1e-300


SCALARS = ("rms", "f_min", "f_max")


class Snap:
    """The basis an object publishes at some moment."""
    def __init__(self, o):
        self.freqs, self.amps, self.phases, self.rms = (np.array(o.freqs, dtype=float), np.array(o.amps, dtype=float),
                                                        np.array(o.phases, dtype=float), float(o.rms))
        self.f_min, self.f_max = float(o.f_min), float(o.f_max)


def with_band(c, o):
    """The case with the band the object publishes now."""
    return dict(c, fmin=float(o.f_min), fmax=float(o.f_max))


def gen_rebasis(rng, c, o):
    """A complete basis of a DIFFERENT length (what re-creating noise from a stored basis of another object does).
    Full variant: freqs/amps/phases of another length inside the band.  FFT variant: the band is moved
    (f_min, f_max) and freqs/amps/phases of the bins of the new band are published with it."""
    n = len(o.freqs)
    t = c["times"]
    if c["cls"] == "full":
        n2 = rng.choice([k for k in range(1, max(2 * n, 5) + 1) if k != n][:60] or [n + 1])
        lo, hi = float(o.f_min), float(o.f_max)
        freqs = sorted(lo + (hi - lo) * rng.uniform(0.01, 0.99) for _ in range(n2))
        return {"freqs": freqs, "amps": [rng.choice([1.0, rng.uniform(0.05, 3.0)]) for _ in range(n2)],
                "phases": [rng.uniform(0, 2 * math.pi) for _ in range(n2)]}
    m = max(1, int(c["uf"])) * len(t)
    dt = t[1] - t[0]
    allf = np.fft.rfftfreq(m, dt)
    nb = len(allf)
    for _ in range(50):
        k0 = rng.randint(0, nb - 1)
        k1 = min(nb - 1, k0 + rng.randint(0, 40 if m > 400 else nb))
        if k1 - k0 + 1 != n:
            break
    df = 1.0 / (m * dt)
    f_min, f_max = (k0 - 0.3) * df, (k1 + 0.3) * df
    freqs = allf[(allf >= f_min) & (allf <= f_max)]
    return {"f_min": f_min, "f_max": f_max, "freqs": [float(f) for f in freqs],
            "amps": [0.0 if f == 0 else rng.choice([1.0, rng.uniform(0.05, 3.0)]) for f in freqs],
            "phases": [rng.uniform(0, 2 * math.pi) for _ in freqs]}


def gen_assignment(rng, c, o, rebasis=None):
    """A new value for a non-empty subset of the assignable basis attributes (amps, phases, rms; freqs too for
    the Full variant, whose waveform is computed from self.freqs), or - rebasis - a complete basis of another
    length.  Amplitudes at a zero frequency stay zero, as in every basis a constructor publishes."""
    if rebasis or (rebasis is None and rng.random() < 0.35):
        new = gen_rebasis(rng, c, o)
        if rng.random() < 0.3:
            new["rms"] = float(o.rms) * rng.choice([0.5, 2.0, rng.uniform(0.1, 10)])
        return new
    n = len(o.freqs)
    names = ["amps", "phases", "rms"] + (["freqs"] if c["cls"] == "full" else [])
    k = rng.choice([1, 1, 2, 2, 3, len(names)])
    chosen = rng.sample(names, min(k, len(names)))
    new = {}
    for name in chosen:
        if name == "amps":
            a = [rng.choice([1.0, rng.uniform(0.05, 3.0)]) for _ in range(n)]
            f = np.asarray(new.get("freqs", o.freqs), dtype=float)
            new["amps"] = [0.0 if f[i] == 0 else a[i] for i in range(n)]
        elif name == "phases":
            new["phases"] = [rng.uniform(0, 2 * math.pi) for _ in range(n)]
        elif name == "rms":
            new["rms"] = float(o.rms) * rng.choice([0.5, 2.0, 3.0, rng.uniform(0.1, 10)])
        else:
            lo, hi = float(o.f_min), float(o.f_max)
            new["freqs"] = sorted(lo + (hi - lo) * rng.uniform(0.01, 0.99) for _ in range(n))
    return new


def assign(o, new):
    for name, v in new.items():
        setattr(o, name, float(v) if name in SCALARS else np.array(v, dtype=float))


def describe(new):
    ln = len(new["amps"]) if "amps" in new else None
    return "+".join(sorted(new)) + (" (basis of %d frequencies)" % ln if "freqs" in new and ln is not None else "")


def run_history(c, hist, pre_eval=True):
    """build(c); (evaluate;) then for each step: assign, evaluate with_times(step ts).  Returns the object and the
    list of value arrays (one per step)."""
    o, _ = build(c)
    t = c["times"]
    if pre_eval:
        np.asarray(o.values)
        np.asarray(o.with_times(np.array(t[:max(2, len(t) // 2)])).values)
    outs = []
    for st in hist:
        assign(o, st["assign"])
        outs.append(np.asarray(o.with_times(np.array(st["ts"])).values, dtype=float))
    return o, outs


# ----------------------------------------------------------------------------- generator
def gen_case(rng, cls, big=False):
    u = rng.random()
    if cls == "fft":
        n = rng.randint(2, 16) if u < 0.35 else rng.randint(17, 64) if u < 0.8 else rng.randint(65, 512 if big else 200)
    else:
        n = rng.randint(2, 16) if u < 0.4 else rng.randint(17, 64) if u < 0.9 else rng.randint(65, 200)
    dt = 10.0 ** rng.uniform(-10, 0) if rng.random() < 0.6 else rng.randint(1, 7) * 2.0 ** -rng.randint(0, 33)
    v = rng.random()
    t0 = 0.0 if v < 0.3 else rng.uniform(-1, 1) * 10.0 ** rng.uniform(-9, 2) if v < 0.6 else rng.randint(-2000, 2000) * dt if v < 0.8 else rng.uniform(-30, 30) * n * dt
    times = [t0 + i * dt for i in range(n)]
    if not times[1] - times[0] > 0:
        times = [i * dt for i in range(n)]
    decimal_k = None
    if rng.random() < 0.3:
        # grids as users write them: a DECIMAL step and a start at -k steps, so that windows starting at "round"
        # times (0.0, j*dt) have buffer/dt an exact integer in floating point while buffer % dt is not zero
        dt = rng.choice([0.1e-9, 0.5e-9, 1e-9, 0.2e-9, 0.25e-9, 2e-9, 0.4e-9, 0.1, 0.2, 0.5, 0.05, 1.0, 1e-3, 0.3, 0.7e-9, 1e-8])
        decimal_k = rng.randint(1, 50)
        n = max(n, decimal_k + rng.randint(4, 40))
        if cls == "fft" and n > 100:
            n = min(n, 160)
        form = rng.randint(0, 2)
        times = ([(i - decimal_k) * dt for i in range(n)] if form == 0 else [-decimal_k * dt + i * dt for i in range(n)] if form == 1
                 else [float(x) for x in np.linspace(-decimal_k * dt, (n - 1 - decimal_k) * dt, n)])
    dt = times[1] - times[0]
    fny = 0.5 / dt
    uf = rng.choice([1, 1, 2, 3, 4, 5, 0, 0.5, 2.7, 10 if n <= 16 else 1])
    if cls == "full" and n > 64:
        uf = rng.choice([1, 0.5, 2])
    if cls == "fft" and n > 100:
        uf = rng.choice([1, 1, 2])
    band = rng.choice(["inside", "inside", "inside", "touch0", "below0", "aboveNyq", "exactNyq", "empty-above", "empty-between", "one-bin", "reversed"])
    m = max(1, int(uf)) * n
    df = 1.0 / (m * dt)
    if band == "inside":
        a, b = sorted([rng.uniform(0.02, 0.98) * fny, rng.uniform(0.02, 0.98) * fny])
    elif band == "touch0":
        a, b = 0.0, rng.uniform(0.1, 0.9) * fny
    elif band == "below0":
        a, b = -rng.uniform(0.1, 1) * fny, rng.uniform(0.1, 0.9) * fny
    elif band == "aboveNyq":
        a, b = rng.uniform(0.2, 0.9) * fny, rng.uniform(1.1, 3) * fny
    elif band == "exactNyq":
        a, b = rng.uniform(0.2, 0.9) * fny, (m // 2) * df
    elif band == "empty-above":
        a, b = rng.uniform(1.2, 2) * fny, rng.uniform(2.1, 3) * fny
    elif band == "empty-between":
        k = rng.randint(0, max(0, m // 2 - 1))
        a, b = (k + 0.3) * df, (k + 0.6) * df
    elif band == "one-bin":
        k = rng.randint(1, max(1, m // 2))
        a, b = (k - 0.2) * df, (k + 0.2) * df
    else:
        a, b = rng.uniform(0.5, 0.9) * fny, rng.uniform(0.1, 0.5) * fny
    if a == b:
        b = a + df
    if cls == "fft" and n > 100:   # keep the O(nt * M * nf) model evaluation small
        width = rng.uniform(2, 40) * df
        if band in ("inside", "aboveNyq"):
            b = min(b, a + width) if band == "inside" else b
            if band == "aboveNyq":
                a = max(a, fny - width)
    if cls == "full" and (b - a) * (times[-1] - times[0]) * max(1.0, float(uf)) > 400:
        b = a + 400.0 / ((times[-1] - times[0]) * max(1.0, float(uf)))
    r = rng.random()
    rms, T, R = (10.0 ** rng.uniform(-6, 1), None, None) if r < 0.6 else (None, rng.uniform(50, 400), rng.uniform(10, 100)) if r < 0.9 \
        else (10.0 ** rng.uniform(-6, 1), rng.uniform(50, 400), rng.uniform(10, 100)) if r < 0.95 else (None, rng.choice([None, 300.0]), None)
    amp = rng.choice(AMP_KINDS + ["rayleigh", "constant"])
    return {"cls": cls, "times": times, "fmin": a, "fmax": b, "uf": uf, "band": band, "rms": rms, "T": T, "R": R,
            "amp": amp, "ampc": rng.choice([1.0, 1.0, rng.uniform(0.1, 3)]), "seed": rng.randrange(2 ** 31), "decimal_k": decimal_k}


def windows(rng, c, nmax):
    """Times for with_times: the grid itself, sub-window, super-window, shifted, far away, off-grid."""
    t = c["times"]
    n, dt = len(t), t[1] - t[0]
    m = max(1, int(c["uf"])) * n if c["cls"] == "fft" else n
    out = {}
    i0 = rng.randint(0, n - 2)
    i1 = rng.randint(i0 + 1, n - 1)
    out["sub"] = t[i0:i1 + 1]
    back, extra = rng.randint(1, n), rng.randint(0, n)
    out["super"] = [t[0] + (i - back) * dt for i in range(0, 2 * n + extra, max(1, (3 * n) // nmax))]
    sh = rng.randint(-3 * m, 3 * m)
    out["shifted"] = [t[0] + (i + sh) * dt for i in range(0, n, max(1, n // nmax))]
    far = rng.randint(5, 50) * m * rng.choice([-1, 1])
    out["far"] = [t[0] + (i + far) * dt for i in range(0, n, max(1, n // nmax))]
    frac = rng.uniform(0.05, 0.95)
    off = rng.randint(-m, m)
    out["offgrid"] = [t[0] + (i + frac + off) * dt for i in range(0, n, max(1, n // nmax))]
    out.update(round_windows(rng, c))
    return {k: v for k, v in out.items() if len(v) >= 2}


def round_windows(rng, c):
    """Windows inside the span of the grid that start / end at 'round' times written independently of the grid
    (0.0, j*step with the nominal decimal step): re-gridding onto them goes through the leading/trailing buffer
    arithmetic of FunctionSignal with buffer lengths that are not differences of two grid times."""
    t = c["times"]
    out = {}
    k = c.get("decimal_k")
    if not k:
        return out
    n = len(t)
    step = float("%.12g" % (t[1] - t[0]))           # the nominal decimal step
    hi = n - 1 - k                                   # index of the last grid sample counted from t = 0
    if hi >= 2:
        m = rng.randint(2, hi)
        w = [i * step for i in range(m + 1)]
        out["zero-start"] = [x for x in w if x <= t[-1]]
        j = rng.randint(0, hi - 1)
        w = [(j + i) * step for i in range(rng.randint(2, hi - j + 1))]
        out["round-start"] = [x for x in w if x <= t[-1]]
    if k >= 2:
        m = rng.randint(1, k - 1)
        w = [(i - m) * step for i in range(m + 1)]              # ends exactly at 0.0
        out["zero-end"] = [x for x in w if x >= t[0]]
        j = rng.randint(1, k)
        w = [-j * step + i * step for i in range(rng.randint(2, j + max(2, hi)))]
        out["negative-round-start"] = [x for x in w if t[0] <= x <= t[-1]]
    return out


def short(c):
    d = {k: c[k] for k in ("cls", "fmin", "fmax", "uf", "band", "rms", "T", "R", "amp", "ampc", "seed")}
    d.update(n=len(c["times"]), t0=c["times"][0], dt=c["times"][1] - c["times"][0])
    if c.get("decimal_k"):
        d["grid"] = "decimal step, starts at -%d steps" % c["decimal_k"]
    return d


class Limiter:
    def __init__(self, ctx, per=1, total=8):
        self.ctx, self.per, self.total, self.seen, self.n, self.count = ctx, per, total, {}, 0, 0

    def fail(self, cat, key, what, obj):
        self.count += 1
        self.seen[cat] = self.seen.get(cat, 0) + 1
        if self.seen[cat] > self.per or self.n >= self.total:
            return
        self.n += 1
        self.ctx.fail(key, what, obj)


# ----------------------------------------------------------------------------- correspondence
def correspondence(ctx, exe, count):
    rng = ctx.rng
    lim = Limiter(ctx)
    cases = []
    for i in range(count):
        cases.append(gen_case(rng, "fft" if i % 3 != 2 else "full", big=ctx.thorough))
    # fixed corners: F8 (first sample / beyond the first period) and the Nyquist bin
    cases.insert(0, {"cls": "fft", "times": [3.0 + i for i in range(8)], "fmin": 0.1, "fmax": 0.4, "uf": 2, "band": "inside", "rms": 1.0,
                     "T": None, "R": None, "amp": "constant", "ampc": 1.0, "seed": 1})
    cases.insert(1, {"cls": "fft", "times": [100.0 + 0.5 * i for i in range(16)], "fmin": 0.0, "fmax": 2.0, "uf": 1, "band": "aboveNyq", "rms": 1.0,
                     "T": None, "R": None, "amp": "constant", "ampc": 1.0, "seed": 2})
    lines, plan = [], []
    dist = {}
    for c in cases:
        tag = "%s:%s:%s" % (c["cls"], c["band"], c["amp"])
        dist[tag] = dist.get(tag, 0) + 1
        try:
            obj, calls = build(c)
            err = None
        except ValueError as e:
            obj, calls, err = None, [], "ValueError: %s" % e
        except Exception as e:
            obj, calls, err = None, [], "%s: %s" % (type(e).__name__, e)
        expect_error = c["fmin"] >= c["fmax"] or (c["rms"] is None and (c["T"] is None or c["R"] is None))
        key = (c["cls"], len(c["times"]), c["band"], c["amp"], c["uf"], c["seed"])
        ctx.case(key=key, nontrivial=not expect_error and obj is not None and len(obj.freqs) > 0, sample=short(c))
        if expect_error:
            if err is None or not err.startswith("ValueError"):
                lim.fail("error", "corr:%s:no-error" % tag, "constructor must raise ValueError (band reversed / rms undeterminable) but %s; case %s"
                         % (err or "returned an object", short(c)), {"kind": "corr", "case": c})
            lines.append(rms_line(c))
            plan.append((c, None, "rms-none" if c["fmin"] < c["fmax"] else "skip", None, None))
            continue
        if obj is None:
            lim.fail("exception", "corr:%s:exception" % tag, "constructor raised %s on a valid input; case %s" % (err, short(c)), {"kind": "corr", "case": c})
            continue
        lines.append(freq_line(c)); plan.append((c, obj, "freqs", None, None))
        lines.append(rms_line(c)); plan.append((c, obj, "rms", None, None))
        rs = np.random.RandomState(c["seed"])
        raw = amp_expected(c["amp"], c["ampc"], obj.freqs, rs)
        ph = rs.rand(len(obj.freqs)) * 2 * np.pi
        lines.append("zerodc %d %s %s" % (len(obj.freqs), hexs(obj.freqs), hexs(raw))); plan.append((c, obj, "amps", None, None))
        if not np.array_equal(np.asarray(obj.phases, dtype=float), ph):
            lim.fail("phases", "corr:%s:phases" % tag, "phases are not rand(n)*2*pi drawn after the amplitudes from the seeded stream; case %s" % short(c),
                     {"kind": "corr", "case": c})
        if c["amp"] == "rayleigh":
            ray = [x for x in calls if x[0] == "rayleigh"]
            if len(ray) != 1 or abs(ray[0][1] - 1 / math.sqrt(2)) > 1e-15:
                lim.fail("rayleigh", "corr:%s:rayleigh-scale" % tag, "default amplitudes must be one Rayleigh(sigma=1/sqrt 2) draw (E a^2 = 1); calls %r; case %s"
                         % (calls, short(c)), {"kind": "corr", "case": c})
        # values on the own grid and on other windows, all evaluated by the model from the published basis
        nmax = 48 if len(c["times"]) * max(1, int(c["uf"])) > 400 else 160
        wins = {"own": c["times"][::max(1, len(c["times"]) // nmax)] if len(c["times"]) > nmax else c["times"]}
        wins.update(windows(rng, c, nmax))
        for wname, ts in wins.items():
            lines.append(model_lines(c, obj.freqs, obj.amps, obj.phases, obj.rms, ts))
            plan.append((c, obj, "values", wname, ts))
        # history on a second, identical object: evaluate -> assign part of the basis -> evaluate again ...;
        # every evaluation is compared with the model evaluated from the basis published at that moment
        if len(obj.freqs) and rng.random() < 0.6:
            hist = []
            shadow = Snap(obj)
            wl = [w for w in wins.values()]
            for _ in range(rng.randint(1, 3)):
                new = gen_assignment(rng, c, shadow)
                assign(shadow, new)
                hist.append({"assign": new, "ts": rng.choice(wl)})
            pre_eval = rng.random() < 0.7
            try:
                hobj, houts = run_history(c, hist, pre_eval)
            except Exception as e:
                lim.fail("history", "corr:%s:history:exception" % tag, "evaluate/assign/evaluate history raised %s: %s; case %s" % (type(e).__name__, e, short(c)),
                         {"kind": "corr", "case": c, "history": hist, "pre_eval": pre_eval})
                continue
            hk = "history:%s:%s%s" % (c["cls"], "evaluated-first" if pre_eval else "fresh", ":other-length" if any("freqs" in st["assign"] and len(st["assign"]["freqs"]) != len(obj.freqs) for st in hist) else "")
            dist[hk] = dist.get(hk, 0) + 1
            cur = Snap(obj)
            for i, st in enumerate(hist):
                assign(cur, st["assign"])
                snap = Snap(cur)
                lines.append(model_lines(with_band(c, snap), snap.freqs, snap.amps, snap.phases, snap.rms, st["ts"]))
                plan.append((c, snap, "history", (i, hist, houts[i], pre_eval), st["ts"]))
    try:
        outs = dft_extract.run_lines(exe, lines)
    except Exception as e:
        ctx.oblige("corr:model-run", False, str(e)[-800:])
        return
    worst = 0.0
    nvals = 0
    for (c, obj, what, wname, ts), o in zip(plan, outs):
        tag = "%s:%s:%s" % (c["cls"], c["band"], c["amp"])
        if what == "skip":
            continue
        if what == "rms-none":
            if o.strip() != "none":
                lim.fail("rms", "corr:%s:rms-none" % tag, "model has an rms where the constructor raised; case %s" % short(c), {"kind": "corr", "case": c})
            continue
        model = np.array(parse_floats(o), dtype=float)
        if what == "freqs":
            impl = np.asarray(obj.freqs, dtype=float)
            if impl.shape != model.shape or not np.all(np.abs(impl - model) <= 4 * EPS * np.abs(model)):
                lim.fail("freqs", "corr:%s:freqs" % tag, "published freqs differ from the model (%d vs %d entries; first %r vs %r); case %s"
                         % (len(impl), len(model), impl[:3], model[:3], short(c)), {"kind": "corr", "case": c})
            if len(impl) and not (np.all(impl >= c["fmin"]) and np.all(impl <= c["fmax"])):
                lim.fail("band", "corr:%s:out-of-band-freq" % tag, "a published frequency lies outside the requested band; case %s" % short(c), {"kind": "corr", "case": c})
        elif what == "rms":
            if not abs(obj.rms - model[0]) <= 8 * EPS * abs(model[0]):
                lim.fail("rms", "corr:%s:rms" % tag, "rms %r differs from the model %r; case %s" % (obj.rms, model[0], short(c)), {"kind": "corr", "case": c})
        elif what == "amps":
            impl = np.asarray(obj.amps, dtype=float)
            if impl.shape != model.shape or not np.array_equal(impl, model):
                lim.fail("amps", "corr:%s:amps" % tag, "published amps differ from the amplitude specification with the DC bin zeroed; case %s" % short(c),
                         {"kind": "corr", "case": c})
        elif what == "history":
            i, hist, impl, pre_eval = wname
            tol = value_tol(c, obj, ts)
            nvals += len(ts)
            d = float(np.max(np.abs(impl - model))) if len(ts) and impl.shape == model.shape else float("inf")
            if tol > 1e-290 and d < float("inf"):
                worst = max(worst, d / tol)
            if not d <= tol:
                j = int(np.argmax(np.abs(impl - model))) if impl.shape == model.shape else 0
                lim.fail("history", "corr:%s:history" % tag,
                         "%s: after %s, assigning %s and evaluating (step %d of the history) with_times(...).values is not the waveform of the "
                         "basis the object now publishes: |impl-model|=%.3g > %.3g at t=%r (impl %r, model %r); case %s"
                         % (c["cls"], "a first evaluation" if pre_eval else "construction (never evaluated)", describe(hist[i]["assign"]), i + 1, d, tol, ts[j],
                            impl[j] if impl.shape == model.shape else None, model[j] if len(model) else None, short(c)),
                         {"kind": "corr", "case": c, "history": hist[:i + 1], "ts": ts, "pre_eval": pre_eval})
        else:
            try:
                if wname == "own" and len(ts) == len(c["times"]):
                    impl = np.asarray(obj.values, dtype=float)
                else:
                    impl = np.asarray(obj.with_times(np.array(ts)).values, dtype=float)
            except Exception as e:
                lim.fail("values", "corr:%s:%s:exception" % (tag, wname), "with_times/values raised %s: %s; case %s" % (type(e).__name__, e, short(c)),
                         {"kind": "corr", "case": c, "window": wname, "ts": ts})
                continue
            tol = value_tol(c, obj, ts)
            nvals += len(ts)
            d = float(np.max(np.abs(impl - model))) if len(ts) and impl.shape == model.shape else float("inf")
            if tol > 1e-290 and d < float("inf"):
                worst = max(worst, d / tol)
            if not d <= tol:
                i = int(np.argmax(np.abs(impl - model))) if impl.shape == model.shape else 0
                lim.fail("values:" + wname, "corr:%s:%s" % (tag, wname),
                         "%s values on window '%s' differ from the model evaluated from the published basis: |diff|=%.3g > %.3g at t=%r (impl %r, model %r); case %s"
                         % (c["cls"], wname, d, tol, ts[i], impl[i] if impl.shape == model.shape else None, model[i] if len(model) else None, short(c)),
                         {"kind": "corr", "case": c, "window": wname, "ts": ts})
    ctx.oblige("corr:noise-model-vs-implementation", lim.count == 0, "%d comparisons disagree" % lim.count)
    ctx.extra["correspondence"] = {"cases": len(cases), "model_evaluations": len(lines), "sample_values_compared": nvals, "disagreements": lim.count,
                                   "distribution": dist, "worst_difference_over_tolerance": worst,
                                   "tolerance": "values: vb*(1e-10 + 64 eps (|t|+|t0|+P)/dt), vb = rms sqrt(2/n) sum|a|; Full: vb*1e-11; freqs 4 ulp; rms 8 ulp; amps/phases exact"}


# ----------------------------------------------------------------------------- probes
def cos_oracle(obj, cls, t0, ts):
    ts = np.asarray(ts, dtype=float)
    if len(obj.freqs) == 0:
        return np.zeros(len(ts))
    if cls == "fft":
        s = sum(a * np.cos(2 * np.pi * f * (ts - t0) - p) for f, a, p in zip(obj.freqs, obj.amps, obj.phases))
    else:
        s = sum(a * np.cos(2 * np.pi * f * ts + p) for f, a, p in zip(obj.freqs, obj.amps, obj.phases))
    return s * math.sqrt(2.0 / len(obj.freqs)) * obj.rms


def lattice_tol(c, obj, ts):
    """Bound on |implementation - cosine sum of the published basis| at lattice times ts (FFT variant) or any
    times (Full).  Besides value_tol: the float time grid carries dt only to eps*max|t| (absolute), so the
    trace's period P (from times[-1]-times[0]) and the published frequencies k/(M dt) (from times[1]-times[0])
    differ relatively by <= 8 eps max|t| / dt; over a distance |t-t0| that is a shift of
    |t-t0| * 8 eps max|t| / dt, times the maximal slope 2 vb / dt."""
    vb = vbound(obj)
    t = c["times"]
    dt = t[1] - t[0]
    tmax = max(abs(t[0]), abs(t[-1]))
    dist = max([abs(x - t[0]) for x in ts] + [0.0])
    if c["cls"] == "fft":
        return value_tol(c, obj, ts) * 10 + vb * 2 * (dist / dt) * (8 * EPS * tmax / dt)
    # Full: phase 2 pi f t evaluated in floats: relative error a few eps of a phase up to 2 pi fmax |t|
    fm = max(abs(c["fmin"]), abs(c["fmax"]))
    return vb * (1e-9 + 16 * EPS * 2 * math.pi * fm * max([abs(x) for x in ts] + [0.0])) + 1e-300


def probes(ctx, count):
    rng = ctx.rng
    lim = Limiter(ctx)
    stats = {}
    from pyrex.signals import FFTThermalNoise, FullThermalNoise
    import pyrex
    for it in range(count):
        cls = "fft" if it % 3 != 2 else "full"
        c = gen_case(rng, cls, big=True)
        if c["fmin"] >= c["fmax"] or (c["rms"] is None and (c["T"] is None or c["R"] is None)):
            continue
        t = c["times"]
        n, dt, t0 = len(t), t[1] - t[0], t[0]
        m = max(1, int(c["uf"])) * n
        tag = "%s:%s" % (cls, c["band"])
        base = {"kind": "probe", "case": c}
        try:
            obj, _ = build(c)
            vb = vbound(obj)
            ctx.case(key=("probe", cls, n, c["band"], c["uf"], c["seed"]), nontrivial=len(obj.freqs) > 0, sample=None)
            # (a) cosine-sum oracle on the sampling lattice, several periods either side
            ks = sorted(set([0, 1, n - 1, n, m - 1, m, m + 1, -1, -m, 2 * m + 3] + [rng.randint(-4 * m, 6 * m) for _ in range(40)]))
            if cls == "fft":
                lat = [t0 + k * dt for k in ks]
            else:   # the Full variant is exact at any time: an off-grid, differently spaced uniform window
                st, o0 = rng.uniform(0.3, 2.5) * dt, rng.uniform(-3, 3) * n * dt
                lat = [t0 + o0 + i * st for i in range(50)]
            got = np.asarray(obj.with_times(np.array(lat)).values)
            ora = cos_oracle(obj, cls, t0, lat)
            tol = lattice_tol(c, obj, lat)
            stats["cosine"] = stats.get("cosine", 0) + 1
            d = float(np.max(np.abs(got - ora)))
            if not d <= tol:
                i = int(np.argmax(np.abs(got - ora)))
                lim.fail("cosine", "probe:%s:cosine-sum" % tag,
                         "%s waveform is not the cosine sum of its published basis at t=t0+%s*dt: %r vs %r (|diff| %.3g > %.3g); case %s"
                         % (cls, ks[i] if cls == "fft" else "?", got[i], ora[i], d, tol, short(c)), dict(base, relation="cosine", ts=lat))
            own = np.asarray(obj.values)
            d = float(np.max(np.abs(own - cos_oracle(obj, cls, t0, t))))
            if not d <= lattice_tol(c, obj, list(t)):
                lim.fail("cosine-own", "probe:%s:cosine-sum-own-grid" % tag, "%s .values is not the cosine sum of the published basis on its own grid (|diff| %.3g); case %s"
                         % (cls, d, short(c)), dict(base, relation="cosine", ts=list(t)))
            # (b) no power outside the band: spectrum of one full period of the FFT variant
            if cls == "fft" and len(obj.freqs):
                per = np.asarray(obj.with_times(np.array([t0 + k * dt for k in range(m)])).values)
                sp = np.abs(np.fft.rfft(per)) / m
                fr = np.fft.rfftfreq(m, dt)
                outb = sp[(fr < c["fmin"]) | (fr > c["fmax"])]
                stats["band"] = stats.get("band", 0) + 1
                ptol = lattice_tol(c, obj, [t0 + m * dt])
                if len(outb) and not float(np.max(outb)) <= ptol:
                    lim.fail("band", "probe:%s:out-of-band-power" % tag, "power outside the requested band: spectral amplitude %.3g (in-band scale %.3g); case %s"
                             % (float(np.max(outb)), vb, short(c)), dict(base, relation="band"))
                # (f) unit amplitudes on interior bins: RMS over the period is the requested one
                if c["amp"] == "constant" and c["ampc"] == 1.0 and fr[1] <= c["fmin"] and (c["fmax"] < fr[-1] or m % 2 == 1) and np.all(np.asarray(obj.amps) == 1.0):
                    r = math.sqrt(float(np.mean(per * per)))
                    stats["rms"] = stats.get("rms", 0) + 1
                    if not abs(r - obj.rms) <= 1e-9 * abs(obj.rms) + 2 * ptol:
                        lim.fail("rms", "probe:%s:unit-amp-rms" % tag, "unit amplitudes give RMS %r over the period instead of the requested %r; case %s"
                                 % (r, obj.rms, short(c)), dict(base, relation="rms"))
            # (c) re-gridding: two different windows agree at their shared absolute times
            sh = rng.randint(-2 * m, 2 * m)
            w1 = [t0 + (sh + i) * dt for i in range(0, n + 5)]
            base["w1"] = w1
            k0 = rng.randint(-3, n)
            w2 = [t0 + (sh + k0 + i) * dt for i in range(0, rng.randint(4, n + 8))]
            v1 = dict(zip(w1, np.asarray(obj.with_times(np.array(w1)).values)))
            v2 = dict(zip(w2, np.asarray(obj.with_times(np.array(w2)).values)))
            shared = [x for x in w2 if x in v1]
            stats["regrid"] = stats.get("regrid", 0) + 1
            d = max([abs(v1[x] - v2[x]) for x in shared] + [0.0])
            if not d <= vb * 1e-12:
                lim.fail("regrid", "probe:%s:regrid" % tag, "re-gridding changes the value at a shared absolute time by %.3g; case %s" % (d, short(c)),
                         dict(base, relation="regrid", w1=w1, w2=w2))
            # (d) same basis => same waveform; (e) independent objects differ
            cls_ = FFTThermalNoise if cls == "fft" else FullThermalNoise
            np.random.seed(c["seed"] ^ 0x5555)
            other = cls_(np.array(t), (c["fmin"], c["fmax"]), f_amplitude=amp_spec(c["amp"], c["ampc"]), uniqueness_factor=c["uf"], rms_voltage=obj.rms)
            if len(obj.freqs) and float(np.sum(np.abs(obj.amps))) > 0 and vb > 0:
                stats["independent"] = stats.get("independent", 0) + 1
                if np.array_equal(np.asarray(other.values), own):
                    lim.fail("independent", "probe:%s:independent" % tag, "two independently drawn noise objects have identical waveforms; case %s" % short(c),
                             dict(base, relation="independent"))
            twin = cls_(np.array(t), (c["fmin"], c["fmax"]), f_amplitude=amp_spec(c["amp"], c["ampc"]), uniqueness_factor=c["uf"], rms_voltage=1.0)
            twin.freqs, twin.amps, twin.phases, twin.rms = np.array(obj.freqs), np.array(obj.amps), np.array(obj.phases), obj.rms
            stats["basis-copy"] = stats.get("basis-copy", 0) + 1
            if not np.array_equal(np.asarray(twin.values), own) or not np.array_equal(np.asarray(twin.with_times(np.array(w1)).values), np.asarray(obj.with_times(np.array(w1)).values)):
                lim.fail("basis-copy", "probe:%s:basis-copy" % tag, "copying freqs/amps/phases/rms into a second object does not reproduce the waveform; case %s" % short(c),
                         dict(base, relation="basis-copy"))
            # (d') evaluate -> assign -> evaluate: an object that has already produced values is given another
            # basis (the stored one of `obj`, or a new part of it); whatever it returns afterwards must be the
            # waveform of the basis it publishes NOW (cosine-sum oracle) and, with obj's basis, obj's waveform
            if len(obj.freqs) and vb > 0:
                stats["reassign"] = stats.get("reassign", 0) + 1
                np.asarray(other.with_times(np.array(w1)).values)       # `other` was evaluated above as well
                other.amps, other.phases = np.array(obj.amps), np.array(obj.phases)
                if cls == "full":
                    other.freqs = np.array(obj.freqs)
                for wname_, w_ in (("own grid", list(t)), ("shifted window", w1)):
                    got_ = np.asarray(other.with_times(np.array(w_)).values)
                    ref_ = np.asarray(obj.with_times(np.array(w_)).values)
                    if not float(np.max(np.abs(got_ - ref_))) <= vb * 1e-12:
                        lim.fail("reassign", "probe:%s:reassign-same-basis" % tag,
                                 "an already evaluated %s object given the amps/phases of another one does not reproduce that one's waveform on the %s "
                                 "(max diff %.3g, scale %.3g): same basis, different waveform; case %s" % (cls, wname_, float(np.max(np.abs(got_ - ref_))), vb, short(c)),
                                 dict(base, relation="reassign", donor_seed=c["seed"], ts=w_))
                        break
                new = gen_assignment(rng, c, other)
                assign(other, new)
                lat2 = lat if cls == "fft" else list(t)
                got_ = np.asarray(other.with_times(np.array(lat2)).values)
                ora_ = cos_oracle(other, cls, t0, lat2)
                tol_ = lattice_tol(c, other, lat2)
                if not float(np.max(np.abs(got_ - ora_))) <= tol_:
                    lim.fail("reassign-oracle", "probe:%s:reassign-cosine-sum" % tag,
                             "%s: after evaluate -> assign %s -> evaluate the waveform is not the cosine sum of the basis the object publishes now "
                             "(max diff %.3g > %.3g); case %s" % (cls, "+".join(sorted(new)), float(np.max(np.abs(got_ - ora_))), tol_, short(c)),
                             dict(base, relation="reassign", assign=new, ts=lat2))
            # (d'') a basis of ANOTHER length given to an evaluated object and to a fresh one: both must give the
            # cosine sum of that basis (normalised with the published number of frequencies) and hence agree
            if len(obj.freqs) and vb > 0:
                stats["rebasis"] = stats.get("rebasis", 0) + 1
                nb = gen_assignment(rng, c, other, rebasis=True)
                np.random.seed(c["seed"] ^ 0x7777)
                fresh = cls_(np.array(t), (c["fmin"], c["fmax"]), f_amplitude=amp_spec(c["amp"], c["ampc"]), uniqueness_factor=c["uf"], rms_voltage=other.rms)
                assign(other, nb)
                assign(fresh, dict(nb, rms=other.rms))
                c2 = with_band(c, other)
                lat2 = lat if cls == "fft" else list(t)
                g1 = np.asarray(other.with_times(np.array(lat2)).values)
                g2 = np.asarray(fresh.with_times(np.array(lat2)).values)
                ora_ = cos_oracle(other, cls, t0, lat2)
                tol_ = lattice_tol(c2, other, lat2)
                d1, d2 = float(np.max(np.abs(g1 - ora_))), float(np.max(np.abs(g2 - ora_)))
                if not max(d1, d2) <= tol_:
                    lim.fail("rebasis", "probe:%s:rebasis-cosine-sum" % tag,
                             "%s given a basis of %d frequencies (constructed with %d): the waveform is not the normalised cosine sum of the published basis "
                             "(evaluated-before object: diff %.3g, fresh object: diff %.3g, tolerance %.3g, scale %.3g); case %s"
                             % (cls, len(nb["amps"]), len(obj.freqs), d1, d2, tol_, vbound(other), short(c)),
                             dict(base, relation="rebasis", assign=nb, ts=lat2))
                elif not float(np.max(np.abs(g1 - g2))) <= vbound(other) * 1e-12:
                    lim.fail("rebasis", "probe:%s:rebasis-twin" % tag, "two %s objects given the same basis of another length produce different waveforms "
                             "(max diff %.3g); case %s" % (cls, float(np.max(np.abs(g1 - g2))), short(c)), dict(base, relation="rebasis", assign=nb, ts=lat2))
            # (c') re-gridding onto windows that start / end at round decimal times inside the trace (values at
            # shared absolute times, cosine oracle), plain and through Antenna.make_noise / full_waveform
            if c.get("decimal_k") and len(obj.freqs) and vb > 0:
                stats["round-windows"] = stats.get("round-windows", 0) + 1
                ta = np.array(t)
                for wname_, w_ in round_windows(rng, c).items():
                    if len(w_) < 2:
                        continue
                    wa = np.array(w_)
                    got_ = np.asarray(obj.with_times(wa).values)
                    idx = [int(np.argmin(np.abs(ta - x))) for x in wa]
                    sharedv = np.array([own[i] for i in idx])
                    ok_shared = np.isclose(ta[idx], wa, rtol=0, atol=1e-6 * dt)
                    slope_tol = lattice_tol(c, obj, w_)
                    d_sh = float(np.max(np.abs(got_ - sharedv)[ok_shared])) if np.any(ok_shared) else 0.0
                    d_or = float(np.max(np.abs(got_ - cos_oracle(obj, cls, t0, w_))))
                    if not (d_sh <= slope_tol and d_or <= slope_tol):
                        lim.fail("round-windows", "probe:%s:regrid-%s" % (tag, wname_),
                                 "%s re-gridded onto a window %s (step %r, trace starts at -%d steps) does not reproduce the trace at the shared sample times "
                                 "(diff %.3g) / the cosine sum of its basis (diff %.3g), tolerance %.3g, scale %.3g; case %s"
                                 % (cls, wname_, dt, c["decimal_k"], d_sh, d_or, slope_tol, vb, short(c)), dict(base, relation="round-windows", window=wname_, ts=w_))
                        break
                    if cls == "fft" and wname_ in ("zero-start", "round-start"):
                        ant = pyrex.Antenna(position=(0, 0, 0), freq_range=(c["fmin"], c["fmax"]), noise_rms=obj.rms, unique_noise_waveforms=max(1, int(c["uf"])))
                        np.random.seed(c["seed"])
                        a0 = np.asarray(ant.make_noise(ta).values)
                        a1 = np.asarray(ant.make_noise(wa).values)
                        a2 = np.asarray(ant.full_waveform(wa).values)
                        sv = np.array([a0[i] for i in idx])
                        dd = max(float(np.max(np.abs(a1 - sv)[ok_shared])), float(np.max(np.abs(a2 - sv)[ok_shared]))) if np.any(ok_shared) else 0.0
                        if not dd <= lattice_tol(c, ant._noise_master, w_):
                            lim.fail("round-windows-antenna", "probe:%s:antenna-regrid-%s" % (tag, wname_),
                                     "Antenna.make_noise / full_waveform on a window %s do not reproduce the master's values at the shared sample times "
                                     "(diff %.3g, scale %.3g); case %s" % (wname_, dd, vb, short(c)), dict(base, relation="round-windows", window=wname_, ts=w_))
                            break
            # (h') a stored basis restored onto an antenna / antenna system whose master has already been evaluated
            if it % 2 == 1 and cls == "fft" and len(obj.freqs) and vb > 0:
                stats["antenna-restore"] = stats.get("antenna-restore", 0) + 1
                for kind_ in ("Antenna", "AntennaSystem"):
                    kw_ = dict(position=(0, 0, 0), freq_range=(c["fmin"], c["fmax"]), noise_rms=obj.rms, unique_noise_waveforms=max(1, int(c["uf"])))
                    if kind_ == "Antenna":
                        holder = ant_ = pyrex.Antenna(**kw_)
                    else:
                        holder = pyrex.AntennaSystem(pyrex.Antenna)
                        holder.setup_antenna(**kw_)
                        ant_ = holder.antenna
                    np.random.seed(c["seed"] ^ 0x1234)
                    np.asarray(holder.make_noise(np.array(t)).values)    # creates and evaluates the master
                    master = ant_._noise_master
                    donor_amps = np.array([0.0 if f == 0 else rng.uniform(0.1, 2.0) for f in master.freqs])
                    donor_phases = np.array([rng.uniform(0, 2 * math.pi) for _ in master.freqs])
                    master.amps, master.phases = donor_amps, donor_phases
                    mt0 = float(master.times[0])
                    mdt = float(master.times[1] - master.times[0])
                    wq = [mt0 + (sh + i) * mdt for i in range(0, n + 5)]
                    got_ = np.asarray(holder.make_noise(np.array(wq)).values)
                    cm = dict(c, times=[float(x) for x in master.times])
                    ora_ = cos_oracle(master, "fft", mt0, wq)
                    tol_ = lattice_tol(cm, master, wq)
                    if not float(np.max(np.abs(got_ - ora_))) <= tol_:
                        lim.fail("antenna-restore", "probe:%s:%s-restore-basis" % (tag, kind_),
                                 "%s.make_noise after assigning amps/phases to its (already evaluated) noise master is not the cosine sum of the master's "
                                 "published basis (max diff %.3g > %.3g); case %s" % (kind_, float(np.max(np.abs(got_ - ora_))), tol_, short(c)),
                                 dict(base, relation="antenna-restore", holder=kind_, amps=list(donor_amps), phases=list(donor_phases), ts=wq))
                        break
            # (h'') traces handed out by make_noise belong to the caller: changing one in place (scale, shift, filter ...)
            # must not change the noise of the antenna - later requests still give the same values at the same
            # absolute times and the cosine sum of the master's published basis.  The FIRST result after the master
            # is created / reset is probed as well as later ones.
            if it % 2 == 0 and cls == "fft" and len(obj.freqs) and vb > 0:
                stats["antenna-inplace"] = stats.get("antenna-inplace", 0) + 1
                kind_ = rng.choice(["Antenna", "Antenna", "AntennaSystem"])
                kw_ = dict(position=(0, 0, 0), freq_range=(c["fmin"], c["fmax"]), noise_rms=obj.rms, unique_noise_waveforms=max(1, int(c["uf"])))
                if kind_ == "Antenna":
                    holder = ant_ = pyrex.Antenna(**kw_)
                else:
                    holder = pyrex.AntennaSystem(pyrex.Antenna)
                    holder.setup_antenna(**kw_)
                    ant_ = holder.antenna
                ta = np.array(t)
                script = []
                failed_ = None
                for round_ in range(2):                      # round 1: after creation, round 2: after clear(reset_noise=True)
                    np.random.seed((c["seed"] + round_) & 0x7fffffff)
                    which = rng.choice([0, 0, 1])            # modify the first result, or a later one
                    results = [holder.make_noise(ta.copy())]
                    master = ant_._noise_master
                    mtimes = np.array(master.times, dtype=float)
                    msnap = Snap(master)
                    before = np.asarray(master.with_times(ta.copy()).values).copy()
                    if which == 1:
                        results.append(holder.make_noise(ta.copy()))
                    victim = results[which]
                    op = rng.choice(["imul", "itruediv", "shift", "filter", "shift+imul"])
                    script.append((round_, which, op))
                    alias = victim is master or np.shares_memory(np.asarray(victim.times), np.asarray(master.times)) or \
                        any(getattr(victim, a_, None) is getattr(master, a_, 0) for a_ in ("_functions", "_t0s", "_buffers", "_factors", "_filters"))
                    if "imul" in op:
                        victim *= rng.uniform(2, 5)
                    if op == "itruediv":
                        victim /= rng.uniform(2, 5)
                    if "shift" in op:
                        victim.shift(rng.randint(1, max(1, n // 2)) * dt)
                    if op == "filter":
                        victim.filter_frequencies(lambda f: 0.25 * np.ones(np.shape(f)), force_real=True)
                    sft = rng.randint(-n, n)
                    wsh = [t0 + (i + sft) * dt for i in range(n)]
                    again = np.asarray(holder.make_noise(ta.copy()).values)
                    vsh = dict(zip(wsh, np.asarray(holder.make_noise(np.array(wsh)).values)))
                    d_same = float(np.max(np.abs(again - before)))
                    d_shared = max([abs(vsh[x] - y) for x, y in zip(t, before) if x in vsh] + [0.0])
                    cm = dict(c, times=[float(x) for x in mtimes])
                    d_or = float(np.max(np.abs(again - cos_oracle(msnap, "fft", float(mtimes[0]), t))))
                    moved = not np.array_equal(np.asarray(ant_._noise_master.times, dtype=float), mtimes) or ant_._noise_master is not master
                    if alias or moved or not (d_same <= vb * 1e-12 and d_shared <= vb * 1e-12 and d_or <= lattice_tol(cm, msnap, list(t))):
                        failed_ = ("%s.make_noise: after the caller changed %s returned trace in place (%s)%s, the antenna's noise is no longer the same function of "
                                   "absolute time: identical window differs by %.3g, shared times of a shifted window by %.3g, cosine sum of the master's published basis by "
                                   "%.3g (scale %.3g)%s%s" % (kind_, "the FIRST" if which == 0 else "a later", op, " after a noise reset" if round_ else "", d_same, d_shared, d_or, vb,
                                                             "; the returned trace shares state with _noise_master" if alias else "",
                                                             "; the master's times array was moved" if moved else ""))
                        break
                    ant_.clear(reset_noise=True)
                if failed_:
                    lim.fail("antenna-inplace", "probe:%s:%s-returned-trace-modified" % (tag, kind_), failed_ + "; case %s" % short(c),
                             dict(base, relation="antenna-inplace", holder=kind_, script=script))
            # (h) Antenna.make_noise: one master, with_times for every request
            if it % 4 == 0 and cls == "fft":
                ant = pyrex.Antenna(position=(0, 0, 0), freq_range=(c["fmin"], c["fmax"]), noise_rms=obj.rms, unique_noise_waveforms=max(1, int(c["uf"])))
                np.random.seed(c["seed"])
                a1 = ant.make_noise(np.array(t))
                a2 = ant.make_noise(np.array(w1))
                master = ant._noise_master
                stats["antenna"] = stats.get("antenna", 0) + 1
                va = dict(zip(w1, np.asarray(a2.values)))
                d = max([abs(va[x] - y) for x, y in zip(t, np.asarray(a1.values)) if x in va] + [0.0])
                ora = cos_oracle(master, "fft", t0, w1)
                d2 = float(np.max(np.abs(np.asarray(a2.values) - ora)))
                if not (d <= vbound(master) * 1e-12 and d2 <= lattice_tol(c, master, w1)):
                    lim.fail("antenna", "probe:%s:antenna-make_noise" % tag,
                             "Antenna.make_noise on a second window is not the master's waveform in absolute time (shared-time diff %.3g, cosine-sum diff %.3g); case %s"
                             % (d, d2, short(c)), dict(base, relation="antenna", w1=w1))
        except Exception as e:
            lim.fail("exception", "probe:%s:exception" % tag, "probe raised %s: %s; case %s" % (type(e).__name__, e, short(c)), dict(base, relation="exception"))
    ctx.oblige("probe:noise-properties", lim.count == 0, "%d probe evaluations failed" % lim.count if lim.count else "")
    ctx.extra["search"] = {"ran": True, "evaluations": count, "failed": lim.count, "relations": stats,
                           "oracle": "explicit cosine sum from the published basis (FFT: a cos(2 pi f (t-t0) - phi) on the lattice t0+k dt, k in [-4M, 6M]; "
                                     "Full: a cos(2 pi f t + phi) anywhere), numpy rfft of one period for out-of-band power, shared-time equality, basis copy"}


PINS = [("pyrex/signals.py", "FFTThermalNoise.__init__"), ("pyrex/signals.py", "FullThermalNoise.__init__"),
        ("pyrex/antenna.py", "Antenna.make_noise"), ("pyrex/signals.py", "FunctionSignal.with_times"), ("pyrex/signals.py", "FunctionSignal.values"),
        ("pyrex/signals.py", "FunctionSignal._full_times"), ("pyrex/signals.py", "FunctionSignal._value_window"),
        ("pyrex/signals.py", "FunctionSignal.set_buffers")]


def run(ctx):
    ctx.rule = ("corr: grids (N 2..512, dt 1e-10..1 decimal/dyadic, offsets), bands {inside, touching 0, below 0, above Nyquist, ending exactly at "
                "the Nyquist bin, empty above Nyquist, empty between bins, single bin, reversed}, uniqueness_factor {0, 0.5, 1..5, 2.7, 10}, amplitude "
                "{default Rayleigh, constant, vectorised function, scalar-only function}, rms {given, from T and R, both, missing}, numpy.random seeded "
                "per case and recorded; both classes; freqs/amps/phases/rms/values and with_times on own, sub, super, shifted, far and off-grid "
                "windows against the extracted model evaluated from the published basis; non-trivial = non-empty band on a valid construction; "
                "distinct by (class, N, band kind, amplitude kind, uniqueness, seed)")
    ctx.trusted += ["Coq 8.16.1 kernel; Coquelicot 3; stdlib real-number axioms", dft_extract.TRUSTED + "; Int_part -> floor",
                    "scipy.fft.irfft is the inverse real DFT of Model/NoiseModel.v (hermext + idft), np.interp(period=) is the periodic linear interpolant, "
                    "np.linspace/rfftfreq formulas: validated by the correspondence on every run, not proved",
                    "numpy.random: rayleigh/rand are opaque draws (the check reproduces them from the same seed)"]
    ctx.assumptions += ["cited, not proved: Rayleigh(sigma=1/sqrt 2) has E a^2 = 1, so default amplitudes give the requested RMS on average; "
                        "the continuous-time mean square of the Full variant's cosine sum (distinct non-zero frequencies) is rms^2 sum a^2 / n",
                        "unit_amp_rms_partial excludes the DC and Nyquist bins; exact reals; uniform time grid",
                        "FFT variant off the sampling lattice is the linear interpolant of the cosine sum (as documented by the class), not the cosine sum",
                        "uniqueness_factor is modelled after truncation to an integer (FFT variant)"]
    ctx.partial += ["unit_amp_rms_partial (DC/Nyquist bins and the Full variant's continuous-time mean square not covered)",
                    "Rayleigh second moment E a^2 = 1 (cited)"]
    ok = ctx.coq_build("C17")
    exe = dft_extract.build(ctx, "c17", EXTRACT_REQ, EXTRACT_CMD, "noise", "c17_driver.ml")
    before = len(ctx.failures)
    # a hand-modelled function was edited since the model was written: re-validate harder
    repin = bool(dft_extract.pins_changed(ctx, "C17", PINS))
    if exe:
        correspondence(ctx, exe, ctx.n(300 if repin else 100, 3000))
    failed = (not ok) or exe is None or len(ctx.failures) > before or bool(ctx.broken) or repin
    probes(ctx, ctx.n(60, 1500) if not failed else ctx.n(400, 1500))


def replay(ctx, obj):
    np.set_printoptions(precision=17)
    if obj.get("broken"):
        print("no concrete input: broken obligations", obj["broken"])
        return 1
    c = obj["case"]
    print("case:", short(c))
    try:
        o, calls = build(c)
    except Exception as e:
        print("constructor raised", type(e).__name__, e)
        return 1
    print("published freqs:", np.asarray(o.freqs)[:8], "... (%d)" % len(o.freqs))
    print("published amps :", np.asarray(o.amps)[:8])
    print("rms:", o.rms)
    ts = obj.get("ts") or obj.get("w1") or c["times"]
    if obj.get("history"):
        o, houts = run_history(c, [dict(st, ts=st.get("ts", ts)) for st in obj["history"]], obj.get("pre_eval", True))
        print("history: build, " + ("evaluate values and a sub-window, " if obj.get("pre_eval", True) else "(no evaluation yet) ") + "then "
              + "; ".join("assign %s, evaluate" % describe(st["assign"]) for st in obj["history"]))
        print("band published now:", o.f_min, o.f_max, " number of frequencies:", len(o.freqs))
        print("basis published now: amps", np.asarray(o.amps)[:6], "phases", np.asarray(o.phases)[:6], "rms", o.rms)
    elif obj.get("relation") == "reassign":
        from pyrex.signals import FFTThermalNoise, FullThermalNoise
        cls_ = FFTThermalNoise if c["cls"] == "fft" else FullThermalNoise
        np.random.seed(c["seed"] ^ 0x5555)
        other = cls_(np.array(c["times"]), (c["fmin"], c["fmax"]), f_amplitude=amp_spec(c["amp"], c["ampc"]), uniqueness_factor=c["uf"], rms_voltage=o.rms)
        np.asarray(other.values)
        np.asarray(other.with_times(np.array(c["times"][:max(2, len(c["times"]) // 2)])).values)
        other.amps, other.phases = np.array(o.amps), np.array(o.phases)
        if c["cls"] == "full":
            other.freqs = np.array(o.freqs)
        print("history: a second object is built and evaluated, then given the amps/phases of the first" +
              ("; evaluated; then assigned %s" % "+".join(sorted(obj["assign"])) if obj.get("assign") else ""))
        ref = np.asarray(o.with_times(np.array(ts)).values)
        if obj.get("assign"):
            np.asarray(other.with_times(np.array(ts)).values)
            assign(other, obj["assign"])
        else:
            print("first object's waveform on these times       :", ref[:12])
        o = other
    elif obj.get("relation") == "rebasis":
        np.asarray(o.values)
        assign(o, obj["assign"])
        print("history: evaluate, then assign %s" % describe(obj["assign"]))
    elif obj.get("relation") == "antenna-inplace":
        import pyrex
        kw_ = dict(position=(0, 0, 0), freq_range=(c["fmin"], c["fmax"]), noise_rms=o.rms, unique_noise_waveforms=max(1, int(c["uf"])))
        if obj.get("holder") == "Antenna":
            holder = ant_ = pyrex.Antenna(**kw_)
        else:
            holder = pyrex.AntennaSystem(pyrex.Antenna)
            holder.setup_antenna(**kw_)
            ant_ = holder.antenna
        ta = np.array(c["times"])
        dt_ = c["times"][1] - c["times"][0]
        rc = 0
        for round_, which, op in obj["script"]:
            np.random.seed((c["seed"] + round_) & 0x7fffffff)
            results = [holder.make_noise(ta.copy())]
            master = ant_._noise_master
            msnap, mt0 = Snap(master), float(master.times[0])
            before = np.asarray(master.with_times(ta.copy()).values).copy()
            if which == 1:
                results.append(holder.make_noise(ta.copy()))
            victim = results[which]
            print("round %d (%s): the %s make_noise result is the master object itself: %s; shares its times array: %s"
                  % (round_ + 1, "after clear(reset_noise=True)" if round_ else "after creation", "first" if which == 0 else "second", victim is master,
                     np.shares_memory(np.asarray(victim.times), np.asarray(master.times))))
            if "imul" in op:
                victim *= 3.0
            if op == "itruediv":
                victim /= 3.0
            if "shift" in op:
                victim.shift(2 * dt_)
            if op == "filter":
                victim.filter_frequencies(lambda f: 0.25 * np.ones(np.shape(f)), force_real=True)
            again = np.asarray(holder.make_noise(ta.copy()).values)
            ora_ = cos_oracle(msnap, "fft", mt0, c["times"])
            print("  in-place %s on the returned trace; make_noise over the same times before:" % op, before[:5])
            print("  ... and after                                                        :", again[:5])
            print("  cosine sum of the master's published basis                           :", ora_[:5])
            bad_ = float(np.max(np.abs(again - before))) > vbound(msnap) * 1e-12
            print("  -> %s" % ("DISAGREE" if bad_ else "AGREE"))
            rc = rc or (1 if bad_ else 0)
            ant_.clear(reset_noise=True)
        return rc
    elif obj.get("relation") == "antenna-restore":
        import pyrex
        kw_ = dict(position=(0, 0, 0), freq_range=(c["fmin"], c["fmax"]), noise_rms=o.rms, unique_noise_waveforms=max(1, int(c["uf"])))
        if obj.get("holder") == "Antenna":
            holder = ant_ = pyrex.Antenna(**kw_)
        else:
            holder = pyrex.AntennaSystem(pyrex.Antenna)
            holder.setup_antenna(**kw_)
            ant_ = holder.antenna
        np.random.seed(c["seed"] ^ 0x1234)
        np.asarray(holder.make_noise(np.array(c["times"])).values)
        m_ = ant_._noise_master
        m_.amps, m_.phases = np.array(obj["amps"]), np.array(obj["phases"])
        got_ = np.asarray(holder.make_noise(np.array(ts)).values)
        ora_ = cos_oracle(m_, "fft", float(m_.times[0]), ts)
        print("%s.make_noise after restoring a basis onto the evaluated master:" % obj.get("holder"), got_[:8])
        print("cosine sum of the master's published basis                     :", ora_[:8])
        d_ = float(np.max(np.abs(got_ - ora_)))
        tol_ = lattice_tol(dict(c, times=[float(x) for x in m_.times]), m_, ts)
        print("max diff %.3g, tolerance %.3g -> %s" % (d_, tol_, "AGREE" if d_ <= tol_ else "DISAGREE"))
        return 0 if d_ <= tol_ else 1
    impl = np.asarray(o.with_times(np.array(ts)).values)
    print("implementation with_times(ts).values:", impl[:12])
    ora = cos_oracle(o, c["cls"], c["times"][0], ts)
    print("cosine sum of the published basis    :", ora[:12])
    rc = 0
    ctx.coq_build("C17")
    exe = dft_extract.build(ctx, "c17", EXTRACT_REQ, EXTRACT_CMD, "noise", "c17_driver.ml")
    if exe:
        rs = np.random.RandomState(c["seed"])
        raw = amp_expected(c["amp"], c["ampc"], o.freqs, rs)
        outs = dft_extract.run_lines(exe, [model_lines(with_band(c, o), o.freqs, o.amps, o.phases, o.rms, ts), freq_line(c), rms_line(c),
                                           "zerodc %d %s %s" % (len(o.freqs), hexs(o.freqs), hexs(raw))])
        model = np.array(parse_floats(outs[0]))
        print("model (Coq, extracted)                :", model[:12])
        d = float(np.max(np.abs(impl - model))) if len(ts) else 0.0
        tol = value_tol(c, o, ts)
        print("max |impl-model| = %.3g, tolerance %.3g -> %s" % (d, tol, "AGREE" if d <= tol else "DISAGREE"))
        rc = 0 if d <= tol else 1
        mf = np.array(parse_floats(outs[1]))
        okf = mf.shape == np.shape(o.freqs) and bool(np.all(np.abs(mf - np.asarray(o.freqs)) <= 4 * EPS * np.abs(mf)))
        print("model freqs:", mf[:8], "-> %s" % ("AGREE" if okf else "DISAGREE"))
        mr = parse_floats(outs[2]) if outs[2].strip() != "none" else [float("nan")]
        okr = abs(mr[0] - o.rms) <= 8 * EPS * abs(mr[0])
        print("model rms  :", mr[0], "-> %s" % ("AGREE" if okr else "DISAGREE"))
        ma = np.array(parse_floats(outs[3]))
        oka = ma.shape == np.shape(o.amps) and np.array_equal(ma, np.asarray(o.amps, dtype=float))
        print("model amps :", ma[:8], "-> %s" % ("AGREE" if oka else "DISAGREE"))
        rayleigh_ok = c["amp"] != "rayleigh" or [x[1] for x in calls if x[0] == "rayleigh"] == [1 / np.sqrt(2)]
        print("numpy.random calls:", calls, "" if rayleigh_ok else "-> default amplitudes are not Rayleigh(1/sqrt 2)")
        mutated = bool(obj.get("history") or obj.get("relation") in ("reassign", "rebasis"))   # the basis was re-assigned on purpose
        rc = rc or (0 if (mutated or (okf and okr and oka and rayleigh_ok)) else 1)
    if obj.get("relation") in ("antenna", "exception") and c["cls"] == "fft":
        import pyrex
        try:
            ant = pyrex.Antenna(position=(0, 0, 0), freq_range=(c["fmin"], c["fmax"]), noise_rms=o.rms, unique_noise_waveforms=max(1, int(c["uf"])))
            np.random.seed(c["seed"])
            a1 = ant.make_noise(np.array(c["times"]))
            w1 = obj.get("w1") or c["times"]
            a2 = ant.make_noise(np.array(w1))
            va = dict(zip(w1, np.asarray(a2.values)))
            dd = max([abs(va[x] - y) for x, y in zip(c["times"], np.asarray(a1.values)) if x in va] + [0.0])
            print("Antenna.make_noise: max difference at shared absolute times between two requests: %.3g; master kept: %s" % (dd, ant._noise_master is not None))
            rc = rc or (1 if dd > vbound(o) * 1e-12 or ant._noise_master is None else 0)
        except Exception as e:
            print("Antenna.make_noise scenario raised", type(e).__name__, e)
            rc = 1
    if obj.get("kind") == "probe":
        print("relation:", obj.get("relation"), "(re-evaluated by the full check)")
        d = float(np.max(np.abs(impl - ora))) if len(ts) else 0.0
        print("max |impl - cosine sum| on these times = %.3g" % d)
        rc = rc or (1 if d > vbound(o) * 1e-6 else 0)
    return rc
