(* C19: Detector composition visits every antenna once; triggers and clears as the union.
   Statements only (proofs: Proofs/C19_proofs.v) about Model/DetectorModel.v, the model of
   pyrex/detector.py + internal_functions.flatten as written.  All theorems quantify over
   ALL detector trees (any nesting depth/shape of Detector subclasses, CombinedDetector,
   plain antennas, antenna lists), all class tables, hit patterns and keyword lists. *)
From Coq Require Import List ZArith Bool.
From PyrexModel Require Import DetectorModel.
From PyrexProofs Require Import C19_proofs.
Import ListNotations.
Open Scope Z_scope.

(* In every dispatch case of Python's a + b (Detector.__add__/__radd__,
   CombinedDetector.__add__/__radd__) the flattened content of the result is the
   concatenation of the operands' flattened contents. *)
Theorem flatten_add : forall ct oid a b t,
  py_add ct oid a b = Ok t -> flatten t = flatten a ++ flatten b.
Proof. exact flatten_add_lemma. Qed.
Print Assumptions flatten_add.

(* the individual special methods, including the in-place += which keeps the object *)
Theorem flatten_add_methods : forall ct oid self other t,
  (det_add ct oid self other = Ok t -> flatten t = flatten self ++ flatten other) /\
  (det_radd ct oid self other = Ok t -> flatten t = flatten other ++ flatten self) /\
  (is_node self = true -> comb_add ct oid self other = Ok t -> flatten t = flatten self ++ flatten other) /\
  (is_node self = true -> comb_radd ct oid self other = Ok t -> flatten t = flatten other ++ flatten self) /\
  (comb_iadd ct self other = Ok t -> flatten t = flatten self ++ flatten other).
Proof.
  intros. repeat split.
  - apply det_add_flat. - apply det_radd_flat. - apply comb_add_flat. - apply comb_radd_flat. - apply comb_iadd_flat.
Qed.
Print Assumptions flatten_add_methods.

Theorem iadd_same_object : forall ct o m p subs other t,
  comb_iadd ct (Node o KComb m p subs) other = Ok t -> exists m' subs', t = Node o KComb m' p subs'.
Proof. exact comb_iadd_same_object. Qed.
Print Assumptions iadd_same_object.

(* associativity in the flattened content, for every way the two bracketings succeed *)
Theorem add_assoc_flat : forall ct o1 o2 o3 o4 a b c ab abc bc abc',
  py_add ct o1 a b = Ok ab -> py_add ct o2 ab c = Ok abc ->
  py_add ct o3 b c = Ok bc -> py_add ct o4 a bc = Ok abc' ->
  flatten abc = flatten abc'.
Proof. exact add_assoc_flat_lemma. Qed.
Print Assumptions add_assoc_flat.

(* sum([d1; ...; dn]) has the concatenated content; sum of one detector is that detector *)
Theorem sum_flat : forall ct oid l t oid',
  py_sum ct oid l = (Ok t, oid') -> flatten t = flat_map flatten l.
Proof. exact sum_flat_lemma. Qed.
Print Assumptions sum_flat.

(* iteration, len() and indexing (negative indices, IndexError outside) agree on the
   flattened list *)
Theorem iter_len_getitem_agree : forall t,
  det_len t = Z.of_nat (length (flatten t)) /\
  (forall i a, nth_error (flatten t) i = Some a ->
     det_getitem t (Z.of_nat i) = Ok a /\ det_getitem t (Z.of_nat i - det_len t) = Ok a) /\
  (forall k, k >= det_len t \/ k < - det_len t -> det_getitem t k = Err EIndex).
Proof. exact iter_len_getitem_agree_lemma. Qed.
Print Assumptions iter_len_getitem_agree.

(* exactly once: distinct antennas stay distinct (and in order) under addition, and in
   general the multiplicity of every antenna adds up *)
Theorem each_antenna_once : forall ct oid a b t,
  py_add ct oid a b = Ok t ->
  NoDup (ids a) -> NoDup (ids b) -> (forall i, In i (ids a) -> ~ In i (ids b)) ->
  NoDup (ids t) /\ ids t = ids a ++ ids b.
Proof. exact each_antenna_once_lemma. Qed.
Print Assumptions each_antenna_once.

Theorem antenna_multiplicity_adds : forall ct oid a b t x (eq_dec : forall u v : ant, {u = v} + {u <> v}),
  py_add ct oid a b = Ok t ->
  count_occ eq_dec (flatten t) x = (count_occ eq_dec (flatten a) x + count_occ eq_dec (flatten b) x)%nat.
Proof. intros ct oid a b t x eq_dec H. exact (count_add ct oid a b t x eq_dec H). Qed.
Print Assumptions antenna_multiplicity_adds.

(* default trigger (Detector.triggered and CombinedDetector.triggered over objects that
   inherit it), any keyword list: never an error, and true exactly when some antenna of the
   flattened detector is hit -- by Monte-Carlo truth when require_mc_truth is set *)
Theorem triggered_iff_exists_hit : forall ct h t kw,
  default_trigs ct t -> is_node t = true ->
  exists b, triggered ct h t [] kw = (Ok b, []) /\
            (b = true <-> exists a, In a (flatten t) /\ ant_hit h (mc_of kw) a = true).
Proof. exact triggered_iff_exists_hit_lemma. Qed.
Print Assumptions triggered_iff_exists_hit.

(* clear: every antenna of the flattened detector is cleared (once each, in order, with the
   given reset_noise), no other antenna is touched, and the detector no longer triggers *)
Theorem clear_clears_all : forall h t,
  (forall a, In a (flatten t) -> hit_lookup (clear_hits h t) (a_id a) = (false, false)) /\
  (forall x, ~ In x (ids t) -> hit_lookup (clear_hits h t) x = hit_lookup h x) /\
  (forall r, clear_log t r = map (fun a => LClear (a_id a) r) (flatten t)).
Proof. exact clear_clears_all_lemma. Qed.
Print Assumptions clear_clears_all.

Theorem cleared_detector_not_triggered : forall h t mc, any_hit (clear_hits h t) mc t = false.
Proof. exact cleared_not_triggered. Qed.
Print Assumptions cleared_detector_not_triggered.

(* build_antennas keyword routing between differing subsets: a subset receives exactly the
   caller's keywords its signature accepts, in the caller's order *)
Theorem kwargs_reach_accepting_build : forall s kw,
  route_build s kw = filter (fun kv => accepts_kw s (fst kv)) kw /\
  (forall kv, In kv (route_build s kw) <-> In kv kw /\ accepts_kw s (fst kv) = true).
Proof. intros. split; [apply route_build_spec | intros; apply route_build_in]. Qed.
Print Assumptions kwargs_reach_accepting_build.

(* triggered keyword routing: the remove-one-offending-keyword-and-retry loop of
   CombinedDetector.triggered ends by running the subset's trigger with exactly the
   accepted keywords (for every callee that rejects unexpected keywords the way a Python
   def does) *)
Theorem kwargs_reach_accepting_trigger : forall (A : Type) acc (body : kwargs -> res A * list logent),
  (forall kw b, fst (body kw) <> Err (EKw b)) ->
  forall fuel kw, (length kw < fuel)%nat ->
  removal_loop (rejecting_call acc body) fuel kw = body (filter (fun kv => acc (fst kv)) kw).
Proof. exact @removal_loop_spec. Qed.
Print Assumptions kwargs_reach_accepting_trigger.

(* ... and the binding of a def with named parameters is such a callee *)
Theorem python_binding_rejects_first_unexpected : forall ps vk (kw : kwargs),
  check_kw ps vk 0 kw =
  match find (fun kv => negb (vk || match index_of (fst kv) ps 0 with Some _ => true | None => false end)) kw with
  | Some kv => Some (EKw (fst kv))
  | None => None
  end.
Proof. exact check_kw_find. Qed.
Print Assumptions python_binding_rejects_first_unexpected.

(* position test (all test_antenna_positions flags on): passes exactly when no antenna
   position is above the surface; for built detectors these are the iterated antennas *)
Theorem positions_rejected_iff_above : forall ct t,
  all_flags ct t ->
  (test_positions ct t = true <-> forall a, In a (all_positions t) -> a_z a <= 0).
Proof. exact positions_rejected_lemma. Qed.
Print Assumptions positions_rejected_iff_above.

Theorem positions_rejected_iff_above_built : forall ct t,
  all_flags ct t -> built t ->
  (test_positions ct t = true <-> forall a, In a (flatten t) -> a_z a <= 0).
Proof. exact positions_rejected_built_lemma. Qed.
Print Assumptions positions_rejected_iff_above_built.

(* the constructors run the test: ValueError exactly for a position above the ice *)
Theorem new_detector_rejects_above : forall ct oid c pos,
  c_flag (ct c) = true ->
  (new_base ct oid c pos = Err EValue <-> exists a, In a pos /\ a_z a > 0).
Proof. exact new_base_rejects. Qed.
Print Assumptions new_detector_rejects_above.

Theorem combined_detector_tested : forall ct oid subs,
  (exists t, mkcomb ct oid subs = Ok t /\ test_positions ct t = true) \/
  (mkcomb ct oid subs = Err EValue /\
   test_positions ct (Node oid KComb (mirror_sig ct KComb subs) [] subs) = false).
Proof. exact mkcomb_rejects. Qed.
Print Assumptions combined_detector_tested.

(* construction order: after build_antennas on a base detector the iterated antennas are
   exactly the ones constructed, one per antenna position, in that order *)
Theorem built_antennas_in_construction_order : forall ct o c m pos subs args kw t' lg,
  is_base subs = true ->
  build ct (Node o (KDet c) m pos subs) args kw = (t', None, lg) ->
  flatten t' = pos /\
  flat_map (fun x => match x with LAnt a _ _ _ => [a] | _ => [] end) lg = map a_id pos.
Proof. exact build_base_order. Qed.
Print Assumptions built_antennas_in_construction_order.

(* construction order for ARBITRARY trees (build_antennas recursing through the subsets as written,
   any args / kwargs / class table): after a successful build the iterated antennas are the antenna
   positions of the tree in subset order, and the antennas constructed are, in construction order, the
   positions held by the base detectors *)
Theorem build_order_any_tree : forall ct t args kw t' lg,
  build ct t args kw = (t', None, lg) ->
  flatten t' = tree_positions t /\ built_ids lg = map a_id (constructed_positions t).
Proof. exact build_order_lemma. Qed.
Print Assumptions build_order_any_tree.

(* ... so when every antenna sits in a detector (no loose antennas / antenna lists among the subsets),
   iterating the built detector visits exactly the antennas constructed, once each, in construction order *)
Theorem build_iterates_constructed_antennas : forall ct t args kw t' lg,
  no_loose t -> build ct t args kw = (t', None, lg) -> map a_id (flatten t') = built_ids lg.
Proof. exact build_iterates_constructed. Qed.
Print Assumptions build_iterates_constructed_antennas.
