"""Shared machinery of the C11 / C12 checks (HDF5 writer / readers / FileGenerator).

A *case* is JSON: {"files": [filecase, ...], "queries": [...]}
  filecase = {"det": d, "opts": {...}, "sessions": [[add, ...], ...]}
  add      = {"parts": [tag...], "trig": T, "waves": [[tag...] per antenna],
              "rays": None | [[tag...] per entry], "pols": "ok"|"none"|"outer"|["inner", i]|["vec", i, j],
              "noise": [tag per antenna], "thrown": int, "fault": None|"meta"|"noise"|"wave"}
  T        = None | true | false | "bad" | {"g": null|true|false, "x": [[name, bool | [bool...]], ...]}
Tags are integers >= 1 embedded in the stored data (particle energy, waveform values[0],
ray metadata 'tag', noise amplitude[0]); 0 stands for a zero-filled (missing) cell, so
every comparison is exact.

run_impl(case, scratch) drives the real pyrex.File writer / reader / FileGenerator on real
h5py files; model_expr(case) is the Coq term evaluating the executable model
(coq/Model/IOModel.v) on the same case; both sides are brought to one canonical
nested-list form and compared for equality.
"""
import json
import os
import re
import shutil
import traceback

import numpy as np

OKEYS = ["particles", "triggers", "antenna_triggers", "waveforms", "rays", "noise"]
OKEY_COQ = {"particles": "OP", "triggers": "OT", "antenna_triggers": "OA",
            "waveforms": "OW", "rays": "OR", "noise": "ON"}
TABLES = ["P", "T", "M", "R", "N", "W"]          # order of every per-table tuple
LOC = {"P": "/monte_carlo_data/particles", "T": "/data/triggers", "M": "/monte_carlo_data/triggers",
       "R": "/monte_carlo_data/rays", "N": "/monte_carlo_data/noise", "W": "/data/waveforms"}
LOC_INV = {v: k for k, v in LOC.items()}
CKEY = {"P": "particles_meta", "T": "triggers", "M": "mc_triggers", "R": "rays_meta", "N": "noise", "W": "waveforms"}
RKEY = {"P": "particles_meta", "T": "triggers", "M": "mc_triggers", "R": "rays_meta", "N": "noise", "W": "waveforms"}
CUSTOM = ["k0", "k1", "k2"]
HASH_P = (1 << 61) - 1
HASH_B = 1000003


def name_bit(name):
    if name.startswith("antenna_"):
        return int(name.split("_")[1])
    return 4 + CUSTOM.index(name)


# --------------------------------------------------------------------------- stubs
def _pyrex():
    import pyrex
    import pyrex.io
    import pyrex.generation
    return pyrex


class _Noise:
    """Noise master stub.  The basis of tag t has 2..5 components: amplitude[0] = t (the tag), an
    exactly-zero amplitude, repeated equal amplitudes, negative and zero phases; tag 0 = a master
    with an EMPTY basis (as opposed to no master at all, which also reads back empty)."""
    def __init__(self, tag):
        n = (2 + tag % 4) if tag else 0
        self.freqs = np.arange(n, dtype=float) + 1.0
        self.amps = np.array(([float(tag), 0.0, 0.5, 0.5, 0.0])[:n])
        self.phases = np.array(([-0.25, 0.0, -1.5, 0.75, -0.0])[:n])


class _BadWave:
    """A waveform object lacking .values (malformed detector state)."""
    times = np.array([0.0, 1.0])


def make_antenna_class():
    pyrex = _pyrex()

    class StubAntenna(pyrex.Antenna):
        """Real pyrex.Antenna (real _metadata) with scripted waveforms / trigger / noise."""
        def __init__(self, i):
            super().__init__(position=(float(i), 2.0 * i, -100.0 - i), noisy=False)
            self._waves = []

        @property
        def all_waveforms(self):
            return self._waves

        def trigger(self, signal):
            return bool(int(signal.values[0]) % 2 == 1)
    return StubAntenna


def wave_signal(tag):
    pyrex = _pyrex()
    n = 2 + tag % 3
    return pyrex.Signal(np.arange(n, dtype=float), np.array([float(tag)] + [0.25 * k for k in range(1, n)]))


class _Ray:
    def __init__(self, tag):
        self.tag = tag

    @property
    def _metadata(self):
        return {"tag": float(self.tag), "name": "ray%d" % self.tag, "tof": 0.5 * self.tag, "path_length": 3.0 * self.tag}


DIRS = [(1, 0, 0), (0, 1, 0), (0, 0, 1), (-1, 0, 0), (0, -1, 0), (0, 0, -1)]
PIDS = [12, -12, 14, -14, 16, -16]


def make_particle(tag, bad_meta=False):
    pyrex = _pyrex()
    state = np.random.get_state()
    np.random.seed(tag)
    try:
        p = pyrex.Particle(particle_id=PIDS[tag % 6], vertex=(float(tag), 2.0 * tag, -float(tag) - 0.5),
                           direction=DIRS[tag % 6], energy=float(tag),
                           interaction_type=("cc" if tag % 2 else "nc"))
    finally:
        np.random.set_state(state)
    # weights from {0.0, denormal-tiny, 0.125, 1.0, None (stored as 1)}: all 25 combinations over tags
    p.survival_weight = [0.125, 0.0, 1.0, None, 5e-324][tag % 5]
    p.interaction_weight = [1.0, 0.125, None, 0.0, 2.5e-310][(tag // 5) % 5]
    if bad_meta:
        p.energy = [[1.0, 2.0]]      # neither string nor scalar: _write_metadata raises ValueError
    return p


def trig_arg(t):
    if t is None or isinstance(t, bool):
        return t
    if t == "bad":
        return 1
    d = {}
    if t.get("g") is not None:
        d["global"] = bool(t["g"])
    for name, val in t.get("x", []):
        d[name] = bool(val) if isinstance(val, bool) else [bool(v) for v in val]
    return d


def build_add(add, det):
    """Python arguments of HDF5Writer.add for one add spec; sets the detector's waveforms/noise."""
    pyrex = _pyrex()
    fault = add.get("fault")
    parts = [make_particle(t, bad_meta=(fault == "meta" and k == len(add["parts"]) - 1))
             for k, t in enumerate(add["parts"])]
    parents = add.get("parents")
    if parents:
        # event tree: roots first, then every child attached to an earlier particle, in list order
        # (Event iterates roots, then children in the order they were added)
        event = pyrex.Event([p for p, q in zip(parts, parents) if q < 0])
        for p, q in zip(parts, parents):
            if q >= 0:
                event.add_children(parts[q], [p])
    else:
        event = pyrex.Event(parts)
    for i, ant in enumerate(det):
        ant._waves = [wave_signal(t) for t in add["waves"][i]]
        tag = add["noise"][i]
        # tag 0: no noise master (even antennas) or a master with an empty basis (odd antennas)
        ant._noise_master = _Noise(tag) if (tag or i % 2) else None
    if fault == "wave":
        det[-1]._waves = list(det[-1]._waves) + [_BadWave()]
    if fault == "noise":
        del det[-1]._noise_master
    kwargs = {"triggered": trig_arg(add["trig"]), "events_thrown": add.get("thrown", 1)}
    rays = add.get("rays")
    pols = add.get("pols", "ok")
    if rays is not None:
        kwargs["ray_paths"] = [[_Ray(t) for t in lst] for lst in rays]
        if pols != "none":
            P = [[np.array([float(t), 0.5 * t, -float(t)]) for t in lst] for lst in rays]
            if pols == "outer":
                P = P + [[]]
            elif isinstance(pols, list) and pols[0] == "inner":
                i = pols[1]
                if 0 <= i < len(P):
                    P[i] = P[i] + [np.array([1.0, 1.0, 1.0])]
            elif isinstance(pols, list) and pols[0] == "vec":
                i, j = pols[1], pols[2]
                if 0 <= i < len(P) and 0 <= j < len(P[i]):
                    P[i][j] = P[i][j][:2]
            kwargs["polarizations"] = P
    return event, kwargs, parts


def restore_detector(det):
    for ant in det:
        if not hasattr(ant, "_noise_master"):
            ant._noise_master = None


def writer_kwargs(opts):
    kw = {"write_" + k: bool(opts["write_" + k]) for k in OKEYS}
    kw["require_trigger"] = opts["require_trigger"]
    return kw


def write_file(fc, path):
    """Run the add sessions of one filecase on the real writer.
    Returns {"outcomes": [...], "counters": [per session end], "ctor": None|exc name}."""
    pyrex = _pyrex()
    Stub = make_antenna_class()
    det = [Stub(i) for i in range(fc["det"])]
    outcomes, counters = [], []
    if os.path.exists(path):
        os.remove(path)
    for s, session in enumerate(fc["sessions"]):
        try:
            w = pyrex.File(path, "a" if s else "w", **writer_kwargs(fc["opts"]))
        except Exception as e:
            return {"ctor": type(e).__name__, "outcomes": [], "counters": []}
        w.open()
        try:
            if not fc.get("nodet"):
                w.set_detector(det)
            for add in session:
                event, kwargs, _ = build_add(add, det)
                try:
                    w.add(event, **kwargs)
                    outcomes.append("ok")
                except Exception as e:
                    outcomes.append(type(e).__name__)
                restore_detector(det)
            counters.append([int(w._counters[CKEY[t]]) for t in TABLES] + [int(w._counters["indices"])])
        finally:
            w.close()
    out = {"ctor": None, "outcomes": outcomes, "counters": counters}
    if fc.get("analysis"):
        exp, plan = write_analysis(fc["analysis"], path)
        fc["_aplan"] = plan          # derived deterministically from the spec and the number of events
        if exp is not None:
            out["analysis_expected"] = exp
    return out


ANALYSIS_NAME = "reco"


def analysis_plan(spec, n):
    """Deterministic post-processing plan for a file of n events: an analysis dataset with rows for
    an arbitrary subset of the events, blocks stored in arbitrary order (with unreferenced filler
    rows in between), index entries written in arbitrary order.  Returns (rows, entries)"""
    import random
    r = random.Random(spec["seed"])
    chosen = [i for i in range(n) if r.random() < spec.get("p", 0.5)]
    r.shuffle(chosen)
    rows, entries = [], []
    for i in chosen:
        if r.random() < 0.3:
            rows.append([-1.0, -1.0])                 # a row no event refers to
        ln = r.choice([0, 1, 1, 2, 3])
        entries.append([i, len(rows), ln])
        rows += [[float(1000 * (i + 1) + j), float(j)] for j in range(ln)]
    r.shuffle(entries)
    return rows, entries


def write_analysis(spec, path):
    """mode='a' pass the documented way: create_analysis_dataset + add_analysis_indices for the
    selected events only.  Returns the per-event expected rows (from the plan, not from the file)."""
    import h5py
    pyrex = _pyrex()
    with h5py.File(path, "r") as f:
        n = int(f["/event_indices"].shape[0])
    rows, entries = analysis_plan(spec, n)
    with pyrex.File(path, "a") as w:
        ds = w.create_analysis_dataset(ANALYSIS_NAME, shape=(len(rows), 2), dtype="f8")
        if rows:
            ds[...] = np.array(rows)
        for ev, start, ln in entries:
            w.add_analysis_indices(ANALYSIS_NAME, ev, start, ln)
    plan = {"rows": [[int(x) for x in row] for row in rows], "entries": entries}
    if not entries:
        return None, plan      # no event refers to the dataset: it is not event-indexed at all
    expected = [[] for _ in range(n)]
    for ev, start, ln in entries:
        expected[ev] = [[int(x) for x in row] for row in rows[start:start + ln]]
    return expected, plan


def ana_tobs(a):
    return "NA" if a is None else a


def observe_analysis(ev):
    """Rows of the analysis dataset for the event (None when the file has none)."""
    if ANALYSIS_NAME not in ev._locations_original:
        return None
    try:
        a = ev.get_data(ANALYSIS_NAME)
        return [[int(x) for x in row] for row in np.asarray(a).reshape(-1, 2)] if len(a) else []
    except Exception as e:
        return "CRASH:" + type(e).__name__


# ------------------------------------------------------------------- raw file view
def raw_view(path):
    """Index table, column order, rows per table, total_thrown read with bare h5py."""
    import h5py
    out = {}
    with h5py.File(path, "r") as f:
        idx = f["/event_indices"]
        keys = [k if isinstance(k, str) else k.decode() for k in idx.attrs["keys"]]
        allcols = [LOC_INV.get(k, k) for k in keys]
        out["cols"] = [c for c in allcols if c in TABLES]
        arr = idx[...] if idx.shape[0] and idx.shape[1] else np.zeros((idx.shape[0], idx.shape[1], 2), dtype=int)
        rows = []
        for r in range(idx.shape[0]):
            row = []
            for t in TABLES:
                if t in allcols:
                    c = allcols.index(t)
                    row.append([int(arr[r, c, 0]), int(arr[r, c, 1])])
                else:
                    row.append([0, 0])
            rows.append(row)
        out["index"] = rows
        shapes, exists = [], []
        for t in TABLES:
            loc = LOC[t]
            if loc in f:
                exists.append(True)
                ds = f[loc]["float"] if t in ("P", "R") else f[loc]
                ds2 = f[loc]["str"] if t in ("P", "R") else f[loc]
                shapes.append(max(int(ds.shape[0]), int(ds2.shape[0])))
            else:
                exists.append(False)
                shapes.append(0)
        out["nrows"] = shapes
        out["exists"] = exists
        thrown = 0
        if LOC["P"] in f and "total_thrown" in f[LOC["P"]].attrs:
            thrown = int(f[LOC["P"]].attrs["total_thrown"])
        out["thrown"] = thrown
    return out


# ------------------------------------------------------------------ event observation
def _na(e):
    return isinstance(e, ValueError) and "not saved" in str(e)


def _vl_tag(a):
    a = np.asarray(a)
    return int(a[0]) if a.size else 0


def observe_event(ev, reg=None, deep=True):
    """Canonical observation of one event through the public accessors:
    list over TABLES of "NA" | "CRASH:<exc>" | list of rows (each a list of ints).
    With deep=True every other accessor / field is cross-checked against the registry of
    what was handed to the writer; an inconsistency yields a "BAD:..." entry."""
    out = []
    # P
    try:
        info = ev.get_particle_info()
        rows = [[int(p["energy"])] for p in info]
        if deep:
            bad = _check_particles(ev, info, rows, reg)
            if bad:
                rows = "BAD:" + bad
        out.append(rows)
    except Exception as e:
        out.append("NA" if _na(e) else "CRASH:" + type(e).__name__)
    # T
    try:
        t = ev.triggered
        out.append([] if t is None else [[int(bool(t))]])
    except Exception as e:
        out.append("NA" if _na(e) else "CRASH:" + type(e).__name__)
    # M
    try:
        if not ev._bool_dict["mc_triggers"]:
            raise ValueError("Monte Carlo trigger data was not saved in this file")
        data = ev.get_data("mc_triggers")
        keys = ev._keys["mc_triggers"]
        rows = []
        for r in range(len(data)):
            rows.append([sum(1 << name_bit(k) for k, c in keys.items() if data[r][c])])
        if deep:
            allnames = sorted(ev.get_triggered_components())
            want = sorted(k for k, c in keys.items() if any(data[r][c] for r in range(len(data))))
            if allnames != want:
                rows = "BAD:get_triggered_components()=%s rows say %s" % (allnames, want)
            else:
                for r in list(range(len(data) + 2)) + ["direct", "reflected"]:
                    rr = r
                    if isinstance(r, str):
                        r = ["direct", "reflected"].index(r)
                    got = sorted(ev.get_triggered_components(ray=rr))
                    want = sorted(k for k, c in keys.items() if r < len(data) and data[r][c])
                    if got != want:
                        rows = "BAD:get_triggered_components(ray=%r)=%s row says %s" % (rr, got, want)
                        break
        out.append(rows)
    except Exception as e:
        out.append("NA" if _na(e) else "CRASH:" + type(e).__name__)
    # R
    try:
        info = ev.get_rays_info()
        rows = []
        bad = ""
        for r, per_ant in enumerate(info):
            row = []
            for a, d in enumerate(per_ant):
                tag = int(d["tag"])
                row.append(tag)
                if deep:
                    want_name = ("ray%d" % tag) if tag else ""
                    if (d["name"] != want_name or d["tof"] != 0.5 * tag or d["path_length"] != 3.0 * tag or
                            d["polarization_x"] != float(tag) or d["polarization_y"] != 0.5 * tag or
                            d["polarization_z"] != -float(tag)):
                        bad = "ray %d antenna %d fields inconsistent with tag %d: %r" % (r, a, tag, d)
            rows.append(row)
        if deep and not bad and len(info):
            pol = ev.get_rays_info("polarization")
            tg = ev.get_rays_info("tag")
            nm = ev.get_rays_info("name")
            for r, row in enumerate(rows):
                for a, tag in enumerate(row):
                    if (int(tg[r][a]) != tag or list(pol[r][a]) != [float(tag), 0.5 * tag, -float(tag)]
                            or nm[r][a] != (("ray%d" % tag) if tag else "")):
                        bad = "get_rays_info(attribute) differs from dict form at ray %d antenna %d" % (r, a)
        out.append("BAD:" + bad if bad else rows)
    except Exception as e:
        out.append("NA" if _na(e) else "CRASH:" + type(e).__name__)
    # N
    try:
        nb = ev.noise_bases
        if len(nb) == 0:
            out.append([])
        else:
            row, bad = [], ""
            for a in range(len(nb)):
                tag = _vl_tag(nb[a][1])
                row.append(tag)
                if deep:
                    ref = _Noise(tag) if tag else None
                    ok = (all(len(nb[a][k]) == 0 for k in range(3)) if ref is None else
                          (np.array_equal(nb[a][0], ref.freqs) and np.array_equal(nb[a][1], ref.amps)
                           and np.array_equal(nb[a][2], ref.phases)))
                    if not ok:
                        bad = ("noise basis of antenna %d (tag %d) reads freqs/amps/phases %s, the antenna published %s"
                               % (a, tag, [list(map(float, nb[a][k])) for k in range(3)],
                                  [] if ref is None else [list(ref.freqs), list(ref.amps), list(ref.phases)]))
            out.append("BAD:" + bad if bad else [row])
    except Exception as e:
        out.append("NA" if _na(e) else "CRASH:" + type(e).__name__)
    # W
    try:
        wf = ev.get_waveforms()
        rows, bad = [], ""
        for r in range(len(wf)):
            row = []
            for a in range(len(wf[r])):
                tag = _vl_tag(wf[r][a][1])
                row.append(tag)
                if deep:
                    if tag:
                        ref = wave_signal(tag)
                        ok = np.array_equal(wf[r][a][0], ref.times) and np.array_equal(wf[r][a][1], ref.values)
                    else:
                        ok = len(wf[r][a][0]) == 0 and len(wf[r][a][1]) == 0
                    if not ok:
                        bad = "waveform %d antenna %d inconsistent with tag %d" % (r, a, tag)
            rows.append(row)
        if deep and not bad:
            for r in range(len(wf)):
                one = ev.get_waveforms(waveform_type=r)
                if [_vl_tag(one[a][1]) for a in range(len(one))] != rows[r]:
                    bad = "get_waveforms(waveform_type=%d) differs" % r
                if r < 2:
                    one = ev.get_waveforms(waveform_type=["direct", "Reflected"][r])
                    if [_vl_tag(one[a][1]) for a in range(len(one))] != rows[r]:
                        bad = "get_waveforms(waveform_type=%r) differs" % ["direct", "Reflected"][r]
            # one and two past the event's last waveform: nothing, never another event's rows
            for r in (len(wf), len(wf) + 1):
                forms = [r] + ([["direct", "reflected"][r]] if r < 2 else [])
                for form in forms:
                    for ant in [None] + list(range(len(wf[0]) if len(wf) else 0)):
                        past = ev.get_waveforms(antenna_id=ant, waveform_type=form)
                        if len(past) != 0:
                            bad = "get_waveforms(antenna_id=%r, waveform_type=%r) returns data beyond the event's %d waveforms" % (ant, form, len(wf))
            for a in range(len(wf[0]) if len(wf) else 0):
                col = ev.get_waveforms(antenna_id=a)
                if [_vl_tag(col[r][1]) for r in range(len(col))] != [row[a] for row in rows]:
                    bad = "get_waveforms(antenna_id=%d) differs" % a
        out.append("BAD:" + bad if bad else rows)
    except Exception as e:
        out.append("NA" if _na(e) else "CRASH:" + type(e).__name__)
    return out


def _check_particles(ev, info, rows, reg):
    for k, p in enumerate(info):
        tag = rows[k][0]
        ref = make_particle(tag)._metadata if tag >= 1 else None
        if ref is None:
            return "particle %d has tag %d" % (k, tag)
        for key, val in ref.items():
            if key not in p:
                return "particle key %s missing" % key
            got = p[key]
            if isinstance(val, str):
                if got != val:
                    return "particle tag %d key %s: %r != %r" % (tag, key, got, val)
            elif float(got) != float(val):
                return "particle tag %d key %s: %r != %r" % (tag, key, got, val)
    if len(info):
        en = ev.get_particle_info("energy")
        vx = ev.get_particle_info("vertex")
        dr = ev.get_particle_info("direction")
        nm = ev.get_particle_info("particle_name")
        ii = ev.get_particle_info("interaction_info")
        for k, p in enumerate(info):
            if (float(en[k]) != p["energy"] or list(vx[k]) != [p["vertex_x"], p["vertex_y"], p["vertex_z"]] or
                    list(dr[k]) != [p["direction_x"], p["direction_y"], p["direction_z"]] or
                    nm[k] != p["particle_name"] or ii["interaction_kind"][k] != p["interaction_kind"]
                    or ii["interaction_name"][k] != p["interaction_name"]):
                return "attribute accessors differ from dict form for particle %d" % k
        first = info[0]["particle_name"]
        if ev.is_neutrino != ("neutrino" in first):
            return "is_neutrino"
        if ev.flavor != (first.split("_")[0] if "neutrino" in first else ""):
            return "flavor"
        if ev.is_nubar != (info[0]["particle_id"] < 0):
            return "is_nubar"
    return ""


def observe_light(ev):
    """Cheap observation (raw per-event chunk data) used for the access-path sweeps."""
    return observe_event(ev, deep=False)


def flatten_obs(obs):
    out = []
    for t in obs:
        if t == "NA":
            out.append(-1)
        elif isinstance(t, str):
            out.append(-2)
        else:
            out.append(len(t))
            for row in t:
                out.append(len(row))
                out.extend(row)
    return out


def fp_obs(obs):
    h = 0
    for x in flatten_obs(obs):
        h = (h * HASH_B + x + 7) % HASH_P
    return h


# ------------------------------------------------------------------------- queries
def expand_ops(ops):
    """History letters: 'n' next(it); 'i' iter(it); ('f', m) for-loop over the iterator, break after m
    events; ('s', m) for-loop over itertools.islice(it, m); 'F' for-loop to exhaustion."""
    return ops


def _hist_obs(ev):
    return [fp_obs(observe_event(ev, deep=False) + [ana_tobs(observe_analysis(ev))]), int(ev.total_events_thrown)]


def run_history2(f, q):
    """Two LIVE iterators over one opened reader (each f[a:b:s] or iter(f)) driven by one interleaved
    history of [which, 'n' | 'i' | 'r'] ops ('r' = read every accessor of that iterator's current
    event again)."""
    _, fid, k, sp1, sp2, ops = q[:6]
    its = []
    for (whole, a, b, s) in (sp1, sp2):
        its.append(iter(f) if whole else f[slice(a, b, s)])
    out = []
    for w, op in ops:
        it = its[w]
        if op == "n":
            try:
                out.append(_hist_obs(next(it)))
            except StopIteration:
                out.append("stop")
        elif op == "i":
            out.append("iter" if iter(it) is it else "iter-not-self")
        else:
            out.append(_hist_obs(it))
    return ["ok", out]


def run_history(f, q):
    """One EventIterator (f[a:b:s], or iter(f) when whole) driven by a history of next / iter / for /
    islice; every delivered event is observed (all accessors -> fingerprint, total_events_thrown).
    Returns ["ok", [[fp, thrown] | "stop" | "iter" ...], prim] where prim is the primitive
    next/iter sequence that was actually performed (for the model)."""
    import itertools
    _, fid, k, whole, a, b, s, ops = q[:8]
    it = iter(f) if whole else f[slice(a, b, s)]
    out, prim = [], []

    def obs(ev):
        return [fp_obs(observe_event(ev, deep=False) + [ana_tobs(observe_analysis(ev))]), int(ev.total_events_thrown)]
    for op in ops:
        if op == "n":
            prim.append("n")
            try:
                ev = next(it)
                out.append(obs(ev))
            except StopIteration:
                out.append("stop")
        elif op == "i":
            prim.append("i")
            r = iter(it)
            out.append("iter" if r is it else "iter-not-self")
        elif op == "r":
            prim.append("r")
            out.append(obs(it))          # the event object IS the iterator: read all its accessors again
        else:
            kind, m = (op, None) if op == "F" else op
            src = it if kind in ("F", "f") else itertools.islice(it, m)
            prim.append("i")
            out.append("iter")
            got = 0
            for ev in src:
                prim.append("n")
                out.append(obs(ev))
                got += 1
                if kind == "f" and got == m:
                    break
            else:
                if not (kind == "s" and got == m):
                    prim.append("n")          # the next() that raised StopIteration and ended the loop
                    out.append("stop")
    return ["ok", out, prim]


class Readers:
    """Cache of open pyrex.File readers keyed by (path, slice_range): a reader holds no
    iteration state of its own, so sharing one between queries does not change any result."""
    def __init__(self):
        self.open = {}

    def get(self, path, k):
        pyrex = _pyrex()
        key = (path, k)
        if key not in self.open:
            kw = {} if k is None else {"slice_range": k}
            f = pyrex.File(path, "r", **kw)
            f.open()
            self.open[key] = f
        return self.open[key]

    def close(self):
        for f in self.open.values():
            try:
                f.close()
            except Exception:
                pass
        self.open = {}


def run_query(q, paths, deep=False, readers=None):
    """Run one reader query on the implementation.  Returns ["ok", [fingerprints...]] or
    ["err", ExcName] (for gen: ["ok", [[tags...], count] ... "stop"])."""
    pyrex = _pyrex()
    kind = q[0]
    own = readers is None
    readers = readers or Readers()
    try:
        if kind == "gen":
            _, k, fids = q
            g = None
            res = []
            try:
                g = pyrex.generation.FileGenerator([paths[i] for i in fids], slice_range=k)
                for _ in range(10000):
                    try:
                        ev = g.create_event()
                    except StopIteration:
                        res.append("stop")
                        break
                    parts = []
                    note = ""
                    for p in ev:
                        tag = int(p.energy)
                        ref = make_particle(tag)
                        stored = ref._metadata          # what the writer stored (None weights are stored as 1)
                        checks = [("id", p.id, ref.id), ("vertex", list(p.vertex), list(ref.vertex)),
                                  ("direction", list(p.direction), list(ref.direction)), ("energy", p.energy, ref.energy),
                                  ("interaction.kind", p.interaction.kind, ref.interaction.kind),
                                  ("interaction.inelasticity", p.interaction.inelasticity, ref.interaction.inelasticity),
                                  ("interaction.em_frac", p.interaction.em_frac, ref.interaction.em_frac),
                                  ("interaction.had_frac", p.interaction.had_frac, ref.interaction.had_frac),
                                  ("survival_weight", p.survival_weight, stored["survival_weight"]),
                                  ("interaction_weight", p.interaction_weight, stored["interaction_weight"]),
                                  ("weight", p.weight, stored["weight"])]
                        bad = [(n, got, want) for n, got, want in checks if got is None or not (got == want)]
                        if bad and not note:
                            note = "replayed particle %d: %s is %r, stored %r" % (tag, bad[0][0], bad[0][1], bad[0][2])
                        parts.append(-tag if bad else tag)
                    res.append([parts, int(g.count), note])
            finally:
                try:
                    g._file.close()
                except Exception:
                    pass
            return ["ok", res]
        f = readers.get(paths[q[1]], q[2])
        if kind == "len":
            return ["ok", [len(f)]]
        if kind in ("iter", "int", "slice"):
            if kind == "iter":
                it = f
            elif kind == "int":
                it = [f[q[3]]]
            else:
                it = f[slice(q[3], q[4], q[5])]
            fps, ana = [], []
            for ev in it:
                a = observe_analysis(ev)
                fps.append(fp_obs(observe_event(ev, deep=deep) + [ana_tobs(a)]))
                ana.append(a)
            return ["ok", fps, ana]
        if kind == "hist":
            return run_history(f, q)
        if kind == "hist2":
            return run_history2(f, q)
        if kind == "wf":
            # HDF5Reader.get_waveforms(event_id, antenna_id, waveform_type): one waveform row of one event
            i, k, form = q[3], q[4], q[5]
            wt = {0: "direct", 1: "reflected"}[k] if (form == "str" and k in (0, 1)) else (float(k) if form == "float" else k)
            row = f.get_waveforms(event_id=i, waveform_type=wt)
            tags = [_vl_tag(row[a][1]) for a in range(len(row))]
            for a in range(len(row)):
                one = f.get_waveforms(event_id=i, antenna_id=a, waveform_type=wt)
                if _vl_tag(one[1]) != tags[a]:
                    tags = [-999]
                    break
            return ["ok", tags]
        if kind == "wfev":
            blk = f.get_waveforms(event_id=q[3])
            return ["ok", [_vl_tag(blk[r][a][1]) for r in range(len(blk)) for a in range(len(blk[r]))]]
        raise ValueError("unknown query %r" % (q,))
    except Exception as e:
        return ["err", type(e).__name__]
    finally:
        if own:
            readers.close()


# ------------------------------------------------------------------- implementation
def run_impl(case, scratch, tag="c", query_gen=None):
    """Everything the correspondence compares, from the implementation.  query_gen(case, recs)
    may fill case["queries"] once the files are written (their lengths are then known)."""
    d = os.path.join(scratch, "files_%s" % tag)
    os.makedirs(d, exist_ok=True)
    paths, files = [], []
    try:
        for i, fc in enumerate(case["files"]):
            path = os.path.join(d, "f%d.h5" % i)
            paths.append(path)
            w = write_file(fc, path)
            rec = {"ctor": w["ctor"], "outcomes": w["outcomes"], "counters": w["counters"]}
            if w["ctor"] is None:
                rec.update(raw_view(path))
                ra = read_all(path, chunked=bool(case.get("_chunked")))
                rec["analysis_obs"] = ra[3] if ra[0] == "ok" else None
                rec["chunked"] = ra[4] if ra[0] == "ok" else []
                rec["events"] = ra[:3]
                if "analysis_expected" in w:
                    rec["analysis_expected"] = w["analysis_expected"]
            files.append(rec)
        if query_gen is not None:
            case["queries"] = query_gen(case, files)
        readers = Readers()
        try:
            queries = []
            for q in case.get("queries", []):
                r = run_query(q, paths, readers=readers)
                if q[0] == "hist":
                    del q[8:]
                    q.append(r[2] if r[0] == "ok" else [])
                queries.append(r)
        finally:
            readers.close()
    finally:
        shutil.rmtree(d, ignore_errors=True)
    return {"files": files, "queries": queries}


def read_all(path, chunked=False):
    """Sequential pass with the default slice_range, full (deep) observation: every accessor in
    every call form, cross-checked on the event.  With chunked=True the same deep pass is repeated
    with the file read in several chunks (slice_range 1 and one value in 2..n-1): result index 4 is
    a list of [slice_range, events] (or [slice_range, "err", name])."""
    pyrex = _pyrex()
    try:
        with pyrex.File(path, "r") as f:
            n = len(f)
            evs, ana = [], []
            for ev in f:
                evs.append(observe_event(ev, deep=True))
                ana.append(observe_analysis(ev))
        passes = []
        if chunked and 2 <= n <= 16:
            for k in sorted({1, 2 + (n * 7 + len(path)) % max(1, n - 2)} if n > 2 else {1}):
                try:
                    with pyrex.File(path, "r", slice_range=k) as f:
                        passes.append([k, [observe_event(ev, deep=True) for ev in f]])
                except Exception as e:
                    passes.append([k, "err", type(e).__name__])
        return ["ok", n, evs, ana, passes]
    except Exception as e:
        return ["err", type(e).__name__, traceback.format_exc()[-600:]]


# --------------------------------------------------------------------- Coq literals
def zl(x):
    return str(x) if x >= 0 else "(%d)" % x


def zlist(xs):
    return "[" + "; ".join(zl(x) for x in xs) + "]"


def blist(xs):
    return "[" + "; ".join("true" if x else "false" for x in xs) + "]"


def coq_bool(b):
    return "true" if b else "false"


def coq_trig(t):
    if t is None:
        return "TNone"
    if isinstance(t, bool):
        return "(TBool %s)" % coq_bool(t)
    if t == "bad":
        return "TBad"
    g = t.get("g")
    gs = "None" if g is None else "(Some %s)" % coq_bool(g)
    xs = []
    for name, val in t.get("x", []):
        if isinstance(val, bool):
            xs.append("(%d, XBool %s)" % (name_bit(name), coq_bool(val)))
        else:
            xs.append("(%d, XList %s)" % (name_bit(name), blist(val)))
    return "(TDict %s [%s])" % (gs, "; ".join(xs))


def coq_pols(p):
    if p == "ok":
        return "PolOk"
    if p == "none":
        return "PolNone"
    if p == "outer":
        return "PolOuter"
    if p[0] == "inner":
        return "(PolInner %d)" % p[1]
    return "(PolVec %d %d)" % (p[1], p[2])


def coq_add(a):
    rays = a.get("rays")
    rs = "None" if rays is None else "(Some [%s])" % "; ".join(zlist(l) for l in rays)
    fault = {None: "FNone", "meta": "FMeta", "noise": "FNoise", "wave": "FWave"}[a.get("fault")]
    return "(mkAdd %s %s [%s] %s %s %s %s %s)" % (
        zlist(a["parts"]), coq_trig(a["trig"]), "; ".join(zlist(l) for l in a["waves"]), rs,
        coq_pols(a.get("pols", "ok")), zlist(a["noise"]), zl(a.get("thrown", 1)), fault)


def coq_opts(o):
    r = o["require_trigger"]
    if isinstance(r, bool):
        rs = "(RBool %s)" % coq_bool(r)
    else:
        if isinstance(r, str):
            r = [r]
        rs = "(RList [%s])" % "; ".join(OKEY_COQ[k] for k in r if k != "")
    return "(mkOpts %s %s %s %s %s %s %s)" % tuple(
        [coq_bool(o["write_" + k]) for k in ["particles", "triggers", "antenna_triggers", "rays", "noise", "waveforms"]] + [rs])


def coq_file(fc):
    ops = []
    for s, session in enumerate(fc["sessions"]):
        if s:
            ops.append("Reopen")
        ops.extend("Add " + coq_add(a) for a in session)
    aops = []
    plan = fc.get("_aplan") if fc.get("analysis") else None
    if plan is not None:
        aops.append("ACreate [%s]" % "; ".join(zlist(r) for r in plan["rows"]))
        aops += ["AIndex %s %s %s" % (zl(e), zl(st), zl(ln)) for e, st, ln in plan["entries"]]
    return "(mkFile %d %s %s [%s] [%s])" % (fc["det"], coq_bool(not fc.get("nodet")), coq_opts(fc["opts"]), "; ".join(ops), "; ".join(aops))


def coq_oz(x):
    return "None" if x is None else "(Some %s)" % zl(x)


def coq_query(q):
    kind = q[0]
    if kind == "gen":
        return "(QGen %s %s)" % (zl(q[1]), zlist(q[2]))
    fid, k = q[1], q[2]
    if kind == "len":
        return "(QLen %d)" % fid
    if kind == "iter":
        return "(QIter %d %s)" % (fid, coq_oz(k))
    if kind == "int":
        return "(QInt %d %s %s)" % (fid, coq_oz(k), zl(q[3]))
    if kind == "slice":
        return "(QSlice %d %s %s %s %s)" % (fid, coq_oz(k), coq_oz(q[3]), coq_oz(q[4]), coq_oz(q[5]))
    if kind == "hist":
        prim = q[8] if len(q) > 8 else None
        assert prim is not None, "history query without its primitive op sequence"
        return "(QHist %d %s %s %s %s %s [%s])" % (fid, coq_oz(k), coq_bool(q[3]), coq_oz(q[4]), coq_oz(q[5]), coq_oz(q[6]),
                                                  "; ".join({"n": "INext", "i": "IIter", "r": "IRead"}[c] for c in prim))
    if kind == "hist2":
        sp = " ".join("%s %s %s %s" % (coq_bool(w), coq_oz(a), coq_oz(b), coq_oz(st)) for (w, a, b, st) in (q[3], q[4]))
        return "(QHist2 %d %s %s [%s])" % (fid, coq_oz(k), sp, "; ".join(
            "(%s, %s)" % (coq_bool(w == 0), {"n": "INext", "i": "IIter", "r": "IRead"}[op]) for w, op in q[5]))
    if kind == "wf":
        return "(QWf %d %s %s)" % (fid, zl(q[3]), zl(q[4]))
    if kind == "wfev":
        return "(QWfEv %d %s)" % (fid, zl(q[3]))
    raise ValueError(q)


def model_expr(case):
    return "run_case [%s] [%s]" % ("; ".join(coq_file(f) for f in case["files"]),
                                   "; ".join(coq_query(q) for q in case.get("queries", [])))


COQ_IMPORTS = ("From Coq Require Import List ZArith Bool.\nFrom PyrexModel Require Import IOModel.\n"
               "Import ListNotations.\nOpen Scope Z_scope.\n")


# ---------------------------------------------------------- canonical comparison
EXC_CODE = {"ValueError": 1, "TypeError": 2, "IndexError": 3, "AttributeError": 4, "KeyError": 5, "StopIteration": 6}


def canon_impl(res):
    """Implementation result -> the nested python structure mirroring the model's output."""
    files = []
    for f in res["files"]:
        if f["ctor"] is not None:
            files.append(("ctor", EXC_CODE.get(f["ctor"], 99)))
            continue
        evs = f["events"]
        if evs[0] == "ok":
            events = ("ok", evs[1], [[_canon_tobs(t) for t in ev] for ev in evs[2]])
        else:
            events = ("err", EXC_CODE.get(evs[1], 99))
        files.append(("file", [0 if o == "ok" else EXC_CODE.get(o, 99) for o in f["outcomes"]],
                      f["counters"], [TABLES.index(c) if c in TABLES else 99 for c in f["cols"]],
                      f["index"], f["nrows"], f["exists"], f["thrown"], events))
    qs = []
    for q in res["queries"]:
        if q[0] == "err":
            qs.append(("err", EXC_CODE.get(q[1], 99)))
        else:
            qs.append(("ok", q[1]))
    return files, qs


def _canon_tobs(t):
    if t == "NA":
        return "NA"
    if isinstance(t, str):
        return t
    return t


def _tok(s):
    return re.findall(r"[A-Za-z_][A-Za-z_0-9]*|-?\d+|[\[\]();,]", s)


def parse_coq(s):
    """Parse a printed Coq value (lists, tuples, constructor applications, ints, bools)
    into nested python lists; constructor applications become [name, args...]."""
    toks = _tok(s)
    pos = [0]

    def atom():
        t = toks[pos[0]]
        if t == "[":
            pos[0] += 1
            items = []
            if toks[pos[0]] == "]":
                pos[0] += 1
                return items
            while True:
                items.append(expr())
                if toks[pos[0]] == ";":
                    pos[0] += 1
                    continue
                assert toks[pos[0]] == "]", toks[pos[0]:pos[0] + 5]
                pos[0] += 1
                return items
        if t == "(":
            pos[0] += 1
            items = [expr()]
            while toks[pos[0]] == ",":
                pos[0] += 1
                items.append(expr())
            assert toks[pos[0]] == ")", toks[pos[0]:pos[0] + 5]
            pos[0] += 1
            return items[0] if len(items) == 1 else ("tuple", items)
        pos[0] += 1
        if re.match(r"-?\d+$", t):
            return int(t)
        if t == "true":
            return True
        if t == "false":
            return False
        return ("con", t)

    def expr():
        head = atom()
        if isinstance(head, tuple) and head[0] == "con":
            args = []
            while pos[0] < len(toks) and toks[pos[0]] not in ("]", ")", ";", ","):
                args.append(atom())
            return [head[1]] + args
        return head

    v = expr()
    assert pos[0] == len(toks), "trailing tokens: %r" % toks[pos[0]:pos[0] + 8]
    return v


def _flat_tuple(v):
    """Coq prints (a, b, c) for ((a, b), c): our parser already yields one flat tuple."""
    return list(v[1]) if isinstance(v, tuple) and v[0] == "tuple" else [v]


def canon_model(s):
    """Printed value of run_case -> same structure as canon_impl."""
    v = parse_coq(s)
    fs, qs = _flat_tuple(v)
    files = []
    for f in fs:
        if f[0] == "RCtor":
            files.append(("ctor", f[1]))
            continue
        assert f[0] == "RFile", f[0]
        _, outcomes, counters, cols, index, nrows, exists, thrown, events = f
        if events[0] == "EvOk":
            evs = ("ok", events[1], [[_model_tobs(t) for t in _flat_tuple(ev)] for ev in events[2]])
        else:
            evs = ("err", events[1])
        files.append(("file", outcomes, [list(_flat_tuple(c)) if isinstance(c, tuple) else c for c in counters],
                      cols, [[list(_flat_tuple(p)) for p in row] for row in index], nrows, exists, thrown, evs))
    out_q = []
    for q in qs:
        if q[0] == "QErr":
            out_q.append(("err", q[1]))
        elif q[0] == "QOk":
            out_q.append(("ok", q[1]))
        elif q[0] == "QHistOk":
            out_q.append(("ok", [list(_flat_tuple(e)) for e in q[1]]))
        elif q[0] == "QGenOk":
            items = [[list(_flat_tuple(e))[0], list(_flat_tuple(e))[1]] for e in q[1]]
            out_q.append(("ok", items + (["stop"] if q[2] else [])))
        else:
            raise ValueError(q[0])
    return files, out_q


def _model_tobs(t):
    if t[0] == "NA":
        return "NA"
    if t[0] == "Crash":
        return "CRASH"
    return t[1]


def diff(a, b, path=""):
    """First difference between two nested structures, as a short string ('' if equal)."""
    if isinstance(a, str) and isinstance(b, str) and a.startswith("CRASH") and b.startswith("CRASH"):
        return ""
    if isinstance(a, (list, tuple)) and isinstance(b, (list, tuple)):
        if len(a) != len(b):
            return "%s: length %d (impl) vs %d (model): %s | %s" % (path, len(a), len(b), json.dumps(a, default=str)[:300], json.dumps(b, default=str)[:300])
        for i, (x, y) in enumerate(zip(a, b)):
            d = diff(x, y, "%s[%d]" % (path, i))
            if d:
                return d
        return ""
    if isinstance(a, bool) or isinstance(b, bool):
        return "" if bool(a) == bool(b) and type(a) == type(b) else "%s: %r (impl) vs %r (model)" % (path, a, b)
    if a != b:
        return "%s: %r (impl) vs %r (model)" % (path, a, b)
    return ""


# ======================================================================= generators
REQ_VALUES = [False, True, [], ["waveforms"], ["rays", "noise"], ["triggers"], ["antenna_triggers"],
              ["triggers", "antenna_triggers"], ["waveforms", "rays", "noise"], "noise", [""],
              ["particles"], ["particles", "triggers", "antenna_triggers", "waveforms", "rays", "noise"]]


def opts_from_bits(bits, req):
    names = ["particles", "triggers", "antenna_triggers", "rays", "noise", "waveforms"]
    o = {"write_" + n: bool(bits >> i & 1) for i, n in enumerate(names)}
    o["require_trigger"] = req
    return o


def gen_opts(rng, k=None):
    """Writer options: the 2^6 write_* combinations are swept by index k (when given);
    require_trigger is drawn from bool / list forms.  Configurations that record particles
    for every event (the property's domain) get most of the weight."""
    bits = rng.randrange(64) if k is None else k % 64
    if rng.random() < 0.7:
        bits |= 1
    if (bits & 4) and not (bits & 2) and rng.random() < 0.8:
        bits |= 2          # write_antenna_triggers without write_triggers is rejected by the constructor
    r = rng.random()
    if r < 0.25:
        req = False
    elif r < 0.5:
        req = True
    elif r < 0.9:
        req = rng.choice(REQ_VALUES[2:11])
    elif r < 0.95:
        req = rng.choice(REQ_VALUES[11:])
    else:
        req = sorted(rng.sample(OKEYS[1:], rng.randrange(0, 5)))
    return opts_from_bits(bits, req)


UNEVEN_REQ = [True, True, ["rays"], ["waveforms", "rays", "noise"], ["rays", "noise"], ["triggers", "rays"],
              ["particles"], ["particles", "rays"]]


def gen_opts_uneven(rng):
    """Option mixes in which the tables get DIFFERENT numbers of rows per event (metadata groups
    shorter than the table scanned before them by the append-mode counter recovery): rays /
    waveforms / particles written only on trigger, used with a low trigger rate and 1-3
    particles per event."""
    o = {"write_particles": True, "write_triggers": rng.random() < 0.85, "write_antenna_triggers": False,
         "write_rays": True, "write_noise": rng.random() < 0.4, "write_waveforms": rng.random() < 0.6,
         "require_trigger": rng.choice(UNEVEN_REQ)}
    if o["write_triggers"] and rng.random() < 0.3:
        o["write_antenna_triggers"] = True
    return o


def records_particles(o):
    r = o["require_trigger"]
    lst = [] if isinstance(r, bool) else ([r] if isinstance(r, str) else r)
    return bool(o["write_particles"]) and "particles" not in lst and not (o["write_antenna_triggers"] and not o["write_triggers"])


class Tags:
    def __init__(self, rng):
        self.rng, self.n = rng, 0

    def next(self):
        self.n += self.rng.choice([1, 1, 2])
        return self.n


def gen_add(rng, det, tags, p_bad=0.25, maxp=3, maxw=3, p_trig=0.6):
    """One add() call.  With probability p_bad it is malformed in one of the ways that make
    HDF5Writer.add raise at some stage."""
    nparts = rng.choice([1, 1, 1, 2, 2, 3, maxp]) if rng.random() > 0.03 else 0
    a = {"parts": [tags.next() for _ in range(nparts)]}
    if nparts and rng.random() < 0.35:
        # secondaries: 1-4 children over 1-3 levels below any of the (possibly several) roots
        parents = [-1] * nparts
        for _ in range(rng.choice([1, 2, 3, 4])):
            a["parts"].append(tags.next())
            parents.append(rng.randrange(len(parents)) if rng.random() < 0.6 else len(parents) - 1)
        a["parents"] = parents
    a["waves"] = [[tags.next() for _ in range(rng.choice([0, 1, 1, 2, maxw]))] for _ in range(det)]
    a["rays"] = [[tags.next() for _ in range(rng.choice([0, 1, 1, 2, maxw]))] for _ in range(det)]
    a["pols"] = "ok"
    a["noise"] = [tags.next() if rng.random() < 0.8 else 0 for _ in range(det)]
    a["thrown"] = rng.choice([1, 1, 2, 3])
    a["fault"] = None
    mw = max(len(w) for w in a["waves"])
    r = rng.random()
    if r < 0.45:
        a["trig"] = rng.random() < p_trig
    else:
        x = []
        for name in rng.sample(CUSTOM, rng.choice([0, 1, 1, 2, 3])):
            if rng.random() < 0.5:
                x.append([name, rng.random() < 0.5])
            else:
                x.append([name, [rng.random() < 0.5 for _ in range(mw + rng.choice([0, 0, 1]))]])
        a["trig"] = {"g": rng.random() < p_trig, "x": x}
    if rng.random() < p_bad:
        kind = rng.choice(["trig_none", "trig_bad", "no_global", "short_list", "rays_none", "rays_len",
                           "pols_none", "pols_outer", "pols_inner", "pols_vec", "meta", "noise", "wave"])
        if kind == "trig_none":
            a["trig"] = None
        elif kind == "trig_bad":
            a["trig"] = "bad"
        elif kind == "no_global":
            a["trig"] = {"g": None, "x": [[rng.choice(CUSTOM), True]]}
        elif kind == "short_list":
            if mw:
                g = a["trig"]["g"] if isinstance(a["trig"], dict) else bool(a["trig"])
                a["trig"] = {"g": g, "x": [["k1", True], ["k0", [True] * rng.randrange(mw)]]}
        elif kind == "rays_none":
            a["rays"] = None
        elif kind == "rays_len":
            a["rays"] = a["rays"] + [[tags.next()]] if rng.random() < 0.5 else a["rays"][:-1]
        elif kind == "pols_none":
            a["pols"] = "none"
        elif kind == "pols_outer":
            a["pols"] = "outer"
        elif kind == "pols_inner":
            a["pols"] = ["inner", rng.randrange(det)]
        elif kind == "pols_vec":
            cand = [(i, j) for i, l in enumerate(a["rays"]) for j in range(len(l))]
            if cand:
                i, j = rng.choice(cand)
                a["pols"] = ["vec", i, j]
        else:
            a["fault"] = kind
    return a


def gen_filecase(rng, nadds, opts=None, det=None, p_bad=0.25, nsessions=None, p_trig=0.6, p_nodet=0.08):
    det = det or rng.choice([1, 2, 2, 3, 4])
    opts = opts or gen_opts(rng)
    tags = Tags(rng)
    adds = [gen_add(rng, det, tags, p_bad=p_bad, p_trig=p_trig) for _ in range(nadds)]
    ns = nsessions or rng.choice([1, 1, 2, 3])
    if nsessions and nsessions > 1 and nadds >= nsessions:
        cuts = sorted(rng.sample(range(1, nadds), ns - 1))      # every session non-empty
    else:
        cuts = sorted(rng.randrange(0, nadds + 1) for _ in range(ns - 1))
    sessions, prev = [], 0
    for c in cuts + [nadds]:
        sessions.append(adds[prev:c])
        prev = c
    fc = {"det": det, "opts": opts, "sessions": sessions}
    if rng.random() < p_nodet:
        fc["nodet"] = True       # set_detector is never called: every stage that needs the detector raises
    return fc


def all_adds(fc):
    return [a for s in fc["sessions"] for a in s]


def spellings(rng, a, b, n, every=False):
    """Ways of writing the in-range bounds 0 <= a < b <= n of a slice."""
    sa = [a, a - n] + ([None] if a == 0 else [])
    sb = [b] + ([b - n] if b < n else [None])
    allsp = [(x, y) for x in sa for y in sb]
    return allsp if every else [rng.choice(allsp)]


def gen_queries(rng, fid, n, thorough=False, max_slices=None):
    """Access paths of one file with n events: every slice_range 1..n+1 (and None), every index
    -n..n-1 (plus the two just outside), every slice 0<=a<b<=n with step 1..4 in positive /
    negative / omitted spellings, with the reader opened at various slice_range values."""
    qs = [["len", fid, None], ["iter", fid, None]]
    if n == 0:
        return qs + [["iter", fid, 1], ["int", fid, None, 0], ["int", fid, None, -1], ["slice", fid, None, None, None, None]]
    for k in range(1, n + 2):
        qs.append(["iter", fid, k])
    for i in range(-n - 1, n + 1):
        qs.append(["int", fid, rng.choice([None, 1, 2]), i])
    sl = []
    for a in range(n):
        for b in range(a + 1, n + 1):
            for s in [None, 1, 2, 3, 4]:
                for (x, y) in spellings(rng, a, b, n, every=thorough):
                    ks = [None] + list(range(1, n + 2))
                    for k in (rng.sample(ks, min(2, len(ks))) if thorough else [rng.choice(ks)]):
                        sl.append(["slice", fid, k, x, y, s])
    if max_slices and len(sl) > max_slices:
        sl = rng.sample(sl, max_slices)
    # a few slices outside the property's domain (empty / out of range): both sides must agree anyway
    sl += [["slice", fid, None, n, None, None], ["slice", fid, 1, 0, n + 1, 1], ["slice", fid, None, 1, 1, 1] if n > 1 else ["slice", fid, None, 0, 0, 1],
           ["slice", fid, 2, 0, n, 0]]
    return qs + sl


def gen_histories(rng, fid, n, count):
    """Op histories on one iterator for many (slice_range, slice) combinations of one file."""
    qs = []
    if n < 1:
        return qs
    for _ in range(count):
        k = rng.choice([None] + list(range(1, n + 2)))
        if rng.random() < 0.15:
            whole, a, b, s = True, None, None, None
        else:
            whole = False
            a = rng.randrange(0, n)
            b = rng.randrange(a + 1, n + 1)
            s = rng.choice([None, 1, 2, 2, 3, 4])
            (a, b) = spellings(rng, a, b, n)[0]
        aa, bb, ss = (0, n, 1) if whole else (0 if a is None else (a + n if a < 0 else a), n if b is None else (b + n if b < 0 else b), s or 1)
        nidx = len(range(aa, bb, ss))
        ops, j, cur = [], 0, False
        for _ in range(rng.choice([2, 3, 4, 5, 7])):
            rem = max(0, nidx - j)
            r = rng.random()
            if cur and r < 0.2:
                ops.append("r")
            elif r < 0.45:
                ops.append("n")
                cur = rem > 0
                j += 1
            elif r < 0.6:
                ops.append("i")
            elif r < 0.8:
                m = rng.choice([1, 1, 2, 3])
                ops.append(["f", m])
                j, cur = (j + m, True) if rem >= m else (j + rem + 1, False)
            elif r < 0.92:
                m = rng.choice([0, 1, 2, 3])
                ops.append(["s", m])
                if m:
                    j, cur = (j + m, True) if rem >= m else (j + rem + 1, False)
            else:
                ops.append("F")
                j, cur = j + rem + 1, False
        qs.append(["hist", fid, k, whole, a, b, s, ops])
    return qs


def gen_histories2(rng, fid, n, count):
    """Interleaved histories on TWO live iterators of one opened reader."""
    qs = []
    if n < 1:
        return qs
    for _ in range(count):
        k = rng.choice([None] + list(range(1, n + 2)))
        specs, nidx = [], []
        for _ in range(2):
            if rng.random() < 0.55:
                specs.append([True, None, None, None])
                nidx.append(n)
            else:
                a = rng.randrange(0, n)
                b = rng.randrange(a + 1, n + 1)
                s = rng.choice([None, 1, 2, 3])
                nidx.append(len(range(a, b, s or 1)))
                (a, b) = spellings(rng, a, b, n)[0]
                specs.append([False, a, b, s])
        ops, j, cur = [], [0, 0], [False, False]
        for _ in range(rng.choice([3, 4, 6, 8, 10])):
            w = rng.randrange(2)
            r = rng.random()
            if cur[w] and r < 0.35:
                ops.append([w, "r"])
            elif r < 0.9:
                ops.append([w, "n"])
                cur[w] = j[w] < nidx[w]
                j[w] += 1
            else:
                ops.append([w, "i"])
        qs.append(["hist2", fid, k, specs[0], specs[1], ops])
    return qs


# =================================================================== python-side oracle
def _trig_only(o):
    r = o["require_trigger"]
    if isinstance(r, bool):
        return {k: (r and k in ("waveforms", "rays", "noise")) for k in OKEYS}
    lst = [r] if isinstance(r, str) else r
    return {k: k in lst for k in OKEYS}


def _trig_val(t):
    if isinstance(t, bool):
        return t
    if isinstance(t, dict):
        return bool(t.get("g"))
    return False


def expected_event(o, a, det):
    """What the property says event must read back as, from the inputs alone (an independent
    restatement: options + the data handed to add)."""
    to = _trig_only(o)
    tv = _trig_val(a["trig"])
    rec = {k: bool(o["write_" + k]) and (not to[k] or tv) for k in OKEYS}
    waves = a["waves"]
    if a.get("fault") == "wave" and waves:
        # the detector holds one more (malformed) waveform object on its last antenna; an add that
        # gets accepted never touched it, but it counts towards the number of waveform rows
        waves = waves[:-1] + [waves[-1] + [0]]
    mw = max([len(w) for w in waves] + [0])
    out = {}
    out["P"] = [[t] for t in a["parts"]] if rec["particles"] else []
    out["T"] = [[int(tv)]] if rec["triggers"] else []
    extra = a["trig"].get("x", []) if isinstance(a["trig"], dict) else []
    if rec["triggers"] and (rec["antenna_triggers"] or extra):
        rows = []
        for j in range(mw):
            m = 0
            if rec["antenna_triggers"]:
                for i, w in enumerate(waves):
                    if j < len(w) and w[j] % 2 == 1:
                        m |= 1 << i
            for name, val in extra:
                if (val if isinstance(val, bool) else val[j]):
                    m |= 1 << name_bit(name)
            rows.append([m])
        out["M"] = rows
    else:
        out["M"] = []
    rays = a["rays"] or []
    mr = max([len(r) for r in rays] + [0])
    out["R"] = [[(r[j] if j < len(r) else 0) for r in rays] for j in range(mr)] if rec["rays"] else []
    out["N"] = [list(a["noise"])] if rec["noise"] else []
    out["W"] = [[(w[j] if j < len(w) else 0) for w in waves] for j in range(mw)] if rec["waveforms"] else []
    return [out[t] for t in TABLES]


def _nothing(x):
    return x == "NA" or x == []


def oracle_c11(fc, rec):
    """Judge the C11 statement on one written file.  Returns '' or a description."""
    if rec["ctor"] is not None or not records_particles(fc["opts"]):
        return ""
    adds = all_adds(fc)
    acc = [a for a, o in zip(adds, rec["outcomes"]) if o == "ok"]
    nrows = rec["nrows"]
    for i, row in enumerate(rec["index"]):
        for t, (s, l) in zip(TABLES, row):
            if s < 0 or l < 0 or s + l > nrows[TABLES.index(t)]:
                return "index row %d table %s = (%d,%d) addresses rows outside the dataset of %d rows" % (i, t, s, l, nrows[TABLES.index(t)])
    if len(rec["index"]) != len(acc):
        return "file holds %d events but %d adds were accepted" % (len(rec["index"]), len(acc))
    evs = rec["events"]
    if not acc:
        return ""
    if evs[0] != "ok":
        return "reading the file back raises %s" % evs[1]
    if evs[1] != len(acc) or len(evs[2]) != len(acc):
        return "reading yields %d events (len %d) but %d adds were accepted" % (len(evs[2]), evs[1], len(acc))
    for i, (a, got) in enumerate(zip(acc, evs[2])):
        want = expected_event(fc["opts"], a, fc["det"])
        for t, g, w in zip(TABLES, got, want):
            if _nothing(g) and w == []:
                continue
            if g != w:
                return "event %d table %s reads %s but the add recorded %s" % (i, t, json.dumps(g)[:200], json.dumps(w)[:200])
    for pas in rec.get("chunked", []):
        k = pas[0]
        if pas[1] == "err":
            return "reading the file with slice_range=%d raises %s" % (k, pas[2])
        if len(pas[1]) != len(acc):
            return "reading with slice_range=%d yields %d events, %d adds were accepted" % (k, len(pas[1]), len(acc))
        for i, (a, got) in enumerate(zip(acc, pas[1])):
            want = expected_event(fc["opts"], a, fc["det"])
            for t, g, w in zip(TABLES, got, want):
                if _nothing(g) and w == []:
                    continue
                if g != w:
                    return "read in chunks (slice_range=%d): event %d table %s reads %s but the add recorded %s" % (
                        k, i, t, json.dumps(g)[:200], json.dumps(w)[:200])
    if rec["thrown"] != sum(a.get("thrown", 1) for a in acc):
        return "total_thrown %d != sum over accepted adds %d" % (rec["thrown"], sum(a.get("thrown", 1) for a in acc))
    return ""


def base_fps(rec):
    evs = rec.get("events")
    if not evs or evs[0] != "ok":
        return None
    ana = rec.get("analysis_obs") or [None] * len(evs[2])
    return [fp_obs(e + [ana_tobs(a)]) for e, a in zip(evs[2], ana)]


def oracle_query(q, got, recs, fcs):
    """Judge the C12 statement for one query result against the sequential pass."""
    kind = q[0]
    if kind == "gen":
        want = []
        total = 0
        for fid in q[2]:
            if recs[fid]["ctor"] is not None or not records_particles(fcs[fid]["opts"]):
                return ""
            evs = recs[fid]["events"]
            if evs[0] != "ok" or evs[1] == 0:
                return ""
            for e in evs[2]:
                if not isinstance(e[0], list):
                    return ""
                want.append([r[0] for r in e[0]])
            total += recs[fid]["thrown"]
        if got[0] != "ok":
            return "FileGenerator raises %s" % got[1]
        items = got[1]
        if items[-1:] != ["stop"]:
            return "FileGenerator does not stop after the last stored event"
        tags = [it[0] for it in items[:-1]]
        notes = [it[2] for it in items[:-1] if len(it) > 2 and it[2]]
        if notes:
            return "FileGenerator does not replay the stored particle: " + notes[0]
        if tags != want:
            return "FileGenerator replays %s but the files hold %s" % (json.dumps(tags)[:200], json.dumps(want)[:200])
        counts = [it[1] for it in items[:-1]]
        if any(b < a for a, b in zip(counts, counts[1:])) or (counts and counts[-1] != total):
            return "FileGenerator.count sequence %s does not end at the files' total_thrown %d" % (counts[-6:], total)
        return ""
    fid = q[1]
    if recs[fid]["ctor"] is not None or not records_particles(fcs[fid]["opts"]):
        return ""
    base = base_fps(recs[fid])
    if base is None:
        return ""
    n = len(base)
    if kind == "len":
        return "" if got == ["ok", [n]] else "len(file) gives %s, sequential pass has %d events" % (got, n)
    if kind in ("hist", "hist2"):
        specs = [(q[3], q[4], q[5], q[6])] if kind == "hist" else [tuple(q[3]), tuple(q[4])]
        idx_lists = []
        for (whole, a, b, s) in specs:
            if whole:
                aa, bb, ss = 0, n, 1
            else:
                aa = 0 if a is None else (a + n if a < 0 else a)
                bb = n if b is None else (b + n if b < 0 else b)
                ss = 1 if s is None else s
            if not (0 <= aa < bb <= n and ss >= 1 and (q[2] is None or q[2] >= 1)):
                return ""
            idx_lists.append(list(range(aa, bb, ss)))
        if got[0] != "ok":
            return "%s raises %s" % (describe_query(q), got[1])
        total = recs[fid]["thrown"]                 # attrs['total_thrown'] read with plain h5py
        if kind == "hist":
            which = [0] * len(got[1])
            reads = [c == "r" for c in (got[2] if len(got) > 2 else [])]
        else:
            which = [w for w, _ in q[5]]
            reads = [op == "r" for _, op in q[5]]
        pos_j = [0] * len(idx_lists)
        for pos, item in enumerate(got[1]):
            idxs = idx_lists[which[pos]]
            j = pos_j[which[pos]]
            if item == "iter":
                continue
            if pos < len(reads) and reads[pos]:
                # re-reading the current event: must still be the event delivered by the last next()
                i = idxs[j - 1]
                want = [base[i], int((i + 1) / n * total)]
                if item != want:
                    where = [e for e, fpv in enumerate(base) if fpv == item[0]]
                    return "%s: at call %d the event object of iterator %d (event %d, delivered earlier) now reads as %s, total_events_thrown %s (was %s)" % (
                        describe_query(q), pos, which[pos], i, ("event %s" % where) if where else "data of no event", item[1], want[1])
                continue
            if isinstance(item, str) and item != "stop":
                return "%s: iter(iterator) does not return the iterator" % describe_query(q)
            if j < len(idxs):
                i = idxs[j]
                want = [base[i], int((i + 1) / n * total)]
                if item == "stop":
                    return "%s: StopIteration at call %d although event %d of the slice was not delivered yet" % (describe_query(q), pos, i)
                if item[0] != want[0]:
                    where = [e for e, fpv in enumerate(base) if fpv == item[0]]
                    return "%s: call %d delivers %s instead of event %d (delivered indices must be %s in order, each once)" % (
                        describe_query(q), pos, ("event %s" % where) if where else "data of no event", i, idxs)
                if item[1] != want[1]:
                    return "%s: total_events_thrown at event %d is %d, int((%d+1)/%d*%d) = %d" % (describe_query(q), i, item[1], i, n, total, want[1])
            elif item != "stop":
                return "%s: call %d delivers an event after the slice's %d events were delivered" % (describe_query(q), pos, len(idxs))
            pos_j[which[pos]] = j + 1
        return ""
    if kind in ("wf", "wfev"):
        evs = recs[fid]["events"][2]
        i = q[3]
        if -n <= i < 0:
            i += n                      # event_id counts from the end like f[i]
        if not (0 <= i < n):
            return ""
        w = evs[i][TABLES.index("W")]
        if isinstance(w, str) and w != "NA":
            return ""
        rows = [] if w == "NA" else w
        if kind == "wfev":
            if w == "NA":
                return "" if got[0] == "err" else "reader.get_waveforms(event_id=%d) returns data although no waveforms are stored" % i
            flat = [x for r in rows for x in r]
            return "" if got == ["ok", flat] else "reader.get_waveforms(event_id=%d) gives %s, the waveforms of that event (f[%d], sequential pass) are %s" % (q[3], json.dumps(got)[:160], q[3], rows)
        k = q[4]
        if 0 <= k < len(rows):
            return "" if got == ["ok", rows[k]] else "reader.get_waveforms(event_id=%d, waveform_type=%r) gives %s, waveform %d of that event (f[%d], sequential pass) is %s" % (q[3], k, json.dumps(got)[:160], k, q[3], rows[k])
        if k >= len(rows):
            return "" if got[0] == "err" else ("reader.get_waveforms(event_id=%d, waveform_type=%r) returns %s although event %d has only %d waveform rows "
                                               "(data of another event instead of nothing)" % (q[3], k, json.dumps(got[1])[:120], i, len(rows)))
        return ""
    want = None
    idxs = None
    if kind == "iter" and n >= 1 and (q[2] is None or q[2] >= 1):
        want = base
        idxs = list(range(n))
    elif kind == "int" and -n <= q[3] < n:
        want = [base[q[3] % n]]
        idxs = [q[3] % n]
    elif kind == "slice":
        a, b, s = q[3], q[4], q[5]
        aa = 0 if a is None else (a + n if a < 0 else a)
        bb = n if b is None else (b + n if b < 0 else b)
        ss = 1 if s is None else s
        if 0 <= aa < bb <= n and ss >= 1 and (q[2] is None or q[2] >= 1):
            want = [base[i] for i in range(aa, bb, ss)]
            idxs = list(range(aa, bb, ss))
    if want is None:
        return ""
    if got[0] != "ok":
        return "%s raises %s" % (describe_query(q), got[1])
    exp_a = recs[fid].get("analysis_expected")
    if exp_a is not None and len(got) > 2 and len(got[2]) == len(idxs):
        for pos, (i, a) in enumerate(zip(idxs, got[2])):
            if a != exp_a[i]:
                return "%s: analysis dataset of event %d reads %s, stored for it: %s" % (describe_query(q), i, json.dumps(a)[:160], json.dumps(exp_a[i])[:160])
    if got[1] != want:
        bad = [i for i, (x, y) in enumerate(zip(got[1], want)) if x != y]
        return "%s yields %d events, %s; the sequential pass gives %d there" % (
            describe_query(q), len(got[1]),
            ("position %d differs from the sequential pass" % bad[0]) if bad else "count differs", len(want))
    return ""


def describe_query(q):
    if q[0] == "iter":
        return "iteration with slice_range=%s" % q[2]
    if q[0] == "int":
        return "f[%d] (slice_range=%s)" % (q[3], q[2])
    if q[0] == "slice":
        return "f[%s:%s:%s] (slice_range=%s)" % (q[3], q[4], q[5], q[2])
    if q[0] == "hist2":
        srcs = ["iter(f)" if sp[0] else "f[%s:%s:%s]" % (sp[1], sp[2], sp[3]) for sp in (q[3], q[4])]
        return "two live iterators it0=%s, it1=%s (slice_range=%s) driven by %s" % (srcs[0], srcs[1], q[2], json.dumps(q[5]))
    if q[0] == "hist":
        src = "iter(f)" if q[3] else "f[%s:%s:%s]" % (q[4], q[5], q[6])
        return "%s (slice_range=%s) driven by %s" % (src, q[2], json.dumps(q[7]))
    if q[0] == "wf":
        return "reader.get_waveforms(event_id=%d, waveform_type=%d as %s)" % (q[3], q[4], q[5])
    if q[0] == "wfev":
        return "reader.get_waveforms(event_id=%d)" % q[3]
    return str(q)


# ============================================================ evaluation of a batch of cases
def gen_diff(impl_q, model_q):
    """FileGenerator results: tags and stop exactly; count may be one below the exact
    floor((k+1)*T/n) because the code evaluates (k+1)/n*T in floating point."""
    if impl_q[0] != model_q[0]:
        return "generator outcome %r (impl) vs %r (model)" % (impl_q, model_q)
    if impl_q[0] == "err":
        return "" if impl_q[1] == model_q[1] else "generator error %r (impl) vs %r (model)" % (impl_q[1], model_q[1])
    a, b = impl_q[1], model_q[1]
    if len(a) != len(b):
        return "generator yields %d items (impl) vs %d (model)" % (len(a), len(b))
    for i, (x, y) in enumerate(zip(a, b)):
        if x == "stop" or y == "stop":
            if x != y:
                return "generator item %d: %r vs %r" % (i, x, y)
            continue
        if x[0] != y[0]:
            return "generator event %d particles %r (impl) vs %r (model)" % (i, x[0], y[0])
        if x[1] not in (y[1], y[1] - 1):
            return "generator count after event %d: %r (impl) vs %r (model)" % (i, x[1], y[1])
    return ""


def hist_items(items):
    return [[-1, -1] if it == "stop" else [-2, -2] if it == "iter" else [-3, -3] if isinstance(it, str) else it for it in items]


def hist_diff(q, impl_q, model_q):
    """Iterator histories: delivered fingerprints exactly; total_events_thrown may be one below the
    exact floor((i+1)*T/n) of the model because the code evaluates (i+1)/n*T in floating point."""
    if impl_q[0] != model_q[0]:
        return "%s: outcome %r (impl) vs %r (model)" % (describe_query(q), impl_q[:2], model_q[:2])
    if impl_q[0] == "err":
        return "" if impl_q[1] == model_q[1] else "%s: error %r (impl) vs %r (model)" % (describe_query(q), impl_q[1], model_q[1])
    a, b = hist_items(impl_q[1]), model_q[1]
    if len(a) != len(b):
        return "%s: %d outputs (impl) vs %d (model)" % (describe_query(q), len(a), len(b))
    for i, (x, y) in enumerate(zip(a, b)):
        if x[0] != y[0] or x[1] not in (y[1], y[1] - 1) or (y[1] < 0 and x[1] != y[1]):
            return "%s: output %d is %r (impl) vs %r (model)" % (describe_query(q), i, x, y)
    return ""


def compare(case, impl, model_str):
    """'' when implementation and model agree on the whole case, else the first difference."""
    try:
        cm_files, cm_q = canon_model(model_str)
    except Exception as e:
        return "cannot parse model output: %r: %s" % (e, model_str[:300])
    ci_files, ci_q = canon_impl(impl)
    d = diff(ci_files, cm_files, "files")
    if d:
        return d
    if len(ci_q) != len(cm_q):
        return "query count differs"
    for i, (q, x, y) in enumerate(zip(case.get("queries", []), ci_q, cm_q)):
        if q[0] == "gen":
            d = gen_diff(x, y)
        elif q[0] in ("hist", "hist2"):
            d = hist_diff(q, x, y)
        else:
            d = diff(x, y, "query[%d]=%s" % (i, describe_query(q)))
        if d:
            return d
    return ""


def eval_models(ctx, cases, chunk=6):
    return ctx.coq_eval_exprs(COQ_IMPORTS, [model_expr(c) for c in cases], chunk=chunk)


# ================================================================== shared check driver
import ast
import hashlib

PINNED = {"pyrex/io.py": ["HDF5Writer.add", "HDF5Writer._rollback", "HDF5Writer._preset_all_indices",
                          "HDF5Writer._write_indices", "HDF5Writer._write_particles", "HDF5Writer._write_trigger",
                          "HDF5Writer._check_trigger", "HDF5Writer._write_ray_data", "HDF5Writer._write_noise_data",
                          "HDF5Writer._write_waveforms", "HDF5Writer.open", "HDF5Writer.__init__",
                          "EventIterator.__init__", "EventIterator.__next__", "EventIterator._load_data",
                          "EventIterator._get_event_data", "HDF5Reader.__getitem__", "HDF5Reader.__iter__",
                          "HDF5Reader.__len__", "HDF5Reader.open", "HDF5Reader.get_waveforms", "HDF5Reader._get_table_slice",
                          "EventIterator.get_waveforms", "EventIterator.get_triggered_components", "EventIterator.get_data",
                          "EventIterator.__iter__", "EventIterator.total_events_thrown", "EventIterator.get_rays_info",
                          "EventIterator.get_particle_info", "EventIterator.triggered", "EventIterator.noise_bases",
                          "HDF5Writer.add_analysis_indices", "HDF5Writer.create_analysis_dataset"],
          "pyrex/generation.py": ["FileGenerator.__init__", "FileGenerator._load_events", "FileGenerator._next_file",
                                  "FileGenerator.create_event", "FileGenerator.count"]}


def ast_pins(repo):
    """Hash of the normalised AST (docstrings removed) of every hand-modelled function."""
    pins = {}
    for rel, names in PINNED.items():
        try:
            tree = ast.parse(open(os.path.join(repo, rel)).read())
        except Exception as e:
            pins[rel] = "unparsable: %r" % e
            continue
        for cls in [n for n in tree.body if isinstance(n, ast.ClassDef)]:
            for fn in [n for n in cls.body if isinstance(n, ast.FunctionDef)]:
                q = "%s.%s" % (cls.name, fn.name)
                if q not in names:
                    continue
                body = fn.body
                if body and isinstance(body[0], ast.Expr) and isinstance(getattr(body[0], "value", None), ast.Constant) \
                        and isinstance(body[0].value.value, str):
                    body = body[1:]
                txt = ast.dump(ast.Module(body=body, type_ignores=[]), annotate_fields=False) + ast.dump(fn.args)
                key = rel + ":" + q
                pins[key] = hashlib.md5((pins.get(key, "") + txt).encode()).hexdigest()
    return pins


def pins_changed(repo, root):
    cur = ast_pins(repo)
    try:
        ref = json.load(open(os.path.join(root, "harness", "io_pins.json")))
    except Exception:
        ref = {}
    return sorted(k for k in set(cur) | set(ref) if cur.get(k) != ref.get(k)), cur


def case_key(prefix, case):
    return prefix + ":" + hashlib.md5(json.dumps(case, sort_keys=True).encode()).hexdigest()[:16]


def split_equal(recs):
    """Append-split group: every file must READ BACK like the single-session file 0 (same adds
    accepted, same number of events, same data for every event through every accessor).
    Raw layout differences (dataset lengths, index starts, counters) are not judged here: they
    are compared with the model by the correspondence."""
    ref = recs[0]
    for i, r in enumerate(recs[1:], 1):
        if r.get("outcomes") != ref.get("outcomes"):
            return "the adds accepted when writing in several sessions (split %d) differ from the single-session run" % i
        if len(r.get("index", [])) != len(ref.get("index", [])):
            return "the file written in several sessions (split %d) holds %d events, the single-session file %d" % (
                i, len(r.get("index", [])), len(ref.get("index", [])))
        if r.get("events") != ref.get("events"):
            return "the events read from the file written in several sessions (split %d) differ from the single-session file" % i
        if r.get("thrown") != ref.get("thrown"):
            return "total_thrown of the file written in several sessions (split %d) is %s, single session %s" % (i, r.get("thrown"), ref.get("thrown"))
    return ""


def judge(case, impl, prop):
    """Property-level verdicts (independent of the Coq model) for one case: list of strings."""
    out = []
    if prop == "C11":
        for fc, rec in zip(case["files"], impl["files"]):
            v = oracle_c11(fc, rec)
            if v:
                out.append(v)
        for q, g in zip(case.get("queries", []), impl["queries"]):
            if q[0] in ("len", "wf", "wfev"):
                v = oracle_query(q, g, impl["files"], case["files"])
                if v:
                    out.append(v)
    else:
        for fi, (fc, rec) in enumerate(zip(case["files"], impl["files"])):
            exp_a = rec.get("analysis_expected")
            if exp_a is not None and rec.get("analysis_obs") is not None and records_particles(fc["opts"]):
                for i, (a, w) in enumerate(zip(rec["analysis_obs"], exp_a)):
                    if a != w:
                        out.append("sequential pass (default slice_range) of file %d: analysis dataset of event %d reads %s, stored for it: %s"
                                   % (fi, i, json.dumps(a)[:160], json.dumps(w)[:160]))
                        break
        for q, g in zip(case.get("queries", []), impl["queries"]):
            v = oracle_query(q, g, impl["files"], case["files"])
            if v:
                out.append(v)
        if case.get("split_group") and all(r["ctor"] is None for r in impl["files"]) and records_particles(case["files"][0]["opts"]):
            v = split_equal(impl["files"])
            if v:
                out.append(v)
    return out


def shrink(case, fails, budget=30):
    """Greedy reduction of a failing case: drop queries, files, adds while `fails(case)` holds."""
    import copy
    best = copy.deepcopy(case)
    used = [0]

    def attempt(c):
        if used[0] >= budget:
            return False
        used[0] += 1
        try:
            return bool(fails(c))
        except Exception:
            return False
    # queries: keep one failing query if possible
    qs = best.get("queries", [])
    if len(qs) > 1:
        for q in list(qs):
            c = copy.deepcopy(best)
            c["queries"] = [q]
            if attempt(c):
                best = c
                break
    # iterator histories: drop ops of the failing history one at a time
    if len(best.get("queries", [])) == 1 and best["queries"][0][0] == "hist2":
        changed = True
        while changed and used[0] < budget:
            changed = False
            for oi in reversed(range(len(best["queries"][0][5]))):
                if len(best["queries"][0][5]) <= 1:
                    break
                c = copy.deepcopy(best)
                del c["queries"][0][5][oi]
                if attempt(c):
                    best = c
                    changed = True
    if len(best.get("queries", [])) == 1 and best["queries"][0][0] == "hist":
        changed = True
        while changed and used[0] < budget:
            changed = False
            for oi in reversed(range(len(best["queries"][0][7]))):
                if len(best["queries"][0][7]) <= 1:
                    break
                c = copy.deepcopy(best)
                del c["queries"][0][7][oi]
                del c["queries"][0][8:]
                if attempt(c):
                    best = c
                    changed = True
    # split groups: look for a single (single-session file, split file) pair that still fails
    if best.get("split_group") and len(best["files"]) > 2:
        for fi in range(1, len(best["files"])):
            c = copy.deepcopy(best)
            c["files"] = [c["files"][0], c["files"][fi]]
            c["queries"] = [[q[0], (0 if q[1] == 0 else 1)] + q[2:] for q in c.get("queries", []) if q[0] != "gen" and q[1] in (0, fi)]
            if attempt(c):
                best = c
                break
    # files: keep file 0 (reference of split groups / generator lists) and drop others one at a time
    if len(best["files"]) > 2 and not any(q[0] == "gen" for q in best.get("queries", [])):
        for fi in reversed(range(1, len(best["files"]))):
            if len(best["files"]) <= 2:
                break
            c = copy.deepcopy(best)
            del c["files"][fi]
            c["queries"] = [q for q in c.get("queries", []) if q[1] != fi]
            c["queries"] = [[q[0], q[1] - (1 if q[1] > fi else 0)] + q[2:] for q in c["queries"]]
            if attempt(c):
                best = c
    changed = True
    while changed and used[0] < budget:
        changed = False
        for fi in range(len(best["files"])):
            for si in range(len(best["files"][fi]["sessions"])):
                for ai in reversed(range(len(best["files"][fi]["sessions"][si]))):
                    c = copy.deepcopy(best)
                    del c["files"][fi]["sessions"][si][ai]
                    if attempt(c):
                        best = c
                        changed = True
    return best


def run_batch(ctx, cases, prop, stats, query_gen=None, with_model=True, label=""):
    """Run implementation (+ model) on the cases, compare, judge.  Returns the list of
    (case, kind, message) problems, kind in {'property', 'corr'}."""
    import time as _time
    problems = []
    impls = []
    _t0 = _time.time()
    for i, case in enumerate(cases):
        impl = run_impl(case, ctx.scratch, tag="%s%d" % (label, i), query_gen=query_gen)
        impls.append(impl)
        _stats(stats, case, impl)
    outs = None
    _t1 = _time.time()
    if with_model:
        try:
            outs = eval_models(ctx, cases)
        except RuntimeError as e:
            stats["model_eval_error"] = str(e)[-800:]
    stats.setdefault("timing_s", []).append({"batch": label, "cases": len(cases), "implementation": round(_t1 - _t0, 1),
                                              "model": round(_time.time() - _t1, 1)})
    for i, (case, impl) in enumerate(zip(cases, impls)):
        nontrivial = any(r["ctor"] is None and "ok" in r["outcomes"] for r in impl["files"])
        ctx.case(key=case_key(prop, case), nontrivial=nontrivial,
                 sample={"opts": case["files"][0]["opts"], "det": case["files"][0]["det"],
                         "outcomes": impl["files"][0]["outcomes"][:12], "n_queries": len(case.get("queries", []))})
        for q in case.get("queries", []):
            if q[0] in ("hist", "hist2"):
                ctx.case(key=("hist", i, json.dumps(q[:8])), nontrivial=True)
        for v in judge(case, impl, prop):
            problems.append((case, "property", v))
            break
        if outs is not None:
            d = compare(case, impl, outs[i])
            if d:
                problems.append((case, "corr", d))
    return problems


def _stats(stats, case, impl):
    for fc, rec in zip(case["files"], impl["files"]):
        stats["files"] = stats.get("files", 0) + 1
        if rec["ctor"] is not None:
            stats["ctor_rejected"] = stats.get("ctor_rejected", 0) + 1
            continue
        o = fc["opts"]
        bits = sum(1 << i for i, k in enumerate(OKEYS) if o["write_" + k])
        stats.setdefault("write_option_combos", set()).add(bits)
        stats.setdefault("require_trigger_forms", set()).add(json.dumps(o["require_trigger"]))
        stats.setdefault("detector_sizes", set()).add(fc["det"])
        stats["sessions_max"] = max(stats.get("sessions_max", 0), len(fc["sessions"]))
        if fc.get("nodet"):
            stats["files_without_detector"] = stats.get("files_without_detector", 0) + 1
        stats["adds_max"] = max(stats.get("adds_max", 0), len(rec["outcomes"]))
        stats["adds"] = stats.get("adds", 0) + len(rec["outcomes"])
        for a, oc in zip(all_adds(fc), rec["outcomes"]):
            stats.setdefault("outcomes", {})
            stats["outcomes"][oc] = stats["outcomes"].get(oc, 0) + 1
            kind = ("fault:" + a["fault"]) if a.get("fault") else ("pols:" + (a["pols"] if isinstance(a["pols"], str) else a["pols"][0])) if a.get("pols", "ok") != "ok" else \
                ("trig:" + ("none" if a["trig"] is None else "bad" if a["trig"] == "bad" else "bool" if isinstance(a["trig"], bool) else
                            ("dict-noglobal" if a["trig"].get("g") is None else "dict-perwave" if any(isinstance(v, list) for _, v in a["trig"].get("x", [])) else "dict")))
            stats.setdefault("add_kinds", {})
            stats["add_kinds"][kind] = stats["add_kinds"].get(kind, 0) + 1
        if rec["outcomes"] and rec["outcomes"][-1] != "ok":
            stats["files_ending_with_rejected_add"] = stats.get("files_ending_with_rejected_add", 0) + 1
    for q in case.get("queries", []):
        stats.setdefault("queries", {})
        stats["queries"][q[0]] = stats["queries"].get(q[0], 0) + 1


def finish_stats(ctx, stats):
    out = {}
    for k, v in stats.items():
        out[k] = sorted(v, key=str) if isinstance(v, set) else v
    if "write_option_combos" in out:
        out["write_option_combos"] = "%d of the 48 valid combinations" % len(out["write_option_combos"])
    ctx.extra["input_distribution"] = out


def report(ctx, prop, problems, fails_property, fails_corr):
    """Turn problems into obligations / failures (with shrinking)."""
    corr = [p for p in problems if p[1] == "corr"]
    propv = [p for p in problems if p[1] == "property"]
    ctx.oblige("corr:IOModel-vs-pyrex", not corr and "model_eval_error" not in ctx.extra.get("input_distribution", {}),
               "; ".join(p[2][:300] for p in corr[:3]) or ctx.extra.get("input_distribution", {}).get("model_eval_error", ""))
    seen = 0
    for case, _, msg in propv[:(3 if ctx.thorough else 2)]:
        small = shrink(case, fails_property, budget=(30 if ctx.thorough else 10))
        vs = fails_property(small) or [msg]
        ctx.fail(case_key(prop.lower(), small), vs[0], {"kind": "case", "prop": prop, "case": small, "what": vs[0]}, witness=True)
        seen += 1
    if corr and not propv:
        case, _, msg = corr[0]
        small = shrink(case, fails_corr, budget=(12 if ctx.thorough else 3)) if fails_corr else case
        ctx.extra["corr_counterexample"] = {"case": small, "difference": msg}
        ctx.fail(case_key(prop.lower() + "-corr", small), "model and implementation disagree: " + msg[:400],
                 {"kind": "case", "prop": prop, "case": small, "what": "model/implementation disagreement: " + msg}, witness=False)


def replay_case(ctx, obj, prop):
    case = obj["case"]
    impl = run_impl(case, ctx.scratch, tag="replay")
    print("implementation:")
    for i, r in enumerate(impl["files"]):
        print("  file %d: ctor=%s outcomes=%s" % (i, r["ctor"], r["outcomes"]))
        if r["ctor"] is None:
            print("    index=%s nrows=%s thrown=%s" % (r["index"], r["nrows"], r["thrown"]))
            print("    events=%s" % json.dumps(r["events"])[:1500])
    for q, g in zip(case.get("queries", []), impl["queries"]):
        print("  query %s -> %s" % (q, json.dumps(g)[:300]))
    verdicts = judge(case, impl, prop)
    try:
        out = eval_models(ctx, [case])[0]
        print("model: " + out[:3000])
        d = compare(case, impl, out)
        print("model vs implementation: " + (d or "agree"))
    except Exception as e:
        d = "model not evaluated: %s" % str(e)[-300:]
        print(d)
    for v in verdicts:
        print("PROPERTY FAILS: " + v)
    if not verdicts:
        print("property holds on this input")
    return 1 if (verdicts or d) else 0
