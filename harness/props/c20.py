"""C20: package uses only library interfaces present in its declared dependency range."""
import importlib
import json
import os
import subprocess
import sys

from harness import common
from harness.common import REPO, ROOT, COQ

SUBPACKAGES = ["pyrex", "pyrex.custom.layered_ice", "pyrex.custom.pyspice",
               "pyrex.custom.ara", "pyrex.custom.arianna", "pyrex.custom.irex"]
NAME_ERRORS = ("AttributeError", "ImportError", "ModuleNotFoundError", "NameError")


def gen_files(scratch):
    """Regenerate the Coq inputs of this property from the current source.
    Returns ({gen name: content}, sidecar data); raises on translation failure."""
    out_json = os.path.join(scratch, "refs.json")
    tmp_v = os.path.join(scratch, "Gen_refs.v")
    rc, out = common.sh([sys.executable, "-W", "ignore", os.path.join(ROOT, "tools", "refs.py"), REPO, tmp_v, out_json])
    if rc:
        raise RuntimeError(out[-1500:])
    return {"Gen_refs": open(tmp_v).read()}, json.load(open(out_json))


def gen(ctx):
    try:
        files, data = gen_files(ctx.scratch)
    except Exception as e:
        ctx.oblige("gen:refs", False, str(e))
        return None
    for k, v in files.items():
        ctx.write_gen(k, v)
    ctx.oblige("gen:refs", True)
    return data


def py_resolve(chain):
    parts = chain.split(".")
    try:
        cur = importlib.import_module(parts[0])
    except Exception as e:
        return False, "cannot import %s: %r" % (parts[0], e)
    for i in range(1, len(parts)):
        if hasattr(cur, parts[i]):
            cur = getattr(cur, parts[i])
            continue
        try:
            cur = importlib.import_module(".".join(parts[:i + 1]))
        except Exception as e:
            return False, "%s has no attribute %r" % (".".join(parts[:i]), parts[i])
    return True, ""


def import_probe(ctx):
    """Dynamic complement: import the package and each sub-package in a fresh process."""
    env = dict(os.environ)
    for mod in SUBPACKAGES:
        code = ("import sys, traceback\n"
                "try:\n    import %s\n    print('OK')\n"
                "except BaseException as e:\n"
                "    tb = traceback.extract_tb(e.__traceback__)\n"
                "    print('EXC', type(e).__name__, '|', str(e)[:300].replace('\\n',' '), '|', tb[-1].filename, tb[-1].lineno)\n" % mod)
        rc, out = common.sh([sys.executable, "-W", "ignore", "-c", code], env=env, timeout=300)
        last = [l for l in out.strip().split("\n") if l.startswith(("OK", "EXC"))]
        last = last[-1] if last else "EXC Unknown | %s" % out[-200:]
        ctx.case(key=("import", mod), sample={"import": mod, "result": last[:200]})
        if last.startswith("OK"):
            continue
        kind = last.split()[1]
        if kind in NAME_ERRORS:
            ctx.fail("import:%s:%s" % (mod, last[4:120]), "import %s fails: %s" % (mod, last),
                     {"kind": "import", "module": mod, "result": last})
        else:
            # data files of ara/arianna/irex are empty in this sandbox: not a name problem
            ctx.extra.setdefault("imports_blocked_by_missing_data", []).append({"module": mod, "error": last[:200]})


def plugin_probe(ctx):
    """Import-time clause with the documented plug-in configuration: a non-empty ./pyrex-custom and
    ~/.pyrex-custom (pyrex/__init__.py scans them at import; with no plug-in directory that loop body
    never runs, so the plain import probe cannot see a bad name inside it)."""
    base = os.path.join(ctx.scratch, "plugins")
    home, cwd = os.path.join(base, "home"), os.path.join(base, "cwd")
    for root, plug, mod in ((os.path.join(home, ".pyrex-custom"), "global-plug", "verif_global_plugin"),
                            (os.path.join(cwd, "pyrex-custom"), "local-plug", "verif_local_plugin")):
        d = os.path.join(root, plug, "custom")
        os.makedirs(d, exist_ok=True)
        open(os.path.join(d, mod + ".py"), "w").write("MARKER = %r\n" % mod)
        open(os.path.join(root, "stray_file.txt"), "w").write("not a directory\n")
    code = ("import traceback\n"
            "try:\n"
            "    import pyrex\n"
            "    import pyrex.custom.verif_global_plugin as g, pyrex.custom.verif_local_plugin as l\n"
            "    assert g.MARKER == 'verif_global_plugin' and l.MARKER == 'verif_local_plugin'\n"
            "    import pyrex.custom.layered_ice\n"
            "    print('OK')\n"
            "except BaseException as e:\n"
            "    tb = traceback.extract_tb(e.__traceback__)\n"
            "    print('EXC', type(e).__name__, '|', str(e)[:300].replace('\\n',' '), '|', tb[-1].filename, tb[-1].lineno)\n")
    env = dict(os.environ, HOME=home)
    rc, out = common.sh([sys.executable, "-W", "ignore", "-c", code], env=env, cwd=cwd, timeout=300)
    last = [l for l in out.strip().split("\n") if l.startswith(("OK", "EXC"))]
    last = last[-1] if last else "EXC Unknown | %s" % out[-300:]
    ctx.case(key=("import-with-plugins",), sample={"import": "pyrex with ~/.pyrex-custom and ./pyrex-custom plug-ins", "result": last[:200]})
    if not last.startswith("OK"):
        ctx.fail("import-plugins:" + last[4:120], "import pyrex with the documented plug-in directories present fails: %s" % last,
                 {"kind": "import_plugins", "result": last})


def run(ctx):
    ctx.rule = ("every dotted reference (import alias + attribute chain, from-import names) into numpy/scipy/h5py/"
                "stdlib/pyrex in every .py under pyrex/ is enumerated by tools/refs.py and resolved inside Coq against "
                "dir() of the installed libraries; non-trivial = distinct chains; plus one fresh-process import per sub-package")
    ctx.trusted += ["Coq 8.16.1 kernel, vm_compute (finite reflective check)", "tools/refs.py (AST walk, alias resolution, dir() introspection)",
                    "Lib/CompatTable.v: hand-written list of names absent from part of the declared range (incomplete)"]
    ctx.assumptions += ["decides the installed versions (numpy/scipy/h5py/python of /venv) plus the hand-written version table",
                        "attribute access on values of statically unknown type (methods of arrays, h5py objects) is not resolved",
                        "pyrex-internal references are resolved to module-level names only"]
    data = gen(ctx)
    ok = ctx.coq_build("C20")
    if data:
        ctx.extra["refs_total"] = len(data["refs"])
        ctx.extra["dynamic_guarded_refs"] = data["dynamic"]
        ctx.extra["skipped_refs"] = data["skipped"]
        ctx.extra["untracked_modules"] = data["open_modules"]
        ctx.extra["exhaustive"] = True
        for r in data["refs"]:
            ctx.case(key=r["chain"], sample=r)
        # search for a concrete failing reference (always cheap; decides the witness)
        for r in data["refs"]:
            if r["chain"].split(".")[0] == "pyrex":
                continue
            good, why = py_resolve(r["chain"])
            if not good:
                ctx.fail("ref:" + r["chain"], "%s referenced at %s does not exist: %s" % (r["chain"], r["loc"], why),
                         {"kind": "ref", **r})
        if not ok:
            # pyrex-internal or restricted names: find them from the generated data
            env = data["env"]
            for r in data["refs"]:
                parts = r["chain"].split(".")
                if parts[0] != "pyrex":
                    continue
                for i in range(1, len(parts)):
                    pre = ".".join(parts[:i])
                    if pre in data["open_modules"]:
                        break
                    if pre in env:
                        if parts[i] not in env[pre]:
                            ctx.fail("ref:" + r["chain"], "%s referenced at %s: %s has no name %r" % (r["chain"], r["loc"], pre, parts[i]),
                                     {"kind": "ref", **r})
                            break
                    else:
                        break
            restricted = _restricted()
            for r in data["refs"]:
                parts = r["chain"].split(".")
                if any(parts[:len(p)] == p for p in restricted):
                    ctx.fail("restricted:" + r["chain"], "%s at %s is not available across the declared dependency range" % (r["chain"], r["loc"]),
                             {"kind": "restricted", **r})
        removed = _removed_methods()
        for a, loc in data.get("method_names", {}).items():
            if a in removed:
                ctx.fail("method:" + a, "attribute .%s used at %s was removed from numpy/h5py/builtins inside the declared range" % (a, loc),
                         {"kind": "method", "name": a, "loc": loc})
        for p in data.get("unpackaged_dirs", []):
            ctx.fail("unpackaged:" + p, "directory %s contains modules but is not listed in setup.py packages" % p, {"kind": "unpackaged", "dir": p})
        for u in data["undeclared"]:
            ctx.fail("undeclared:" + u[0], "module %s imported at %s is neither stdlib, declared nor a guarded documented optional" % tuple(u),
                     {"kind": "undeclared", "module": u[0], "loc": u[1]})
    import_probe(ctx)
    plugin_probe(ctx)


def _restricted():
    import re
    src = open(os.path.join(COQ, "Lib", "CompatTable.v")).read()
    src = common.strip_coq_comments(src)
    body = src.split("restricted", 1)[1].split(":=", 1)[1].split("].", 1)[0]
    return [re.findall(r'"([^"]+)"', m) for m in re.findall(r"\[([^\[\]]+)\]", body)]


def _removed_methods():
    import re
    src = common.strip_coq_comments(open(os.path.join(COQ, "Lib", "CompatTable.v")).read())
    body = src.split("removed_methods", 1)[1].split(":=", 1)[1].split("].", 1)[0]
    return set(re.findall(r'"([^"]+)"', body))


def replay(ctx, obj):
    if obj.get("kind") == "ref":
        good, why = py_resolve(obj["chain"])
        print("reference %s (%s): %s" % (obj["chain"], obj.get("loc"), "resolves" if good else "FAILS: " + why))
        return 0 if good else 1
    if obj.get("kind") == "import_plugins":
        plugin_probe(ctx)
        print("failures:", [f["what"] for f in ctx.failures] or "none")
        return 1 if ctx.failures else 0
    if obj.get("kind") == "import":
        rc, out = common.sh([sys.executable, "-c", "import %s" % obj["module"]])
        print(out[-800:] or "import ok")
        return 1 if rc else 0
    print(json.dumps(obj, indent=1))
    return 1
