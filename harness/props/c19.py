"""C19: Detector composition visits every antenna once; triggers and clears as the union.

Theorems: coq/Props/C19.v over coq/Model/DetectorModel.v (all detector trees).
Tie: random histories (construction of harness-defined Detector subclasses, +, +=, sum,
build_antennas, hit scripting, iteration/len/indexing, triggered, clear) are run on the
real pyrex.detector classes and on the model (vm_compute of DetectorModel.run) and
compared exactly.  Search: statement-level probe with an oracle independent of pyrex's
flatten (the leaves in construction order are known from how the harness built the tree).
"""
import itertools
import json
import operator
import os
import re

from harness import common

IMPORTS = ("From Coq Require Import List ZArith Bool.\nImport ListNotations.\n"
           "From PyrexModel Require Import DetectorModel.\nOpen Scope Z_scope.\n")

# keyword codes (0 and 1 are fixed by the model)
KEYS = {0: "antenna_class", 1: "require_mc_truth", 4: "thr", 5: "power", 6: "gain", 7: "req", 8: "foo"}
KCODE = {v: k for k, v in KEYS.items()}
# antenna_class codes: 0, 1 stub antennas; 2, 3 real pyrex Antenna (quiet / loud noise); 4, 5 real AntennaSystem
ACLS = [0, 1, 2, 2, 3, 4, 4, 5]

# harness-defined Detector subclasses: base (set_positions fills antenna_positions) or
# composite (fills subsets), optional build_antennas / triggered overrides with the listed
# (key, default) parameters, test_antenna_positions flag
CLASSES = [
    dict(base=True, build=None, trig=None, flag=True),                                   # 0 string
    dict(base=False, build=None, trig=None, flag=True),                                  # 1 station
    dict(base=True, build=[(0, 0), (5, 7)], trig=([(4, 0), (1, 0)], False), flag=True),  # 2
    dict(base=True, build=[(0, 1), (6, 3)], trig=([(4, 0)], False), flag=True),          # 3 trigger without require_mc_truth
    dict(base=False, build=None, trig=([(7, 1), (1, 0)], True), flag=True),              # 4 composite, trigger with **kw
    dict(base=True, build=None, trig=None, flag=False),                                  # 5 positions not tested
    dict(base=False, build=[(0, 0), (5, 7), (6, 3)], trig=None, flag=True),              # 6 composite with build override
    dict(base=True, build=[(0, 0), (5, 7)], trig=([(4, 0), (1, 0)], False), flag=True),  # 7 same signatures as 2
]


def coq_class_table():
    def kl(l):
        return "[" + "; ".join("(%d, %d)" % kv for kv in l) + "]"
    rows = []
    for i, c in enumerate(CLASSES):
        b = "None" if c["build"] is None else "(Some %s)" % kl(c["build"])
        t = "None" if c["trig"] is None else "(Some (%s, %s))" % (kl(c["trig"][0]), "true" if c["trig"][1] else "false")
        rows.append("  | %d => mkcls %s %s %s" % (i, b, t, "true" if c["flag"] else "false"))
    return ("Definition ct : cls_table := fun c => match c with\n" + "\n".join(rows) +
            "\n  | _ => mkcls None None true\n  end.\n")


# ------------------------------------------------------------------ implementation side
class World:
    """Harness-side objects of one history: log, registry of the current stub antennas."""

    def __init__(self):
        import pyrex.detector as D
        self.D = D
        self.log = []
        self.reg = {}
        world = self
        import numpy
        numpy.random.seed(20261001)      # thermal noise of the real leaves (outcomes do not depend on it)

        import numpy as np
        from pyrex.antenna import Antenna
        from pyrex.signals import Signal
        self.kind = {}          # aid -> 'stub' | 'quiet' | 'loud'
        times = np.linspace(0, 63e-9, 64)

        class ThrBase(Antenna):
            """real pyrex Antenna with a threshold trigger on |V|; thermal noise far below (quiet) or far
            above (loud) the threshold, so that is_hit / is_hit_mc_truth are decided by what it received"""
            thr = 0.5

            def trigger(self, signal):
                return bool(np.max(np.abs(signal.values)) > self.thr)

        class ThrLeaf(ThrBase):
            silent = False

            def clear(self, reset_noise=False):
                if not self.silent:
                    world.log.append(("LClear", self.aid, int(reset_noise)))
                super().clear(reset_noise=reset_noise)

        class SysLeaf(D.AntennaSystem):
            """real AntennaSystem (identity front end) around a threshold antenna"""
            silent = False

            def __init__(self, position, rms):
                super().__init__(ThrBase)
                self.setup_antenna(position=position, noisy=True, noise_rms=rms, freq_range=(100e6, 400e6),
                                   unique_noise_waveforms=2)

            def clear(self, reset_noise=False):
                if not self.silent:
                    world.log.append(("LClear", self.aid, int(reset_noise)))
                super().clear(reset_noise=reset_noise)

        def real_leaf(code, position):
            """antenna_class codes 2..5: Antenna quiet / loud, AntennaSystem quiet / loud"""
            rms = 1e-3 if code in (2, 4) else 100.0
            pos = tuple(float(x) for x in position)
            if code in (2, 3):
                a = ThrLeaf(position=pos, noisy=True, noise_rms=rms, freq_range=(100e6, 400e6), unique_noise_waveforms=2)
            else:
                a = SysLeaf(pos, rms)
            a.aid = int(position[0])
            world.kind[a.aid] = "quiet" if code in (2, 4) else "loud"
            return a

        def set_hit(a, hit, mc):
            """script the hit pattern of a leaf; for real leaves by what they receive"""
            k = world.kind.get(a.aid, "stub")
            if k == "stub":
                a.is_hit, a.is_hit_mc_truth = hit, mc
                return
            if (hit, mc) not in ([(False, False), (True, True)] if k == "quiet" else [(False, False), (True, False)]):
                raise ValueError("hit pattern %r not producible on a %s antenna" % ((hit, mc), k))
            a.silent = True
            a.clear()
            a.silent = False
            if hit:
                amp = 1.0 if k == "quiet" else 0.1
                a.receive(Signal(times, np.full(len(times), amp), value_type=Signal.Type.voltage))
        self.real_leaf, self.set_hit = real_leaf, set_hit

        class V(int):
            """keyword/positional argument value; callable so that it can serve as antenna_class
            (0, 1 and >= 6: stub antennas; 2..5: real pyrex Antenna / AntennaSystem leaves)"""
            def __call__(self, *args, position=None, **kw):
                if 2 <= int(self) <= 5:
                    a = real_leaf(int(self), position)
                else:
                    a = StubAnt(position)
                world.reg[a.aid] = a
                world.log.append(("LAnt", a.aid, int(self), [int(x) for x in args],
                                  [(KCODE[k], int(v)) for k, v in kw.items()]))
                return a

        class StubAnt:
            def __init__(self, position):
                self.position = tuple(position)
                self.aid = int(position[0])
                self.is_hit = False
                self.is_hit_mc_truth = False
                world.kind[self.aid] = "stub"

            def clear(self, reset_noise=False):
                world.log.append(("LClear", self.aid, int(reset_noise)))
                self.is_hit = False
                self.is_hit_mc_truth = False

        self.V, self.StubAnt = V, StubAnt
        self.classes = [self._make_class(i, c) for i, c in enumerate(CLASSES)]

    def is_leaf(self, x):
        return hasattr(x, "aid") and not isinstance(x, (list, self.D.Detector))

    def _make_class(self, ci, spec):
        V, D, world = self.V, self.D, self
        src = ["class H%d(Detector):" % ci, "    test_antenna_positions = %r" % spec["flag"]]
        if spec["base"]:
            src += ["    def set_positions(self, pos):",
                    "        for aid, z in pos:",
                    "            self.antenna_positions.append((aid, 0, z))"]
        else:
            src += ["    def set_positions(self, subs):", "        self.subsets.extend(subs)"]
        if spec["build"] is not None:
            ps = spec["build"]
            params = ", ".join("%s=V(%d)" % (KEYS[k], d) for k, d in ps)
            named = ", ".join("(%d, int(%s))" % (k, KEYS[k]) for k, d in ps)
            fwd = ", ".join("%s=%s" % (KEYS[k], KEYS[k]) for k, d in ps)
            src += ["    def build_antennas(self, %s):" % params,
                    "        world.log.append(('LBuildCall', self.oid, [%s]))" % named,
                    "        Detector.build_antennas(self, %s)" % fwd]
        if spec["trig"] is not None:
            ps, vk = spec["trig"]
            params = ", ".join("%s=V(%d)" % (KEYS[k], d) for k, d in ps) + (", **kw" if vk else "")
            named = ", ".join("(%d, int(%s))" % (k, KEYS[k]) for k, d in ps)
            extra = "[(KCODE[k], int(v)) for k, v in kw.items()]" if vk else "[]"
            mc = "bool(require_mc_truth)" if any(k == 1 for k, _ in ps) else "False"
            src += ["    def triggered(self, %s):" % params,
                    "        world.log.append(('LTrigCall', self.oid, [%s], %s))" % (named, extra),
                    "        return Detector.triggered(self, require_mc_truth=%s)" % mc]
        ns = {"Detector": D.Detector, "V": V, "world": world, "KCODE": KCODE}
        exec("\n".join(src), ns)
        return ns["H%d" % ci]


def err_of(e):
    if isinstance(e, TypeError):
        msg = e.args[0] if e.args else ""
        if isinstance(msg, str) and "got an unexpected keyword argument" in msg:
            kw = msg.split("'")[1]
            if kw in KCODE:
                return ("EKw", KCODE[kw])
        return ("EType",)
    if isinstance(e, ValueError):
        return ("EValue",)
    if isinstance(e, IndexError):
        return ("EIndex",)
    if isinstance(e, NotImplementedError):
        return ("ENotImpl",)
    # any other exception is an outcome the model never produces: reported as a mismatch
    return ("EOther_" + type(e).__name__,)


def descendants(world, x, out=None):
    out = [] if out is None else out
    if isinstance(x, world.D.Detector):
        for s in x.subsets:
            out.append(s)
            descendants(world, s, out)
    return out


def exec_op(world, env, op):
    """Run one op on the implementation; returns the canonical output (nested tuples)."""
    D, V = world.D, world.V
    kind = op[0]

    def avail(*idx):
        return all(0 <= i < len(env) and env[i] is not None for i in idx)

    def kwd(kw):
        return {KEYS[k]: V(v) for k, v in kw}

    if kind in ("ONewBase", "ONewComp"):
        _, oid, c, arg = op
        if kind == "ONewComp":
            if not avail(*arg):
                env.append(None)
                return ("OutSkip",)
            arg = [env[i] for i in arg]
        try:
            obj = world.classes[c](list(arg))
        except Exception as e:
            env.append(None)
            return ("OutErr", err_of(e))
        obj.oid = oid
        env.append(obj)
        return ("OutOk",)
    if kind == "OAnt":
        # every third standalone antenna is a real pyrex Antenna (quiet threshold antenna)
        a = world.real_leaf(2, (op[1][0], 0, op[1][1])) if op[1][0] % 3 == 0 else world.StubAnt((op[1][0], 0, op[1][1]))
        world.reg[a.aid] = a
        env.append(a)
        return ("OutOk",)
    if kind == "OList":
        l = [world.StubAnt((aid, 0, z)) for aid, z in op[1]]
        for a in l:
            world.reg[a.aid] = a
        env.append(l)
        return ("OutOk",)
    if kind == "OAdd":
        _, i, j = op
        if not avail(i, j):
            env.append(None)
            return ("OutSkip",)
        try:
            r = env[i] + env[j]
        except Exception as e:
            env.append(None)
            return ("OutErr", err_of(e))
        env.append(r)
        return ("OutOk",)
    if kind == "OSum":
        if not avail(*op[1]):
            env.append(None)
            return ("OutSkip",)
        try:
            r = sum([env[i] for i in op[1]])
        except Exception as e:
            env.append(None)
            return ("OutErr", err_of(e))
        env.append(r)
        return ("OutOk",)
    if kind == "OIadd":
        _, i, j = op
        if not avail(i, j):
            return ("OutSkip",)
        try:
            env[i] = operator.iadd(env[i], env[j])
        except Exception as e:
            return ("OutErr", err_of(e))
        return ("OutOk",)
    if kind == "OBuild":
        _, i, args, kw = op
        if not avail(i):
            return ("OutSkip",)
        world.log = []
        try:
            env[i].build_antennas(*[V(a) for a in args], **kwd(kw))
            r = ("Ok", True)
        except Exception as e:
            r = ("Err", err_of(e))
        return ("OutLog", r, list(world.log))
    if kind == "OSetHit":
        _, aid, hit, mc = op
        world.set_hit(world.reg[aid], hit, mc)
        return ("OutOk",)
    if kind == "OObs":
        _, i, idx = op
        if not avail(i):
            return ("OutSkip",)
        x = env[i]
        if isinstance(x, list):
            ants = list(x)
        elif world.is_leaf(x):
            ants = [x]
        else:
            ants = list(x)                  # Detector.__iter__
        items = []
        for k in idx:
            try:
                it = x[k] if not world.is_leaf(x) else [x][k]
                items.append(("Ok", getattr(it, "aid", -998)))
            except Exception as e:
                items.append(("Err", err_of(e)))
        n = len(x) if not world.is_leaf(x) else 1
        # iteration visits distinct objects exactly when the ids are distinct
        ids = [getattr(a, "aid", -998) for a in ants]     # -998: iteration yielded something that is not an antenna
        if len(set(map(id, ants))) != len(set(ids)):
            ids = ids + [-999]
        return ("OutObs", ids, n, items)
    if kind == "OTrig":
        _, i, args, kw = op
        if not avail(i):
            return ("OutSkip",)
        world.log = []
        try:
            r = ("Ok", bool(env[i].triggered(*[V(a) for a in args], **kwd(kw))))
        except Exception as e:
            r = ("Err", err_of(e))
        return ("OutLog", r, list(world.log))
    if kind == "OClear":
        _, i, reset = op
        if not avail(i):
            return ("OutSkip",)
        world.log = []
        try:
            env[i].clear(reset_noise=V(reset))
            r = ("Ok", True)
        except Exception as e:
            r = ("Err", err_of(e))
        return ("OutLog", r, list(world.log))
    raise ValueError(kind)


# ------------------------------------------------------------------ Coq syntax
def zl(x):
    return str(x) if x >= 0 else "(%d)" % x


def lst(items):
    return "[" + "; ".join(items) + "]"


def pairs(l):
    return lst("(%s, %s)" % (zl(a), zl(b)) for a, b in l)


def op_coq(op):
    k = op[0]
    if k == "ONewBase":
        return "ONewBase %s %s %s" % (zl(op[1]), zl(op[2]), pairs(op[3]))
    if k == "ONewComp":
        return "ONewComp %s %s %s" % (zl(op[1]), zl(op[2]), lst("%d%%nat" % i for i in op[3]))
    if k == "OAnt":
        return "OAnt (%s, %s)" % (zl(op[1][0]), zl(op[1][1]))
    if k == "OList":
        return "OList %s" % pairs(op[1])
    if k in ("OAdd", "OIadd"):
        return "%s %d%%nat %d%%nat" % (k, op[1], op[2])
    if k == "OSum":
        return "OSum %s" % lst("%d%%nat" % i for i in op[1])
    if k == "OBuild":
        return "OBuild %d%%nat %s %s" % (op[1], lst(zl(a) for a in op[2]), pairs(op[3]))
    if k == "OSetHit":
        return "OSetHit %s %s %s" % (zl(op[1]), "true" if op[2] else "false", "true" if op[3] else "false")
    if k == "OObs":
        return "OObs %d%%nat %s" % (op[1], lst(zl(a) for a in op[2]))
    if k == "OTrig":
        return "OTrig %d%%nat %s %s" % (op[1], lst(zl(a) for a in op[2]), pairs(op[3]))
    if k == "OClear":
        return "OClear %d%%nat %s" % (op[1], zl(op[2]))
    raise ValueError(k)


def out_coq(o):
    """Text of an implementation-side output in the syntax vm_compute prints for [out]."""
    def e(x):
        return "EKw %s" % zl(x[1]) if x[0] == "EKw" else x[0]

    def res(r, f):
        return "Ok %s" % f(r[1]) if r[0] == "Ok" else "Err (%s)" % e(r[1])

    def ent(x):
        if x[0] == "LAnt":
            return "LAnt %s %s %s %s" % (zl(x[1]), zl(x[2]), lst(zl(a) for a in x[3]), pairs(x[4]))
        if x[0] == "LBuildCall":
            return "LBuildCall %s %s" % (zl(x[1]), pairs(x[2]))
        if x[0] == "LTrigCall":
            return "LTrigCall %s %s %s" % (zl(x[1]), pairs(x[2]), pairs(x[3]))
        if x[0] == "LClear":
            return "LClear %s %s" % (zl(x[1]), zl(x[2]))
        raise ValueError(x)
    k = o[0]
    if k in ("OutOk", "OutSkip"):
        return k
    if k == "OutErr":
        return "OutErr (%s)" % e(o[1])
    if k == "OutObs":
        return "OutObs %s %s %s" % (lst(zl(a) for a in o[1]), zl(o[2]), lst(res(r, zl) for r in o[3]))
    if k == "OutLog":
        return "OutLog (%s) %s" % (res(o[1], lambda b: "true" if b else "false"), lst(ent(x) for x in o[2]))
    raise ValueError(k)


def norm(s):
    """canonical token stream: no parentheses, single spaces, none next to punctuation"""
    s = re.sub(r"[()]", " ", s)
    s = re.sub(r"\s+", " ", s).strip()
    s = re.sub(r"\s*([\[\];,])\s*", r"\1", s)
    return s


def split_outs(s):
    """split the printed [list out] into its elements (top-level ';')"""
    s = s.strip()
    assert s.startswith("[") and s.endswith("]"), s[:80]
    s = s[1:-1]
    parts, depth, cur = [], 0, []
    for ch in s:
        if ch in "[(":
            depth += 1
        elif ch in "])":
            depth -= 1
        if ch == ";" and depth == 0:
            parts.append("".join(cur))
            cur = []
        else:
            cur.append(ch)
    if "".join(cur).strip():
        parts.append("".join(cur))
    return parts


# ------------------------------------------------------------------ history generator
class Gen:
    def __init__(self, rng, big):
        self.rng = rng
        self.big = big
        self.next_aid = 1
        self.next_oid = 1

    def fresh_pos(self, n, allow_above=True, p_above=0.04):
        rng = self.rng
        out = []
        for _ in range(n):
            z = rng.choice([-3, -2, -1, -1, 0, -5])
            if allow_above and rng.random() < p_above:
                z = rng.choice([1, 2])
            out.append((self.next_aid, z))
            self.next_aid += 1
        return out

    def kwargs(self, keys, pmax=3):
        rng = self.rng
        ks = [k for k in keys if rng.random() < 0.5][:pmax]
        rng.shuffle(ks)
        return [(k, rng.choice(ACLS) if k == 0 else rng.choice([0, 1]) if k == 1 else rng.randint(0, 9)) for k in ks]


def gen_history(world, rng, big):
    """Generate ops one at a time while executing them on the implementation (so that the
    generator can see which values exist).  Returns (ops, outs)."""
    g = Gen(rng, big)
    env, ops, outs = [], [], []
    D = world.D

    def emit(op):
        ops.append(op)
        outs.append(exec_op(world, env, op))

    def nodes():
        return [i for i, v in enumerate(env) if isinstance(v, D.Detector)]

    def values():
        return [i for i, v in enumerate(env) if v is not None]

    base_classes = [i for i, c in enumerate(CLASSES) if c["base"]]
    comp_classes = [i for i, c in enumerate(CLASSES) if not c["base"]]
    nbase = rng.randint(2, 5 if big else 4)
    def valid_build(i):
        """a build call the target accepts (antenna_class by keyword or position, plus
        keywords every harness build override knows)"""
        if rng.random() < 0.3:
            return ("OBuild", i, [rng.choice(ACLS)], [])
        kw = [(0, rng.choice(ACLS))]
        if rng.random() < 0.4:
            kw.insert(rng.randint(0, 1), (5, rng.randint(0, 9)))
        return ("OBuild", i, [], kw)

    def full_kwargs():
        """every keyword some harness build override knows, all given, in random order"""
        kw = [(0, rng.choice(ACLS)), (5, rng.randint(0, 9)), (6, rng.randint(0, 9))]
        rng.shuffle(kw)
        return kw

    def mirror_script():
        """Directed: the state kept by _mirror_build_function.  A combination of same-signature detectors
        (its build_antennas attribute becomes a mirror of theirs), build calls in between, then += of a
        detector with a different build signature (all parameters defaulted), then nesting of that
        combination in a non-matching one and building with every keyword; finally growing it again."""
        same = rng.choice([[2, 7], [2, 2], [7, 2], [3, 3]])
        other = 3 if same[0] != 3 else rng.choice([2, 7])
        idx = []
        for c in same + [other, rng.choice([0, 3, 5, 2, other])]:
            emit(("ONewBase", g.next_oid, c, g.fresh_pos(rng.choice([1, 2]), allow_above=False)))
            g.next_oid += 1
            idx.append(len(env) - 1)
            if rng.random() < 0.4:
                emit(valid_build(idx[-1]))
        a1, a2, b, x = idx
        emit(("OAdd", a1, a2))
        comb = len(env) - 1
        if rng.random() < 0.6:
            emit(("OBuild", comb, [], full_kwargs() if rng.random() < 0.5 else [(0, rng.choice(ACLS))]))
        emit(("OIadd", comb, b))
        if rng.random() < 0.4:
            emit(("OBuild", comb, [], full_kwargs()))
        r = rng.random()
        if r < 0.5:
            emit(("OAdd", x, comb))                       # Detector.__add__: nests the combination
        elif r < 0.8:
            emit(("ONewComp", g.next_oid, rng.choice(comp_classes), [x, comb]))
            g.next_oid += 1
        else:
            emit(("ONewComp", g.next_oid, 1, [comb]))
            g.next_oid += 1
            emit(("OAdd", x, len(env) - 1))
        outer = len(env) - 1
        emit(("OBuild", outer, [], full_kwargs()))
        emit(("OObs", outer, [0, -1]))
        if rng.random() < 0.5:
            # grow the inner combination again (same-signature detector) and rebuild through the outer one
            emit(("ONewBase", g.next_oid, same[0], g.fresh_pos(1, allow_above=False)))
            g.next_oid += 1
            emit(("OIadd", comb, len(env) - 1))
            emit(("OBuild", outer, [], full_kwargs()))

    def same_class_script():
        """Directed: sub-detectors of the SAME Detector subclass whose (mirrored) build signatures differ per
        object -- stations of one class holding strings of different kinds -- combined and built with every
        keyword; keyword routing has to look at each object, not at its class."""
        comp = rng.choice([1, 1, 4])
        kinds = rng.sample([2, 3, 0, 7], rng.choice([2, 2, 3]))
        stations = []
        for c in kinds:
            strs = []
            for _ in range(rng.choice([1, 2])):
                emit(("ONewBase", g.next_oid, c, g.fresh_pos(rng.choice([1, 2]), allow_above=False)))
                g.next_oid += 1
                strs.append(len(env) - 1)
            emit(("ONewComp", g.next_oid, comp, strs))
            g.next_oid += 1
            stations.append(len(env) - 1)
        if rng.random() < 0.7:
            emit(("OAdd", stations[0], stations[1]))
            outer = len(env) - 1
            for st in stations[2:]:
                emit(("OIadd", outer, st))
        else:
            emit(("ONewComp", g.next_oid, rng.choice(comp_classes), stations))
            g.next_oid += 1
            outer = len(env) - 1
        emit(("OBuild", outer, [], full_kwargs()))
        emit(("OObs", outer, [0, -1]))
        if rng.random() < 0.5:
            kw = full_kwargs()
            emit(("OBuild", outer, [], [kv for kv in kw if kv[0] != rng.choice([5, 6])]))

    r0 = rng.random()
    if r0 < 0.3:
        mirror_script()
    elif r0 < 0.5:
        same_class_script()
    for _ in range(nbase):
        emit(("ONewBase", g.next_oid, rng.choice(base_classes), g.fresh_pos(rng.choice([0, 1, 2, 2, 3, 4]))))
        g.next_oid += 1
        if env[-1] is not None and rng.random() < 0.8:
            emit(valid_build(len(env) - 1))
    nops = rng.randint(8, 28 if big else 18)
    for _ in range(nops):
        r = rng.random()
        ns, vs = nodes(), values()
        if r < 0.07:
            emit(("ONewBase", g.next_oid, rng.choice(base_classes), g.fresh_pos(rng.choice([0, 1, 2, 3]))))
            g.next_oid += 1
        elif r < 0.17 and ns:
            # subsets of a Detector subclass are detectors (Detector.__init__ reads
            # sub.antenna_positions of each)
            ch = [rng.choice(ns) for _ in range(rng.randint(1, 3))]
            if rng.random() < 0.05:
                ch.append(rng.randrange(len(env)))      # possibly unavailable / non-detector operand
                if env[ch[-1]] is not None and not isinstance(env[ch[-1]], D.Detector):
                    ch.pop()
            emit(("ONewComp", g.next_oid, rng.choice(comp_classes), ch))
            g.next_oid += 1
        elif r < 0.22:
            emit(("OAnt", g.fresh_pos(1, p_above=0.15)[0]))
        elif r < 0.27:
            emit(("OList", g.fresh_pos(rng.choice([0, 1, 2, 3]), p_above=0.08)))
        elif r < 0.42 and ns and vs:
            i, j = rng.choice(vs), rng.choice(vs)
            if not isinstance(env[i], D.Detector) and not isinstance(env[j], D.Detector):
                i = rng.choice(ns)
            emit(("OAdd", i, j))
        elif r < 0.52 and ns and vs:
            i, j = rng.choice(ns), rng.choice(vs)
            if rng.random() < 0.6:
                combs = [x for x in ns if isinstance(env[x], D.CombinedDetector)]
                if combs:
                    i = rng.choice(combs)
            # no cycles: the target must not be (strictly) inside the operand
            if any(d is env[i] for d in descendants(world, env[j])):
                continue
            emit(("OIadd", i, j))
        elif r < 0.545 and ns:
            # directed: combine with a plain antenna / antenna list that lies above the surface
            above = [i for i in vs if (world.is_leaf(env[i]) and env[i].position[2] > 0)
                     or (isinstance(env[i], list) and any(a.position[2] > 0 for a in env[i]))]
            if not above:
                continue
            j = rng.choice(above)
            combs = [x for x in ns if isinstance(env[x], D.CombinedDetector)]
            if combs and rng.random() < 0.6:
                emit(("OIadd", rng.choice(combs), j))
            elif rng.random() < 0.5:
                emit(("OAdd", rng.choice(ns), j))
            else:
                emit(("OAdd", j, rng.choice(ns)))
        elif r < 0.60 and ns:
            k = rng.randint(1, 4)
            l = [rng.choice(ns)] + [rng.choice(vs) for _ in range(k - 1)]
            emit(("OSum", l))
        elif r < 0.71 and ns:
            i = rng.choice(ns)
            # build_antennas mutates the sub-detectors; the model copies objects by value, so
            # it is only run where no detector object occurs twice below the target
            objs = [d for d in descendants(world, env[i]) if isinstance(d, D.Detector)]
            if len(set(map(id, objs))) != len(objs):
                continue
            args = []
            if rng.random() < 0.25:
                args = [rng.choice(ACLS)] + [rng.randint(0, 9) for _ in range(rng.choice([0, 0, 1, 2]))]
            if rng.random() < 0.45:
                emit(valid_build(i))
                continue
            kw = g.kwargs([0, 5, 6, 0] + ([8] if rng.random() < 0.25 else []))
            kw = list(dict(kw).items())
            if not args and rng.random() < 0.7 and 0 not in dict(kw):
                kw.insert(rng.randint(0, len(kw)), (0, rng.choice(ACLS)))
            emit(("OBuild", i, args, kw))
        elif r < 0.82 and world.reg:
            aid = rng.choice(sorted(world.reg))
            k = world.kind.get(aid, "stub")
            if k == "stub":
                emit(("OSetHit", aid, rng.random() < 0.6, rng.random() < 0.4))
            elif rng.random() < 0.7:
                emit(("OSetHit", aid, True, k == "quiet"))     # quiet: hit by signal; loud: hit by noise only
            else:
                emit(("OSetHit", aid, False, False))
            if ns and rng.random() < 0.7:
                i = rng.choice(ns)
                kw = list(dict(g.kwargs([1, 4, 7, 1] + ([8] if rng.random() < 0.3 else []))).items())
                emit(("OTrig", i, [], kw))
        elif r < 0.88 and vs:
            i = rng.choice(vs)
            x = env[i]
            n = 1 if world.is_leaf(x) else len(x)
            idx = sorted({0, -1, n - 1, -n, n, -n - 1, rng.randint(-n - 2, n + 1)})
            emit(("OObs", i, idx))
        elif r < 0.95 and ns:
            i = rng.choice(ns)
            args = [rng.randint(0, 3) for _ in range(rng.choice([0, 0, 0, 0, 1, 2]))]
            kw = list(dict(g.kwargs([1, 4, 7, 1] + ([8] if rng.random() < 0.3 else []))).items())
            emit(("OTrig", i, args, kw))
        elif ns:
            emit(("OClear", rng.choice(ns), rng.choice([0, 1])))
    # final observation of everything
    for i in values():
        x = env[i]
        n = 1 if world.is_leaf(x) else len(x)
        emit(("OObs", i, [0, -1, n]))
    for i in nodes():
        emit(("OTrig", i, [], []))
        emit(("OTrig", i, [], [(1, 1)]))
    return ops, outs


def run_impl(ops):
    world = World()
    env = []
    return [exec_op(world, env, op) for op in ops]


def model_exprs(histories):
    return ["run ct init %s" % lst(op_coq(o) for o in ops) for ops in histories]


def compare(ctx, ops, outs, model_val, tag):
    """Diff implementation outputs against the model's printed value; report first mismatch."""
    m = [norm(x) for x in split_outs(model_val)]
    p = [norm(out_coq(o)) for o in outs]
    if m == p:
        return True
    k = next((i for i in range(min(len(m), len(p))) if m[i] != p[i]), min(len(m), len(p)))
    what = ("pyrex.detector disagrees with the model at op %d %s: implementation %s, model %s" % (
        k, ops[k] if k < len(ops) else "?", p[k] if k < len(p) else "<none>", m[k] if k < len(m) else "<none>"))
    ctx.fail("corr:%s:%s" % (tag, json.dumps(ops[:k + 1])[:400]), what,
             {"kind": "history", "ops": ops[:k + 1], "impl": p[:k + 1][-3:], "model": m[:k + 1][-3:]},
             witness=True)
    return False


def coverage(outs_all):
    cov = {}
    for outs in outs_all:
        for o in outs:
            k = o[0]
            if k == "OutErr":
                k += ":" + o[1][0]
            if k == "OutLog" and o[1][0] == "Ok" and not any(e[0] in ("LAnt", "LBuildCall", "LClear") for e in o[2]):
                k += ":" + str(o[1][1])
            if k.startswith("OutLog"):
                k += ":" + (o[1][0] if o[1][0] == "Ok" else "Err:" + o[1][1][0]) + ":" + ",".join(sorted({e[0] for e in o[2]}))
            cov[k] = cov.get(k, 0) + 1
    return cov


# ------------------------------------------------------------------ statement-level search
def probe(ctx, n):
    """Judge the implementation against the statement with an oracle that does not use
    pyrex's flatten: the harness knows the leaves of what it builds, in construction order."""
    rng = ctx.rng
    bad = 0
    for t in range(n):
        world = World()
        D, V = world.D, world.V
        aid = itertools.count(1)

        class Nest(D.Detector):
            """Detector subclass whose build_antennas stores its antennas as raw lists nested `depth` levels
            ([antenna], [pair][antenna], [string][pair][antenna])"""
            def set_positions(self, ps):
                self.antenna_positions.extend(ps)

            def build_antennas(self, depth):
                ants = [world.StubAnt(p) for p in self.antenna_positions]
                self.leaves = ants
                if depth == 1:
                    self.subsets = list(ants)
                elif depth == 2:
                    self.subsets = [ants[i:i + 2] for i in range(0, len(ants), 2)]
                else:
                    self.subsets = [[ants[i:i + 1] for i in range(j, min(j + 2, len(ants)))]
                                    for j in range(0, len(ants), 2)]

        def mk_nest(depth_levels):
            o = Nest([(next(aid), 0, -rng.randint(1, 5)) for _ in range(rng.randint(1, 6))])
            o.build_antennas(depth_levels)
            return o, list(o.leaves)

        # a nested-list detector on its own (any nesting depth): iteration, len and indexing agree
        o, leaves = mk_nest(rng.choice([1, 2, 3]))
        got = list(o)
        if not (len(got) == len(leaves) == len(o) and all(a is b for a, b in zip(got, leaves))
                and all(o[i] is leaves[i] and o[-i - 1] is leaves[-i - 1] for i in range(len(leaves)))):
            ctx.fail("probe:nested-lists:%d" % t,
                     "a detector whose subsets are raw lists nested up to 3 levels does not iterate / index exactly its "
                     "antennas: %d antennas built, iteration yields %s, len %d" % (
                         len(leaves), [type(x).__name__ for x in got][:8], len(o)),
                     {"kind": "probe", "seed": ctx.seed, "index": t, "how": "nested-lists"}, witness=True)
            bad += 1

        def mk(depth):
            """returns (object, expected leaves in order)"""
            r = rng.random()
            if r < 0.12:
                # _test_positions of an enclosing detector looks one list level deep: depth <= 2 when combined
                return mk_nest(rng.choice([1, 2]))
            if depth <= 0 or r < 0.35:
                pos = [(next(aid), -rng.randint(0, 5)) for _ in range(rng.randint(0, 3))]
                o = world.classes[rng.choice([0, 5])](pos)
                o.build_antennas(V(rng.choice([0, 2, 3, 4, 5])))
                return o, list(o.subsets)
            if r < 0.45:
                a = world.StubAnt((next(aid), 0, -1))
                return a, [a]
            if r < 0.55:
                l = [world.StubAnt((next(aid), 0, -1)) for _ in range(rng.randint(0, 3))]
                return l, list(l)
            subs = [mk(depth - 1) for _ in range(rng.randint(1, 3))]
            subs = [x for x in subs if isinstance(x[0], D.Detector)] or [mk(0)]
            while not isinstance(subs[-1][0], D.Detector):
                subs[-1] = mk(0)
            o = world.classes[1]([s[0] for s in subs])
            return o, [x for s in subs for x in s[1]]

        parts = [mk(rng.randint(0, 3)) for _ in range(rng.randint(2, 4))]
        if not isinstance(parts[0][0], D.Detector):
            parts[0], parts[-1] = parts[-1], parts[0]
        if not isinstance(parts[0][0], D.Detector):
            continue
        expect = [x for p in parts for x in p[1]]
        objs = [p[0] for p in parts]
        results = {}
        # every bracketing of the chain, sum, and +=
        def brackets(lo, hi):
            if hi - lo == 1:
                yield lambda: objs[lo]
                return
            for mid in range(lo + 1, hi):
                for l in brackets(lo, mid):
                    for r in brackets(mid, hi):
                        yield (lambda l=l, r=r: l() + r())
        try:
            for bi, b in enumerate(brackets(0, len(objs))):
                results["bracket%d" % bi] = b()
            results["sum"] = sum(objs)
            acc = objs[0] + objs[1]
            for o in objs[2:]:
                acc += o
            results["iadd"] = acc
        except TypeError:
            continue            # list + list etc.: not a detector operation
        ctx.case(key=("probe", t, len(expect)), nontrivial=len(expect) > 1)
        for name, d in results.items():
            got = list(d)
            ok = (len(got) == len(expect) and all(a is b for a, b in zip(got, expect))
                  and len(d) == len(expect)
                  and all(d[i] is expect[i] for i in range(len(expect)))
                  and all(d[-i - 1] is expect[-i - 1] for i in range(len(expect))))
            if ok and expect:
                h = rng.choice(expect)
                k = world.kind.get(h.aid, "stub")
                if k == "stub":
                    h.is_hit = True
                    ok = d.triggered() is True and d.triggered(require_mc_truth=True) is False
                    h.is_hit_mc_truth = True
                    ok = ok and d.triggered(require_mc_truth=True) is True
                else:
                    # real Antenna / AntennaSystem leaf: hit by a real received signal (quiet) or by its noise (loud)
                    world.set_hit(h, True, k == "quiet")
                    ok = d.triggered() is True and d.triggered(require_mc_truth=True) is (k == "quiet")
                d.clear()
                ok = ok and not any(a.is_hit or a.is_hit_mc_truth for a in expect) and d.triggered() is False
            if not ok:
                bad += 1
                ctx.fail("probe:%s:%d:%d" % (name, t, len(expect)),
                         "detector combined by %s does not visit/trigger/clear exactly the antennas built, in construction order "
                         "(expected ids %s, iteration gave %s, len %s)" % (
                             name, [a.aid for a in expect], [getattr(a, 'aid', '?') for a in got], len(d)),
                         {"kind": "probe", "seed": ctx.seed, "index": t, "how": name}, witness=True)
                break
    return bad



# ------------------------------------------------------------------ AST pins of the hand-modelled code
def ast_pins(relpath, names):
    """hash of the normalised AST (docstrings removed) of the named top-level classes/functions
    (or Class.method) of a pyrex source file"""
    import ast
    import hashlib
    tree = ast.parse(open(os.path.join(common.REPO, relpath)).read())
    out = {}

    def strip(node):
        for n in ast.walk(node):
            body = getattr(n, "body", None)
            if isinstance(body, list) and body and isinstance(body[0], ast.Expr) and \
                    isinstance(getattr(body[0], "value", None), ast.Constant) and isinstance(body[0].value.value, str):
                n.body = body[1:] or [ast.Pass()]
        return node
    for name in names:
        parts = name.split(".")
        cur = [n for n in tree.body if getattr(n, "name", None) == parts[0]]
        for part in parts[1:]:
            cur = [m for c in cur for m in c.body if getattr(m, "name", None) == part]
        out[name] = hashlib.sha256(ast.dump(strip(cur[0])).encode()).hexdigest()[:16] if cur else "missing"
    return out


PINNED = [("pyrex/detector.py", ["Detector", "CombinedDetector"]), ("pyrex/internal_functions.py", ["flatten", "mirror_func"])]
PINS = {   # values for the source the model was written against (pyrex tree with the two C19 fix: commits)
    "pyrex/detector.py:Detector": "0808a374b0f9ac7e",
    "pyrex/detector.py:CombinedDetector": "45bac96ef0da02ac",
    "pyrex/internal_functions.py:flatten": "14063bb135dac95c",
    "pyrex/internal_functions.py:mirror_func": "f391681338f38354",
}


def pins_changed():
    now = {}
    for rel, names in PINNED:
        try:
            now.update({rel + ":" + k: v for k, v in ast_pins(rel, names).items()})
        except Exception as e:
            now[rel] = "unreadable: %s" % e
    return [k for k in now if PINS.get(k) != now[k]], now


# ------------------------------------------------------------------ check
def corpus_histories():
    d = os.path.join(common.ROOT, "corpus", "C19")
    out = []
    if os.path.isdir(d):
        for f in sorted(os.listdir(d)):
            if f.endswith(".json"):
                out.append((f, json.load(open(os.path.join(d, f)))["ops"]))
    return out


def tuplify(x):
    if isinstance(x, list):
        return [tuplify(e) for e in x]
    return x


def fix_ops(ops):
    """ops loaded from JSON: positions/kwargs are lists of 2-lists -> tuples"""
    out = []
    for op in ops:
        op = list(op)
        k = op[0]
        if k == "ONewBase":
            op[3] = [tuple(p) for p in op[3]]
        elif k == "OAnt":
            op[1] = tuple(op[1])
        elif k == "OList":
            op[1] = [tuple(p) for p in op[1]]
        elif k in ("OBuild", "OTrig"):
            op[3] = [tuple(p) for p in op[3]]
        out.append(tuple(op))
    return out


def run(ctx):
    ctx.rule = ("random histories over harness-defined Detector subclasses (8 classes: base/composite, default or overriding "
                "build_antennas/triggered signatures, position test on/off), stub antennas with scripted is_hit/is_hit_mc_truth, "
                "plain antennas and antenna lists: construction, +, += (in place on CombinedDetector, aliasing included), sum, "
                "build_antennas with positional/keyword arguments, iteration/len/indexing (negative and out of range), "
                "triggered with args/kwargs, clear; every op's outcome (value, error kind, call log of sub-detectors and antennas) "
                "compared exactly with DetectorModel.run; non-trivial = distinct history")
    ctx.trusted += ["Coq 8.16.1 kernel; vm_compute to run DetectorModel.run on the generated histories",
                    "harness/props/c19.py: history generator, stub antenna / Detector subclasses, printing of outcomes in Coq syntax"]
    ctx.assumptions += [
        "antenna-like leaves are not themselves iterable; antenna lists are flat Python lists",
        "object graphs are acyclic (a CombinedDetector is never added into itself through a nested operand); "
        "build_antennas is exercised only on detectors in which no sub-detector object occurs twice",
        "harness subclasses override build_antennas/triggered only in the two shapes described in DetectorModel.cls; "
        "signatures without *args; keyword values are integers",
        "Python's operator dispatch (__add__/__radd__/__iadd__ selection, sum) is modelled by py_add/py_sum and validated by correspondence"]
    ok = ctx.coq_build("C19")
    big = ctx.thorough
    n = ctx.n(220, 4000)
    changed, now = pins_changed()
    ctx.extra["ast_pins"] = {"changed": changed, "current": now}
    if changed and not ctx.thorough:
        # the hand-modelled source was edited since the model was validated: escalate
        n = 700
        big = True
    histories, outs_all, tags = [], [], []
    leaf_kinds = {}
    for name, ops in corpus_histories():
        ops = fix_ops(ops)
        histories.append(ops)
        outs_all.append(run_impl(ops))
        tags.append("corpus/" + name)
    for t in range(n):
        world = World()
        ops, outs = gen_history(world, ctx.rng, big)
        for kk in world.kind.values():
            leaf_kinds[kk] = leaf_kinds.get(kk, 0) + 1
        histories.append(ops)
        outs_all.append(outs)
        tags.append("gen%d" % t)
    corr_ok = True
    try:
        vals = ctx.coq_eval_exprs(IMPORTS + coq_class_table(), model_exprs(histories), chunk=120)
    except Exception as e:
        ctx.oblige("corr:model-eval", False, str(e)[-1500:])
        vals = None
        corr_ok = False
    if vals is not None:
        nbad = 0
        for ops, outs, v, tag in zip(histories, outs_all, vals, tags):
            ctx.case(key=json.dumps(ops), nontrivial=len(ops) > 6,
                     sample={"ops": [op_coq(o) for o in ops[:12]], "impl_out": [out_coq(o) for o in outs[:12]]})
            if not compare(ctx, ops, outs, v, tag):
                nbad += 1
                if nbad >= 3:
                    break
        corr_ok = nbad == 0
        ctx.oblige("corr:detector-histories", corr_ok, "%d histories disagree" % nbad if nbad else "")
    ctx.extra["leaf_kinds"] = leaf_kinds      # stub / real quiet / real loud (Antenna and AntennaSystem)
    ctx.extra["correspondence"] = {"histories": len(histories), "ops": sum(len(o) for o in histories),
                                   "outcome_kinds": coverage(outs_all),
                                   "op_kinds": {k: sum(1 for ops in histories for o in ops if o[0] == k)
                                                for k in sorted({o[0] for ops in histories for o in ops})}}
    if ctx.thorough or not ok or not corr_ok or changed:
        nb = probe(ctx, ctx.n(400, 1500))
        ctx.extra["search"] = {"ran": True, "oracle": "leaves in construction order recorded by the harness while building", "failures": nb}
    else:
        nb = probe(ctx, 80)
        ctx.extra["search"] = {"ran": True, "size": 80, "failures": nb}


def replay(ctx, obj):
    if obj.get("kind") == "history":
        ops = fix_ops(obj["ops"])
        outs = run_impl(ops)
        print("implementation:")
        for o, x in zip(ops, outs):
            print("  %-60s -> %s" % (op_coq(o)[:60], norm(out_coq(x))))
        try:
            vals = ctx.coq_eval_exprs(IMPORTS + coq_class_table(), model_exprs([ops]))
            m = [norm(x) for x in split_outs(vals[0])]
            print("model:")
            for o, x in zip(ops, m):
                print("  %-60s -> %s" % (op_coq(o)[:60], x))
            same = m == [norm(out_coq(x)) for x in outs]
        except Exception as e:
            print("model evaluation failed:", str(e)[-500:])
            same = False
        print("AGREE" if same else "DISAGREE")
        return 0 if same else 1
    print(json.dumps(obj, indent=1))
    return 1
