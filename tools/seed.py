#!/usr/bin/env python3
"""Confirm a seeded mutation independently and run the registered check against it.

  tools/seed.py confirm <ID> <mN> [src_dir]   scratch worktree: suite passes with patch, demo fails with / passes without;
                                               then copies it to /verif/seeded/<ID>_<mN>/
  tools/seed.py detect  <ID>_<mN> [check ids] apply to /repo, run ./check <ID> (quick), undo, record detect.json
"""
import json, os, shutil, subprocess, sys, time
ROOT = os.path.dirname(os.path.dirname(os.path.abspath(__file__)))
PY = "/venv/bin/python"


def sh(cmd, cwd=None, timeout=3600, env=None):
    p = subprocess.run(cmd, shell=True, cwd=cwd, stdout=subprocess.PIPE, stderr=subprocess.STDOUT, text=True, timeout=timeout, env=env)
    return p.returncode, p.stdout


def confirm(pid, m, src=None, name=None):
    src = src or "/tmp/seed/out/%s/%s" % (pid, m)
    wt = "/tmp/confirm_%s_%s" % (pid, name or m)
    sh("git -C /repo worktree remove --force %s" % wt)
    rc, out = sh("git -C /repo worktree add --detach %s HEAD" % wt)
    assert rc == 0, out
    ran = []
    try:
        env = dict(os.environ, PYTHONPATH=wt, PYTHONDONTWRITEBYTECODE="1")
        rc0, out0 = sh("%s %s/demo.py" % (PY, src), cwd=wt, env=env, timeout=900)
        ran.append({"cmd": "demo.py on unchanged tree", "rc": rc0, "tail": out0[-300:]})
        rc, out = sh("git apply %s/patch.diff" % src, cwd=wt)
        assert rc == 0, "patch does not apply: " + out
        rc1, out1 = sh("%s -m pytest -q -p no:cacheprovider --timeout=900 -x 2>&1" % PY, cwd=wt, env=env)
        out1 = "\n".join(out1.strip().split("\n")[-2:])
        ran.append({"cmd": "pytest with patch", "rc": rc1, "tail": out1[-300:]})
        rc2, out2 = sh("%s %s/demo.py" % (PY, src), cwd=wt, env=env, timeout=900)
        ran.append({"cmd": "demo.py with patch", "rc": rc2, "tail": out2[-400:]})
        ok = rc0 == 0 and rc2 != 0 and rc1 == 0 and "passed" in out1 and "failed" not in out1
    finally:
        sh("git -C /repo worktree remove --force %s" % wt)
        sh("rm -rf %s" % wt)
    dst = os.path.join(ROOT, "seeded", "%s_%s" % (pid, name or m))
    if ok:
        os.makedirs(dst, exist_ok=True)
        for f in ("patch.diff", "demo.py"):
            shutil.copy(os.path.join(src, f), dst)
        meta = json.load(open(os.path.join(src, "meta.json")))
        meta["confirmed_independently"] = ran
        json.dump(meta, open(os.path.join(dst, "meta.json"), "w"), indent=1)
    print(pid, m, "CONFIRMED" if ok else "NOT CONFIRMED", json.dumps(ran)[:600])
    return ok


def detect(name, checks=None, base="seeded"):
    d = os.path.join(ROOT, base, name)
    pid = name.split("_")[0]
    checks = checks or [pid]
    rc, out = sh("git -C /repo status --porcelain")
    assert out.strip() == "", "/repo is not clean: " + out
    rc, out = sh("git -C /repo apply %s/patch.diff" % d)
    assert rc == 0, out
    res = {}
    saved = {}
    for c in checks:   # evidence/<id>.json must stay the record of the run on the UNCHANGED tree
        p = os.path.join(ROOT, "evidence", c + ".json")
        saved[p] = open(p).read() if os.path.exists(p) else None
    try:
        for c in checks:
            t = time.time()
            rc, out = sh("./check %s --tier quick" % c, cwd=ROOT, timeout=3000)
            lines = [l for l in out.split("\n") if l.startswith(("VIOLATION", "KNOWN-FINDING"))]
            res[c] = {"exit": rc, "violation_lines": lines[:4], "detected": rc == 1 and any(l.startswith("VIOLATION") for l in lines),
                      "witness": any(l.startswith("VIOLATION") and "no-failing-input-found" not in l for l in lines), "wall_s": round(time.time() - t, 1),
                      "summary": out.strip().split("\n")[-1][:300]}
    finally:
        sh("git -C /repo checkout -- .")
        sh("git -C /repo clean -fdq")
        for p, txt in saved.items():
            if txt is not None:
                open(p, "w").write(txt)
    dj = os.path.join(d, "detect.json")
    if os.path.exists(dj):        # keep the results of checks not re-run now (cross-checks by neighbouring properties)
        old = json.load(open(dj))
        old.update(res)
        res = old
    json.dump(res, open(dj, "w"), indent=1)
    print(name, json.dumps(res)[:700])


if __name__ == "__main__":
    if sys.argv[1] == "confirm":
        sys.exit(0 if confirm(*sys.argv[2:6]) else 1)
    detect(sys.argv[2], sys.argv[3:] or None)
