"""Gen_antenna.v: the antenna response formulas of pyrex/antenna.py (Antenna, DipoleAntenna)
and the AntennaSystem delegation of pyrex/detector.py, translated to Coq over R.

Extends the fail-closed subset of py2coq.FnTr by what these bodies need:
  * 3x3 matrices built from three vectors and matrix.vector products,
  * optional vector arguments (`direction is None`) assigned on both branches,
  * signals as an opaque record `Sig` with the operations copy / value_type / *= and the
    frequency filter as a FUNCTION PARAMETER `sig_filter` (C05 owns the filter),
  * `raise` -> None of an option result (the rest of the body is pushed into the branches),
  * attribute assignments to self (`self.z_axis = ...`) as shadowed fields, returned at the end,
  * keyword arguments to translated methods (re-ordered by the callee's signature),
  * scipy.signal.butter(1, [lo,hi], 'bandpass', analog=True) / scipy.signal.freqs as calls of the
    hand model coq/Model/ButterModel.v,
  * the AntennaSystem methods `self.antenna.<method>(...)`.
Anything else raises TranslationError.
"""
import ast
import copy
import os
import sys

sys.path.insert(0, os.path.dirname(os.path.abspath(__file__)))
import py2coq
from py2coq import Module, ClassTr, FnTr, TranslationError, split_tuple

py2coq.COQ_TY.update({"optvec3": "option (R * R * R)", "sig": "Sig", "C": "(R * R)",
                      "opt:sig": "option Sig", "opt:tuple[vec3,vec3]": "option ((R * R * R) * (R * R * R))",
                      "tuple[listR,listR]": "(list R * list R)"})

PRELUDE_EXTRA = "From PyrexLib Require Import CPair SignalAlg.\nFrom PyrexModel Require Import ButterModel.\n"

ANT_RECORD = [("position", "vec3"), ("z_axis", "vec3"), ("x_axis", "vec3"), ("antenna_factor", "R"),
              ("efficiency", "R"), ("filter_coeffs", "tuple[listR,listR]")]


def signal_type_enum(repo):
    """Signal.Type values read from pyrex/signals.py."""
    tree = ast.parse(open(os.path.join(repo, "pyrex/signals.py")).read())
    for n in tree.body:
        if isinstance(n, ast.ClassDef) and n.name == "Signal":
            for m in n.body:
                if isinstance(m, ast.ClassDef) and m.name == "Type":
                    out = {}
                    for a in m.body:
                        if isinstance(a, ast.Assign) and isinstance(a.value, ast.Constant) and isinstance(a.value.value, int):
                            out[a.targets[0].id] = a.value.value
                    return out
    raise TranslationError("pyrex/signals.py: Signal.Type enum not found")


def contains_raise(node):
    return any(isinstance(x, ast.Raise) for x in ast.walk(node))


class AntFnTr(FnTr):
    enum = {}
    option_mode = False          # functions that may raise: result is an option
    owner = None                 # the AntClassTr translating this body

    def __init__(self, *a, **k):
        super().__init__(*a, **k)
        self.shadow = {}         # self.attr assigned in this body -> (code, type)
        self.shadow_order = []
        self.uses_filter = False

    # ------------------------------------------------------------------ expressions
    def e_Attribute(self, n):
        d = self.dotted(n)
        if d and len(d) == 3 and d[0] == "Signal" and d[1] == "Type":
            if d[2] not in self.enum:
                self.err(n, "unknown Signal.Type member")
            return "(%d)%%Z" % self.enum[d[2]], "Z"
        if d and len(d) == 2 and d[0] in self.vars and self.vars[d[0]][1] == "sig":
            if d[1] == "value_type":
                return "(sg_type %s)" % self.vars[d[0]][0], "Z"
            self.err(n, "unsupported signal attribute")
        if d and len(d) == 2 and d[0] == self.self_name and d[1] in self.shadow:
            return self.shadow[d[1]]
        return super().e_Attribute(n)

    def self_attr(self, n, attr):
        if self.record:
            for f, t in self.mod.records[self.record]:
                if f == attr and t.startswith("tuple["):
                    return "(%s_%s %s)" % (self.record, f.lstrip("_"), self.self_name), t
        return super().self_attr(n, attr)

    def e_BinOp(self, n):
        op = type(n.op).__name__
        if op == "Mult":
            # scalar * pair (2*np.pi*np.array(self.freq_range))
            try:
                l, tl = self.expr(n.left)
                r, tr = self.expr(n.right)
            except TranslationError:
                return super().e_BinOp(n)
            if tl == "R" and tr in ("pair", "tuple[R,R]"):
                return "(%s * fst %s, %s * snd %s)" % (l, r, l, r), "pair"
        return super().e_BinOp(n)

    def reorder_call(self, n, fnode, skip_self=True):
        """positional + keyword arguments of call n in the order of fnode's parameters."""
        names = [a.arg for a in fnode.args.args]
        if skip_self:
            names = names[1:]
        defaults = fnode.args.defaults
        dmap = {names[len(names) - len(defaults) + i]: dv for i, dv in enumerate(defaults)} if defaults else {}
        given = {}
        if len(n.args) > len(names):
            self.err(n, "too many positional arguments")
        for nm, a in zip(names, n.args):
            given[nm] = a
        for k in n.keywords:
            if k.arg is None or k.arg not in names or k.arg in given:
                self.err(n, "bad keyword argument %r" % k.arg)
            given[k.arg] = k.value
        out = []
        for nm in names:
            if nm in given:
                out.append(given[nm])
            elif nm in dmap:
                out.append(dmap[nm])
            else:
                self.err(n, "missing argument %r" % nm)
        return out

    def e_Call(self, n):
        f = n.func
        d = self.dotted(f)
        kw = {k.arg: k.value for k in n.keywords}
        if d and d[:1] == ("np",) and len(d) == 2:
            name = d[1]
            if name in ("array", "asarray") and len(n.args) == 1 and not kw:
                a0 = n.args[0]
                if isinstance(a0, (ast.List, ast.Tuple)) and len(a0.elts) == 3:
                    parts = [self.expr(e) for e in a0.elts]
                    if all(p[1] == "vec3" for p in parts):
                        return "(%s, %s, %s)" % tuple(p[0] for p in parts), "mat3"
                else:
                    c, t = self.expr(a0)
                    if t in ("pair", "tuple[R,R]"):
                        return c, "pair"
            if name == "dot" and len(n.args) == 2 and not kw:
                a, ta = self.expr(n.args[0])
                b, tb = self.expr(n.args[1])
                if ta == "mat3" and tb == "vec3":
                    return ("(vdot (fst (fst %s)) %s, vdot (snd (fst %s)) %s, vdot (snd %s) %s)" % (a, b, a, b, a, b),
                            "tuple[R,R,R]")
            if name == "ones" and len(n.args) == 1 and not kw:
                a0 = n.args[0]
                if isinstance(a0, ast.Call) and isinstance(a0.func, ast.Name) and a0.func.id == "len":
                    return "1", "R"      # scalar mode: one gain per frequency
        if d == ("scipy", "signal", "freqs") and len(n.args) == 3 and not kw:
            b, tb = self.expr(n.args[0])
            a, ta = self.expr(n.args[1])
            w, _ = self.num(n.args[2])
            if tb == ta == "listR":
                return "(freqs %s %s %s)" % (b, a, w), "tuple[R,C]"
        if d == ("scipy", "signal", "butter") and len(n.args) == 2:
            order = n.args[0]
            ok = isinstance(order, ast.Constant) and order.value == 1 and set(kw) == {"btype", "analog"} \
                and isinstance(kw["btype"], ast.Constant) and kw["btype"].value == "bandpass" \
                and isinstance(kw["analog"], ast.Constant) and kw["analog"].value is True
            if not ok:
                self.err(n, "only butter(1, [lo,hi], btype='bandpass', analog=True) is modelled")
            c, t = self.expr(n.args[1])
            if t != "pair":
                self.err(n, "butter critical frequencies must be a pair")
            return "(butter1_bandpass_analog (fst %s) (snd %s))" % (c, c), "tuple[listR,listR]"
        # signal methods
        if d and len(d) == 2 and d[0] in self.vars and self.vars[d[0]][1] == "sig":
            if d[1] == "copy" and not n.args and not kw:
                return "(sig_copy %s)" % self.vars[d[0]][0], "sig"
            self.err(n, "unsupported signal method in expression")
        # self.antenna.method(...)  (AntennaSystem)
        if d and len(d) == 3 and d[0] == self.self_name and d[1] == "antenna" and self.owner and self.owner.antenna_ct:
            act = self.owner.antenna_ct
            c, fnode = act.mod.find_member(act.cname, d[2])
            if fnode is None or not isinstance(fnode, ast.FunctionDef):
                self.err(n, "antenna method %s not found" % d[2])
            r = act.member(d[2])
            args = self.reorder_call(n, fnode)
            ptypes = act.param_types.get(d[2], {})
            names = [a.arg for a in fnode.args.args][1:]
            cargs = []
            for nm, a in zip(names, args):
                if ptypes.get(nm) == "skip":
                    continue
                cargs.append(self.expr(a)[0])
            extra = act.extra_params.get(r[0], [])
            if extra:
                self.uses_filter = True
            return "(%s %s)" % (r[0], " ".join(extra + ["(%s_antenna %s)" % (self.record, self.self_name)] + cargs)), r[2]
        # self.method(..., kw=...) -> positional
        if d and len(d) == 2 and d[0] == self.self_name and self.owner:
            c, fnode = self.mod.find_member(self.cname, d[1])
            if isinstance(fnode, ast.FunctionDef):
                r = self.lookup_member(d[1])
                args = self.reorder_call(n, fnode)
                if r and r[1] == "method":
                    cargs = [self.expr(a)[0] for a in args]
                    extra = self.owner.extra_params.get(r[0], [])
                    if extra:
                        self.uses_filter = True
                    return "(%s %s)" % (r[0], " ".join(extra + [self.self_name] + cargs)), r[2]
        return super().e_Call(n)

    # ------------------------------------------------------------------ statements
    def ret(self, code, t):
        if self.option_mode:
            self.ret_types.append("opt:" + t)
            return "Some (%s)" % code
        self.ret_types.append(t)
        return code

    def end_of_body(self):
        """falling off the end of a state-setting method: return the assigned fields"""
        if self.shadow_order:
            parts = [self.shadow[a] for a in self.shadow_order]
            code = "(" + ", ".join(p[0] for p in parts) + ")" if len(parts) > 1 else parts[0][0]
            t = "tuple[" + ",".join(p[1] for p in parts) + "]" if len(parts) > 1 else parts[0][1]
            return self.ret(code, t)
        raise TranslationError("%s: control reaches the end of a function without return" % self.mod.source)

    def none_test(self, s):
        """`X is None` / `X is not None` on an optional vector / optional real variable."""
        t = s.test
        if isinstance(t, ast.Compare) and len(t.ops) == 1 and isinstance(t.ops[0], (ast.Is, ast.IsNot)) \
                and isinstance(t.comparators[0], ast.Constant) and t.comparators[0].value is None \
                and isinstance(t.left, ast.Name) and t.left.id in self.vars \
                and self.vars[t.left.id][1] in ("optvec3", "optR"):
            return t.left.id, isinstance(t.ops[0], ast.Is)
        return None

    def block(self, stmts, k=None):
        if not stmts:
            if k is None:
                return self.end_of_body()
            return k() if callable(k) else k
        s, rest = stmts[0], stmts[1:]
        if isinstance(s, ast.Return):
            if s.value is None:
                self.err(s, "bare return")
            c, t = self.expr(s.value)
            return self.ret(c, t)
        if isinstance(s, ast.Raise):
            if not self.option_mode:
                self.err(s, "raise in a function not declared as raising")
            return "None"
        if isinstance(s, ast.Expr) and isinstance(s.value, ast.Call):
            d = self.dotted(s.value.func)
            # new_signal.filter_frequencies(self.frequency_response, force_real=force_real)
            if d and len(d) == 2 and d[0] in self.vars and self.vars[d[0]][1] == "sig" and d[1] == "filter_frequencies":
                call = s.value
                if len(call.args) != 1 or [k_.arg for k_ in call.keywords] != ["force_real"]:
                    self.err(s, "unsupported filter_frequencies call shape")
                fd = self.dotted(call.args[0])
                if not (fd and len(fd) == 2 and fd[0] == self.self_name):
                    self.err(s, "the filter function must be a method of self")
                r = self.lookup_member(fd[1])
                if not r or r[1] != "method":
                    self.err(s, "filter function %s is not a translated method" % fd[1])
                g = "(fun f_ : R => cofR (%s %s f_))" % (r[0], self.self_name) if r[2] == "R" else \
                    "(fun f_ : R => %s %s f_)" % (r[0], self.self_name)
                if r[2] not in ("R", "C"):
                    self.err(s, "frequency response of type %s" % r[2])
                fr, _ = self.boolean(call.keywords[0].value)
                v = d[0]
                self.uses_filter = True
                self.vars[v] = (v, "sig")
                return "let %s := sig_filter %s %s %s in\n  %s" % (v, g, fr, v, self.block(rest, k))
            # tail call of a state-returning antenna method: self.antenna.set_orientation(...)
            if d and len(d) == 3 and d[0] == self.self_name and d[1] == "antenna" and not rest and k is None:
                c, t = self.expr(s.value)
                self.ret_types.append(t)
                return c
        if isinstance(s, ast.Assign) and len(s.targets) == 1 and isinstance(s.targets[0], ast.Attribute):
            tgt = s.targets[0]
            d = self.dotted(tgt)
            if d and len(d) == 2 and d[0] == self.self_name:
                c, t = self.expr(s.value)
                nm = "self_%s" % d[1]
                if d[1] not in self.shadow:
                    self.shadow_order.append(d[1])
                self.shadow[d[1]] = (nm, t)
                return "let %s := %s in\n  %s" % (nm, c, self.block(rest, k))
            if d and len(d) == 2 and d[0] in self.vars and self.vars[d[0]][1] == "sig" and d[1] == "value_type":
                c, t = self.expr(s.value)
                if t != "Z":
                    self.err(s, "value_type must be a Signal.Type member")
                v = d[0]
                return "let %s := sig_set_type %s %s in\n  %s" % (v, c, v, self.block(rest, k))
        if isinstance(s, ast.AugAssign) and isinstance(s.target, ast.Name) and s.target.id in self.vars \
                and self.vars[s.target.id][1] == "sig":
            if not isinstance(s.op, ast.Mult):
                self.err(s, "only *= on signals")
            c, _ = self.num(s.value)
            v = s.target.id
            return "let %s := sig_scale %s %s in\n  %s" % (v, c, v, self.block(rest, k))
        if isinstance(s, ast.If):
            nt = self.none_test(s)
            if nt and not (self.always_returns(s.body) or (s.orelse and self.always_returns(s.orelse))):
                name, is_none = nt
                code, ty = self.vars[name]
                inner = "vec3" if ty == "optvec3" else "R"
                none_body, some_body = (s.body, s.orelse) if is_none else (s.orelse, s.body)
                # variables assigned on BOTH branches survive the statement; the others are branch-local
                vs = [v for v in self.assigned(none_body) if v in self.assigned(some_body)]
                # attribute assignments to self inside the branches
                attrs = []
                for st in ast.walk(ast.Module(body=list(none_body) + list(some_body), type_ignores=[])):
                    if isinstance(st, ast.Assign) and isinstance(st.targets[0], ast.Attribute):
                        dd = self.dotted(st.targets[0])
                        if dd and dd[0] == self.self_name and dd[1] not in attrs:
                            attrs.append(dd[1])
                saved_vars, saved_shadow = dict(self.vars), dict(self.shadow)

                def final():
                    parts = []
                    for v in vs:
                        if v not in self.vars:
                            raise TranslationError("%s:%d: variable %r is not assigned on every path" % (self.mod.source, s.lineno, v))
                        parts.append(self.vars[v])
                    for a in attrs:
                        if a not in self.shadow:
                            raise TranslationError("%s:%d: self.%s is not assigned on every path" % (self.mod.source, s.lineno, a))
                        parts.append(self.shadow[a])
                    return parts
                res = {}
                for tag, body, bind in (("none", none_body, None), ("some", some_body, name)):
                    self.vars, self.shadow = dict(saved_vars), dict(saved_shadow)
                    if bind:
                        self.vars[name] = (name + "_v", inner)
                    got = []
                    code_b = self.block(list(body), lambda got=got: py2coq.tuple_code([p[0] for p in (got.extend(final()) or got)]))
                    res[tag] = (code_b, [p[1] for p in got])
                self.vars, self.shadow = dict(saved_vars), dict(saved_shadow)
                if res["none"][1] != res["some"][1]:
                    self.err(s, "branches assign different types %s / %s" % (res["none"][1], res["some"][1]))
                names = list(vs) + ["self_%s" % a for a in attrs]
                for v, t in zip(vs, res["none"][1]):
                    self.vars[v] = (v, t)
                for a, t in zip(attrs, res["none"][1][len(vs):]):
                    if a not in self.shadow:
                        self.shadow_order.append(a)
                    self.shadow[a] = ("self_%s" % a, t)
                if not names:
                    return self.block(rest, k)
                lhs = "let %s :=" % names[0] if len(names) == 1 else "let '(%s) :=" % ", ".join(names)
                return "%s (match %s with\n    | None => %s\n    | Some %s_v => %s\n    end) in\n  %s" % (
                    lhs, code, res["none"][0], name, res["some"][0], self.block(rest, k))
            if contains_raise(s) and not (self.always_returns(s.body) and s.orelse and self.always_returns(s.orelse)):
                # push the continuation into the branches so that `raise` can become None
                test = self.const_bool(s.test)
                return "if %s then %s\n  else %s" % (test, self.sub(list(s.body) + rest, k), self.sub(list(s.orelse) + rest, k))
        return super().block(stmts, k)

    def sub(self, stmts, k):
        saved, saved_sh, saved_order = dict(self.vars), dict(self.shadow), list(self.shadow_order)
        c = self.block(list(stmts), k)
        self.vars, self.shadow, self.shadow_order = saved, saved_sh, saved_order
        return "(" + c + ")"


class AntClassTr(ClassTr):
    """ClassTr with option-returning (raising) methods, the sig_filter parameter, and an
    optional `antenna_ct` (the class the `antenna` field of a system record belongs to)."""

    def __init__(self, *a, raising=(), enum=None, antenna_ct=None, **k):
        super().__init__(*a, **k)
        self.raising = set(raising)
        self.enum = enum or {}
        self.antenna_ct = antenna_ct
        self.extra_params = {}       # coq name -> ["sig_filter"]
        owner = self

        class Tr(AntFnTr):
            pass
        Tr.enum = self.enum
        Tr.owner = owner
        self.fn_class = Tr
        self._current = None

    def translate_def(self, node, tr, coqname, has_self, pkey):
        tr.option_mode = pkey in self.raising
        tr.owner = self
        n0 = len(self.mod.out)
        res = super().translate_def(node, tr, coqname, has_self, pkey)
        if tr.uses_filter:
            text = self.mod.out[-1]
            head = "Definition %s " % coqname
            if not text.startswith(head) or len(self.mod.out) != n0 + 1 and not self.mod.out[-1].startswith(head):
                raise TranslationError("internal: cannot add the filter parameter to %s" % coqname)
            self.mod.out[-1] = head + "(sig_filter : (R -> R * R) -> bool -> Sig -> Sig) " + text[len(head):]
            self.extra_params[coqname] = ["sig_filter"]
        return res


def record_text(rname, fields, mod):
    body = ";\n  ".join("%s_%s : %s" % (rname, f.lstrip("_"), py2coq.coq_type(t, mod) if t not in mod.records else t) for f, t in fields)
    return "Record %s := mk%s {\n  %s\n}." % (rname, rname, body)


def dipole_init_slice(mod, ct):
    """The parameter arithmetic of DipoleAntenna.__init__ as a synthetic function: effective
    height, antenna factor, band edges, filter coefficients.  The statements are taken from the
    source; the super().__init__ keywords antenna_factor= / freq_range= supply the two
    expressions that Antenna.__init__ stores."""
    cname, node = mod.find_member("DipoleAntenna", "__init__")
    if node is None:
        raise TranslationError("pyrex/antenna.py: DipoleAntenna.__init__ not found")
    body = []
    sup = None
    for st in node.body:
        if isinstance(st, ast.If) and isinstance(st.test, ast.Compare) and isinstance(st.test.left, ast.Name) \
                and st.test.left.id == "effective_height":
            body.append(st)
        elif isinstance(st, ast.Assign) and isinstance(st.targets[0], ast.Name) and st.targets[0].id in ("f_low", "f_high"):
            body.append(st)
        elif isinstance(st, ast.Expr) and isinstance(st.value, ast.Call) and isinstance(st.value.func, ast.Attribute) \
                and st.value.func.attr == "__init__":
            sup = st.value
            kws = {k.arg: k.value for k in sup.keywords}
            for need in ("antenna_factor", "freq_range", "z_axis", "x_axis", "position"):
                if need not in kws:
                    mod.err(st, "super().__init__ without %s=" % need)
            # Antenna.__init__ stores these keywords unchanged (checked separately by ant_init_stores)
            for nm in ("antenna_factor", "freq_range"):
                a = ast.Assign(targets=[ast.Attribute(value=ast.Name(id="self", ctx=ast.Load()), attr=nm, ctx=ast.Store())],
                               value=kws[nm])
                ast.copy_location(a, st)
                body.append(a)
            if not (isinstance(kws["z_axis"], ast.Name) and kws["z_axis"].id == "orientation"):
                mod.err(st, "z_axis= is not the orientation argument")
        elif isinstance(st, ast.Assign) and isinstance(st.targets[0], ast.Tuple) and isinstance(st.value, ast.Call) \
                and FnTr(mod).dotted(st.value.func) == ("scipy", "signal", "butter"):
            body.append(st)
        elif isinstance(st, ast.Assign) and isinstance(st.targets[0], ast.Attribute) and st.targets[0].attr == "filter_coeffs":
            body.append(st)
    if sup is None:
        raise TranslationError("pyrex/antenna.py: DipoleAntenna.__init__ does not call super().__init__")
    names = ["effective_height", "antenna_factor", "freq_range", "filter_coeffs"]
    ret = ast.Return(value=ast.Tuple(elts=[ast.Attribute(value=ast.Name(id="self", ctx=ast.Load()), attr=nm, ctx=ast.Load())
                                           for nm in names], ctx=ast.Load()))
    body.append(ret)
    fn = ast.FunctionDef(name="init_params", args=ast.arguments(
        posonlyargs=[], args=[ast.arg(arg="self"), ast.arg(arg="center_frequency"), ast.arg(arg="bandwidth"),
                              ast.arg(arg="effective_height")],
        vararg=None, kwonlyargs=[], kw_defaults=[], kwarg=None, defaults=[]), body=body, decorator_list=[], returns=None)
    ast.copy_location(fn, node)
    for x in ast.walk(fn):
        if not hasattr(x, "lineno"):
            x.lineno, x.col_offset = node.lineno, 0
            x.end_lineno, x.end_col_offset = node.lineno, 0
    tr = ct.fn_class(mod, cname="DipoleAntenna", record=None, consts=ct.consts)
    tr.lookup_member = ct.lookup
    ct.param_types["init_params"] = {"effective_height": "optR"}
    saved = ct.record
    ct.record = None
    try:
        ct.translate_def(fn, tr, "DipoleAntenna_init_params", has_self=True, pkey="init_params")
    finally:
        ct.record = saved


def antenna_init_stores(mod):
    """Antenna.__init__ must store antenna_factor / efficiency / freq_range unchanged and call
    set_orientation(z_axis=z_axis, x_axis=x_axis) (the record fields of the model are these)."""
    c, node = mod.find_member("Antenna", "__init__")
    want = {"antenna_factor": "antenna_factor", "efficiency": "efficiency", "freq_range": "freq_range", "position": "position"}
    seen = set()
    orient = False
    for st in node.body:
        if isinstance(st, ast.Assign) and isinstance(st.targets[0], ast.Attribute) and st.targets[0].attr in want:
            if not (isinstance(st.value, ast.Name) and st.value.id == want[st.targets[0].attr]):
                mod.err(st, "Antenna.__init__ no longer stores %s unchanged" % st.targets[0].attr)
            seen.add(st.targets[0].attr)
        if isinstance(st, ast.Expr) and isinstance(st.value, ast.Call) and isinstance(st.value.func, ast.Attribute) \
                and st.value.func.attr == "set_orientation":
            kws = {k.arg: k.value for k in st.value.keywords}
            if not (set(kws) == {"z_axis", "x_axis"} and all(isinstance(v, ast.Name) and v.id == k for k, v in kws.items())):
                mod.err(st, "Antenna.__init__ calls set_orientation with unexpected arguments")
            orient = True
    if seen != set(want) or not orient:
        raise TranslationError("pyrex/antenna.py: Antenna.__init__ does not store %s / call set_orientation" % sorted(set(want) - seen))


PARAM_TYPES = {
    "_convert_to_antenna_coordinates": {"point": "vec3"},
    "polarization_gain": {"polarization": "vec3"},
    "set_orientation": {"z_axis": "vec3", "x_axis": "vec3"},
    "apply_response": {"signal": "sig", "direction": "optvec3", "polarization": "optvec3", "force_real": "bool"},
    "frequency_response": {},
}
ANT_METHODS = ["set_orientation", "_convert_to_antenna_coordinates", "directional_gain", "polarization_gain",
               "frequency_response", "apply_response"]


def generate(repo):
    enum = signal_type_enum(repo)
    mod = Module(repo, "pyrex/antenna.py", records={"Ant": ANT_RECORD})
    mod.emit("(* Signal.Type enum of pyrex/signals.py *)\n" + "\n".join(
        "Definition SignalType_%s : Z := (%d)%%Z." % (k, v) for k, v in sorted(enum.items())))
    mod.emit(record_text("Ant", ANT_RECORD, mod))
    antenna_init_stores(mod)
    cts = {}
    for cname in ["Antenna", "DipoleAntenna"]:
        ct = AntClassTr(mod, cname, record="Ant", param_types=copy.deepcopy(PARAM_TYPES),
                        raising=("set_orientation", "apply_response"), enum=enum)
        for m in ANT_METHODS:
            if ct.member(m) is None:
                raise TranslationError("pyrex/antenna.py: %s.%s not found" % (cname, m))
        cts[cname] = ct
    dipole_init_slice(mod, cts["DipoleAntenna"])
    # AntennaSystem delegation (pyrex/detector.py), once per antenna class
    mod2 = Module(repo, "pyrex/detector.py", records={"Ant": ANT_RECORD, "Sys": [("antenna", "Ant")]})
    mod2.emit("Record Sys := mkSys { Sys_antenna : Ant }.")
    for cname in ["Antenna", "DipoleAntenna"]:
        st = AntClassTr(mod2, "AntennaSystem", record="Sys", prefix="AntennaSystem_%s" % cname,
                        param_types=copy.deepcopy(PARAM_TYPES), raising=(), enum=enum, antenna_ct=cts[cname])
        for m in ["set_orientation", "apply_response"]:
            if st.member(m) is None:
                raise TranslationError("pyrex/detector.py: AntennaSystem.%s not found" % m)
    text = py2coq.PRELUDE + PRELUDE_EXTRA + "\n\n".join(mod.out + mod2.out) + "\n"
    hashes = dict(mod.hashes)
    hashes.update(mod2.hashes)
    return text, hashes


if __name__ == "__main__":
    t, h = generate(sys.argv[1])
    print(t)
