(* C09, AntennaSystem with a front end that has memory (gain followed by an FIR filter on the sample
   sequence: delay lines, 2-tap filters ...).  Because the lead-in grid continues the window with the same
   step dt, and when it is at least as long as the filter memory, the system waveform over a uniform
   window equals the front end applied to the sum of the received signals on the INFINITE grid of step dt,
   restricted to the window:   y(t_j) = sum_m taps[m] * gain * S(t_j - m*dt). *)
From Coq Require Import List QArith ZArith Bool Lia Lqa Qround.
From PyrexLib Require Import Interp.
From PyrexModel Require Import AntennaModel AntennaSpec.
From PyrexProofs Require Import C09_struct C09_sum C09_sys.
Import ListNotations.
Open Scope Q_scope.

Lemma sum_at_proper : forall sigs x x', x == x' -> sum_at sigs x == sum_at sigs x'.
Proof.
  intros sigs x x' H. induction sigs as [|s sigs IH]; simpl; [reflexivity|].
  rewrite IH. rewrite (interp_proper (s_times s) (s_values s) x x' H). reflexivity.
Qed.

Lemma dot_ext : forall taps f g, (forall m, (m < length taps)%nat -> f m == g m) -> dot taps f == dot taps g.
Proof.
  induction taps as [|c taps IH]; intros f g H; simpl; [reflexivity|].
  rewrite (H 0%nat) by (simpl; lia).
  rewrite (IH (fun m => f (S m)) (fun m => g (S m))); [reflexivity|].
  intros m Hm. apply H. simpl. lia.
Qed.

(* the FIR output at a sample that has the whole filter memory behind it *)
Lemma fir_at_dot : forall taps xs i, (length taps <= S i)%nat ->
  fir_at taps xs i == dot taps (fun m => nth (i - m) xs 0).
Proof.
  induction taps as [|c taps IH]; intros xs i Hlen; simpl; [reflexivity|].
  rewrite Nat.sub_0_r.
  destruct taps as [|c' taps'].
  - simpl. destruct i; reflexivity.
  - destruct i as [|i']; [simpl in Hlen; lia|].
    rewrite (IH xs i') by (simpl in *; lia). reflexivity.
Qed.

Lemma nth_fir : forall taps xs i, (i < length xs)%nat -> nth i (fir taps xs) 0 = fir_at taps xs i.
Proof.
  intros taps xs i Hi. unfold fir.
  rewrite (nth_indep _ 0 (fir_at taps xs 0%nat)) by (rewrite map_length, seq_length; exact Hi).
  rewrite (map_nth (fir_at taps xs) (seq 0 (length xs)) 0%nat i). rewrite seq_nth by exact Hi. reflexivity.
Qed.

Lemma fir_length : forall taps xs, length (fir taps xs) = length xs.
Proof. intros. unfold fir. rewrite map_length, seq_length. reflexivity. Qed.

(* the nodes of the lead-in grid, counted backwards from the j-th requested time, are t_j - m*dt *)
Lemma lead_in_back_nodes : forall sc ts j m,
  wf_window ts -> uniform ts -> (j < length ts)%nat ->
  let n := Z.to_nat (lead_in_n sc ts) in
  (m <= n + j)%nat ->
  nth (n + j - m) (lead_in_times sc ts) 0 == nth j ts 0 - nat_Q m * (t_second ts - t_first ts).
Proof.
  intros sc ts j m Hw Hu Hj n Hm. unfold lead_in_times. fold n.
  set (dt := t_second ts - t_first ts) in *. set (t0 := t_first ts) in *.
  assert (Hlen : length (linspace_open (t0 - inject_Z (lead_in_n sc ts) * dt) t0 n) = n).
  { unfold linspace_open. rewrite map_length, seq_length. reflexivity. }
  assert (Hnq : forall a b : nat, (b <= a)%nat -> nat_Q (a - b) == nat_Q a - nat_Q b).
  { intros a b Hab. unfold nat_Q. rewrite Nat2Z.inj_sub by exact Hab. unfold Zminus.
    rewrite inject_Z_plus, inject_Z_opp. reflexivity. }
  assert (Hadd : forall a b : nat, nat_Q (a + b) == nat_Q a + nat_Q b).
  { intros a b. unfold nat_Q. rewrite Nat2Z.inj_add, inject_Z_plus. reflexivity. }
  rewrite (Hu j Hj). fold t0 dt.
  destruct (Nat.lt_ge_cases (n + j - m) n) as [Hlt|Hge].
  - (* inside the lead-in part *)
    rewrite app_nth1 by (rewrite Hlen; exact Hlt).
    assert (Hn : (0 < n)%nat) by lia.
    assert (Hz : inject_Z (lead_in_n sc ts) = nat_Q n).
    { unfold nat_Q, n. rewrite Z2Nat.id; [reflexivity|]. unfold n in Hn. lia. }
    rewrite Hz. unfold linspace_open.
    rewrite (nth_indep _ 0 ((fun i => nat_Q i * ((t0 - (t0 - nat_Q n * dt)) / nat_Q n) + (t0 - nat_Q n * dt)) 0%nat))
      by (rewrite map_length, seq_length; exact Hlt).
    rewrite (map_nth (fun i => nat_Q i * ((t0 - (t0 - nat_Q n * dt)) / nat_Q n) + (t0 - nat_Q n * dt)) (seq 0 n) 0%nat).
    rewrite seq_nth by exact Hlt. cbn [plus]. rewrite lead_value by exact Hn.
    rewrite Hnq by exact Hm. rewrite Hadd. ring.
  - (* inside the requested window *)
    rewrite app_nth2 by (rewrite Hlen; exact Hge). rewrite Hlen.
    replace (n + j - m - n)%nat with (j - m)%nat by lia.
    assert (Hmj : (m <= j)%nat) by lia.
    rewrite (Hu (j - m)%nat) by lia. fold t0 dt. rewrite Hnq by exact Hmj. ring.
Qed.

Lemma sys_fir_waveform_lemma : forall sc st ts c0 taps',
  noisy (ant_cfg sc) = false -> fe_taps sc = c0 :: taps' -> fe_shift sc = None ->
  wf_window ts -> uniform ts ->
  (length (fe_taps sc) <= S (Z.to_nat (lead_in_n sc ts)))%nat ->
  let dt := t_second ts - t_first ts in
  fst (s_full_waveform sc st ts) = st /\
  sig_eq (snd (s_full_waveform sc st ts))
         (mkSig ts (map (fir_response (fe_taps sc) (fun u => sum_at (signals (ant st)) u * fe_scale sc) dt) ts)).
Proof.
  intros sc st ts c0 taps' Hn Htaps Hshift Hw Hu Hmem dt. unfold s_full_waveform.
  rewrite fw_noiseless by exact Hn. cbn [fst snd]. split; [destruct st; reflexivity|].
  set (lt := lead_in_times sc ts). set (sigs := signals (ant st)). set (n := Z.to_nat (lead_in_n sc ts)) in *.
  pose proof (lead_in_times_window sc ts Hw) as Hwl. fold lt in Hwl.
  destruct (full_waveform_is_sum_lemma (ant_cfg sc) sigs lt Hwl) as (_ & Hv).
  unfold spec_wave in Hv. cbn [s_values] in Hv.
  set (vals := s_values (fw_pure (ant_cfg sc) sigs lt)) in *.
  assert (Hvl : length vals = length lt) by (rewrite (Forall2_Qeq_length _ _ Hv), map_length; reflexivity).
  assert (Hltlen : length lt = (n + length ts)%nat).
  { unfold lt, lead_in_times. rewrite app_length. unfold linspace_open. rewrite map_length, seq_length. reflexivity. }
  unfold sig_eq, with_times, front_end. rewrite Hshift. rewrite Htaps. rewrite <- Htaps. cbn [s_times s_values]. fold vals.
  split; [reflexivity|].
  set (scaled := map (fun v => v * fe_scale sc) vals).
  assert (Hsl : length scaled = length lt) by (unfold scaled; rewrite map_length; exact Hvl).
  apply Forall2_nth_Q; [rewrite !map_length; reflexivity|].
  intros j Hj. rewrite map_length in Hj.
  rewrite (nth_map_Q (fun t => interp t lt (fir (fe_taps sc) scaled))) by exact Hj.
  rewrite (nth_map_Q (fir_response (fe_taps sc) (fun u => sum_at sigs u * fe_scale sc) dt)) by exact Hj.
  (* t_j is node n+j of the lead-in grid *)
  assert (Hnode : nth (n + j) lt 0 = nth j ts 0).
  { unfold lt, lead_in_times. fold n. rewrite app_nth2.
    - unfold linspace_open. rewrite map_length, seq_length.
      replace (n + j - n)%nat with j by lia. reflexivity.
    - unfold linspace_open. rewrite map_length, seq_length. lia. }
  rewrite <- Hnode at 1.
  rewrite interp_node; [|apply Hwl|rewrite fir_length; lia|lia].
  rewrite nth_fir by lia.
  rewrite fir_at_dot by (fold n in Hmem; lia).
  unfold fir_response. apply dot_ext. intros m Hm.
  assert (Hmn : (m <= n + j)%nat) by (fold n in Hmem; lia).
  unfold scaled. rewrite (nth_map_Q (fun v => v * fe_scale sc)) by lia.
  rewrite (Forall2_Qeq_nth _ _ Hv) by lia.
  rewrite (nth_map_Q (sum_at sigs)) by lia.
  apply Qmult_comp; [|reflexivity]. apply sum_at_proper.
  exact (lead_in_back_nodes sc ts j m Hw Hu Hj Hmn).
Qed.

Lemma last_nth_Q : forall (l : list Q) d, l <> [] -> last l d = nth (length l - 1) l d.
Proof.
  induction l as [|a l IH]; intros d H; [congruence|].
  destruct l as [|b l']; [reflexivity|].
  change (last (a :: b :: l') d) with (last (b :: l') d). rewrite IH by discriminate.
  simpl. rewrite Nat.sub_0_r. reflexivity.
Qed.

(* a lead-in time of at least the filter memory is enough (uniform window) *)
Lemma lead_in_covers_memory_lemma : forall sc ts,
  wf_window ts -> uniform ts -> 0 <= lead_in sc ->
  nat_Q (length (fe_taps sc) - 1) * (t_second ts - t_first ts) <= lead_in sc ->
  (length (fe_taps sc) <= S (Z.to_nat (lead_in_n sc ts)))%nat.
Proof.
  intros sc ts Hw Hu HL Hmem.
  assert (Hunif : t_last ts - t_first ts == nat_Q (length ts - 1) * (t_second ts - t_first ts)).
  { destruct Hw as (_ & Hlen). unfold t_last.
    assert (E : last ts 0 = nth (length ts - 1) ts 0).
    { apply last_nth_Q. intro E0. rewrite E0 in Hlen. simpl in Hlen. lia. }
    rewrite E. rewrite (Hu (length ts - 1)%nat) by lia. ring. }
  destruct (lead_in_covers_lemma sc ts Hw HL Hunif) as (H1 & H2). cbn zeta in H2.
  pose proof (window_dt_pos ts Hw) as Hdt.
  set (dt := t_second ts - t_first ts) in *.
  assert (Hlt : nat_Q (length (fe_taps sc) - 1) < inject_Z (lead_in_n sc ts)).
  { apply Qmult_lt_r with dt; [exact Hdt|]. lra. }
  unfold nat_Q in Hlt. rewrite <- Zlt_Qlt in Hlt. lia.
Qed.

(* ------------------------------------------------------------------ front ends that re-stamp their output
   gain followed by a cable delay: front_end(signal) = Signal(signal.times + D, gain*values).  The output grid
   is NOT the grid the front end was given, so the final  processed.with_times(times)  does real work: when D is
   a whole number d of samples of a uniform window and the lead-in grid has at least d nodes, the system
   waveform is  gain * S(t_j - D). *)
Lemma increasing_from_shift : forall l x0 D, increasing_from x0 l ->
  increasing_from (x0 + D) (map (fun u => u + D) l).
Proof.
  induction l as [|x1 l IH]; intros x0 D H; simpl; [exact I|].
  destruct H as [H1 H2]. split; [lra|apply IH; exact H2].
Qed.

Lemma increasing_shift : forall l D, increasing l -> increasing (map (fun u => u + D) l).
Proof. intros l D H. destruct l as [|x0 l]; simpl; [exact I|]. apply increasing_from_shift. exact H. Qed.

Lemma sys_delay_waveform_lemma : forall sc st ts D d,
  noisy (ant_cfg sc) = false -> fe_taps sc = [] -> fe_shift sc = Some D ->
  wf_window ts -> uniform ts ->
  (d <= Z.to_nat (lead_in_n sc ts))%nat ->
  D == nat_Q d * (t_second ts - t_first ts) ->
  fst (s_full_waveform sc st ts) = st /\
  sig_eq (snd (s_full_waveform sc st ts))
         (mkSig ts (map (fun t => sum_at (signals (ant st)) (t - D) * fe_scale sc) ts)).
Proof.
  intros sc st ts D d Hn Htaps Hshift Hw Hu Hd HD. unfold s_full_waveform.
  rewrite fw_noiseless by exact Hn. cbn [fst snd]. split; [destruct st; reflexivity|].
  set (lt := lead_in_times sc ts). set (sigs := signals (ant st)). set (n := Z.to_nat (lead_in_n sc ts)) in *.
  pose proof (lead_in_times_window sc ts Hw) as Hwl. fold lt in Hwl.
  destruct (full_waveform_is_sum_lemma (ant_cfg sc) sigs lt Hwl) as (_ & Hv).
  unfold spec_wave in Hv. cbn [s_values] in Hv.
  set (vals := s_values (fw_pure (ant_cfg sc) sigs lt)) in *.
  assert (Hvl : length vals = length lt) by (rewrite (Forall2_Qeq_length _ _ Hv), map_length; reflexivity).
  assert (Hltlen : length lt = (n + length ts)%nat).
  { unfold lt, lead_in_times. rewrite app_length. unfold linspace_open. rewrite map_length, seq_length. reflexivity. }
  unfold sig_eq, with_times, front_end. rewrite Hshift, Htaps. cbn [s_times s_values]. fold vals.
  split; [reflexivity|].
  set (scaled := map (fun v => v * fe_scale sc) vals).
  set (shifted := map (fun u => u + D) lt).
  apply Forall2_nth_Q; [rewrite !map_length; reflexivity|].
  intros j Hj. rewrite map_length in Hj.
  rewrite (nth_map_Q (fun t => interp t shifted scaled)) by exact Hj.
  rewrite (nth_map_Q (fun t => sum_at sigs (t - D) * fe_scale sc)) by exact Hj.
  assert (Hi : (n + j - d < length lt)%nat) by lia.
  assert (Hmn : (d <= n + j)%nat) by lia.
  pose proof (lead_in_back_nodes sc ts j d Hw Hu Hj Hmn) as Hback. cbn zeta in Hback. fold n lt in Hback.
  assert (Hnode : nth j ts 0 == nth (n + j - d) shifted 0).
  { unfold shifted. rewrite (nth_map_Q (fun u => u + D)) by exact Hi. rewrite Hback, HD. ring. }
  rewrite (interp_proper shifted scaled _ _ Hnode).
  rewrite interp_node; [|apply increasing_shift; apply Hwl
                        |unfold shifted, scaled; rewrite !map_length; lia
                        |unfold shifted; rewrite map_length; exact Hi].
  unfold scaled. rewrite (nth_map_Q (fun v => v * fe_scale sc)) by lia.
  rewrite (Forall2_Qeq_nth _ _ Hv) by lia.
  rewrite (nth_map_Q (sum_at sigs)) by exact Hi.
  apply Qmult_comp; [|reflexivity]. apply sum_at_proper. rewrite Hback, HD. reflexivity.
Qed.
