(* C10, clause "on the configured time grid delayed by that solution's time of flight", with the
   propagate contract discharged for the shipped propagate() methods (the abstract version with both
   component contracts as hypotheses stays in Props/C10.v: grid_is_times_plus_tof).
   Statements only; proofs in Proofs/C10_C03_link.v on top of C03 (Proofs/C03_concrete.v) and C05
   (concrete_filter = the model of Signal.filter_frequencies).  The *_propagate_both definitions are
   generated from pyrex/ray_tracing.py and pyrex/custom/layered_ice/ray_tracing.py on every run. *)
From Coq Require Import Reals List Bool ZArith.
From PyrexLib Require Import RealPrims Vec3Facts CPair SignalAlg ListOps.
From PyrexGen Require Import Gen_ice Gen_prop.
From PyrexModel Require Import PropagationModel.
From PyrexProofs Require Import C03_propagate FilterBridge C10_C03_link.
Import ListNotations.
Open Scope R_scope.

(* Basic (= Specialized, which inherits it), Uniform and Layered propagate: given a pulse on the kernel
   grid with aligned values, both polarization components come back on grid + tof with the same length.
   No hypothesis about propagate or the frequency filter is left. *)
Theorem grid_is_times_plus_tof_shipped_propagate :
  (forall self pulse pol fres freqs atten_vals grid, sg_times pulse = grid -> wf pulse ->
     let '((os, op), _) := BasicRayTracePath_propagate_both (sig_filter_F concrete_filter) self pulse pol fres freqs atten_vals in
     sg_times os = shift_grid (Path_tof self) grid /\ sg_times op = shift_grid (Path_tof self) grid /\
     length (sg_values os) = length grid /\ length (sg_values op) = length grid) /\
  (forall self pulse pol fres att grid, sg_times pulse = grid -> wf pulse ->
     let '((os, op), _) := UniformRayTracePath_propagate_both (sig_filter_F concrete_filter) self pulse pol fres att in
     sg_times os = shift_grid (UPath_tof self) grid /\ sg_times op = shift_grid (UPath_tof self) grid /\
     length (sg_values os) = length grid /\ length (sg_values op) = length grid) /\
  (forall self pulse pol fres att grid, sg_times pulse = grid -> wf pulse ->
     let '((os, op), _) := LayeredRayTracePath_propagate_both (sig_filter_F concrete_filter) self pulse pol fres att in
     sg_times os = shift_grid (LPath_tof self) grid /\ sg_times op = shift_grid (LPath_tof self) grid /\
     length (sg_values os) = length grid /\ length (sg_values op) = length grid).
Proof. exact shipped_propagate_grid_lemma. Qed.
Print Assumptions grid_is_times_plus_tof_shipped_propagate.

(* what the antenna is handed for one ray solution -- EmptySignal(signal_times + tof) (off-cone or the
   signal model raised ValueError) or the propagated pulse -- is on signal_times + tof either way; only
   the signal-model contract (its pulse is on the times it was given) is assumed *)
Theorem delivered_grid_shipped_propagate : forall grid pulse,
  sg_times pulse = grid /\ wf pulse ->
  (forall empty self pol fres freqs atten_vals,
     delivered_grids grid empty (Path_tof self)
       (BasicRayTracePath_propagate_both (sig_filter_F concrete_filter) self pulse pol fres freqs atten_vals)
     = (shift_grid (Path_tof self) grid, shift_grid (Path_tof self) grid)) /\
  (forall empty self pol fres att,
     delivered_grids grid empty (UPath_tof self)
       (UniformRayTracePath_propagate_both (sig_filter_F concrete_filter) self pulse pol fres att)
     = (shift_grid (UPath_tof self) grid, shift_grid (UPath_tof self) grid)) /\
  (forall empty self pol fres att,
     delivered_grids grid empty (LPath_tof self)
       (LayeredRayTracePath_propagate_both (sig_filter_F concrete_filter) self pulse pol fres att)
     = (shift_grid (LPath_tof self) grid, shift_grid (LPath_tof self) grid)).
Proof. exact delivered_grids_lemma. Qed.
Print Assumptions delivered_grid_shipped_propagate.
