(* Proofs about the reader part of IOModel: chunk loading (EventIterator._load_data as
   written, splitting by index starts) equals the specification reader. *)
From Coq Require Import List ZArith Bool Lia.
From PyrexLib Require Import IOLists.
From PyrexModel Require Import IOModel.
From PyrexProofs Require Import IO_writer.
Import ListNotations.
Open Scope Z_scope.

(* ------------------------------------------------------------------ slices of slices *)
Lemma zlen_py_slice : forall {A} (l : list A) a b, 0 <= a -> a <= b -> b <= zlen l -> zlen (py_slice l a b) = b - a.
Proof.
  intros. rewrite py_slice_in by lia. unfold zlen in *. rewrite firstn_length, skipn_length. lia.
Qed.

Lemma firstn_skipn_comm' : forall {A} (l : list A) a b, firstn b (skipn a l) = skipn a (firstn (a + b) l).
Proof. intros. rewrite skipn_firstn_comm. replace (a + b - a)%nat with b by lia. reflexivity. Qed.

Lemma skipn_skipn' : forall {A} (x y : nat) (l : list A), skipn x (skipn y l) = skipn (x + y) l.
Proof.
  intros A x y. induction y; intro l; simpl.
  - rewrite Nat.add_0_r. reflexivity.
  - rewrite Nat.add_succ_r. destruct l; simpl; [destruct x; reflexivity | apply IHy].
Qed.

Lemma slice_slice : forall {A} (l : list A) a b x y,
  0 <= a -> a <= x -> x <= y -> y <= b -> b <= zlen l ->
  py_slice (py_slice l a b) (x - a) (y - a) = py_slice l x y.
Proof.
  intros A l a b x y H0 H1 H2 H3 H4.
  rewrite (py_slice_in (py_slice l a b)); try lia; [| rewrite zlen_py_slice; lia].
  rewrite (py_slice_in l a b) by lia. rewrite (py_slice_in l x y) by lia.
  replace (y - a - (x - a)) with (y - x) by lia.
  rewrite skipn_firstn_comm. rewrite skipn_skipn'.
  replace (Z.to_nat (x - a) + Z.to_nat a)%nat with (Z.to_nat x) by lia.
  rewrite firstn_firstn. f_equal. lia.
Qed.

(* ------------------------------------------------------------------ selections of a chain *)
Fixpoint incr (l : list nat) : Prop :=
  match l with [] => True | k :: r => (forall k', In k' r -> (k < k')%nat) /\ incr r end.

Lemma chain_sel : forall col lo0 N js, chain lo0 col N ->
  (forall k, In k js -> (k < length col)%nat) -> incr js ->
  forall lo, (forall k, In k js -> lo <= fst (nth k col (0,0))) -> lo <= N ->
  chain lo (map (fun k => nth k col (0,0)) js) N.
Proof.
  intros col lo0 N js Hc. induction js as [|k r IH]; intros Hlen Hinc lo Hlo HN; simpl; auto.
  destruct Hinc as [Hk Hr].
  assert (Hkl : (k < length col)%nat) by (apply Hlen; left; reflexivity).
  destruct (chain_nth _ _ _ _ Hc Hkl) as [A [B C]].
  split; [apply Hlo; left; reflexivity|]. split; [exact B|].
  apply IH; auto.
  - intros k' Hin. apply Hlen. right. exact Hin.
  - intros k' Hin. apply (chain_order _ _ _ _ _ Hc); [apply Hk; exact Hin | apply Hlen; right; exact Hin].
Qed.

Lemma fold_min_lb : forall l a, (forall x, In x l -> a <= x) -> fold_right Z.min a l = a.
Proof.
  induction l; simpl; intros a0 H; auto. rewrite IHl by (intros; apply H; right; auto).
  apply Z.min_r. apply H. left. reflexivity.
Qed.

Lemma chain_min : forall c r lo N, chain lo (c :: r) N -> list_min (map fst (c :: r)) = fst c.
Proof.
  intros c r lo N H. simpl. apply fold_min_lb. intros x Hin. apply in_map_iff in Hin.
  destruct Hin as [c' [Hx Hin]]. subst x. simpl in H. destruct H as [_ [H2 H3]].
  destruct (In_nth _ _ (0,0) Hin) as [i [Hi Hn]]. rewrite <- Hn.
  destruct (chain_nth _ _ _ _ H3 Hi). lia.
Qed.

Lemma fold_max_app : forall l x, fold_right Z.max 0 (l ++ [x]) = Z.max (fold_right Z.max 0 l) (Z.max x 0).
Proof. induction l; simpl; intros; [lia|]. rewrite IHl. lia. Qed.

Lemma fold_max_ub : forall l b, 0 <= b -> (forall x, In x l -> x <= b) -> fold_right Z.max 0 l <= b.
Proof. induction l; simpl; intros b Hb H; [lia|]. apply Z.max_lub; [apply H; auto | apply IHl; auto]. Qed.

Lemma chain_in' : forall l lo n c, chain lo l n -> In c l -> lo <= fst c /\ 0 <= snd c /\ fst c + snd c <= n.
Proof.
  induction l; simpl; intros lo n c Hc Hin; [contradiction|].
  destruct Hc as [H1 [H2 H3]]. destruct Hin as [Hin|Hin].
  - subst c. pose proof (chain_lo_le _ _ _ H3). lia.
  - destruct (IHl _ _ _ H3 Hin) as [A [B C]]. lia.
Qed.

Lemma list_min_le : forall l x, In x l -> list_min l <= x.
Proof.
  intros l x Hin. destruct l as [|a r]; [contradiction|]. simpl.
  revert a x Hin. induction r as [|b r IH]; intros a x Hin; simpl in *.
  - destruct Hin as [H|H]; [subst; lia | contradiction].
  - destruct Hin as [H|[H|H]].
    + subst. pose proof (IH x x (or_introl eq_refl)). lia.
    + subst. lia.
    + pose proof (IH a x (or_intror H)). lia.
Qed.

Lemma fold_min_nonneg : forall r a, 0 <= a -> (forall x, In x r -> 0 <= x) -> 0 <= fold_right Z.min a r.
Proof. induction r; simpl; intros; auto. apply Z.min_glb; [apply H0; auto | apply IHr; auto]. Qed.

Lemma list_min_nonneg : forall l, (forall x, In x l -> 0 <= x) -> 0 <= list_min l.
Proof.
  intros l H. destruct l as [|a r]; simpl; [lia|]. apply fold_min_nonneg; [apply H; left; auto | intros; apply H; right; auto].
Qed.

Lemma list_max_ge : forall l x, In x l -> x <= list_max l.
Proof.
  unfold list_max. induction l; simpl; intros x Hin; [contradiction|].
  destruct Hin as [H|H]; [subst; lia | pose proof (IHl x H); lia].
Qed.

(* The split of the loaded block by each event's own start is the specification slice, for ANY
   selection of index entries that address rows inside the dataset (no ordering needed): this is
   what makes the loader right for datasets indexed for only some events, in any order. *)
Lemma load_formula : forall (rws : list row) (ti : list (Z * Z)),
  (forall c, In c ti -> 0 <= fst c /\ 0 <= snd c /\ fst c + snd c <= zlen rws) ->
  let tmp_start := list_min (map fst ti) in
  let tmp_end := list_max (map (fun c => fst c + snd c) ti) in
  let tmp := py_slice rws tmp_start tmp_end in
  map (fun c => py_slice tmp (fst c - tmp_start) (fst c - tmp_start + snd c)) ti =
  map (fun c => py_slice rws (fst c) (fst c + snd c)) ti.
Proof.
  intros rws ti Hb. simpl. apply map_ext_in. intros c Hin.
  destruct (Hb c Hin) as [A [B C]].
  assert (H1 : list_min (map fst ti) <= fst c) by (apply list_min_le; apply in_map; exact Hin).
  assert (H2 : 0 <= list_min (map fst ti)).
  { apply list_min_nonneg. intros x Hx. apply in_map_iff in Hx. destruct Hx as [c' [Hx Hc']]. subst x.
    destruct (Hb c' Hc'). lia. }
  assert (H3 : fst c + snd c <= list_max (map (fun c => fst c + snd c) ti)).
  { apply list_max_ge. apply (in_map (fun c => fst c + snd c)). exact Hin. }
  assert (H4 : list_max (map (fun c => fst c + snd c) ti) <= zlen rws).
  { unfold list_max. apply fold_max_ub; [apply zlen_nonneg|]. intros x Hx. apply in_map_iff in Hx.
    destruct Hx as [c' [Hx Hc']]. subst x. destruct (Hb c' Hc') as [_ [_ Q]]. exact Q. }
  replace (fst c - list_min (map fst ti) + snd c) with (fst c + snd c - list_min (map fst ti)) by lia.
  apply slice_slice; lia.
Qed.

(* ------------------------------------------------------------------ the selected events of a chunk *)
Definition nsel (ss se step : Z) : Z := (se - ss + step - 1) / step.

Lemma in_zseq : forall n j, In j (zseq n) -> 0 <= j < n.
Proof.
  intros n j H. unfold zseq in H. apply in_map_iff in H. destruct H as [i [Hj Hi]]. apply in_seq in Hi. lia.
Qed.

Lemma nsel_bound : forall ss se step j, 1 <= step -> 0 <= j < nsel ss se step -> ss + j * step < se.
Proof.
  intros ss se step j Hs Hj. unfold nsel in Hj.
  pose proof (Z.mul_div_le (se - ss + step - 1) step ltac:(lia)). nia.
Qed.

Lemma nsel_pos : forall ss se step, 1 <= step -> ss < se -> 1 <= nsel ss se step.
Proof.
  intros. unfold nsel. apply Z.div_le_lower_bound; lia.
Qed.

Lemma nsel_complete : forall ss se step j, 1 <= step -> 0 <= j -> ss + j * step < se -> j < nsel ss se step.
Proof.
  intros ss se step j Hs Hj Hlt. unfold nsel.
  apply Z.div_lt_upper_bound in Hlt || idtac.
  assert (j * step + step <= se - ss + step - 1) by lia.
  assert (j + 1 <= (se - ss + step - 1) / step).
  { apply Z.div_le_lower_bound; lia. }
  lia.
Qed.

Lemma sel_eq : forall {A} (ix : list A) ss se step d, 0 <= ss -> ss <= se -> se <= zlen ix -> 1 <= step ->
  every step (py_slice ix ss se) d = map (fun j => nthZ ix (ss + j * step) d) (zseq (nsel ss se step)).
Proof.
  intros A ix ss se step d H0 H1 H2 Hs. unfold every. rewrite zlen_py_slice by lia. fold (nsel ss se step).
  apply map_ext_in. intros j Hin. apply in_zseq in Hin.
  pose proof (nsel_bound ss se step j Hs Hin) as Hb.
  unfold nthZ. destruct (j * step <? 0) eqn:E1; [nia|]. destruct (ss + j * step <? 0) eqn:E2; [nia|].
  apply Z.ltb_ge in E1. apply Z.ltb_ge in E2.
  rewrite py_slice_in by lia.
  rewrite nth_firstn_skipn; [f_equal; lia | lia | unfold zlen in H2; lia].
Qed.

Lemma incr_map_seq : forall (f : nat -> nat) m b, (forall i j, (i < j)%nat -> (f i < f j)%nat) -> incr (map f (seq b m)).
Proof.
  intros f m. induction m; intros b Hf; simpl; auto. split; [| apply IHm; auto].
  intros k' Hin. apply in_map_iff in Hin. destruct Hin as [j [Hk Hj]]. subst k'. apply in_seq in Hj. apply Hf. lia.
Qed.

Lemma col_nth : forall ix i t, 0 <= i -> i < zlen ix ->
  get (nthZ ix i zero_cells) t = nth (Z.to_nat i) (colOf ix t) (0, 0).
Proof.
  intros ix i t H0 H1. unfold nthZ, colOf. destruct (i <? 0) eqn:E; [lia|].
  rewrite (map_nth_in _ _ _ zero_cells) by (unfold zlen in H1; lia). reflexivity.
Qed.

Lemma load_table_spec : forall st ss se step t, inv st -> hascol st t = true ->
  0 <= ss -> ss < se -> se <= n_events st -> 1 <= step ->
  load_table st ss se step t =
  Some (map (fun j => read_event st (ss + j * step) t) (zseq (nsel ss se step))).
Proof.
  intros st ss se step t I Hcol H0 H1 H2 Hs. unfold load_table. rewrite Hcol. unfold n_events in H2.
  rewrite sel_eq by lia. f_equal.
  set (m := nsel ss se step).
  set (f := fun i : nat => Z.to_nat (ss + Z.of_nat i * step)).
  set (col := colOf (idx st) t).
  assert (Hti : map (fun r => get r t) (map (fun j => nthZ (idx st) (ss + j * step) zero_cells) (zseq m)) =
                map (fun k => nth k col (0,0)) (map f (seq 0 (Z.to_nat m)))).
  { unfold zseq. rewrite !map_map. apply map_ext_in. intros i Hi. apply in_seq in Hi.
    assert (Hb : ss + Z.of_nat i * step < se) by (apply nsel_bound; [lia | fold m; lia]).
    apply col_nth; nia. }
  rewrite Hti.
  assert (Hm : 1 <= m) by (apply nsel_pos; lia).
  assert (Hchain : chain 0 (map (fun k => nth k col (0,0)) (map f (seq 0 (Z.to_nat m)))) (zlen (get (rowsOf st) t))).
  { apply (chain_sel col 0 _ _ (inv_chain _ I t)).
    - intros k Hin. apply in_map_iff in Hin. destruct Hin as [i [Hk Hi]]. subst k. apply in_seq in Hi.
      assert (Hb : ss + Z.of_nat i * step < se) by (apply nsel_bound; [lia | fold m; lia]).
      unfold col, colOf, f. rewrite map_length. unfold zlen in H2. nia.
    - apply incr_map_seq. intros i j Hij. unfold f. nia.
    - intros k Hin. apply in_map_iff in Hin. destruct Hin as [i [Hk Hi]]. subst k. apply in_seq in Hi.
      assert (Hb : ss + Z.of_nat i * step < se) by (apply nsel_bound; [lia | fold m; lia]).
      assert (Hl : (f i < length col)%nat) by (unfold col, colOf, f; rewrite map_length; unfold zlen in H2; nia).
      destruct (chain_nth _ _ _ _ (inv_chain _ I t) Hl) as [A _]. exact A.
    - apply zlen_nonneg. }
  rewrite (load_formula _ _ (fun c Hin => chain_in' _ _ _ c Hchain Hin)).
  rewrite <- Hti. rewrite !map_map. apply map_ext. intros j. reflexivity.
Qed.

(* ------------------------------------------------------------------ a loaded chunk, event by event *)
Lemma zseq_nonnil : forall m, 1 <= m -> zseq m <> [].
Proof. intros m H. unfold zseq. destruct (Z.to_nat m) eqn:E; [lia|]. simpl. discriminate. Qed.

Lemma nthZ_map_zseq : forall {A} (f : Z -> A) m c d, 0 <= c < m -> nthZ (map f (zseq m)) c d = f c.
Proof.
  intros A f m c d H. unfold nthZ, zseq. destruct (c <? 0) eqn:E; [lia|].
  rewrite map_map. rewrite (map_nth_in _ _ _ 0%nat) by (rewrite seq_length; lia).
  rewrite seq_nth by lia. f_equal. lia.
Qed.

Definition chunk_of (st : wstate) (ss se step : Z) : chunk :=
  (per_map (fun t _ => load_table st ss se step t) (per_all tt), load_ana st ss se step).

(* the analysis dataset's index entries address rows inside the dataset (any order, any subset) *)
Definition ana_ok (st : wstate) : Prop :=
  forall e, In e (a_ent (ana st)) ->
  0 <= fst (snd e) /\ 0 <= snd (snd e) /\ fst (snd e) + snd (snd e) <= zlen (a_rows (ana st)).

Lemma acell_ok : forall st i, ana_ok st ->
  0 <= fst (acell st i) /\ 0 <= snd (acell st i) /\ fst (acell st i) + snd (acell st i) <= zlen (a_rows (ana st)).
Proof.
  intros st i H. unfold acell. destruct (find (fun e => fst e =? i) (a_ent (ana st))) eqn:E.
  - apply find_some in E. destruct E as [Hin _]. apply H. exact Hin.
  - simpl. pose proof (zlen_nonneg (a_rows (ana st))). lia.
Qed.

Lemma py_slice_nil : forall {A} a b, py_slice (@nil A) a b = [].
Proof. intros. unfold py_slice. rewrite skipn_nil. apply firstn_nil. Qed.

Definition ana_slice (st : wstate) (i : Z) : list row :=
  py_slice (a_rows (ana st)) (fst (acell st i)) (fst (acell st i) + snd (acell st i)).

(* the loader applied to the analysis column: by load_formula, for arbitrary in-bounds entries *)
Lemma load_ana_spec : forall st ss se step, a_col (ana st) = true -> ana_ok st ->
  0 <= ss -> ss < se -> se <= n_events st -> 1 <= step ->
  load_ana st ss se step = Some (map (fun j => ana_slice st (ss + j * step)) (zseq (nsel ss se step))).
Proof.
  intros st ss se step Hc Hok H0 H1 H2 Hs. unfold load_ana. rewrite Hc. unfold n_events in H2.
  assert (Hlen : zlen (acolumn st) = zlen (idx st)).
  { unfold acolumn. rewrite zlen_map, zseq_length. pose proof (zlen_nonneg (idx st)). lia. }
  rewrite sel_eq by lia. f_equal.
  assert (Hti : map (fun j => nthZ (acolumn st) (ss + j * step) (0, 0)) (zseq (nsel ss se step)) =
                map (fun j => acell st (ss + j * step)) (zseq (nsel ss se step))).
  { apply map_ext_in. intros j Hj. apply in_zseq in Hj.
    pose proof (nsel_bound ss se step j Hs Hj). unfold acolumn. apply nthZ_map_zseq. nia. }
  rewrite Hti.
  rewrite load_formula.
  - rewrite map_map. reflexivity.
  - intros c Hin. apply in_map_iff in Hin. destruct Hin as [j [Hcj _]]. subst c. apply acell_ok. exact Hok.
Qed.

Lemma load_data_ok : forall st ss se step, inv st -> 0 <= ss -> ss < se -> se <= n_events st -> 1 <= step ->
  load_data st ss se step = inr (chunk_of st ss se step).
Proof.
  intros st ss se step I H0 H1 H2 Hs. unfold load_data. unfold n_events in H2.
  rewrite sel_eq by lia.
  pose proof (zseq_nonnil _ (nsel_pos ss se step Hs H1)) as Hn.
  destruct (zseq (nsel ss se step)); [congruence|]. reflexivity.
Qed.

Lemma inv_avail_col : forall st t, inv st -> avail st t = true -> hascol st t = true.
Proof.
  intros st t I Ha. unfold avail in Ha. apply andb_true_iff in Ha. destruct Ha as [_ Hn].
  apply (inv_col _ I). unfold rows. destruct (get (rowsOf st) t); [discriminate | discriminate].
Qed.

(* what the specification reader sees of event i: the six writer tables and the analysis dataset *)
Definition read_all_obs (st : wstate) (i : Z) : per tobs * tobs := (read_obs st i, read_ana st i).

Lemma ev_ana_spec : forall st ss se step c, ana_ok st -> 0 <= ss -> ss < se -> se <= n_events st -> 1 <= step ->
  0 <= c -> ss + c * step < se ->
  ev_ana st (chunk_of st ss se step) c = read_ana st (ss + c * step).
Proof.
  intros st ss se step c Hok H0 H1 H2 Hs Hc Hlt. unfold ev_ana, read_ana, chunk_of.
  destruct (a_ex (ana st)); cbn [negb]; auto.
  destruct (a_col (ana st)) eqn:Hcol; cbn [negb]; auto.
  destruct (a_rows (ana st)) eqn:Hr.
  - simpl. rewrite py_slice_nil. reflexivity.
  - cbn [is_nil snd]. rewrite <- Hr. rewrite load_ana_spec by auto.
    pose proof (nsel_complete ss se step c Hs Hc Hlt) as Hm.
    rewrite zlen_map, zseq_length.
    destruct (0 <=? c) eqn:E1; [| lia]. destruct (c <? Z.max 0 (nsel ss se step)) eqn:E2; [| lia]. cbn [andb].
    rewrite nthZ_map_zseq by lia. reflexivity.
Qed.

Lemma ev_obs_spec : forall st ss se step c, inv st -> ana_ok st -> 0 <= ss -> ss < se -> se <= n_events st -> 1 <= step ->
  0 <= c -> ss + c * step < se ->
  ev_obs st (chunk_of st ss se step) c = read_all_obs st (ss + c * step).
Proof.
  intros st ss se step c I Hok H0 H1 H2 Hs Hc Hlt. unfold ev_obs, read_all_obs. f_equal; [| apply ev_ana_spec; auto].
  unfold read_obs, chunk_of.
  apply per_ext. intro t. rewrite !get_per_map. unfold ev_table.
  destruct (avail st t) eqn:Ha; simpl; auto.
  rewrite get_per_map. rewrite load_table_spec by (auto; apply inv_avail_col; auto).
  pose proof (nsel_complete ss se step c Hs Hc Hlt) as Hm.
  rewrite zlen_map, zseq_length.
  destruct (0 <=? c) eqn:E1; [| lia]. destruct (c <? Z.max 0 (nsel ss se step)) eqn:E2; [| lia]. simpl.
  rewrite nthZ_map_zseq by lia. reflexivity.
Qed.

(* ------------------------------------------------------------------ the iteration loop *)
Fixpoint srange (fuel : nat) (ev stop step : Z) : list Z :=
  match fuel with
  | O => []
  | S f => if stop <=? ev then [] else ev :: srange f (ev + step) stop step
  end.

Definition good (st : wstate) (step c ss se : Z) (data : chunk) : Prop :=
  0 <= ss /\ se <= n_events st /\ -1 <= c /\
  forall c', 0 <= c' -> ss + c' * step < se -> ev_obs st data c' = read_all_obs st (ss + c' * step).

Lemma iter_loop_spec : forall st k stop step, inv st -> ana_ok st -> 1 <= k -> 1 <= step -> stop <= n_events st ->
  forall fuel c ss se data, good st step c ss se data ->
  iter_loop st k stop step fuel c ss se data =
  inr (map (fun ev => (ev, read_all_obs st ev)) (srange fuel ((c + 1) * step + ss) stop step)).
Proof.
  intros st k stop step I Hok Hk Hs Hstop. induction fuel as [|f IH]; intros c ss se data G; simpl; auto.
  destruct G as [G0 [G1 [G2 G3]]].
  set (ev := (c + 1) * step + ss).
  assert (Hev : 0 <= ev) by (unfold ev; nia).
  destruct (stop <=? ev) eqn:E1; auto. apply Z.leb_gt in E1.
  destruct (se <=? ev) eqn:E2.
  - apply Z.leb_le in E2.
    assert (Hlt : ev < Z.min (ev + k) (n_events st)) by lia.
    rewrite (load_data_ok st ev _ step I) by lia.
    rewrite (IH 0 ev (Z.min (ev + k) (n_events st)) (chunk_of st ev (Z.min (ev + k) (n_events st)) step)).
    + replace ((0 + 1) * step + ev) with (ev + step) by lia.
      rewrite (ev_obs_spec st ev _ step 0 I Hok) by lia. replace (ev + 0 * step) with ev by lia. reflexivity.
    + split; [lia|]. split; [lia|]. split; [lia|]. intros c' Hc' Hlt'. apply ev_obs_spec; auto; lia.
  - apply Z.leb_gt in E2.
    rewrite (IH (c + 1) ss se data).
    + replace ((c + 1 + 1) * step + ss) with (ev + step) by (unfold ev; lia).
      rewrite (G3 (c + 1)) by (fold ev; lia). replace (ss + (c + 1) * step) with ev by (unfold ev; lia).
      reflexivity.
    + split; [lia|]. split; [lia|]. split; [lia|]. exact G3.
Qed.

Lemma iter_init_ok : forall st a b s s0 e0 p0, iter_init st a b s = inr (s0, e0, p0) ->
  0 <= s0 < n_events st /\ 0 < e0 <= n_events st /\ 1 <= p0 /\
  s0 = (if dflt a 0 <? 0 then dflt a 0 + n_events st else dflt a 0) /\
  e0 = (if dflt b (n_events st) <? 0 then dflt b (n_events st) + n_events st else dflt b (n_events st)) /\
  p0 = dflt s 1.
Proof.
  intros st a b s s0 e0 p0 H. unfold iter_init in H.
  destruct (negb (get (exOf st) P) || is_none (thrown st)); [discriminate|].
  set (n := n_events st) in *.
  set (s1 := if dflt a 0 <? 0 then dflt a 0 + n else dflt a 0) in *.
  set (e1 := if dflt b n <? 0 then dflt b n + n else dflt b n) in *.
  destruct ((s1 <? 0) || (n <=? s1) || (e1 <=? 0) || (n <? e1)) eqn:E; [discriminate|].
  destruct (dflt s 1 <=? 0) eqn:E3; [discriminate|].
  inversion H; subst. apply orb_false_iff in E. destruct E as [E E4]. apply orb_false_iff in E. destruct E as [E E5].
  apply orb_false_iff in E. destruct E as [E6 E7].
  repeat split; try reflexivity; lia.
Qed.

Lemma iterate_fuel_spec : forall st k a b s fuel s0 e0 p0, inv st -> ana_ok st -> 1 <= k ->
  iter_init st a b s = inr (s0, e0, p0) ->
  iterate_fuel st k a b s fuel = inr (map (fun ev => (ev, read_all_obs st ev)) (srange fuel s0 e0 p0)).
Proof.
  intros st k a b s fuel s0 e0 p0 I Hok Hk Hi. unfold iterate_fuel. rewrite Hi.
  destruct (iter_init_ok _ _ _ _ _ _ _ Hi) as [A [B [C _]]].
  assert (Hst : e0 <= n_events st) by lia.
  rewrite (iter_loop_spec st k e0 p0 I Hok Hk C Hst fuel (-1) s0 s0 empty_chunk).
  - replace ((-1 + 1) * p0 + s0) with s0 by lia. reflexivity.
  - split; [lia|]. split; [lia|]. split; [lia|]. intros c' Hc' Hlt. nia.
Qed.
