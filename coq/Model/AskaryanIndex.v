(* C07, bookkeeping layer: the list / index manipulations of pyrex/askaryan.py AS WRITTEN
   (ARZAskaryanSignal.shower_signal: the four slicing / zero-padding cases that place the
   convolution, decimation, np.diff; AVZAskaryanSignal.get_signal: np.roll, zero extension),
   over an arbitrary element type.  No proofs here (Proofs/C07_index.v).
   Hand-written; the modelled statements are pinned by AST hash (harness/pins/C07.json) and the
   model is validated against the implementation by the C07 correspondence. *)
From Coq Require Import List ZArith Bool.
Import ListNotations.
Open Scope Z_scope.

Section Index.
  Variable A : Type.
  Variable zero : A.

  Definition zlen (l : list A) : Z := Z.of_nat (length l).
  Definition zeros (k : Z) : list A := repeat zero (Z.to_nat k).       (* np.zeros(k), k >= 0 *)

  (* element i of l, `zero` outside the list (i may be negative) *)
  Definition getz (l : list A) (i : Z) : A := if i <? 0 then zero else nth (Z.to_nat i) l zero.

  (* Python slice index normalisation and l[a:b] (step 1) *)
  Definition py_index (len i : Z) : Z := if i <? 0 then Z.max 0 (len + i) else Z.min i len.
  Definition slice (l : list A) (a b : Z) : list A :=
    let a' := py_index (zlen l) a in
    let b' := py_index (zlen l) b in
    firstn (Z.to_nat (b' - a')) (skipn (Z.to_nat a') l).
  Definition slice_from (l : list A) (a : Z) : list A := slice l a (zlen l).     (* l[a:] *)
  Definition slice_to (l : list A) (b : Z) : list A := slice l 0 b.               (* l[:b] *)

  (* askaryan.py, shower_signal: "Shift convolution by the amount given by n_shift ..." *)
  Definition arz_assemble (conv : list A) (n_shift n_extra : Z) : list A :=
    if n_shift >? 0 then
      if n_shift - n_extra >=? 0
      then slice_from conv n_shift ++ zeros (n_shift - n_extra)
      else slice conv n_shift (n_shift - n_extra)
    else
      if n_shift - n_extra >=? 0
      then zeros (- n_shift) ++ conv ++ zeros (n_shift - n_extra)
      else zeros (- n_shift) ++ slice_to conv (n_shift - n_extra).

  (* the early exit of shower_signal: the whole pulse lies outside the window *)
  Definition arz_outside (n_shift n_extra nd : Z) : bool :=
    (- n_shift >=? nd) || (n_shift - n_extra >=? nd).

  (* l[::k] *)
  Definition decimate (k : Z) (l : list A) : list A :=
    map (fun j => nth (j * Z.to_nat k)%nat l zero) (seq 0 (Z.to_nat ((zlen l + k - 1) / k))).
  (* `if dt_divider != 1: convolution = convolution[::dt_divider]` *)
  Definition arz_decimate (k : Z) (l : list A) : list A := if k =? 1 then l else decimate k l.

  (* np.roll(l, s) *)
  Definition roll (l : list A) (s : Z) : list A :=
    map (fun j => nth (Z.to_nat ((Z.of_nat j - s) mod zlen l)) l zero) (seq 0 (length l)).

  (* AVZ: np.roll(np.concatenate((trace, zeros(len(trace)))), shift)[:len(trace)] *)
  Definition avz_place (trace : list A) (shift : Z) : list A :=
    firstn (length trace) (roll (trace ++ zeros (zlen trace)) shift).
End Index.

Arguments zlen {A}.
Arguments zeros {A}.
Arguments getz {A}.
Arguments slice {A}.
Arguments slice_from {A}.
Arguments slice_to {A}.
Arguments arz_assemble {A}.
Arguments decimate {A}.
Arguments arz_decimate {A}.
Arguments roll {A}.
Arguments avz_place {A}.
