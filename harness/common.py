"""Shared machinery for every property check: Coq build + assumption audit,
correspondence bookkeeping, violation / known-finding reporting, evidence writer.

A check module (harness/props/cXX.py) defines  run(ctx)  and optionally
replay(ctx, obj).  It talks to this module only through the Ctx object.
"""
import fcntl
import hashlib
import json
import os
import random
import re
import shutil
import subprocess
import sys
import time

ROOT = os.environ.get("VERIF_ROOT") or os.path.dirname(os.path.dirname(os.path.abspath(__file__)))
REPO = os.environ.get("VERIF_REPO", "/repo")
COQ = os.path.join(ROOT, "coq")
SCRATCH = os.environ.get("VERIF_SCRATCH", "/root/.verif-scratch")
NPROC = os.cpu_count() or 4

# Axioms that may appear under Print Assumptions (all declared by the standard
# library / installed libraries, none by this development).  DESIGN.md section 3.
ALLOWED_AXIOMS = {
    "ClassicalDedekindReals.sig_forall_dec",
    "ClassicalDedekindReals.sig_not_dec",
    "FunctionalExtensionality.functional_extensionality_dep",
    "functional_extensionality_dep",
    "Classical_Prop.classic",
    "classic",
    "sig_forall_dec",
    "sig_not_dec",
    "proof_irrelevance",
    "ProofIrrelevance.proof_irrelevance",
    "Eqdep.Eq_rect_eq.eq_rect_eq",
    "JMeq.JMeq_eq",
    "PropExtensionality.propositional_extensionality",
    "ClassicalEpsilon.constructive_indefinite_description",
    "constructive_indefinite_description",
}
# primitive (native) integer / float operations show up in Print Assumptions when
# Interval's reflexive tactic is used; they are kernel primitives, not axioms
PRIMITIVE_PREFIXES = ("Uint63.", "PrimInt63.", "PrimFloat.", "FloatOps.", "Sint63.",
                      "PArray.", "FloatAxioms.", "Uint63Axioms.", "Int63.", "PrimInt63")

FORBIDDEN = re.compile(
    r"\b(Admitted|admit|Axiom|Axioms|Parameter|Parameters|Conjecture|Conjectures|"
    r"Admit\s+Obligations|bypass_check|give_up)\b|Unset\s+Guard\s+Checking|"
    r"Unset\s+Positivity\s+Checking|Unset\s+Universe\s+Checking|type-in-type|impredicative-set")


def sh(cmd, timeout=600, cwd=None, env=None, input=None):
    """Run a shell command in its own process group, return (rc, stdout+stderr).
    On timeout the whole group is killed (so no orphaned extracted programs survive)."""
    import signal
    p = subprocess.Popen(cmd, shell=isinstance(cmd, str), cwd=cwd, env=env,
                         stdin=subprocess.PIPE if input is not None else None,
                         stdout=subprocess.PIPE, stderr=subprocess.STDOUT, text=True,
                         start_new_session=True)
    try:
        out, _ = p.communicate(input=input, timeout=timeout)
        return p.returncode, out
    except subprocess.TimeoutExpired:
        try:
            os.killpg(p.pid, signal.SIGKILL)
        except OSError:
            pass
        try:
            out, _ = p.communicate(timeout=10)
        except Exception:
            out = ""
        return 124, (out or "") + "\n[timeout after %ss]" % timeout


def strip_coq_comments(text):
    out, depth, i, n = [], 0, 0, len(text)
    while i < n:
        if text.startswith("(*", i):
            depth += 1
            i += 2
        elif text.startswith("*)", i) and depth:
            depth -= 1
            i += 2
        else:
            if not depth:
                out.append(text[i])
            i += 1
    return "".join(out)


def audit_sources(files):
    """Return list of 'file: offending text' for forbidden constructs."""
    bad = []
    for f in files:
        try:
            src = strip_coq_comments(open(f).read())
        except OSError:
            continue
        # string literals may contain anything
        src_ns = re.sub(r'"[^"]*"', '""', src)
        for m in FORBIDDEN.finditer(src_ns):
            bad.append("%s: %s" % (os.path.relpath(f, ROOT), m.group(0)))
        depth = 0
        for line in src_ns.split("\n"):
            s = line.strip()
            if re.match(r"^(Section|Module\s+Type)\b", s):
                depth += 1 if s.startswith("Section") else 0
            if re.match(r"^End\b", s) and depth:
                depth -= 1
            if depth == 0 and re.match(r"^(Variable|Variables|Hypothesis|Hypotheses|Context)\b", s):
                bad.append("%s: top-level %s" % (os.path.relpath(f, ROOT), s[:40]))
    return bad


class CoqLock:
    def __enter__(self):
        os.makedirs(COQ, exist_ok=True)
        self.f = open(os.path.join(COQ, ".lock"), "w")
        fcntl.flock(self.f, fcntl.LOCK_EX)
        return self

    def __exit__(self, *a):
        fcntl.flock(self.f, fcntl.LOCK_UN)
        self.f.close()


def ensure_makefile():
    """(Re)generate coq/_CoqProject from the files on disk and the Makefile from it."""
    dirs = ["Lib", "Gen", "Model", "Proofs", "Props"]
    files = []
    for d in dirs:
        p = os.path.join(COQ, d)
        if os.path.isdir(p):
            for f in sorted(os.listdir(p)):
                if f.endswith(".v") and not f.startswith("."):
                    files.append("%s/%s" % (d, f))
    content = "-Q Lib PyrexLib\n-Q Gen PyrexGen\n-Q Model PyrexModel\n-Q Proofs PyrexProofs\n-Q Props PyrexProps\n" \
        "-arg -w -arg -all\n" + "\n".join(files) + "\n"
    proj = os.path.join(COQ, "_CoqProject")
    old = open(proj).read() if os.path.exists(proj) else None
    if old != content or not os.path.exists(os.path.join(COQ, "Makefile")):
        open(proj, "w").write(content)
        rc, out = sh("coq_makefile -f _CoqProject -o Makefile", cwd=COQ)
        if rc:
            raise RuntimeError("coq_makefile failed: " + out)


def write_if_changed(path, content):
    old = open(path).read() if os.path.exists(path) else None
    if old != content:
        os.makedirs(os.path.dirname(path), exist_ok=True)
        open(path, "w").write(content)
        return True
    return False


def coq_deps(vfile):
    """Transitive .v dependencies of a file inside coq/ (by scanning Require lines)."""
    seen, todo = [], [vfile]
    prefix = {"PyrexLib": "Lib", "PyrexGen": "Gen", "PyrexModel": "Model",
              "PyrexProofs": "Proofs", "PyrexProps": "Props"}
    while todo:
        f = todo.pop()
        if f in seen:
            continue
        seen.append(f)
        try:
            src = strip_coq_comments(open(os.path.join(COQ, f)).read())
        except OSError:
            continue
        for m in re.finditer(r"From\s+(\w+)\s+Require\s+(?:Import\s+|Export\s+)?([^.]*(?:\.[A-Za-z_][^.\s]*)*)\.", src):
            lib = m.group(1)
            if lib in prefix:
                for name in m.group(2).split():
                    todo.append("%s/%s.v" % (prefix[lib], name.split(".")[-1]))
        for m in re.finditer(r"Require\s+(?:Import\s+|Export\s+)?((?:Pyrex\w+\.\w+\s*)+)\.", src):
            for name in m.group(1).split():
                lib, mod = name.split(".")[:2]
                if lib in prefix:
                    todo.append("%s/%s.v" % (prefix[lib], mod))
    return seen


def parse_assumptions(output):
    """Parse the stdout of coqc for a Props file: sequence of Print Assumptions blocks.
    Returns list of lists of axiom names (one per Print Assumptions command)."""
    blocks, cur = [], None
    for line in output.split("\n"):
        if line.startswith("Closed under the global context"):
            blocks.append([])
            cur = None
        elif line.startswith("Axioms:"):
            cur = []
            blocks.append(cur)
        elif cur is not None:
            m = re.match(r"^([A-Za-z_][\w.']*)\s*(:|$)", line)
            if m and not line.startswith(" "):
                cur.append(m.group(1))
    return blocks


class Ctx:
    def __init__(self, pid, tier, seed):
        self.pid, self.tier, self.seed = pid, tier, seed
        self.rng = random.Random(seed)
        self.t0 = time.time()
        self.obligations = []      # (name, ok, detail)
        self.axioms = {}           # theorem -> [axioms]
        self.checker_cmds = []
        self.trusted = []
        self.assumptions = []
        self.partial = []
        self.evals = 0
        self.distinct = set()
        self.samples = []
        self.rule = ""
        self.extra = {}
        self.failures = []         # dicts: key, what, replay(obj), witness(bool)
        self.known = []
        self.broken = []           # names of theorem/correspondence that no longer check
        self.scratch = os.path.join(SCRATCH, "%s-%d" % (pid, os.getpid()))
        os.makedirs(self.scratch, exist_ok=True)
        os.makedirs(os.path.join(ROOT, "evidence"), exist_ok=True)
        # known findings: committed files known_findings/<id>.json, never written at run time
        self.known_findings = []
        kdir = os.path.join(ROOT, "known_findings")
        if os.path.isdir(kdir):
            for f in sorted(os.listdir(kdir)):
                if f.endswith(".json"):
                    self.known_findings += json.load(open(os.path.join(kdir, f)))

    thorough = property(lambda self: self.tier == "thorough")

    def n(self, quick, thorough):
        return thorough if self.thorough else quick

    # ---------------------------------------------------------------- Coq side
    def oblige(self, name, ok, detail=""):
        self.obligations.append((name, bool(ok), detail))
        if not ok:
            self.broken.append(name)
        return ok

    def write_gen(self, name, content):
        """Install a generated Coq file coq/Gen/<name>.v (only rewritten when changed)."""
        with CoqLock():
            write_if_changed(os.path.join(COQ, "Gen", name + ".v"), content)

    def coq_build(self, props_file, timeout=900):
        """Build the closure of coq/Props/<props_file>.v with make, then compile the
        Props file itself with coqc capturing Print Assumptions.  Registers one
        obligation per Theorem in the file plus one for the audit.  Returns True when
        everything was accepted."""
        rel = "Props/%s.v" % props_file
        path = os.path.join(COQ, rel)
        with CoqLock():
            ensure_makefile()
            deps = coq_deps(rel)
            bad = audit_sources([os.path.join(COQ, d) for d in deps])
            targets = " ".join(d[:-2] + ".vo" for d in deps if d != rel)
            ok_build = True
            out = ""
            if targets:
                cmd = "timeout %d make -j%d %s" % (timeout, NPROC, targets)
                self.checker_cmds.append("cd coq && " + cmd)
                rc, out = sh(cmd, cwd=COQ, timeout=timeout + 30)
                ok_build = rc == 0
            cmd = "timeout %d coqc -w -all -Q Lib PyrexLib -Q Gen PyrexGen -Q Model PyrexModel -Q Proofs PyrexProofs -Q Props PyrexProps %s" % (timeout, rel)
            self.checker_cmds.append("cd coq && " + cmd)
            rc2, out2 = (1, "") if not ok_build else sh(cmd, cwd=COQ, timeout=timeout + 30)
            if self.thorough and ok_build and rc2 == 0:
                lib = "PyrexProps." + props_file
                cmd = "timeout 1800 coqchk -silent -o -Q Lib PyrexLib -Q Gen PyrexGen -Q Model PyrexModel -Q Proofs PyrexProofs -Q Props PyrexProps %s" % lib
                self.checker_cmds.append("cd coq && " + cmd)
                rc3, out3 = sh(cmd, cwd=COQ, timeout=1900)
                self.oblige("coqchk:" + lib, rc3 == 0, out3[-1500:] if rc3 else "")
                self.extra["coqchk_axioms"] = [l.strip() for l in out3.split("\n") if l.strip()][-40:]
        src = strip_coq_comments(open(path).read())
        theorems = re.findall(r"^\s*Theorem\s+([\w']+)", src, re.M)
        printed = re.findall(r"Print\s+Assumptions\s+([\w'.]+)\s*\.", src)
        self.extra.setdefault("theorems", []).extend(theorems)
        if not ok_build:
            err = self._coq_error(out)
            for t in theorems:
                self.oblige("theorem:" + t, False, "dependency failed to build: " + err)
            self.oblige("audit:" + props_file, not bad, "; ".join(bad))
            self.extra["coq_error"] = err
            return False
        if rc2 != 0:
            err = self._coq_error(out2)
            for t in theorems:
                self.oblige("theorem:" + t, False, err)
            self.oblige("audit:" + props_file, not bad, "; ".join(bad))
            self.extra["coq_error"] = err
            return False
        blocks = parse_assumptions(out2)
        allok = True
        for t in theorems:
            if t not in printed:
                allok &= self.oblige("theorem:" + t, False, "no Print Assumptions for it")
                continue
            ax = blocks[printed.index(t)] if printed.index(t) < len(blocks) else None
            if ax is None:
                allok &= self.oblige("theorem:" + t, False, "Print Assumptions output missing")
                continue
            foreign = [a for a in ax if a not in ALLOWED_AXIOMS and a.split(".")[-1] not in ALLOWED_AXIOMS
                       and not a.startswith(PRIMITIVE_PREFIXES)]
            self.axioms[t] = ax
            allok &= self.oblige("theorem:" + t, not foreign,
                                 "depends on non-allow-listed axioms: %s" % foreign if foreign else "")
        allok &= self.oblige("audit:" + props_file, not bad, "; ".join(bad))
        return allok

    @staticmethod
    def _coq_error(out):
        lines = out.strip().split("\n")
        for i, l in enumerate(lines):
            if l.startswith("File ") and i + 1 < len(lines):
                return "\n".join(lines[i:i + 12])[:1500]
        return "\n".join(lines[-12:])[:1500]

    def coq_eval(self, name, body, imports, timeout=600):
        """Compile a scratch file (outside coq/) that may Require the built development.
        Returns (rc, output)."""
        f = os.path.join(self.scratch, name + ".v")
        open(f, "w").write(imports + "\n" + body)
        cmd = "timeout %d coqc -w -all -Q %s/Lib PyrexLib -Q %s/Gen PyrexGen -Q %s/Model PyrexModel -Q %s/Proofs PyrexProofs -Q %s/Props PyrexProps %s" % (
            timeout, COQ, COQ, COQ, COQ, COQ, f)
        return sh("ulimit -s unlimited 2>/dev/null; " + cmd, cwd=self.scratch, timeout=timeout + 30)

    def coq_eval_exprs(self, imports, exprs, chunk=250, timeout=900):
        """Evaluate Coq expressions with vm_compute inside the built development.
        imports: text placed at the top of each scratch file (Require/Import/Open Scope).
        exprs: list of Coq terms (strings).  Returns a list of whitespace-normalised value
        strings (scope suffixes %Z/%nat/%N removed), or raises RuntimeError with coqc's output."""
        from concurrent.futures import ThreadPoolExecutor
        chunks = [exprs[i:i + chunk] for i in range(0, len(exprs), chunk)]
        head = imports + "\nSet Printing Width 100000000. Set Printing Depth 100000000.\n"

        def one(ic):
            i, ch = ic
            body = "\n".join("Eval vm_compute in (%s)." % e for e in ch)
            rc, out = self.coq_eval("cases_%d" % i, body, head, timeout=timeout)
            if rc:
                raise RuntimeError("coqc failed on cases_%d: %s" % (i, out[-2000:]))
            vals = re.findall(r"^\s+= (.*?)\n\s+: ", out, re.S | re.M)
            if len(vals) != len(ch):
                raise RuntimeError("expected %d results, parsed %d: %s" % (len(ch), len(vals), out[-1000:]))
            return [re.sub(r"%(Z|nat|N|positive|string|Q)\b", "", re.sub(r"\s+", " ", v)).strip() for v in vals]
        with ThreadPoolExecutor(max_workers=min(8, max(1, len(chunks)))) as ex:
            res = list(ex.map(one, enumerate(chunks)))
        self.checker_cmds.append("coqc <scratch>/cases_*.v  (Eval vm_compute of %d model runs)" % len(exprs))
        return [v for r in res for v in r]

    # -------------------------------------------------------- coverage counters
    def case(self, key=None, nontrivial=True, sample=None):
        self.evals += 1
        if nontrivial and key is not None:
            self.distinct.add(hashlib.md5(repr(key).encode()).hexdigest())
        if sample is not None and len(self.samples) < 5:
            self.samples.append(sample)

    # ---------------------------------------------------------------- reporting
    def fail(self, key, what, replay, witness=True):
        """Record a failure of the property.  key identifies the concrete input/history;
        it is matched against known_findings.json."""
        for kf in self.known_findings:
            if kf.get("property") == self.pid and kf.get("status") == "open" and kf.get("key") == key:
                if key not in [k["key"] for k in self.known]:
                    self.known.append({"key": key, "what": kf.get("what", what)})
                return
        if any(f["key"] == key for f in self.failures):
            return
        if len(self.failures) >= 6:
            self.extra["further_failures_not_listed"] = self.extra.get("further_failures_not_listed", 0) + 1
            return
        self.failures.append({"key": key, "what": what, "replay": replay, "witness": witness})

    def finish(self):
        # a broken proof/correspondence with no concrete witness is still a violation
        if self.broken and not any(f["witness"] for f in self.failures):
            self.failures.append({
                "key": "broken:" + ",".join(self.broken[:6]),
                "what": "proof obligations / correspondence no longer check: " + ", ".join(self.broken),
                "replay": {"broken": self.broken,
                           "details": {n: d for n, ok, d in self.obligations if not ok}},
                "witness": False})
        lines = []
        for k in self.known:
            lines.append("KNOWN-FINDING: property=%s %s" % (self.pid, k["what"]))
        vdir = os.path.join(ROOT, "violations")
        for i, f in enumerate(self.failures):
            os.makedirs(vdir, exist_ok=True)
            path = os.path.join(vdir, "%s_%s_%d.json" % (self.pid, self.tier, i))
            json.dump({"property": self.pid, "key": f["key"], "what": f["what"],
                       "witness_found": f["witness"], "broken": self.broken, "seed": self.seed,
                       "replay": f["replay"]}, open(path, "w"), indent=1, default=str)
            lines.append("VIOLATION property=%s replay=%s%s" % (
                self.pid, path, "" if f["witness"] else " no-failing-input-found"))
            sys.stderr.write("  -> %s\n" % f["what"][:600])
        nob = len(self.obligations)
        ndis = sum(1 for _, ok, _ in self.obligations if ok)
        ev = {
            "property_id": self.pid, "tier": self.tier, "seed": self.seed, "level": "proof",
            "coverage": {
                "obligations": nob, "discharged": ndis,
                "checker_cmd": " ; ".join(self.checker_cmds) or "none",
                "trusted_base": self.trusted + ["Print Assumptions %s: %s" % (t, ", ".join(a) or "closed under the global context")
                                                for t, a in self.axioms.items()],
                "obligation_list": [{"name": n, "ok": ok, **({"detail": d} if d else {})} for n, ok, d in self.obligations],
                "evaluations": self.evals, "distinct_nontrivial": len(self.distinct),
                "rule": self.rule, "samples": self.samples or ["(no correspondence cases in this run)"],
                "partial": self.partial,
                "known_findings_matched": self.known,
                **self.extra,
            },
            "assumptions": self.assumptions,
            "wall_s": round(time.time() - self.t0, 2),
            "violations": len(self.failures),
        }
        json.dump(ev, open(os.path.join(ROOT, "evidence", self.pid + ".json"), "w"), indent=1, default=str)
        shutil.rmtree(self.scratch, ignore_errors=True)
        for l in lines:
            print(l)
        print("%s %s: %d/%d obligations, %d cases (%d distinct), %d violations, %d known, %.1fs" % (
            self.pid, self.tier, ndis, nob, self.evals, len(self.distinct), len(self.failures),
            len(self.known), time.time() - self.t0))
        return 1 if self.failures else 0


def hexf(x):
    return float(x).hex()


def coq_lit(x):
    """Python value -> Coq literal in the canonical syntax printed by vm_compute
    (ints as Z, bool, None/('Some', v), tuples as pairs, lists, str)."""
    if x is None:
        return "None"
    if isinstance(x, bool):
        return "true" if x else "false"
    if isinstance(x, int):
        return str(x) if x >= 0 else "(%d)" % x
    if isinstance(x, str):
        return '"' + x.replace('"', '""') + '"'
    if isinstance(x, tuple) and len(x) == 2 and x[0] == "Some":
        return "(Some %s)" % coq_lit(x[1])
    if isinstance(x, tuple):
        return "(" + ", ".join(coq_lit(e) for e in x) + ")"
    if isinstance(x, list):
        return "[" + "; ".join(coq_lit(e) for e in x) + "]"
    raise TypeError("no Coq literal for %r" % (x,))


def norm_coq(s):
    """Canonical form for textual comparison of two Coq values OF THE SAME TYPE:
    all parentheses and whitespace removed (tuple nesting is fixed by the type)."""
    return re.sub(r"[()\s]+", "", s)
