(* C05: proofs about the frequency-filter model (Model/FilterModel.v) from the DFT theory
   (Lib/DFT.v). *)
From Coq Require Import Reals ZArith List Bool Arith Lia Lra.
From Coquelicot Require Import Coquelicot.
From PyrexLib Require Import DFT.
From PyrexModel Require Import FilterModel.
Import ListNotations.
Local Open Scope R_scope.
Local Open Scope C_scope.

(* ------------------------------------------------------------------ list plumbing *)
Definition sigfn (xs : list R) (n : nat) : R := nth n xs 0%R.

Lemma nth_map_seq {A} (F : nat -> A) M k d : (k < M)%nat -> nth k (map F (seq 0 M)) d = F k.
Proof.
  intros H. rewrite (nth_indep _ d (F 0%nat)) by (rewrite map_length, seq_length; lia).
  rewrite map_nth, seq_nth by lia. reflexivity.
Qed.

Lemma map2_length {A B D} (f : A -> B -> D) a b : length (map2 f a b) = Nat.min (length a) (length b).
Proof.
  revert b. induction a; intros [|y b]; simpl; try reflexivity. rewrite IHa. reflexivity.
Qed.

Lemma nth_map2 {A B D} (f : A -> B -> D) a b n da db dd :
  (n < length a)%nat -> (n < length b)%nat ->
  nth n (map2 f a b) dd = f (nth n a da) (nth n b db).
Proof.
  revert b n. induction a; intros [|y b] [|n]; simpl; intros; try lia; try reflexivity.
  apply IHa; lia.
Qed.

Lemma nth_firstn {A} (l : list A) k n d : (n < k)%nat -> nth n (firstn k l) d = nth n l d.
Proof.
  revert k n. induction l; intros [|k] [|n]; simpl; intros; try lia; try reflexivity.
  apply IHl. lia.
Qed.

Lemma zeros_length n : length (zeros n) = n.
Proof. induction n; simpl; congruence. Qed.

Lemma nth_zeros n k : nth k (zeros n) 0%R = 0%R.
Proof. revert k. induction n; intros [|k]; simpl; auto. Qed.

Lemma nth_padded values n :
  nth n (map RtoC (values ++ zeros (length values))) 0 = zero_pad (length values) (sigfn values) n.
Proof.
  change (RtoC 0) with (RtoC 0%R) at 1. rewrite map_nth. unfold zero_pad, sigfn.
  destruct (Nat.ltb_spec n (length values)).
  - rewrite app_nth1 by assumption. reflexivity.
  - rewrite app_nth2 by assumption. rewrite nth_zeros. reflexivity.
Qed.

Lemma Csum_idx_spec f l i acc :
  Csum_idx f l i acc = acc + Csum (fun j => f (i + j)%nat (nth j l 0)) (length l).
Proof.
  revert i acc. induction l as [|x t IH]; intros i acc; simpl Csum_idx.
  - simpl. ring.
  - rewrite IH. simpl length. rewrite Csum_S_l. simpl nth.
    rewrite Nat.add_0_r.
    rewrite (Csum_ext (fun j => f (S i + j)%nat (nth j t 0)) (fun j => f (i + S j)%nat (nth j t 0))).
    + ring.
    + intros. f_equal. lia.
Qed.

Lemma fft_l_length xs : length (fft_l xs) = length xs.
Proof. unfold fft_l. rewrite map_length, seq_length. reflexivity. Qed.

Lemma ifft_l_length xs : length (ifft_l xs) = length xs.
Proof. unfold ifft_l. rewrite map_length, seq_length. reflexivity. Qed.

Lemma responses_length n dt g fr : length (responses n dt g fr) = n.
Proof. unfold responses. rewrite map_length, seq_length. reflexivity. Qed.

Lemma nth_fft_l xs k : (k < length xs)%nat ->
  nth k (fft_l xs) 0 = dft (length xs) (fun n => nth n xs 0) k.
Proof.
  intros H. unfold fft_l. rewrite nth_map_seq by assumption.
  rewrite Csum_idx_spec. unfold dft. rewrite Cplus_0_l. reflexivity.
Qed.

Lemma nth_ifft_l Xs n : (n < length Xs)%nat ->
  nth n (ifft_l Xs) 0 = idft (length Xs) (fun k => nth k Xs 0) n.
Proof.
  intros H. unfold ifft_l. rewrite nth_map_seq by assumption.
  rewrite Csum_idx_spec. unfold idft. rewrite Cplus_0_l. reflexivity.
Qed.

(* the executed list-level model is the function-level reading *)
Lemma filter_frequencies_length times values g fr :
  (length times <= 2 * length values)%nat ->
  length (filter_frequencies times values g fr) = length times.
Proof.
  intros H. unfold filter_frequencies. cbv zeta.
  rewrite map_length, firstn_length, ifft_l_length, map2_length, responses_length, fft_l_length,
    map_length, app_length, zeros_length. lia.
Qed.

Lemma filter_frequencies_nth times values g fr n :
  (n < length times)%nat -> (length times <= 2 * length values)%nat ->
  nth n (filter_frequencies times values g fr) 0%R
  = filter_fn (length values) (sig_dt times) (sigfn values) g fr n.
Proof.
  intros Hn Hlen. unfold filter_frequencies, filter_fn. cbv zeta.
  set (N := length values).
  set (vals := map RtoC (values ++ zeros N)).
  assert (Lv : length vals = (2 * N)%nat).
  { unfold vals. rewrite map_length, app_length, zeros_length. unfold N. lia. }
  change 0%R with (Re 0) at 1. rewrite map_nth.
  rewrite nth_firstn by assumption.
  set (prod := map2 Cmult (responses (2 * N) (sig_dt times) g fr) (fft_l vals)).
  assert (Lp : length prod = (2 * N)%nat).
  { unfold prod. rewrite map2_length, responses_length, fft_l_length, Lv. lia. }
  rewrite nth_ifft_l by lia. rewrite Lp. f_equal.
  apply idft_ext. intros k Hk. unfold prod.
  rewrite (nth_map2 _ _ _ _ (RtoC 0) (RtoC 0)) by (rewrite ?responses_length, ?fft_l_length; lia).
  unfold responses. rewrite nth_map_seq by assumption. f_equal.
  rewrite nth_fft_l by lia. rewrite Lv. apply dft_ext. intros m Hm.
  apply nth_padded.
Qed.

Lemma filter_fn_H N dt x g fr n :
  filter_fn N dt x g fr n = filter_H N (fun k => response g fr (fftfreq (2 * N) dt k)) x n.
Proof. reflexivity. Qed.

(* ------------------------------------------------------------------ linearity *)
Lemma zero_pad_lin N a b x y n :
  zero_pad N (fun i => (a * x i + b * y i)%R) n = RtoC a * zero_pad N x n + RtoC b * zero_pad N y n.
Proof.
  unfold zero_pad. destruct (n <? N)%nat.
  - rewrite RtoC_plus, !RtoC_mult. reflexivity.
  - ring.
Qed.

Lemma Re_lin a b z w : Re (RtoC a * z + RtoC b * w) = (a * Re z + b * Re w)%R.
Proof. destruct z, w. simpl. ring. Qed.

Lemma filter_H_linear N H a b x y n :
  filter_H N H (fun i => (a * x i + b * y i)%R) n
  = (a * filter_H N H x n + b * filter_H N H y n)%R.
Proof.
  unfold filter_H. rewrite <- Re_lin. f_equal.
  rewrite <- idft_linear. apply idft_ext. intros k Hk.
  rewrite (dft_ext _ _ (fun i => RtoC a * zero_pad N x i + RtoC b * zero_pad N y i))
    by (intros; apply zero_pad_lin).
  rewrite dft_linear. ring.
Qed.

Lemma filter_H_linear_in_H N H1 H2 (a b : R) x n :
  filter_H N (fun k => RtoC a * H1 k + RtoC b * H2 k) x n
  = (a * filter_H N H1 x n + b * filter_H N H2 x n)%R.
Proof.
  unfold filter_H. rewrite <- Re_lin. f_equal.
  rewrite <- idft_linear. apply idft_ext. intros k Hk. ring.
Qed.

Lemma filter_H_homogeneous N H (c : R) x n :
  filter_H N (fun k => RtoC c * H k) x n = (c * filter_H N H x n)%R.
Proof.
  assert (E := filter_H_linear_in_H N H H c 0 x n).
  rewrite Rmult_0_l, Rplus_0_r in E. rewrite <- E.
  unfold filter_H. f_equal. apply idft_ext. intros. ring.
Qed.

(* complex scale factors commute with the transform pair before the real part is taken *)
Lemma filter_pre_real_homogeneous M (c : C) H X n :
  idft M (fun k => (c * H k) * X k) n = c * idft M (fun k => H k * X k) n.
Proof.
  assert (E := idft_linear M c 0 (fun k => H k * X k) (fun _ => 0) n).
  rewrite Cmult_0_l, Cplus_0_r in E. rewrite <- E.
  apply idft_ext. intros. ring.
Qed.

(* ------------------------------------------------------------------ identity *)
Lemma filter_H_identity N x n : (n < N)%nat -> filter_H N (fun _ => 1) x n = x n.
Proof.
  intros Hn. unfold filter_H.
  rewrite (idft_ext _ _ (dft (2 * N) (zero_pad N x))) by (intros; ring).
  rewrite idft_dft by lia. unfold zero_pad.
  destruct (Nat.ltb_spec n N); [reflexivity | lia].
Qed.

(* ------------------------------------------------------------------ time-grid offset *)
Lemma sig_dt_offset c times : (2 <= length times)%nat ->
  sig_dt (map (Rplus c) times) = sig_dt times.
Proof.
  intros H. unfold sig_dt.
  destruct times as [|t0 [|t1 r]]; simpl in H; try lia. simpl. ring.
Qed.

Lemma filter_offset_independent_lemma c times values g fr : (2 <= length times)%nat ->
  filter_frequencies (map (Rplus c) times) values g fr = filter_frequencies times values g fr.
Proof.
  intros H. unfold filter_frequencies. rewrite sig_dt_offset, map_length by assumption. reflexivity.
Qed.

(* ------------------------------------------------------------------ force_real *)
Lemma zero_pad_real N x n : Cconj (zero_pad N x n) = zero_pad N x n.
Proof. unfold zero_pad. destruct (n <? N)%nat; apply Cconj_RtoC. Qed.

Lemma spectrum_hermitian N x k : (k < 2 * N)%nat ->
  Cconj (dft (2 * N) (zero_pad N x) k) = dft (2 * N) (zero_pad N x) (negidx (2 * N) k).
Proof. intros. apply dft_real_hermitian; [assumption | intros; apply zero_pad_real]. Qed.

(* discarding the imaginary part = filtering with the Hermitian-symmetrised response;
   nothing is discarded in that case (the inverse transform is already real) *)
Lemma filter_H_herm N H x n :
  RtoC (filter_H N H x n)
  = idft (2 * N) (fun k => herm (2 * N) H k * dft (2 * N) (zero_pad N x) k) n.
Proof.
  unfold filter_H. apply Re_idft_filter. intros. apply spectrum_hermitian. assumption.
Qed.

Lemma filter_H_herm_same N H x n : filter_H N (herm (2 * N) H) x n = filter_H N H x n.
Proof.
  unfold filter_H at 1. rewrite <- filter_H_herm. reflexivity.
Qed.

(* frequencies of the padded transform *)
Lemma half_index N : (0 < N)%nat -> ((2 * N - 1) / 2 = N - 1)%nat.
Proof.
  intros. replace (2 * N - 1)%nat with (1 + (N - 1) * 2)%nat by lia.
  rewrite Nat.div_add by lia. simpl. lia.
Qed.

Lemma fftfreq_low N dt k : (k < N)%nat ->
  fftfreq (2 * N) dt k = (INR k * (1 / (INR (2 * N) * dt)))%R.
Proof.
  intros H. unfold fftfreq. rewrite half_index by lia.
  destruct (Nat.leb_spec k (N - 1)); [reflexivity | lia].
Qed.

Lemma fftfreq_high N dt k : (N <= k)%nat -> (0 < N)%nat ->
  fftfreq (2 * N) dt k = (- INR (2 * N - k) * (1 / (INR (2 * N) * dt)))%R.
Proof.
  intros H H0. unfold fftfreq. rewrite half_index by lia.
  destruct (Nat.leb_spec k (N - 1)); [lia | reflexivity].
Qed.

Lemma val_pos N dt : (0 < N)%nat -> (0 < dt)%R -> (0 < 1 / (INR (2 * N) * dt))%R.
Proof.
  intros HN Hdt. apply Rdiv_lt_0_compat; [lra|].
  apply Rmult_lt_0_compat; [apply lt_0_INR; lia | assumption].
Qed.

Definition Hfr (N : nat) (dt : R) (g : R -> C) (k : nat) : C :=
  response g true (fftfreq (2 * N) dt k).

Lemma Hfr_low N dt g k : (0 < dt)%R -> (k < N)%nat ->
  Hfr N dt g k = g (INR k * (1 / (INR (2 * N) * dt)))%R.
Proof.
  intros Hdt Hk. unfold Hfr, response. rewrite fftfreq_low by assumption.
  assert (Hv := val_pos N dt ltac:(lia) Hdt).
  assert (0 <= INR k * (1 / (INR (2 * N) * dt)))%R
    by (apply Rmult_le_pos; [apply pos_INR | lra]).
  destruct (Rlt_dec _ 0); [lra|]. rewrite Rabs_pos_eq by assumption. reflexivity.
Qed.

Lemma Hfr_high N dt g k : (0 < dt)%R -> (N <= k < 2 * N)%nat ->
  Hfr N dt g k = Cconj (g (INR (2 * N - k) * (1 / (INR (2 * N) * dt)))%R).
Proof.
  intros Hdt Hk. unfold Hfr, response. rewrite fftfreq_high by lia.
  assert (Hv := val_pos N dt ltac:(lia) Hdt).
  assert (0 < INR (2 * N - k))%R by (apply lt_0_INR; lia).
  assert (- INR (2 * N - k) * (1 / (INR (2 * N) * dt)) < 0)%R by nra.
  destruct (Rlt_dec _ 0); [|lra].
  rewrite Rabs_left by assumption. do 2 f_equal. ring.
Qed.

(* the mirrored response is Hermitian at every bin except DC and Nyquist ... *)
Lemma Hfr_hermitian N dt g k : (0 < dt)%R -> (0 < k < 2 * N)%nat -> k <> N ->
  Cconj (Hfr N dt g k) = Hfr N dt g (negidx (2 * N) k).
Proof.
  intros Hdt Hk HkN. rewrite negidx_pos by lia.
  destruct (Nat.lt_ge_cases k N).
  - rewrite Hfr_low by assumption. rewrite Hfr_high by (try assumption; lia).
    replace (2 * N - (2 * N - k))%nat with k by lia. reflexivity.
  - rewrite Hfr_high by (try assumption; lia). rewrite Hfr_low by (try assumption; lia).
    apply Cconj_invol.
Qed.

(* ... so symmetrising changes it only there, to its real part *)
Lemma herm_Hfr N dt g k : (0 < dt)%R -> (k < 2 * N)%nat ->
  herm (2 * N) (Hfr N dt g) k
  = if (k =? 0)%nat || (k =? N)%nat then RtoC (Re (Hfr N dt g k)) else Hfr N dt g k.
Proof.
  intros Hdt Hk. unfold herm.
  destruct (Nat.eqb_spec k 0) as [->|H0]; simpl orb.
  - rewrite negidx_0. rewrite RtoC_Re_conj. reflexivity.
  - destruct (Nat.eqb_spec k N) as [->|HN].
    + rewrite negidx_pos by lia. replace (2 * N - N)%nat with N by lia.
      rewrite RtoC_Re_conj. reflexivity.
    + rewrite <- Hfr_hermitian by (try assumption; lia). rewrite Cconj_invol.
      destruct (Hfr N dt g k). unfold RtoC, Cplus, Cmult; simpl. f_equal; field.
Qed.

Lemma force_real_lemma N dt g x n : (0 < dt)%R ->
  let M := (2 * N)%nat in
  let Hs := herm M (Hfr N dt g) in
  RtoC (filter_fn N dt x g true n) = idft M (fun k => Hs k * dft M (zero_pad N x) k) n
  /\ (forall k, (k < M)%nat -> Cconj (Hs k) = Hs (negidx M k))
  /\ (forall k, (k < M)%nat -> Hs k = if (k =? 0)%nat || (k =? N)%nat
                                      then RtoC (Re (Hfr N dt g k)) else Hfr N dt g k).
Proof.
  intros Hdt M Hs. split; [|split].
  - rewrite filter_fn_H. apply filter_H_herm.
  - intros. apply herm_hermitian. assumption.
  - intros. apply herm_Hfr; assumption.
Qed.

(* ------------------------------------------------------------------ passivity *)
Lemma Rsum_zero_pad N x :
  Rsum (fun n => Cnorm2 (zero_pad N x n)) (2 * N) = Rsum (fun n => (x n * x n)%R) N.
Proof.
  replace (2 * N)%nat with (N + N)%nat by lia. rewrite Rsum_split.
  rewrite (Rsum_ext (fun i => Cnorm2 (zero_pad N x (N + i))) (fun _ => 0%R)).
  - rewrite Rsum_0, Rplus_0_r. apply Rsum_ext. intros i Hi. unfold zero_pad.
    destruct (Nat.ltb_spec i N); [apply Cnorm2_RtoC | lia].
  - intros i Hi. unfold zero_pad. destruct (Nat.ltb_spec (N + i) N); [lia|].
    unfold Cnorm2; simpl. ring.
Qed.

Lemma filter_H_passive N H x :
  (forall k, (k < 2 * N)%nat -> (Cmod (H k) <= 1)%R) ->
  (Rsum (fun n => (filter_H N H x n * filter_H N H x n)%R) N <= Rsum (fun n => (x n * x n)%R) N)%R.
Proof.
  intros HH. destruct (Nat.eq_dec N 0) as [->|HN]; [simpl; lra|].
  set (M := (2 * N)%nat). set (X := dft M (zero_pad N x)).
  set (z := idft M (fun k => H k * X k)).
  apply Rle_trans with (Rsum (fun n => Cnorm2 (z n)) N).
  { apply Rsum_le. intros i Hi. apply Re_sq_le_Cnorm2. }
  apply Rle_trans with (Rsum (fun n => Cnorm2 (z n)) M).
  { unfold M. replace (2 * N)%nat with (N + N)%nat by lia. rewrite Rsum_split.
    assert (0 <= Rsum (fun i => Cnorm2 (z (N + i)%nat)) N)%R
      by (apply Rsum_nonneg; intros; apply Cnorm2_nonneg). lra. }
  unfold z. rewrite idft_parseval by (unfold M; lia).
  apply Rle_trans with (/ INR M * Rsum (fun k => Cnorm2 (X k)) M)%R.
  { apply Rmult_le_compat_l.
    - apply Rlt_le, Rinv_0_lt_compat, lt_0_INR. unfold M; lia.
    - apply Rsum_le. intros k Hk. rewrite Cnorm2_mult.
      assert (H1 := Cnorm2_le_1 (H k) (HH k Hk)). assert (H2 := Cnorm2_nonneg (X k)).
      assert (H3 := Cnorm2_nonneg (H k)). nra. }
  unfold X. rewrite dft_parseval. unfold M. rewrite Rsum_zero_pad.
  rewrite <- Rmult_assoc, Rinv_l, Rmult_1_l; [lra|]. apply not_0_INR. lia.
Qed.

(* ------------------------------------------------------------------ pure delay *)
Lemma delay_response_conj tau f : Cconj (delay_response tau (- f)) = delay_response tau f.
Proof.
  unfold delay_response. rewrite <- cis_opp. f_equal. ring.
Qed.

Lemma response_delay tau fr f : response (delay_response tau) fr f = delay_response tau f.
Proof.
  unfold response. destruct fr; [|reflexivity].
  destruct (Rlt_dec f 0).
  - rewrite Rabs_left by assumption. apply delay_response_conj.
  - rewrite Rabs_pos_eq by lra. reflexivity.
Qed.

Lemma delay_bins N dt m k : (0 < dt)%R -> (k < 2 * N)%nat ->
  delay_response (INR m * dt) (fftfreq (2 * N) dt k) = tw (2 * N) (- (Z.of_nat k * Z.of_nat m)).
Proof.
  intros Hdt Hk.
  assert (HM : (INR (2 * N) <> 0)%R) by (apply not_0_INR; lia).
  destruct (Nat.lt_ge_cases k N).
  - rewrite fftfreq_low by assumption. unfold delay_response, tw. f_equal.
    rewrite opp_IZR, mult_IZR, <- !INR_IZR_INZ. field. split; lra.
  - rewrite fftfreq_high by lia.
    replace (- (Z.of_nat k * Z.of_nat m))%Z
      with (Z.of_nat (2 * N - k) * Z.of_nat m + Z.of_nat (2 * N) * (- Z.of_nat m))%Z
      by (rewrite Nat2Z.inj_sub by lia; ring).
    rewrite tw_shift by lia.
    unfold delay_response, tw. f_equal.
    rewrite mult_IZR, <- !INR_IZR_INZ. field. split; lra.
Qed.

Lemma delay_no_wraparound_lemma N dt x m fr n : (0 < dt)%R -> (m <= N)%nat -> (n < N)%nat ->
  filter_fn N dt x (delay_response (INR m * dt)) fr n = if (m <=? n)%nat then x (n - m)%nat else 0%R.
Proof.
  intros Hdt Hm Hn. unfold filter_fn.
  rewrite (idft_ext _ _ (dft (2 * N) (circ_delay (2 * N) m (zero_pad N x)))).
  2:{ intros k Hk. rewrite response_delay, delay_bins by assumption.
      rewrite dft_shift by lia. reflexivity. }
  rewrite idft_dft by lia. unfold circ_delay, zero_pad.
  destruct (Nat.leb_spec m n).
  - replace (n + (2 * N - m))%nat with ((n - m) + 1 * (2 * N))%nat by lia.
    rewrite Nat.mod_add, Nat.mod_small by lia.
    destruct (Nat.ltb_spec (n - m) N); [reflexivity | lia].
  - rewrite Nat.mod_small by lia.
    destruct (Nat.ltb_spec (n + (2 * N - m)) N); [lia | reflexivity].
Qed.

(* ------------------------------------------------------------------ several filters
   FunctionSignal._apply_filters multiplies the responses bin by bin first *)
Lemma all_filters_length n dt fs : length (all_filters n dt fs) = n.
Proof.
  induction fs as [|[g fr] t IH]; simpl.
  - rewrite map_length, seq_length. reflexivity.
  - rewrite map2_length, IH, responses_length. lia.
Qed.

Lemma ones_map2 (l : list C) s : map2 Cmult (map (fun _ => RtoC 1) (seq s (length l))) l = l.
Proof.
  revert s. induction l; intros s; simpl; [reflexivity|]. rewrite IHl. f_equal. ring.
Qed.

Lemma all_filters_single n dt g fr : all_filters n dt [(g, fr)] = responses n dt g fr.
Proof.
  simpl. assert (L := responses_length n dt g fr).
  revert L. generalize (responses n dt g fr) as r. intros r L. subst n. apply ones_map2.
Qed.

Lemma apply_filters_single dt values g fr times :
  sig_dt times = dt -> length times = length values ->
  apply_filters dt values [(g, fr)] = filter_frequencies times values g fr.
Proof.
  intros Hdt Hl. unfold apply_filters, filter_frequencies. cbv zeta. rewrite Hl, Hdt.
  change (rev [(g, fr)]) with [(g, fr)]. rewrite all_filters_single. reflexivity.
Qed.

(* ------------------------------------------------------------------ list-level statements *)
Definition lincomb (a b : R) (xs ys : list R) : list R := map2 (fun x y => (a * x + b * y)%R) xs ys.
Definition energy (xs : list R) : R := Rsum (fun n => (nth n xs 0 * nth n xs 0)%R) (length xs).

Lemma filter_H_ext N H x y n : (forall i, (i < N)%nat -> x i = y i) -> filter_H N H x n = filter_H N H y n.
Proof.
  intros E. unfold filter_H. f_equal. apply idft_ext. intros k Hk. f_equal.
  apply dft_ext. intros i Hi. unfold zero_pad. destruct (Nat.ltb_spec i N); [rewrite E by assumption|]; reflexivity.
Qed.

Lemma filter_H_ext_H N H1 H2 x n : (forall k, (k < 2 * N)%nat -> H1 k = H2 k) -> filter_H N H1 x n = filter_H N H2 x n.
Proof.
  intros E. unfold filter_H. f_equal. apply idft_ext. intros k Hk. rewrite E by assumption. reflexivity.
Qed.

Lemma lincomb_length a b xs ys : length xs = length ys -> length (lincomb a b xs ys) = length xs.
Proof. intros H. unfold lincomb. rewrite map2_length. lia. Qed.

Lemma filter_linear_lemma times xs ys a b g fr n :
  length xs = length ys -> length times = length xs -> (n < length times)%nat ->
  nth n (filter_frequencies times (lincomb a b xs ys) g fr) 0%R
  = (a * nth n (filter_frequencies times xs g fr) 0 + b * nth n (filter_frequencies times ys g fr) 0)%R.
Proof.
  intros L1 L2 Hn.
  rewrite !filter_frequencies_nth by (rewrite ?lincomb_length by assumption; lia).
  rewrite lincomb_length by assumption. rewrite <- L1. rewrite !filter_fn_H.
  rewrite <- filter_H_linear. apply filter_H_ext. intros i Hi.
  unfold sigfn, lincomb. rewrite (nth_map2 _ _ _ _ 0%R 0%R) by lia. reflexivity.
Qed.

Lemma response_scal (c : R) g fr f :
  response (fun u => RtoC c * g u) fr f = RtoC c * response g fr f.
Proof.
  unfold response. destruct fr; [|reflexivity].
  destruct (Rlt_dec f 0); [|reflexivity]. rewrite Cconj_mult, Cconj_RtoC. reflexivity.
Qed.

Lemma response_plus g1 g2 fr f :
  response (fun u => g1 u + g2 u) fr f = response g1 fr f + response g2 fr f.
Proof.
  unfold response. destruct fr; [|reflexivity].
  destruct (Rlt_dec f 0); [|reflexivity]. apply Cconj_plus.
Qed.

Lemma filter_homogeneous_lemma times xs (c : R) g fr n :
  length times = length xs -> (n < length times)%nat ->
  nth n (filter_frequencies times xs (fun f => RtoC c * g f) fr) 0%R
  = (c * nth n (filter_frequencies times xs g fr) 0)%R.
Proof.
  intros L Hn. rewrite !filter_frequencies_nth by lia. rewrite !filter_fn_H.
  rewrite <- filter_H_homogeneous. apply filter_H_ext_H. intros. apply response_scal.
Qed.

Lemma filter_additive_in_H_lemma times xs g1 g2 fr n :
  length times = length xs -> (n < length times)%nat ->
  nth n (filter_frequencies times xs (fun f => g1 f + g2 f) fr) 0%R
  = (nth n (filter_frequencies times xs g1 fr) 0 + nth n (filter_frequencies times xs g2 fr) 0)%R.
Proof.
  intros L Hn. rewrite !filter_frequencies_nth by lia. rewrite !filter_fn_H.
  assert (E := filter_H_linear_in_H (length xs)
                 (fun k => response g1 fr (fftfreq (2 * length xs) (sig_dt times) k))
                 (fun k => response g2 fr (fftfreq (2 * length xs) (sig_dt times) k)) 1 1 (sigfn xs) n).
  rewrite !Rmult_1_l in E. rewrite <- E. apply filter_H_ext_H. intros. rewrite response_plus. ring.
Qed.

Lemma response_one fr f : response (fun _ => RtoC 1) fr f = 1.
Proof. unfold response. destruct fr; [|reflexivity]. destruct (Rlt_dec f 0); [apply Cconj_1 | reflexivity]. Qed.

Lemma filter_identity_lemma times xs fr :
  length times = length xs -> filter_frequencies times xs (fun _ => RtoC 1) fr = xs.
Proof.
  intros L. apply (nth_ext _ _ 0%R 0%R).
  - rewrite filter_frequencies_length by lia. assumption.
  - intros n Hn. rewrite filter_frequencies_length in Hn by lia.
    rewrite filter_frequencies_nth by lia. rewrite filter_fn_H.
    rewrite (filter_H_ext_H _ _ (fun _ => 1)) by (intros; apply response_one).
    apply filter_H_identity. lia.
Qed.

Lemma force_real_list_lemma times xs g n :
  (0 < sig_dt times)%R -> length times = length xs -> (n < length times)%nat ->
  let N := length xs in let M := (2 * N)%nat in let dt := sig_dt times in
  let Hs := herm M (Hfr N dt g) in
  RtoC (nth n (filter_frequencies times xs g true) 0%R)
    = idft M (fun k => Hs k * dft M (zero_pad N (sigfn xs)) k) n
  /\ nth n (filter_frequencies times xs g true) 0%R = filter_H N Hs (sigfn xs) n
  /\ (forall k, (k < M)%nat -> Cconj (Hs k) = Hs (negidx M k))
  /\ (forall k, (k < M)%nat -> Hs k = if (k =? 0)%nat || (k =? N)%nat
                                      then RtoC (Re (Hfr N dt g k)) else Hfr N dt g k).
Proof.
  intros Hdt L Hn N M dt Hs.
  rewrite filter_frequencies_nth by lia. fold N dt.
  destruct (force_real_lemma N dt g (sigfn xs) n Hdt) as (A & B & D).
  repeat split; try assumption.
  unfold Hs, M. rewrite filter_H_herm_same. apply filter_fn_H.
Qed.

Lemma Cmod_conj z : Cmod (Cconj z) = Cmod z.
Proof. unfold Cmod, Cconj; simpl. f_equal. ring. Qed.

Lemma response_bounded g fr f : (forall u, (Cmod (g u) <= 1)%R) -> (Cmod (response g fr f) <= 1)%R.
Proof.
  intros Hg. unfold response. destruct fr; [|apply Hg].
  destruct (Rlt_dec f 0); [rewrite Cmod_conj|]; apply Hg.
Qed.

Lemma filter_passive_lemma times xs g fr :
  length times = length xs -> (forall u, (Cmod (g u) <= 1)%R) ->
  (energy (filter_frequencies times xs g fr) <= energy xs)%R.
Proof.
  intros L Hg. unfold energy. rewrite filter_frequencies_length by lia. rewrite L.
  rewrite (Rsum_ext _ (fun n => let y := filter_H (length xs) (fun k => response g fr (fftfreq (2 * length xs) (sig_dt times) k)) (sigfn xs) n in (y * y)%R)).
  - apply filter_H_passive. intros. apply response_bounded. assumption.
  - intros n Hn. rewrite filter_frequencies_nth by lia. reflexivity.
Qed.

Lemma delay_list_lemma times xs m fr n :
  (0 < sig_dt times)%R -> length times = length xs -> (m <= length xs)%nat -> (n < length xs)%nat ->
  nth n (filter_frequencies times xs (delay_response (INR m * sig_dt times)) fr) 0%R
  = if (m <=? n)%nat then nth (n - m) xs 0%R else 0%R.
Proof.
  intros Hdt L Hm Hn. rewrite filter_frequencies_nth by lia.
  apply delay_no_wraparound_lemma; assumption.
Qed.

(* ------------------------------------------------------------------ non-vacuity *)
Example delay_hypotheses_satisfiable :
  (0 < 1 / 2)%R /\ (1 <= 3)%nat /\ (2 < 3)%nat.
Proof. split; [lra | split; lia]. Qed.

Example passive_hypothesis_satisfiable tau :
  forall k, (k < 2 * 3)%nat -> (Cmod (delay_response tau (fftfreq (2 * 3) 1 k)) <= 1)%R.
Proof. intros. unfold delay_response. rewrite Cmod_cis. lra. Qed.

(* ------------------------------------------------------------------ FunctionSignal buffer grid *)
Lemma full_times_length times lead trail dt :
  length (full_times times lead trail dt) = (n_buffer lead dt + length times + n_buffer trail dt)%nat.
Proof. unfold full_times. rewrite !app_length, !map_length, !seq_length. lia. Qed.

(* the leading buffer continues the grid backwards with the same step ... *)
Lemma full_times_leading times lead trail dt j : (j < n_buffer lead dt)%nat ->
  nth j (full_times times lead trail dt) 0%R = (nth 0 times 0 - INR (n_buffer lead dt - j) * dt)%R.
Proof.
  intros Hj. unfold full_times. cbv zeta. set (nb := n_buffer lead dt) in *.
  rewrite app_nth1 by (rewrite map_length, seq_length; assumption).
  rewrite (nth_map_seq _ nb j 0%R Hj).
  assert (HN : INR nb <> 0%R) by (apply not_0_INR; lia).
  rewrite minus_INR by lia. field. assumption.
Qed.

(* ... the window is the grid itself ... *)
Lemma full_times_window times lead trail dt i : (i < length times)%nat ->
  nth (n_buffer lead dt + i) (full_times times lead trail dt) 0%R = nth i times 0%R.
Proof.
  intros Hi. unfold full_times. cbv zeta. set (nb := n_buffer lead dt).
  rewrite app_nth2 by (rewrite map_length, seq_length; lia).
  rewrite map_length, seq_length. replace (nb + i - nb)%nat with i by lia.
  rewrite app_nth1 by assumption. reflexivity.
Qed.

(* ... and the trailing buffer continues it forwards *)
Lemma full_times_trailing times lead trail dt j : (j < n_buffer trail dt)%nat ->
  nth (n_buffer lead dt + length times + j) (full_times times lead trail dt) 0%R
  = (last times 0 + INR (j + 1) * dt)%R.
Proof.
  intros Hj. unfold full_times. cbv zeta. set (nb := n_buffer lead dt). set (na := n_buffer trail dt) in *.
  rewrite app_nth2 by (rewrite map_length, seq_length; lia).
  rewrite map_length, seq_length.
  rewrite app_nth2 by lia. replace (nb + length times + j - nb - length times)%nat with j by lia.
  rewrite (nth_map_seq _ na j 0%R Hj).
  assert (HN : INR na <> 0%R) by (apply not_0_INR; lia).
  field. assumption.
Qed.

(* ------------------------------------------------------------------ op histories on one FunctionSignal *)
Lemma n_buffer_zero dt : n_buffer 0 dt = 0%nat.
Proof.
  unfold n_buffer. replace (0 / dt)%R with (INR 0) by (simpl; unfold Rdiv; ring).
  rewrite Int_part_INR. simpl Z.of_nat.
  destruct (Req_EM_T (0 - 0 * dt) 0) as [_|H]; [reflexivity|]. exfalso. apply H. ring.
Qed.

Lemma apply_filters_length dt values fs : length (apply_filters dt values fs) = length values.
Proof.
  unfold apply_filters. cbv zeta.
  rewrite map_length, firstn_length, ifft_l_length, map2_length, all_filters_length, fft_l_length,
    map_length, app_length, zeros_length. lia.
Qed.

Lemma apply_filters_nth dt values fs n : (n < length values)%nat ->
  nth n (apply_filters dt values fs) 0%R
  = filter_H (length values) (fun k => nth k (all_filters (2 * length values) dt (rev fs)) 0) (sigfn values) n.
Proof.
  intros Hn. unfold apply_filters, filter_H. cbv zeta.
  set (N := length values).
  set (vals := map RtoC (values ++ zeros N)).
  assert (Lv : length vals = (2 * N)%nat).
  { unfold vals. rewrite map_length, app_length, zeros_length. unfold N. lia. }
  change 0%R with (Re 0) at 1. rewrite map_nth.
  rewrite nth_firstn by assumption.
  set (AF := all_filters (2 * N) dt (rev fs)).
  assert (LA : length AF = (2 * N)%nat) by apply all_filters_length.
  set (prod := map2 Cmult AF (fft_l vals)).
  assert (Lp : length prod = (2 * N)%nat).
  { unfold prod. rewrite map2_length, LA, fft_l_length, Lv. lia. }
  rewrite nth_ifft_l by lia. rewrite Lp. f_equal.
  apply idft_ext. intros k Hk. unfold prod.
  rewrite (nth_map2 _ _ _ _ (RtoC 0) (RtoC 0)) by (rewrite ?LA, ?fft_l_length; lia).
  f_equal. rewrite nth_fft_l by lia. rewrite Lv. apply dft_ext. intros m Hm. apply nth_padded.
Qed.

Lemma nth_map_scaled c (l : list R) i : nth i (map (fun v => (v * c)%R) l) 0%R = (nth i l 0 * c)%R.
Proof.
  revert i. induction l as [|x l IH]; intros [|i]; simpl; try ring. apply IH.
Qed.

Lemma sigfn_scaled c values i : sigfn (map (fun v => (v * c)%R) values) i = (c * sigfn values i + 0 * sigfn values i)%R.
Proof. unfold sigfn. rewrite nth_map_scaled. ring. Qed.

(* scaling the samples commutes with any stack of filters *)
Lemma apply_filters_scaled dt values fs c n : (n < length values)%nat ->
  nth n (apply_filters dt (map (fun v => (v * c)%R) values) fs) 0%R = (c * nth n (apply_filters dt values fs) 0)%R.
Proof.
  intros Hn. rewrite !apply_filters_nth by (rewrite ?map_length; assumption). rewrite map_length.
  rewrite (filter_H_ext _ _ _ (fun i => (c * sigfn values i + 0 * sigfn values i)%R)) by (intros; apply sigfn_scaled).
  rewrite filter_H_linear. ring.
Qed.

Definition fs_run (st : fs_state) (ops : list sig_op) : fs_state := fold_left fs_step ops st.

Fixpoint scale_product (ops : list sig_op) : R :=
  match ops with
  | [] => 1
  | OpScale c :: r => (c * scale_product r)%R
  | OpDiv c :: r => (/ c * scale_product r)%R
  | _ :: r => scale_product r
  end.

Fixpoint filters_of (ops : list sig_op) : list ((R -> C) * bool) :=
  match ops with
  | [] => []
  | OpFilter g fr :: r => (g, fr) :: filters_of r
  | _ :: r => filters_of r
  end.

(* whatever the order of reads, scalings and filters, the state is (product of the scalings, filters in order) *)
Lemma fs_run_state ops : forall st,
  fs_factor (fs_run st ops) = (fs_factor st * scale_product ops)%R
  /\ fs_filters (fs_run st ops) = fs_filters st ++ filters_of ops.
Proof.
  induction ops as [|op r IH]; intros st; simpl.
  - split; [ring | rewrite app_nil_r; reflexivity].
  - destruct (IH (fs_step st op)) as [F1 F2]. unfold fs_run in *. simpl. rewrite F1, F2.
    destruct op; simpl; split; try ring; try reflexivity; try (rewrite <- app_assoc; reflexivity).
    unfold Rdiv. ring.
Qed.

Lemma fs_read_nth times fvals st n : length fvals = length times -> (n < length times)%nat ->
  nth n (fs_read times fvals st) 0%R
  = match fs_filters st with
    | [] => (nth n fvals 0 * fs_factor st)%R
    | _ => (fs_factor st * nth n (apply_filters (sig_dt times) fvals (fs_filters st)) 0)%R
    end.
Proof.
  intros L Hn. unfold fs_read, function_signal_values. cbv zeta. rewrite n_buffer_zero. simpl skipn.
  destruct (fs_filters st) as [|f r] eqn:E.
  - rewrite nth_firstn by assumption. apply nth_map_scaled.
  - rewrite nth_firstn by assumption. apply apply_filters_scaled. lia.
Qed.

(* the values read after ANY history of filters, in-place scalings and reads are the product of the scalings times the
   stack of the history's filters applied to the function's samples *)
Lemma fs_history_lemma times fvals ops n : length fvals = length times -> (n < length times)%nat ->
  nth n (fs_read times fvals (fs_run fs_init ops)) 0%R
  = (scale_product ops * nth n (fs_read times fvals {| fs_factor := 1; fs_filters := filters_of ops |}) 0)%R.
Proof.
  intros L Hn. rewrite !fs_read_nth by assumption.
  destruct (fs_run_state ops fs_init) as [F1 F2]. rewrite F1, F2. simpl fs_factor. simpl fs_filters.
  destruct (filters_of ops); simpl app; cbv iota; ring.
Qed.

Example history_example : scale_product [OpRead; OpScale 3; OpFilter (fun _ => RtoC 1) true; OpDiv 2; OpRead] = (3 * (/ 2 * 1))%R.
Proof. reflexivity. Qed.

(* ------------------------------------------------------------------ multi-term FunctionSignals *)
Lemma fs_read_length times fvals st : length fvals = length times -> length (fs_read times fvals st) = length times.
Proof.
  intros L. unfold fs_read, function_signal_values. cbv zeta. rewrite n_buffer_zero. simpl skipn.
  rewrite firstn_length. destruct (fs_filters st); rewrite ?apply_filters_length, map_length; lia.
Qed.

Definition group_ok (times : list R) (gr : fs_group) : Prop := length (g_vals gr) = length times.

Fixpoint list_sum_R' (l : list R) : R := match l with [] => 0%R | x :: t => (x + list_sum_R' t)%R end.

Lemma mg_fold_nth times st : forall acc n, List.Forall (group_ok times) st -> length acc = length times -> (n < length times)%nat ->
  nth n (fold_left (fun a gr => map2 Rplus a (group_read times gr)) st acc) 0%R
  = (nth n acc 0 + list_sum_R' (map (fun gr => nth n (group_read times gr) 0%R) st))%R.
Proof.
  induction st as [|gr r IH]; intros acc n HF La Hn; simpl.
  - ring.
  - inversion HF as [|? ? Hg HF']; subst.
    assert (Lg : length (group_read times gr) = length times) by (apply fs_read_length; exact Hg).
    rewrite IH by (try assumption; rewrite map2_length, La, Lg; lia).
    rewrite (nth_map2 _ _ _ _ 0%R 0%R) by lia. ring.
Qed.

(* what a multi-term FunctionSignal reads is the sum over its terms of what each term reads with ITS OWN factor and filters *)
Lemma mg_read_nth times st n : List.Forall (group_ok times) st -> (n < length times)%nat ->
  nth n (mg_read times st) 0%R = list_sum_R' (map (fun gr => nth n (group_read times gr) 0%R) st).
Proof.
  intros HF Hn. unfold mg_read. rewrite mg_fold_nth by (try assumption; apply zeros_length).
  rewrite nth_zeros. ring.
Qed.

Lemma list_sum_R'_app a b : list_sum_R' (a ++ b) = (list_sum_R' a + list_sum_R' b)%R.
Proof. induction a; simpl; [ring | rewrite IHa; ring]. Qed.

(* a + b reads as a reads plus b reads, whatever filters and factors the two sides carry, in either order *)
Lemma mg_add_lemma times a b n : List.Forall (group_ok times) a -> List.Forall (group_ok times) b -> (n < length times)%nat ->
  nth n (mg_read times (a ++ b)) 0%R = (nth n (mg_read times a) 0 + nth n (mg_read times b) 0)%R.
Proof.
  intros Ha Hb Hn. rewrite !mg_read_nth by (try assumption; apply List.Forall_app; split; assumption).
  rewrite map_app, list_sum_R'_app. reflexivity.
Qed.

(* filtering a sum is filtering every term *)
Lemma mg_filter_app g fr a b : mg_filter g fr (a ++ b) = mg_filter g fr a ++ mg_filter g fr b.
Proof. apply map_app. Qed.

Lemma mg_filter_ok times g fr a : List.Forall (group_ok times) a -> List.Forall (group_ok times) (mg_filter g fr a).
Proof. intros H. unfold mg_filter. rewrite List.Forall_map. exact H. Qed.
