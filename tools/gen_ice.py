"""Gen_ice.v: the ice models of pyrex/ice_model.py (scalar mode)."""
import sys, os
sys.path.insert(0, os.path.dirname(os.path.abspath(__file__)))
from py2coq import Module, ClassTr, TranslationError

ICE_RECORD = [("n0", "R"), ("k", "R"), ("a", "R"), ("valid_range", "pair"),
              ("_index_above", "optR"), ("_index_below", "optR")]
UNI_RECORD = [("n", "R"), ("valid_range", "pair"), ("_index_above", "optR"), ("_index_below", "optR")]
METHODS = ["index_above", "index_below", "index", "gradient", "depth_with_index", "temperature",
           "_atten_coeffs", "attenuation_length"]


def generate(repo):
    mod = Module(repo, "pyrex/ice_model.py", records={"Ice": ICE_RECORD, "UIce": UNI_RECORD})
    mod.record_decl("Ice")
    mod.record_decl("UIce")
    for cname in ["AntarcticIce", "ArasimIce", "GreenlandIce"]:
        ct = ClassTr(mod, cname, record="Ice")
        ct.group(["index_above", "index_below", "index"], depth=3)
        for m in METHODS:
            if ct.member(m) is None:
                raise TranslationError("pyrex/ice_model.py: %s.%s not found" % (cname, m))
    ct = ClassTr(mod, "UniformIce", record="UIce")
    for m in ["index_above", "index_below", "index", "gradient", "temperature", "_atten_coeffs", "attenuation_length"]:
        if ct.member(m) is None:
            raise TranslationError("pyrex/ice_model.py: UniformIce.%s not found" % m)
    return mod.result(), mod.hashes


if __name__ == "__main__":
    text, h = generate(sys.argv[1])
    print(text)
