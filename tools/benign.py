#!/usr/bin/env python3
"""Harmless (property-preserving) changes used to measure false alarms.

  tools/benign.py confirm <ID> <bN> [src_dir]  scratch worktree: patch applies and the unedited suite passes;
                                               copies it to /verif/benign/<ID>_<bN>/
  tools/benign.py detect <ID>_<bN> [check ids] apply to /repo, run ./check <ID> (quick), undo, record detect.json

A harmless change may legitimately break a proof obligation or a pin (the check then reports
`VIOLATION ... no-failing-input-found`, as the interface prescribes); what must never happen is a VIOLATION
*with* a failing input, i.e. a claimed counterexample on code where the property holds.
"""
import json, os, shutil, sys
sys.path.insert(0, os.path.dirname(os.path.abspath(__file__)))
import seed


def confirm(pid, b, src=None):
    src = src or "/tmp/benign/out/%s/%s" % (pid, b)
    wt = "/tmp/bconfirm_%s_%s" % (pid, b)
    seed.sh("git -C /repo worktree remove --force %s" % wt)
    rc, out = seed.sh("git -C /repo worktree add --detach %s HEAD" % wt)
    assert rc == 0, out
    try:
        env = dict(os.environ, PYTHONPATH=wt, PYTHONDONTWRITEBYTECODE="1")
        rc, out = seed.sh("git apply %s/patch.diff" % src, cwd=wt)
        assert rc == 0, "patch does not apply: " + out
        rc1, out1 = seed.sh("%s -m pytest -q -p no:cacheprovider --timeout=900 -x 2>&1" % seed.PY, cwd=wt, env=env)
        out1 = "\n".join(out1.strip().split("\n")[-2:])
        ok = rc1 == 0 and "passed" in out1 and "failed" not in out1
    finally:
        seed.sh("git -C /repo worktree remove --force %s" % wt)
        seed.sh("rm -rf %s" % wt)
    if ok:
        dst = os.path.join(seed.ROOT, "benign", "%s_%s" % (pid, b))
        os.makedirs(dst, exist_ok=True)
        shutil.copy(os.path.join(src, "patch.diff"), dst)
        if os.path.exists(os.path.join(src, "equiv.py")):
            shutil.copy(os.path.join(src, "equiv.py"), dst)
        meta = json.load(open(os.path.join(src, "meta.json")))
        meta["confirmed_independently"] = [{"cmd": "pytest with patch", "rc": rc1, "tail": out1[-300:]}]
        json.dump(meta, open(os.path.join(dst, "meta.json"), "w"), indent=1)
    print(pid, b, "CONFIRMED" if ok else "NOT CONFIRMED", out1[-200:])
    return ok


if __name__ == "__main__":
    if sys.argv[1] == "confirm":
        sys.exit(0 if confirm(*sys.argv[2:5]) else 1)
    seed.detect(sys.argv[2], sys.argv[3:] or None, base="benign")
