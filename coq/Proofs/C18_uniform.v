(* C18, uniform ice: every solution of UniformRayTracer is the straight segment to the
   correspondingly mirrored receiver (length, leg vectors, reflection points, directions, tof). *)
From Coq Require Import Reals List Bool ZArith Lra Lia Psatz.
From PyrexLib Require Import RealPrims ListR Atan2.
From PyrexGen Require Import Gen_ice Gen_uniform.
From PyrexModel Require Import UniformPath UniformTracer.
Import ListNotations.
Open Scope R_scope.

(* ------------------------------------------------------------------ glue: snippets = hand model *)
(* Every arithmetic expression of _points / _reflected_path is translated from the source
   (Gen_uniform); these lemmas tie the hand model to them.  They are all by computation, so an
   edit of a formula in the source breaks them. *)
Section Glue.
  Variable p : UPath.
  Let lo := fst (UIce_valid_range (UPath_ice p)).
  Let hi := snd (UIce_valid_range (UPath_ice p)).

  Lemma glue_points_leg_first d : (d = 1 \/ d = -1)%Z ->
    leg_first lo hi (vz (UPath_from_point p)) d =
      if (d =? 1)%Z then UniformRayTracePath_points__leg_first_up p else UniformRayTracePath_points__leg_first_down p.
  Proof. intros [->| ->]; reflexivity. Qed.
  Lemma glue_points_leg_last d : (d = 1 \/ d = -1)%Z ->
    leg_last lo hi (vz (UPath_to_point p)) d =
      if (d =? 1)%Z then UniformRayTracePath_points__leg_last_up p else UniformRayTracePath_points__leg_last_down p.
  Proof. intros [->| ->]; reflexivity. Qed.
  Lemma glue_points_size : hi - lo = UniformRayTracePath_points__size p.
  Proof. reflexivity. Qed.
  Lemma glue_points_final_direction d :
    (d * m1pow (UPath_reflections p))%Z = UniformRayTracePath_points__final_direction p d.
  Proof. reflexivity. Qed.
  Lemma glue_points_dr x l :
    UniformRayTracePath_rho p * x / sum_list l = UniformRayTracePath_points__dr p x l.
  Proof. reflexivity. Qed.
  Lemma glue_points_xy r :
    (vx (UPath_from_point p) + r * cos (UniformRayTracePath_phi p),
     vy (UPath_from_point p) + r * sin (UniformRayTracePath_phi p)) =
    (UniformRayTracePath_points__x p r, UniformRayTracePath_points__y p r).
  Proof. reflexivity. Qed.
  Lemma glue_points_z d i :
    bound_z lo hi d i = UniformRayTracePath_points__z p (UniformRayTracePath_points__dirn p d i).
  Proof. reflexivity. Qed.
End Glue.

Section GlueTracer.
  Variable t : UTracer.
  Lemma glue_reflected_leg_first d : (d = 1 \/ d = -1)%Z ->
    leg_first (t_lo t) (t_hi t) (UniformRayTracer_z0 t) d =
      if (d =? 1)%Z then UniformRayTracer_reflected_path__leg_first_up t else UniformRayTracer_reflected_path__leg_first_down t.
  Proof. intros [->| ->]; reflexivity. Qed.
  Lemma glue_reflected_leg_last d : (d = 1 \/ d = -1)%Z ->
    leg_last (t_lo t) (t_hi t) (UniformRayTracer_z1 t) d =
      if (d =? 1)%Z then UniformRayTracer_reflected_path__leg_last_up t else UniformRayTracer_reflected_path__leg_last_down t.
  Proof. intros [->| ->]; reflexivity. Qed.
  Lemma glue_reflected_size : t_hi t - t_lo t = UniformRayTracer_reflected_path__size t.
  Proof. reflexivity. Qed.
  Lemma glue_reflected_theta d k :
    reflected_theta (t_lo t) (t_hi t) (UniformRayTracer_z0 t) (UniformRayTracer_z1 t) (UniformRayTracer_rho t) d k =
    UniformRayTracer_reflected_path__theta t d (dzs (t_lo t) (t_hi t) (UniformRayTracer_z0 t) (UniformRayTracer_z1 t) d k).
  Proof. reflexivity. Qed.
  Lemma glue_direct_theta :
    atan2 (UniformRayTracer_z1 t - UniformRayTracer_z0 t) (UniformRayTracer_rho t) = UniformRayTracer_solutions__direct_theta t.
  Proof. reflexivity. Qed.
End GlueTracer.

(* ------------------------------------------------------------------ directions as booleans *)
Definition dirZ (up : bool) : Z := if up then 1%Z else (-1)%Z.
Definition sg (up : bool) : R := if up then 1 else -1.
Definition flipn (up : bool) (i : nat) : bool := if Nat.even i then up else negb up.

Lemma sg_sq up : sg up * sg up = 1.
Proof. destruct up; simpl; ring. Qed.
Lemma sg_negb up : sg (negb up) = - sg up.
Proof. destruct up; simpl; ring. Qed.
Lemma IZR_dirZ up : IZR (dirZ up) = sg up.
Proof. destruct up; reflexivity. Qed.
Lemma flipn_S up i : flipn up (S i) = negb (flipn up i).
Proof.
  unfold flipn. rewrite Nat.even_succ, <- Nat.negb_even.
  destruct (Nat.even i), up; reflexivity.
Qed.
Lemma flipn_0 up : flipn up 0 = up.
Proof. reflexivity. Qed.
Lemma dirZ_m1pow up i : (dirZ up * m1pow i)%Z = dirZ (flipn up i).
Proof. unfold m1pow, flipn. destruct (Nat.even i), up; reflexivity. Qed.
Lemma dirZ_cases up : (dirZ up = 1 \/ dirZ up = -1)%Z.
Proof. destruct up; [left|right]; reflexivity. Qed.
Lemma dirZ_eqb up : (dirZ up =? 1)%Z = up.
Proof. destruct up; reflexivity. Qed.

Section Geometry.
  Variables lo hi z1 : R.
  Definition B (up : bool) : R := if up then hi else lo.

  Lemma bound_z_B up i : bound_z lo hi (dirZ up) i = B (flipn up i).
  Proof. unfold bound_z. rewrite dirZ_m1pow. destruct (flipn up i); reflexivity. Qed.

  (* vertical extents of the legs, recursively: state = (current height, going up?, reflections left) *)
  Fixpoint legsb (z : R) (up : bool) (r : nat) : list R :=
    match r with
    | O => [sg up * (z1 - z)]
    | S r' => sg up * (B up - z) :: legsb (B up) (negb up) r'
    end.

  Lemma legs_from_bound r : forall up,
    legsb (B (negb up)) up r = repeat (hi - lo) r ++ [leg_last lo hi z1 (dirZ up * m1pow r)%Z].
  Proof.
    induction r; intros up.
    - simpl. unfold leg_last. rewrite dirZ_m1pow, dirZ_eqb, flipn_0. destruct up; simpl; f_equal; ring.
    - simpl legsb. pose proof (IHr (negb up)) as H. rewrite negb_involutive in H. rewrite H.
      change (repeat (hi - lo) (S r)) with ((hi - lo) :: repeat (hi - lo) r). simpl app.
      f_equal.
      + destruct up; simpl; ring.
      + f_equal. f_equal. f_equal. rewrite !dirZ_m1pow, flipn_S. unfold flipn. destruct (Nat.even r), up; reflexivity.
  Qed.

  Lemma dzs_legsb z0 up k : dzs lo hi z0 z1 (dirZ up) (S k) = legsb z0 up (S k).
  Proof.
    unfold dzs. simpl legsb. replace (S k - 1)%nat with k by lia.
    f_equal.
    - unfold leg_first. rewrite dirZ_eqb. destruct up; simpl; ring.
    - pose proof (legs_from_bound k (negb up)) as H. rewrite negb_involutive in H. rewrite H.
      f_equal. f_equal. f_equal. rewrite !dirZ_m1pow, flipn_S. unfold flipn. destruct (Nat.even k), up; reflexivity.
  Qed.

  (* the receiver mirrored back through the planes the ray meets, in the order it meets them *)
  Fixpoint image_z (up : bool) (r : nat) : R :=
    match r with
    | O => z1
    | S r' => 2 * B up - image_z (negb up) r'
    end.

  Lemma legs_sum_image r : forall z up, sum_list (legsb z up r) = sg up * (image_z up r - z).
  Proof.
    induction r; intros z up.
    - simpl. ring.
    - simpl. rewrite IHr, sg_negb. ring.
  Qed.

  Hypothesis Hlohi : lo <= hi.
  Hypothesis Hz1 : lo <= z1 <= hi.

  Lemma B_range up : lo <= B up <= hi.
  Proof. destruct up; simpl; lra. Qed.

  Lemma legsb_nonneg_from_bound r : forall up, Forall (fun x => 0 <= x) (legsb (B (negb up)) up r).
  Proof.
    induction r; intros up.
    - simpl. constructor; [|constructor]. destruct up; simpl; lra.
    - simpl. constructor.
      + destruct up; simpl; lra.
      + pose proof (IHr (negb up)) as H. rewrite negb_involutive in H. exact H.
  Qed.

  Lemma legsb_nonneg r z up : lo <= z <= hi -> Forall (fun x => 0 <= x) (legsb z up (S r)).
  Proof.
    intros Hz. simpl. constructor.
    - destruct up; simpl; lra.
    - pose proof (legsb_nonneg_from_bound r (negb up)) as H. rewrite negb_involutive in H. exact H.
  Qed.

  (* with k >= 1 further reflections the total vertical extent is positive as soon as lo < hi;
     with exactly one reflection it is positive unless both endpoints sit on the mirror *)
  Lemma legsb_sum_pos_two r z up : lo < hi -> lo <= z <= hi -> 0 < sum_list (legsb z up (S (S r))).
  Proof.
    intros Hlt Hz.
    pose proof (legsb_nonneg (S r) z up Hz) as Hnn.
    simpl in Hnn. inversion Hnn as [|a l Ha Hl]; subst. inversion Hl as [|b l2 Hb Hl2]; subst.
    simpl. pose proof (sum_list_nonneg _ Hl2).
    assert (sg (negb up) * (B (negb up) - B up) = hi - lo) by (destruct up; simpl; ring).
    lra.
  Qed.

  Lemma legsb_sum_one z up : sum_list (legsb z up 1) = sg up * (B up - z) + sg (negb up) * (z1 - B up).
  Proof. simpl. ring. Qed.
End Geometry.

(* ------------------------------------------------------------------ rows of the points array *)
Section Rows.
  Variable f : nat * R -> vec3.

  Fixpoint rows_rec (i : nat) (acc : R) (l : list R) : list vec3 :=
    match l with
    | [] => []
    | x :: l' => f (i, acc + x) :: rows_rec (S i) (acc + x) l'
    end.

  Lemma rows_gen l : forall i acc,
    map f (combine (seq i (length (cumsum_from acc l))) (cumsum_from acc l)) = rows_rec i acc l.
  Proof.
    induction l; intros i acc; simpl; [reflexivity|].
    f_equal. apply IHl.
  Qed.
End Rows.

Lemma consecutive_map {A C D} (g : C -> D) (f : A -> A -> C) (l : list A) :
  consecutive (fun a b => g (f a b)) l = map g (consecutive f l).
Proof.
  unfold consecutive. generalize (tl l). induction (removelast l); intros l2; simpl; [reflexivity|].
  destruct l2; simpl; [reflexivity|]. f_equal. apply IHl0.
Qed.

Definition vdiff (a b : vec3) : vec3 := vsub b a.
Definition seglen (v : vec3) : R := sqrt (vsum (vmul v v)).

(* ------------------------------------------------------------------ the main induction *)
Section Walk.
  Variables lo hi z1 : R.
  Variables fx fy dx dy Sv c s rho : R.
  Variable up0 : bool.
  Hypothesis Hc : rho * c = dx.
  Hypothesis Hs : rho * s = dy.
  Hypothesis HS : Sv <> 0.

  Let Bb := B lo hi.
  Let g (x : R) : R := rho * x / Sv.
  Let f (ir : nat * R) : vec3 := (fx + snd ir * c, fy + snd ir * s, bound_z lo hi (dirZ up0) (fst ir)).

  (* leg vector of vertical extent x travelled in direction up *)
  Definition legvec (x : R) (up : bool) : vec3 := (x / Sv * dx, x / Sv * dy, sg up * x).

  Fixpoint legvecs (z : R) (up : bool) (r : nat) : list vec3 :=
    match r with
    | O => [legvec (sg up * (z1 - z)) up]
    | Datatypes.S r' => legvec (sg up * (Bb up - z)) up :: legvecs (Bb up) (negb up) r'
    end.

  (* intermediate rows produced from state (row index i, accumulated radius acc, height z) *)
  Fixpoint midpts (i : nat) (acc z : R) (r : nat) : list vec3 :=
    match r with
    | O => []
    | Datatypes.S r' => let u := flipn up0 i in
              let x := sg u * (Bb u - z) in
              f (i, acc + g x) :: midpts (Datatypes.S i) (acc + g x) (Bb u) r'
    end.

  Lemma rows_rec_legs r : forall i acc z,
    exists lastrow, rows_rec f i acc (map g (legsb lo hi z1 z (flipn up0 i) r)) = midpts i acc z r ++ [lastrow].
  Proof.
    induction r; intros i acc z.
    - simpl. eexists. reflexivity.
    - simpl legsb. simpl map. simpl rows_rec.
      destruct (IHr (Datatypes.S i) (acc + g (sg (flipn up0 i) * (B lo hi (flipn up0 i) - z))) (B lo hi (flipn up0 i))) as [lr Hlr].
      exists lr. rewrite <- flipn_S, Hlr. reflexivity.
  Qed.

  (* differences of consecutive points are the leg vectors *)
  Lemma walk_diffs r : forall i T z,
    T + sum_list (legsb lo hi z1 z (flipn up0 i) r) = Sv ->
    consecutive vdiff ((fx + T / Sv * dx, fy + T / Sv * dy, z) :: midpts i (rho * T / Sv) z r ++ [(fx + dx, fy + dy, z1)])
      = legvecs z (flipn up0 i) r.
  Proof.
    induction r; intros i T z HT.
    - simpl in *. unfold consecutive, vdiff, vsub, legvec, vx, vy, vz. simpl.
      f_equal. f_equal; [f_equal|].
      + replace (sg (flipn up0 i) * (z1 - z)) with (Sv - T) by lra. field. assumption.
      + replace (sg (flipn up0 i) * (z1 - z)) with (Sv - T) by lra. field. assumption.
      + rewrite <- Rmult_assoc, sg_sq. ring.
    - simpl legsb in HT. simpl sum_list in HT.
      simpl midpts. simpl legvecs.
      set (u := flipn up0 i) in *.
      set (x := sg u * (Bb u - z)).
      assert (Hx : sg u * (B lo hi u - z) = x) by reflexivity. rewrite Hx in HT.
      assert (Hacc : rho * T / Sv + g x = rho * (T + x) / Sv) by (unfold g; field; assumption).
      rewrite Hacc.
      assert (Hrow : f (i, rho * (T + x) / Sv) = (fx + (T + x) / Sv * dx, fy + (T + x) / Sv * dy, Bb u)).
      { unfold f. simpl fst. simpl snd. rewrite bound_z_B. fold u. unfold Bb.
        replace (rho * (T + x) / Sv * c) with ((T + x) / Sv * (rho * c)) by (field; assumption).
        replace (rho * (T + x) / Sv * s) with ((T + x) / Sv * (rho * s)) by (field; assumption).
        rewrite Hc, Hs. reflexivity. }
      rewrite Hrow.
      simpl app.
      rewrite consecutive_cons.
      f_equal.
      + unfold vdiff, vsub, legvec, vx, vy, vz. simpl. fold x.
        f_equal; [f_equal|].
        * field. assumption.
        * field. assumption.
        * unfold x. rewrite <- Rmult_assoc, sg_sq. ring.
      + assert (Hu : negb u = flipn up0 (Datatypes.S i)) by (unfold u; rewrite flipn_S; reflexivity).
        rewrite Hu. apply IHr. rewrite <- Hu. clearbody x. unfold Bb in *. lra.
  Qed.

  Lemma seglen_legvec x up : 0 <= x -> 0 < Sv -> seglen (legvec x up) = x / Sv * sqrt (dx * dx + dy * dy + Sv * Sv).
  Proof.
    intros Hx HSp. unfold seglen, legvec, vmul, vsum, vx, vy, vz. simpl.
    replace (x / Sv * dx * (x / Sv * dx) + x / Sv * dy * (x / Sv * dy) + sg up * x * (sg up * x))
      with ((x / Sv) * (x / Sv) * (dx * dx + dy * dy + Sv * Sv)).
    2:{ replace (sg up * x * (sg up * x)) with ((sg up * sg up) * (x * x)) by ring. rewrite sg_sq. field. lra. }
    rewrite sqrt_mult_alt by nra.
    f_equal. apply sqrt_square. apply Rmult_le_pos; [assumption|]. left. apply Rinv_0_lt_compat. assumption.
  Qed.

  Lemma sum_seglen_legvecs r : forall z up, 0 < Sv ->
    Forall (fun x => 0 <= x) (legsb lo hi z1 z up r) ->
    sum_list (map seglen (legvecs z up r)) = sum_list (legsb lo hi z1 z up r) / Sv * sqrt (dx * dx + dy * dy + Sv * Sv).
  Proof.
    induction r; intros z up HSp Hnn.
    - simpl in *. inversion Hnn; subst. rewrite seglen_legvec by assumption. field. lra.
    - simpl legvecs. simpl legsb in *. inversion Hnn; subst.
      simpl map. simpl sum_list. rewrite IHr by assumption.
      rewrite seglen_legvec by assumption. unfold Bb. field. lra.
  Qed.
End Walk.

(* ------------------------------------------------------------------ top level: tracer solutions *)
Lemma removelast_app1 {A} (l : list A) x : removelast (l ++ [x]) = l.
Proof. apply removelast_last. Qed.

Lemma midpts_z lo hi fx fy Sv c s rho up0 r : forall i acc z,
  map vz (midpts lo hi fx fy Sv c s rho up0 i acc z r) = map (fun j => B lo hi (flipn up0 j)) (seq i r).
Proof.
  induction r; intros i acc z; simpl; [reflexivity|].
  f_equal.
  - unfold vz. simpl. apply bound_z_B.
  - apply IHr.
Qed.

Lemma row_last_app2 (pre : list vec3) a b :
  row_last (pre ++ [a; b]) 1 = b /\ row_last (pre ++ [a; b]) 2 = a.
Proof.
  unfold row_last. rewrite app_length. simpl length.
  split.
  - replace (length pre + 2 - 1)%nat with (length pre + 1)%nat by lia.
    rewrite app_nth2 by lia. replace (length pre + 1 - length pre)%nat with 1%nat by lia. reflexivity.
  - replace (length pre + 2 - 2)%nat with (length pre + 0)%nat by lia.
    rewrite app_nth2 by lia. replace (length pre + 0 - length pre)%nat with 0%nat by lia. reflexivity.
Qed.

Lemma recv_from_last (l : list vec3) pre a b :
  l = pre ++ [a; b] -> vsub (row_last l 1) (row_last l 2) = vsub b a.
Proof. intros ->. destruct (row_last_app2 pre a b) as [-> ->]. reflexivity. Qed.

Lemma consecutive_snoc {A C} (f : A -> A -> C) (pre : list A) a b :
  consecutive f (pre ++ [a; b]) = consecutive f (pre ++ [a]) ++ [f a b].
Proof.
  induction pre as [|x pre IH].
  - reflexivity.
  - destruct pre as [|y pre].
    + reflexivity.
    + change ((x :: y :: pre) ++ [a; b]) with (x :: y :: (pre ++ [a; b])).
      change ((x :: y :: pre) ++ [a]) with (x :: y :: (pre ++ [a])).
      rewrite !consecutive_cons.
      change (y :: pre ++ [a; b]) with ((y :: pre) ++ [a; b]).
      change (y :: pre ++ [a]) with ((y :: pre) ++ [a]).
      rewrite IH. reflexivity.
Qed.

Lemma legsb_nonempty lo hi z1 z up r : legsb lo hi z1 z up r <> [].
Proof. destruct r; discriminate. Qed.

Lemma last_legvecs lo hi z1 dx dy Sv r : forall z up,
  last (legvecs lo hi z1 dx dy Sv z up r) vzero =
  legvec dx dy Sv (last (legsb lo hi z1 z up r) 0) (flipn up r).
Proof.
  induction r; intros z up.
  - reflexivity.
  - change (legvecs lo hi z1 dx dy Sv z up (S r))
      with (legvec dx dy Sv (sg up * (B lo hi up - z)) up :: legvecs lo hi z1 dx dy Sv (B lo hi up) (negb up) r).
    change (legsb lo hi z1 z up (S r)) with (sg up * (B lo hi up - z) :: legsb lo hi z1 (B lo hi up) (negb up) r).
    assert (H1 : legvecs lo hi z1 dx dy Sv (B lo hi up) (negb up) r <> []) by (destruct r; discriminate).
    assert (H2 : legsb lo hi z1 (B lo hi up) (negb up) r <> []) by (destruct r; discriminate).
    destruct (legvecs lo hi z1 dx dy Sv (B lo hi up) (negb up) r) eqn:E1; [contradiction|].
    destruct (legsb lo hi z1 (B lo hi up) (negb up) r) eqn:E2; [contradiction|].
    change (last (legvec dx dy Sv (sg up * (B lo hi up - z)) up :: v :: l) vzero) with (last (v :: l) vzero).
    change (last (sg up * (B lo hi up - z) :: r0 :: l0) 0) with (last (r0 :: l0) 0).
    rewrite <- E1, <- E2, IHr. f_equal.
    rewrite flipn_S. unfold flipn. destruct (Nat.even r), up; reflexivity.
Qed.

Lemma last_legsb lo hi z1 r : forall up,
  last (legsb lo hi z1 (B lo hi (negb up)) up r) 0 = sg (flipn up r) * (z1 - B lo hi (negb (flipn up r))).
Proof.
  induction r; intros up.
  - reflexivity.
  - change (legsb lo hi z1 (B lo hi (negb up)) up (S r))
      with (sg up * (B lo hi up - B lo hi (negb up)) :: legsb lo hi z1 (B lo hi up) (negb up) r).
    assert (H2 : legsb lo hi z1 (B lo hi up) (negb up) r <> []) by (destruct r; discriminate).
    destruct (legsb lo hi z1 (B lo hi up) (negb up) r) eqn:E2; [contradiction|].
    change (last (sg up * (B lo hi up - B lo hi (negb up)) :: r0 :: l) 0) with (last (r0 :: l) 0).
    rewrite <- E2. pose proof (IHr (negb up)) as H. rewrite negb_involutive in H. rewrite H.
    rewrite flipn_S. unfold flipn. destruct (Nat.even r), up; reflexivity.
Qed.

Section Tracer.
  Variable t : UTracer.
  Let lo := t_lo t.
  Let hi := t_hi t.
  Let from := UTracer_from_point t.
  Let to := UTracer_to_point t.
  Let z0 := UniformRayTracer_z0 t.
  Let z1 := UniformRayTracer_z1 t.
  Let dx := vx to - vx from.
  Let dy := vy to - vy from.
  Let rho := UniformRayTracer_rho t.
  Let phi := UniformRayTracer_phi t.

  Hypothesis Hrange : lo < hi.
  Hypothesis Hexists : UniformRayTracer_exists t = true.

  Lemma exists_in_range : lo <= z0 <= hi /\ lo <= z1 <= hi.
  Proof.
    unfold UniformRayTracer_exists in Hexists.
    apply andb_prop in Hexists. destruct Hexists as [H0 H1].
    apply andb_prop in H0. apply andb_prop in H1. destruct H0 as [A1 A2]. destruct H1 as [B1 B2].
    apply Rleb_true in A1, A2, B1, B2. unfold lo, hi, z0, z1, t_lo, t_hi. lra.
  Qed.

  Lemma rho_hyp : rho = hyp dx dy.
  Proof.
    unfold rho, UniformRayTracer_rho, hyp, dx, dy, vsub, vx, vy. simpl.
    f_equal. unfold to, from, vx, vy. ring.
  Qed.
  Lemma rho_nonneg : 0 <= rho.
  Proof. rewrite rho_hyp. apply hyp_nonneg. Qed.
  Lemma rho_cos : rho * cos phi = dx.
  Proof.
    rewrite rho_hyp. unfold phi, UniformRayTracer_phi, vsub, vx, vy. simpl.
    apply hyp_cos_atan2.
  Qed.
  Lemma rho_sin : rho * sin phi = dy.
  Proof.
    rewrite rho_hyp. unfold phi, UniformRayTracer_phi, vsub, vx, vy. simpl.
    apply hyp_sin_atan2.
  Qed.
  Lemma rho_sq : rho * rho = dx * dx + dy * dy.
  Proof. rewrite rho_hyp. apply hyp_sq. Qed.

  (* a reflected solution: first direction up/down, k+1 reflections *)
  Variable up : bool.
  Variable k : nat.
  Let legs := dzs lo hi z0 z1 (dirZ up) (S k).
  Let Sv := sum_list legs.
  Let theta := reflected_theta lo hi z0 z1 rho (dirZ up) (S k).
  Let p := mk_path t theta (S k).
  Hypothesis HS : 0 < Sv.

  Lemma legs_legsb : legs = legsb lo hi z1 z0 up (S k).
  Proof. apply dzs_legsb. Qed.

  Lemma theta_dir : init_dir theta = Some (dirZ up).
  Proof.
    unfold init_dir, theta, reflected_theta. fold legs. fold Sv. rewrite IZR_dirZ.
    pose proof rho_nonneg.
    destruct up; simpl sg.
    - assert (0 < atan2 (1 * Sv) rho) by (apply atan2_pos; lra).
      destruct (Rgtb (atan2 (1 * Sv) rho) 0) eqn:E; [reflexivity|]. apply Rgtb_false in E. lra.
    - assert (atan2 (-1 * Sv) rho < 0) by (apply atan2_neg; lra).
      destruct (Rgtb (atan2 (-1 * Sv) rho) 0) eqn:E. { apply Rgtb_true in E. lra. }
      destruct (Rltb (atan2 (-1 * Sv) rho) 0) eqn:E2; [reflexivity|]. apply Rltb_false in E2. lra.
  Qed.

  Lemma path_rho : UniformRayTracePath_rho p = rho.
  Proof. reflexivity. Qed.
  Lemma path_phi : UniformRayTracePath_phi p = phi.
  Proof. reflexivity. Qed.

  Definition mids : list vec3 :=
    midpts lo hi (vx from) (vy from) Sv (cos phi) (sin phi) rho up 0 0 z0 (S k).

  Lemma from_eta : from = (vx from, vy from, z0).
  Proof. unfold z0, UniformRayTracer_z0, vx, vy, vz, from. destruct (UTracer_from_point t) as [[a b] c0]. reflexivity. Qed.
  Lemma to_eta : to = (vx from + dx, vy from + dy, z1).
  Proof.
    unfold z1, UniformRayTracer_z1, dx, dy, vx, vy, vz, to, from.
    destruct (UTracer_to_point t) as [[a b] c0]. destruct (UTracer_from_point t) as [[a' b'] c']. simpl.
    apply f_equal2; [apply f_equal2|]; ring.
  Qed.

  Theorem reflected_points : path_points p = Some (from :: mids ++ [to]).
  Proof.
    change (path_points p) with (uniform_points from to theta lo hi false (S k) rho phi).
    unfold uniform_points. rewrite theta_dir.
    change (vz from) with z0. change (vz to) with z1. fold legs. fold Sv.
    unfold cumsum. rewrite rows_gen.
    rewrite legs_legsb.
    destruct (rows_rec_legs lo hi z1 (vx from) (vy from) Sv (cos phi) (sin phi) rho up (S k) 0%nat 0 z0) as [lr Hlr].
    rewrite flipn_0 in Hlr. rewrite Hlr.
    rewrite removelast_app1. reflexivity.
  Qed.

  Lemma legs_total : 0 + sum_list (legsb lo hi z1 z0 (flipn up 0) (S k)) = Sv.
  Proof. rewrite flipn_0, <- legs_legsb. unfold Sv. ring. Qed.

  (* mirror law / proportional shares: every leg of the reported path is the image vector
     (dx, dy, +-S) scaled by that leg's share of the total vertical extent; the vertical
     direction alternates up/down starting with the first direction *)
  Theorem reflected_leg_vectors :
    consecutive vdiff (from :: mids ++ [to]) = legvecs lo hi z1 dx dy Sv z0 up (S k).
  Proof.
    assert (HSne : Sv <> 0) by lra.
    pose proof (walk_diffs lo hi z1 (vx from) (vy from) dx dy Sv (cos phi) (sin phi) rho up
                 rho_cos rho_sin HSne (S k) 0%nat 0 z0 legs_total) as H.
    rewrite flipn_0 in H.
    rewrite from_eta at 1. rewrite to_eta.
    replace (vx from + 0 / Sv * dx) with (vx from) in H by (field; assumption).
    replace (vy from + 0 / Sv * dy) with (vy from) in H by (field; assumption).
    replace (rho * 0 / Sv) with 0 in H by (field; assumption).
    exact H.
  Qed.

  (* reflection points lie on the ice boundaries, alternately, starting with the one the ray meets first *)
  Theorem reflection_points_z : map vz mids = map (fun j => B lo hi (flipn up j)) (seq 0 (S k)).
  Proof. apply midpts_z. Qed.

  Lemma legs_nonneg : Forall (fun x => 0 <= x) (legsb lo hi z1 z0 up (S k)).
  Proof.
    destruct exists_in_range as [H0 H1].
    apply legsb_nonneg; try assumption. lra.
  Qed.

  (* the mirrored receiver *)
  Definition image : vec3 := (vx to, vy to, image_z lo hi z1 up (S k)).
  Definition dist3 (a b : vec3) : R := sqrt ((vx b - vx a) * (vx b - vx a) + (vy b - vy a) * (vy b - vy a) + (vz b - vz a) * (vz b - vz a)).

  Lemma Sv_image : Sv = sg up * (image_z lo hi z1 up (S k) - z0).
  Proof. unfold Sv. rewrite legs_legsb. apply legs_sum_image. Qed.

  Lemma image_dist : dist3 from image = sqrt (dx * dx + dy * dy + Sv * Sv).
  Proof.
    rewrite Sv_image. unfold dist3, image.
    set (I := image_z lo hi z1 up (S k)).
    change (vx (vx to, vy to, I)) with (vx to). change (vy (vx to, vy to, I)) with (vy to).
    change (vz (vx to, vy to, I)) with I. change (vz from) with z0. fold dx. fold dy.
    f_equal.
    replace (sg up * (I - z0) * (sg up * (I - z0))) with ((sg up * sg up) * ((I - z0) * (I - z0))) by ring.
    rewrite sg_sq. ring.
  Qed.

  Theorem reflected_path_length : UniformRayTracePath_path_length p = dist3 from image.
  Proof.
    unfold UniformRayTracePath_path_length. fold (path_points p). rewrite reflected_points. unfold points_or_nil.
    change (fun p1 p2 : vec3 => sqrt (vsum (vmul (vsub p2 p1) (vsub p2 p1)))) with (fun p1 p2 : vec3 => seglen (vdiff p1 p2)).
    rewrite consecutive_map, reflected_leg_vectors.
    rewrite sum_seglen_legvecs by (try assumption; try lra; apply legs_nonneg).
    rewrite <- legs_legsb. fold Sv. rewrite image_dist. field. lra.
  Qed.

  Theorem reflected_tof :
    UniformRayTracePath_tof p = UIce_n (UTracer_ice t) * dist3 from image / speed_of_light.
  Proof.
    unfold UniformRayTracePath_tof. rewrite reflected_path_length.
    f_equal. f_equal.
    unfold UniformRayTracePath_n0, UniformRayTracePath_z0. simpl UPath_ice. simpl UPath_from_point.
    destruct exists_in_range as [H0 _]. unfold z0, lo, hi, t_lo, t_hi, UniformRayTracer_z0 in H0.
    unfold UniformIce_index.
    destruct (Rltb (vz (UTracer_from_point t)) (fst (UIce_valid_range (UTracer_ice t)))) eqn:E1.
    { apply Rltb_true in E1. lra. }
    destruct (Rgtb (vz (UTracer_from_point t)) (snd (UIce_valid_range (UTracer_ice t)))) eqn:E2.
    { apply Rgtb_true in E2. lra. }
    reflexivity.
  Qed.

  (* directions: the first leg points at the mirrored receiver *)
  Lemma vnormalize_legvec x u : 0 < x ->
    vnormalize (legvec dx dy Sv x u) =
      (dx / sqrt (dx * dx + dy * dy + Sv * Sv), dy / sqrt (dx * dx + dy * dy + Sv * Sv),
       sg u * Sv / sqrt (dx * dx + dy * dy + Sv * Sv)).
  Proof.
    intros Hx.
    assert (HD : 0 < sqrt (dx * dx + dy * dy + Sv * Sv)) by (apply sqrt_lt_R0; nra).
    assert (Hn : vnorm (legvec dx dy Sv x u) = x / Sv * sqrt (dx * dx + dy * dy + Sv * Sv)).
    { change (vnorm (legvec dx dy Sv x u)) with (seglen (legvec dx dy Sv x u)). apply seglen_legvec; lra. }
    assert (Hpos : 0 < x / Sv * sqrt (dx * dx + dy * dy + Sv * Sv)).
    { apply Rmult_lt_0_compat; [|assumption]. apply Rdiv_lt_0_compat; assumption. }
    unfold vnormalize. rewrite Hn.
    destruct (Reqb (x / Sv * sqrt (dx * dx + dy * dy + Sv * Sv)) 0) eqn:E.
    { apply Reqb_true in E. lra. }
    unfold vscale, legvec, vx, vy, vz. simpl.
    apply f_equal2; [apply f_equal2|]; field; lra.
  Qed.

  Theorem reflected_emitted_direction : lo < z0 < hi ->
    UniformRayTracePath_emitted_direction p =
      vscale (/ dist3 from image) (dx, dy, image_z lo hi z1 up (S k) - z0).
  Proof.
    intros Hz0.
    unfold UniformRayTracePath_emitted_direction.
    change (UPath_direct p && veqb (UPath_from_point p) (UPath_to_point p)) with false.
    cbv iota.
    change (points_or_nil (uniform_points _ _ _ _ _ _ _ _ _)) with (points_or_nil (path_points p)).
    rewrite reflected_points. unfold points_or_nil.
    pose proof reflected_leg_vectors as H.
    assert (Hm : exists m0 rest, mids = m0 :: rest) by (unfold mids; simpl; eexists; eexists; reflexivity).
    destruct Hm as (m0 & rest & Hm). rewrite Hm in *. simpl app in *.
    change (vsub (row (from :: m0 :: rest ++ [to]) 1) (row (from :: m0 :: rest ++ [to]) 0))
      with (hd vzero (consecutive vdiff (from :: m0 :: rest ++ [to]))).
    rewrite H. simpl legvecs. simpl hd.
    assert (Hx0 : 0 < sg up * (B lo hi up - z0)) by (unfold sg, B; case up; lra).
    rewrite vnormalize_legvec by exact Hx0.
    rewrite image_dist.
    assert (HD : 0 < sqrt (dx * dx + dy * dy + Sv * Sv)) by (apply sqrt_lt_R0; nra).
    set (D := sqrt (dx * dx + dy * dy + Sv * Sv)) in *.
    set (I := image_z lo hi z1 up (S k)).
    assert (HI : sg up * Sv = I - z0).
    { rewrite Sv_image. fold I. rewrite <- Rmult_assoc, sg_sq. ring. }
    unfold vscale. change (vx (dx, dy, I - z0)) with dx. change (vy (dx, dy, I - z0)) with dy.
    change (vz (dx, dy, I - z0)) with (I - z0). rewrite HI.
    apply f_equal2; [apply f_equal2|]; field; lra.
  Qed.

  Theorem reflected_received_direction : lo < z1 < hi ->
    UniformRayTracePath_received_direction p =
      vscale (/ dist3 from image) (dx, dy, sg (flipn up (S k)) * Sv).
  Proof.
    intros Hz1.
    unfold UniformRayTracePath_received_direction.
    change (UPath_direct p && veqb (UPath_from_point p) (UPath_to_point p)) with false.
    cbv iota.
    change (points_or_nil (uniform_points _ _ _ _ _ _ _ _ _)) with (points_or_nil (path_points p)).
    rewrite reflected_points. unfold points_or_nil.
    pose proof reflected_leg_vectors as H.
    assert (Hm : mids <> []) by (unfold mids; simpl; discriminate).
    destruct (exists_last Hm) as (pre & mlast & Hpre). rewrite Hpre in *.
    assert (Hl : from :: (pre ++ [mlast]) ++ [to] = (from :: pre) ++ [mlast; to]).
    { simpl. rewrite <- app_assoc. reflexivity. }
    rewrite Hl in *.
    erewrite recv_from_last by reflexivity.
    rewrite consecutive_snoc in H.
    assert (Hlast : vdiff mlast to = last (legvecs lo hi z1 dx dy Sv z0 up (S k)) vzero).
    { rewrite <- H. rewrite last_last. reflexivity. }
    unfold vdiff in Hlast. rewrite Hlast, last_legvecs.
    (* the last leg starts on a boundary *)
    assert (Hxl : last (legsb lo hi z1 z0 up (S k)) 0 = sg (flipn up (S k)) * (z1 - B lo hi (negb (flipn up (S k))))).
    { change (legsb lo hi z1 z0 up (S k)) with (sg up * (B lo hi up - z0) :: legsb lo hi z1 (B lo hi up) (negb up) k).
      assert (H2 : legsb lo hi z1 (B lo hi up) (negb up) k <> []) by apply legsb_nonempty.
      destruct (legsb lo hi z1 (B lo hi up) (negb up) k) eqn:E2; [contradiction|].
      change (last (sg up * (B lo hi up - z0) :: r :: l) 0) with (last (r :: l) 0).
      rewrite <- E2. pose proof (last_legsb lo hi z1 k (negb up)) as HH. rewrite negb_involutive in HH. rewrite HH.
      rewrite flipn_S. unfold flipn. case (Nat.even k); case up; reflexivity. }
    rewrite Hxl.
    assert (Hx0 : 0 < sg (flipn up (S k)) * (z1 - B lo hi (negb (flipn up (S k))))).
    { unfold sg, B. case (flipn up (S k)); simpl; lra. }
    rewrite vnormalize_legvec by exact Hx0.
    rewrite image_dist.
    assert (HD : 0 < sqrt (dx * dx + dy * dy + Sv * Sv)) by (apply sqrt_lt_R0; nra).
    set (D := sqrt (dx * dx + dy * dy + Sv * Sv)) in *.
    unfold vscale. set (w := sg (flipn up (S k)) * Sv).
    change (vx (dx, dy, w)) with dx. change (vy (dx, dy, w)) with dy. change (vz (dx, dy, w)) with w.
    unfold w. apply f_equal2; [apply f_equal2|]; field; lra.
  Qed.
End Tracer.

(* ------------------------------------------------------------------ the direct path *)
Section Direct.
  Variable t : UTracer.
  Variable theta : R.
  Let from := UTracer_from_point t.
  Let to := UTracer_to_point t.
  Let p := mk_path t theta 0.

  Theorem direct_points : path_points p = Some [from; to].
  Proof. reflexivity. Qed.

  Theorem direct_path_length : UniformRayTracePath_path_length p = dist3 from to.
  Proof.
    unfold UniformRayTracePath_path_length.
    change (points_or_nil (uniform_points _ _ _ _ _ _ _ _ _)) with [from; to].
    unfold consecutive. simpl. unfold dist3, vsum, vmul, vsub, vx, vy, vz. simpl.
    rewrite Rplus_0_r. reflexivity.
  Qed.

  Theorem direct_directions : veqb from to = false ->
    UniformRayTracePath_emitted_direction p = vnormalize (vsub to from) /\
    UniformRayTracePath_received_direction p = vnormalize (vsub to from).
  Proof.
    intros Hne. unfold UniformRayTracePath_emitted_direction, UniformRayTracePath_received_direction.
    change (UPath_direct p) with true. change (UPath_from_point p) with from. change (UPath_to_point p) with to.
    rewrite Hne. simpl andb. cbv iota.
    change (points_or_nil (uniform_points _ _ _ _ _ _ _ _ _)) with [from; to].
    split; reflexivity.
  Qed.

  Theorem direct_tof :
    UniformRayTracePath_tof p = UniformIce_index (UTracer_ice t) (vz from) * dist3 from to / speed_of_light.
  Proof. unfold UniformRayTracePath_tof. rewrite direct_path_length. reflexivity. Qed.
End Direct.

(* ------------------------------------------------------------------ which (angle, reflections) pairs are produced *)
Lemma solutions_are_direct_or_reflected t m q :
  In q (tracer_solution_params t m) ->
  UniformRayTracer_exists t = true /\
  (q = (UniformRayTracer_solutions__direct_theta t, O) \/
   exists up k, (S k <= m)%nat /\
     reflection_allowed (UIce_index_above (UTracer_ice t)) (UIce_index_below (UTracer_ice t)) (S k) (dirZ up) = true /\
     q = (reflected_theta (t_lo t) (t_hi t) (UniformRayTracer_z0 t) (UniformRayTracer_z1 t) (UniformRayTracer_rho t) (dirZ up) (S k), S k)).
Proof.
  unfold tracer_solution_params, uniform_solutions.
  destruct (UniformRayTracer_exists t); simpl negb; cbv iota; [|intros []].
  intros [H|H]; split; try reflexivity.
  - left. symmetry. exact H.
  - right. apply in_flat_map in H. destruct H as (ref & Href & H).
    apply in_seq in Href.
    apply in_flat_map in H. destruct H as (d & Hd & H).
    destruct ref as [|k]; [lia|].
    assert (Hup : exists up, d = dirZ up).
    { destruct Hd as [<-|[<-|[]]]; [exists true|exists false]; reflexivity. }
    destruct Hup as [up ->].
    destruct (reflection_allowed _ _ (S k) (dirZ up)) eqn:E; [|destruct H].
    destruct H as [<-|[]].
    exists up, k. split; [lia|]. split; [exact E|reflexivity].
Qed.

(* total vertical extent is positive unless the single mirror passes through both endpoints *)
Lemma reflected_extent_pos lo hi z0 z1 up k :
  lo < hi -> lo <= z0 <= hi -> lo <= z1 <= hi ->
  (k = O -> ~ (z0 = B lo hi up /\ z1 = B lo hi up)) ->
  0 < sum_list (dzs lo hi z0 z1 (dirZ up) (S k)).
Proof.
  intros Hr H0 H1 Hk. rewrite dzs_legsb.
  destruct k.
  - rewrite legsb_sum_one.
    destruct up; simpl in *.
    + destruct (Req_dec z0 hi), (Req_dec z1 hi); try lra. exfalso. apply Hk; auto.
    + destruct (Req_dec z0 lo), (Req_dec z1 lo); try lra. exfalso. apply Hk; auto.
  - apply legsb_sum_pos_two; try assumption. lra.
Qed.

(* ------------------------------------------------------------------ non-vacuity *)
Definition example_ice : UIce := mkUIce 1.5 (-500, 0) (Some 1) None.
Definition example_tracer : UTracer := mkUTracer (100, 50, -100) (400, 50, -200) example_ice.

Example uniform_hypotheses_satisfiable :
  t_lo example_tracer < t_hi example_tracer /\
  UniformRayTracer_exists example_tracer = true /\
  0 < sum_list (dzs (t_lo example_tracer) (t_hi example_tracer) (UniformRayTracer_z0 example_tracer)
                    (UniformRayTracer_z1 example_tracer) (dirZ true) 1) /\
  t_lo example_tracer < UniformRayTracer_z0 example_tracer < t_hi example_tracer.
Proof.
  unfold t_lo, t_hi, example_tracer, example_ice, UniformRayTracer_exists, UniformRayTracer_z0, UniformRayTracer_z1, vz. simpl.
  split; [lra|]. split.
  - repeat rewrite (proj2 (Rleb_true _ _)) by lra. reflexivity.
  - unfold leg_first, leg_last. simpl. split; lra.
Qed.
