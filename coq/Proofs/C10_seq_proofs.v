(* C10, sequences of events on one kernel / detector with AntennaSystem antennas, reads and clears in
   between: for ALL histories the as-written caches never serve anything but what the antenna received
   since it was last cleared. *)
From Coq Require Import List ZArith Bool Lia Arith.
From PyrexModel Require Import KernelModel KernelSeqModel.
From PyrexProofs Require Import C10_proofs.
Import ListNotations.
Open Scope Z_scope.

(* ------------------------------------------------------------ specification machine: no caches *)
Definition pst := (Z * (Z -> list Z))%type.     (* _gen_count, what each antenna received since its last clear *)
Definition pupd (f : Z -> list Z) (a : Z) (l : list Z) : Z -> list Z := fun b => if b =? a then l else f b.

Definition pstep (c : cfg) (trig : Z -> bool) (p : pst) (o : sop) : pst * sout :=
  match o with
  | SEvent ev qs cnt =>
    let '(gc, calls, r) := event c (fst p) ev qs cnt in
    ((gc, fun a => snd p a ++ delivered a calls), ORet r)
  | SSignals a => (p, OList (snd p a))
  | SAllWaves a => (p, OList (snd p a))
  | SWaves a => (p, OList (filter trig (snd p a)))
  | SIsHit a => (p, OBool (existsb trig (snd p a)))
  | SClear a => ((fst p, pupd (snd p) a []), ODone)
  | SClearAll => ((fst p, fun _ => []), ODone)
  end.
Fixpoint prun (c : cfg) (trig : Z -> bool) (p : pst) (ops : list sop) : list sout :=
  match ops with
  | [] => []
  | o :: r => let '(p', x) := pstep c trig p o in x :: prun c trig p' r
  end.

(* ------------------------------------------------------------ invariant of the as-written caches *)
Definition prefix {A} (l m : list A) : Prop := exists r, m = l ++ r.

Lemma prefix_refl {A} (l : list A) : prefix l l.
Proof. exists []. rewrite app_nil_r. reflexivity. Qed.
Lemma prefix_nil {A} (l : list A) : prefix [] l.
Proof. exists l. reflexivity. Qed.
Lemma prefix_app {A} (l m x : list A) : prefix l m -> prefix l (m ++ x).
Proof. intros [r ->]. exists (r ++ x). rewrite app_assoc. reflexivity. Qed.

Lemma skipn_length_app {A} (l r : list A) : skipn (length l) (l ++ r) = r.
Proof. induction l; simpl; auto. Qed.

Lemma catch_up_prefix l m : prefix l m -> catch_up l m = m.
Proof. intros [r ->]. unfold catch_up. rewrite skipn_length_app. reflexivity. Qed.

Definition sys_inv (trig : Z -> bool) (s : sysst) : Prop :=
  prefix (cache s) (raw s) /\ prefix (waves s) (raw s) /\ prefix (trigs s) (map trig (waves s)).

Lemma sys_inv_empty trig : sys_inv trig sys_empty.
Proof. repeat split; apply prefix_nil. Qed.

Lemma sys_inv_receive trig s x : sys_inv trig s -> sys_inv trig (sys_receive s x).
Proof. intros [H1 [H2 H3]]. repeat split; simpl; auto using prefix_app. Qed.

Lemma sys_read_signals_spec trig s :
  sys_inv trig s -> snd (sys_read_signals s) = raw s /\ sys_inv trig (fst (sys_read_signals s)) /\
                    raw (fst (sys_read_signals s)) = raw s.
Proof.
  intros [H1 [H2 H3]]. unfold sys_read_signals. simpl. rewrite (catch_up_prefix _ _ H1).
  repeat split; simpl; auto using prefix_refl.
Qed.

Lemma sys_read_all_waveforms_spec trig s :
  sys_inv trig s -> snd (sys_read_all_waveforms s) = raw s /\ sys_inv trig (fst (sys_read_all_waveforms s)) /\
                    raw (fst (sys_read_all_waveforms s)) = raw s.
Proof.
  intros [H1 [H2 [r3 H3]]]. unfold sys_read_all_waveforms. simpl. rewrite (catch_up_prefix _ _ H2).
  repeat split; simpl; auto using prefix_refl.
  destruct H2 as [r2 H2]. rewrite H2, map_app, H3. exists (r3 ++ map trig r2). rewrite app_assoc. reflexivity.
Qed.

Lemma zip_filter_map trig w : zip_filter w (map trig w) = filter trig w.
Proof. induction w as [|x w IH]; simpl; [reflexivity|]. destruct (trig x); rewrite IH; reflexivity. Qed.

Lemma catch_up_trig_prefix trig t w : prefix t (map trig w) -> catch_up_trig trig t w = map trig w.
Proof.
  intros [r H]. unfold catch_up_trig.
  assert (Hl : length t = length (firstn (length t) w)).
  { rewrite firstn_length. apply (f_equal (@length bool)) in H. rewrite map_length, app_length in H. lia. }
  rewrite <- (firstn_skipn (length t) w) in H at 1. rewrite map_app in H.
  assert (Ht : t = map trig (firstn (length t) w)).
  { apply (f_equal (firstn (length t))) in H.
    rewrite firstn_app, firstn_all2 in H by (rewrite map_length; lia).
    rewrite map_length, <- Hl, Nat.sub_diag in H. simpl in H. rewrite app_nil_r in H.
    rewrite firstn_app, firstn_all, Nat.sub_diag in H. simpl in H. rewrite app_nil_r in H. symmetry. exact H. }
  rewrite Ht at 1. rewrite <- map_app, firstn_skipn. reflexivity.
Qed.

Lemma sys_read_waveforms_spec trig s :
  sys_inv trig s -> snd (sys_read_waveforms trig s) = filter trig (raw s) /\
                    sys_inv trig (fst (sys_read_waveforms trig s)) /\ raw (fst (sys_read_waveforms trig s)) = raw s.
Proof.
  intros [H1 [H2 H3]]. unfold sys_read_waveforms. simpl. rewrite (catch_up_prefix _ _ H2).
  assert (H3' : prefix (trigs s) (map trig (raw s))).
  { destruct H3 as [r3 H3]. destruct H2 as [r2 H2]. rewrite H2, map_app, H3. exists (r3 ++ map trig r2).
    rewrite app_assoc. reflexivity. }
  rewrite (catch_up_trig_prefix _ _ _ H3'), zip_filter_map.
  repeat split; simpl; auto using prefix_refl.
Qed.

Lemma filter_length_existsb {A} (f : A -> bool) l : negb (Nat.eqb (length (filter f l)) 0) = existsb f l.
Proof. induction l as [|x l IH]; simpl; [reflexivity|]. destruct (f x); simpl; [reflexivity | exact IH]. Qed.

(* ------------------------------------------------------------ refinement, all histories *)
Definition related (trig : Z -> bool) (k : kst) (p : pst) : Prop :=
  k_count k = fst p /\ forall a, raw (k_sys k a) = snd p a /\ sys_inv trig (k_sys k a).

Lemma related_init trig g : related trig (k_init g) (g, fun _ => []).
Proof. split; [reflexivity|]. intros a. split; [reflexivity | apply sys_inv_empty]. Qed.

Lemma step_refines c trig k p o :
  related trig k p ->
  snd (sstep c trig k o) = snd (pstep c trig p o) /\ related trig (fst (sstep c trig k o)) (fst (pstep c trig p o)).
Proof.
  intros [Hc Ha]. destruct o as [ev qs cnt|a|a|a|a|a|]; cbn [sstep pstep].
  - rewrite Hc. destruct (event c (fst p) ev qs cnt) as [[gc calls] r]. cbn [fst snd].
    split; [reflexivity|]. split; [reflexivity|]. intros a. destruct (Ha a) as [Hr Hi]. split.
    + simpl. rewrite Hr. reflexivity.
    + apply sys_inv_receive. exact Hi.
  - destruct (Ha a) as [Hr Hi]. destruct (sys_read_signals_spec trig _ Hi) as [H1 [H2 H3]].
    destruct (sys_read_signals (k_sys k a)) as [s l]. cbn [fst snd] in *. subst l. rewrite Hr.
    split; [reflexivity|]. split; [exact Hc|]. intros b. cbn [k_sys fst snd]. unfold upd. destruct (b =? a) eqn:E.
    + apply Z.eqb_eq in E. subst b. split; [rewrite H3; exact Hr | exact H2].
    + apply Ha.
  - destruct (Ha a) as [Hr Hi]. destruct (sys_read_all_waveforms_spec trig _ Hi) as [H1 [H2 H3]].
    destruct (sys_read_all_waveforms (k_sys k a)) as [s l]. cbn [fst snd] in *. subst l. rewrite Hr.
    split; [reflexivity|]. split; [exact Hc|]. intros b. cbn [k_sys fst snd]. unfold upd. destruct (b =? a) eqn:E.
    + apply Z.eqb_eq in E. subst b. split; [rewrite H3; exact Hr | exact H2].
    + apply Ha.
  - destruct (Ha a) as [Hr Hi]. destruct (sys_read_waveforms_spec trig _ Hi) as [H1 [H2 H3]].
    destruct (sys_read_waveforms trig (k_sys k a)) as [s l]. cbn [fst snd] in *. subst l. rewrite Hr.
    split; [reflexivity|]. split; [exact Hc|]. intros b. cbn [k_sys fst snd]. unfold upd. destruct (b =? a) eqn:E.
    + apply Z.eqb_eq in E. subst b. split; [rewrite H3; exact Hr | exact H2].
    + apply Ha.
  - destruct (Ha a) as [Hr Hi]. destruct (sys_read_waveforms_spec trig _ Hi) as [H1 [H2 H3]].
    destruct (sys_read_waveforms trig (k_sys k a)) as [s l]. cbn [fst snd] in *. subst l. rewrite Hr.
    rewrite filter_length_existsb.
    split; [reflexivity|]. split; [exact Hc|]. intros b. cbn [k_sys fst snd]. unfold upd. destruct (b =? a) eqn:E.
    + apply Z.eqb_eq in E. subst b. split; [rewrite H3; exact Hr | exact H2].
    + apply Ha.
  - split; [reflexivity|]. split; [exact Hc|]. intros b. cbn [k_sys fst snd]. unfold upd, pupd. destruct (b =? a).
    + split; [reflexivity | apply sys_inv_empty].
    + apply Ha.
  - split; [reflexivity|]. split; [exact Hc|]. intros b. cbn [k_sys fst snd]. split; [reflexivity | apply sys_inv_empty].
Qed.

Lemma run_refines c trig : forall ops k p, related trig k p -> srun c trig k ops = prun c trig p ops.
Proof.
  induction ops as [|o r IH]; intros k p HR; [reflexivity|]. cbn [srun prun].
  destruct (step_refines c trig k p o HR) as [H1 H2].
  destruct (sstep c trig k o) as [k' x]. destruct (pstep c trig p o) as [p' y]. cbn [fst snd] in *.
  subst y. f_equal. apply IH. exact H2.
Qed.

Lemma seq_refinement_lemma c trig g ops : srun c trig (k_init g) ops = prun c trig (g, fun _ => []) ops.
Proof. apply run_refines. apply related_init. Qed.

(* ------------------------------------------------------------ what one event hands an antenna *)
Lemma delivered_filter a calls : delivered a calls = map call_path (filter (is_recv_for a) calls).
Proof.
  unfold delivered. induction calls as [|x calls IH]; simpl; [reflexivity|].
  destruct x; simpl; try exact IH; destruct (_ =? a); simpl; rewrite IH; reflexivity.
Qed.

Lemma delivered_event c g ev qs cnt a :
  NoDup (c_ants c) -> In a (c_ants c) ->
  delivered a (snd (fst (event c g ev qs cnt))) = map (fun qp => p_id (snd qp)) (pairs c qs a).
Proof.
  intros Hn Hi. rewrite delivered_filter, event_deliveries_lemma by assumption.
  rewrite map_map. apply map_ext. intros. apply deliver_path.
Qed.

(* the simulation loop: after ANY history, once the detector has been cleared, an event followed by a
   read of ant.signals gives exactly this event's ray solutions for that antenna, one each, in order *)
Lemma sim_loop_lemma c trig g pre ev qs cnt a :
  NoDup (c_ants c) -> In a (c_ants c) ->
  exists r rest,
    srun c trig (k_init g) (pre ++ [SClearAll; SEvent ev qs cnt; SSignals a; SAllWaves a]) =
    rest ++ [ODone; ORet r; OList (map (fun qp => p_id (snd qp)) (pairs c qs a));
                            OList (map (fun qp => p_id (snd qp)) (pairs c qs a))].
Proof.
  intros Hn Hi. rewrite seq_refinement_lemma. generalize (g, fun _ : Z => @nil Z). 
  induction pre as [|o pre IH]; intros p.
  - cbn [app prun pstep fst snd]. destruct (event c (fst p) ev qs cnt) as [[gc calls] r] eqn:E.
    exists r, []. cbn [fst snd app]. 
    pose proof (delivered_event c (fst p) ev qs cnt a Hn Hi) as Hd. rewrite E in Hd. cbn [fst snd] in Hd.
    rewrite Hd. reflexivity.
  - cbn [app prun]. destruct (pstep c trig p o) as [p' x]. destruct (IH p') as [r [rest H]].
    exists r, (x :: rest). rewrite H. reflexivity.
Qed.

(* non-vacuity: the order of the seeded fault -- event, read, clear, event, read *)
Example ex_loop :
  srun ex_cfg (fun _ => true) (k_init 4)
       [SEvent 77 [ex_q1; ex_q2] 9; SSignals 1; SIsHit 1; SClearAll; SIsHit 1;
        SEvent 78 [ex_q1] 12; SEvent 79 [ex_q1] 13; SSignals 1; SAllWaves 2] =
  [ORet (RetPair 77 true); OList [11; 12]; OBool true; ODone; OBool false;
   ORet (RetPair 78 true); ORet (RetPair 79 true); OList [11; 12; 11; 12]; OList []].
Proof. reflexivity. Qed.
