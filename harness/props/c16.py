"""C16: ice models self-consistent (index, inverse, gradient, ranges, attenuation, layered dispatch)."""
import importlib
import json
import math
import os
import sys

import numpy as np

from harness import common, realextract as rx
from harness.common import REPO, ROOT

sys.path.insert(0, os.path.join(ROOT, "tools"))

PINS = {  # hand-modelled code (Model/LayeredIceModel.v): AST hashes recorded when the model was validated
    "LayeredIce.layer_at_depth": None, "LayeredIce.index": None, "LayeredIce.boundaries": None,
}
PIN_FILE = os.path.join(ROOT, "harness", "pins", "C16.json")


def gen_files(scratch):
    import gen_ice
    importlib.reload(gen_ice)
    text, hashes = gen_ice.generate(REPO)
    return {"Gen_ice": text}, hashes


def current_pins():
    from py2coq import ast_pin
    return {k: ast_pin(REPO, "pyrex/custom/layered_ice/ice_model.py", k) for k in PINS}


# ---------------------------------------------------------------------------- helpers
def mk_ice(p):
    """OCaml record literal for the Ice record."""
    def opt(v):
        return "None" if v is None else "(Some %s)" % rx.ocf(v)
    return "{M.ice_n0=%s; M.ice_k=%s; M.ice_a=%s; M.ice_valid_range=(%s,%s); M.ice_index_above=%s; M.ice_index_below=%s}" % (
        rx.ocf(p["n0"]), rx.ocf(p["k"]), rx.ocf(p["a"]), rx.ocf(p["lo"]), rx.ocf(p["hi"]), opt(p["above"]), opt(p["below"]))


def mk_uice(p):
    def opt(v):
        return "None" if v is None else "(Some %s)" % rx.ocf(v)
    return "{M.uIce_n=%s; M.uIce_valid_range=(%s,%s); M.uIce_index_above=%s; M.uIce_index_below=%s}" % (
        rx.ocf(p["n"]), rx.ocf(p["lo"]), rx.ocf(p["hi"]), opt(p["above"]), opt(p["below"]))


CLASSES = {"AntarcticIce": "antarcticIce", "ArasimIce": "arasimIce", "GreenlandIce": "greenlandIce"}


def rand_params(rng, cls, default=False):
    import pyrex.ice_model as im
    if default:
        o = getattr(im, cls)()
        return dict(n0=o.n0, k=o.k, a=o.a, lo=float(o.valid_range[0]), hi=float(o.valid_range[1]), above=1.0, below=None)
    n0 = rng.uniform(1.5, 2.0)
    k = rng.uniform(0.1, n0 - 1.05)
    a = 10 ** rng.uniform(-2.5, -1.2)
    lo = -rng.choice([300.0, 1000.0, 2850.0, 3000.0, 517.25])
    hi = rng.choice([0.0, 0.0, -10.0, -100.5])
    return dict(n0=n0, k=k, a=a, lo=lo, hi=hi, above=rng.choice([1.0, None, 1.2]), below=rng.choice([None, None, 1.9]))


def build(cls, p):
    import pyrex.ice_model as im
    return getattr(im, cls)(n0=p["n0"], k=p["k"], a=p["a"], valid_range=(p["lo"], p["hi"]),
                            index_above=p["above"], index_below=p["below"])


def z_grid(rng, p, n):
    lo, hi = p["lo"], p["hi"]
    zs = [lo, hi, np.nextafter(lo, -np.inf), np.nextafter(lo, np.inf), np.nextafter(hi, -np.inf), np.nextafter(hi, np.inf),
          hi + 5.0, hi + 250.0, lo - 1.0, lo - 400.0, 0.5 * (lo + hi)]
    zs += [rng.uniform(lo, hi) for _ in range(n)]
    zs += [-(10 ** rng.uniform(-2, math.log10(-lo))) for _ in range(n // 2)] if lo < 0 else []
    return [float(z) for z in zs]


def close(a, b, rel=1e-11, abs_=1e-11):
    if isinstance(a, (tuple, list)):
        return all(close(x, y, rel, abs_) for x, y in zip(a, b))
    a, b = float(a), float(b)
    if math.isnan(a) or math.isnan(b):
        return math.isnan(a) and math.isnan(b)
    if math.isinf(a) or math.isinf(b):
        return a == b
    return abs(a - b) <= abs_ + rel * max(abs(a), abs(b))


# ---------------------------------------------------------------------------- correspondence A
def corr_formulas(ctx):
    import pyrex.ice_model as im
    rng = ctx.rng
    cases, expect, meta = [], [], []
    nparam = ctx.n(3, 25)
    nz = ctx.n(6, 24)
    freqs_fixed = [1e9, np.nextafter(1e9, 0), np.nextafter(1e9, 2e9), 75e6, 1.0, 1e12, 3e8]
    dist = {"z_classes": {"on_bound": 0, "adjacent_ulp": 0, "above": 0, "below": 0, "inside": 0}, "classes": {}}
    for cls, oc in CLASSES.items():
        plist = [rand_params(rng, cls, default=True)] + [rand_params(rng, cls) for _ in range(nparam)]
        for p in plist:
            try:
                obj = build(cls, p)
            except Exception as e:
                ctx.oblige("corr:build:%s" % cls, False, repr(e))
                continue
            mk = mk_ice(p)
            for z in z_grid(rng, p, nz):
                f = float(rng.choice(freqs_fixed + [10 ** rng.uniform(6, 10)]))
                zc = ("on_bound" if z in (p["lo"], p["hi"]) else "above" if z > p["hi"] else "below" if z < p["lo"] else "inside")
                dist["z_classes"][zc] += 1
                dist["classes"][cls] = dist["classes"].get(cls, 0) + 1
                with np.errstate(all="ignore"):
                    n_impl = float(obj.index(z))
                    want = [("index", "pr (M.%s_index %s %s)" % (oc, mk, rx.ocf(z)), (n_impl,)),
                            ("depth_with_index", "pr (M.%s_depth_with_index %s %s)" % (oc, mk, rx.ocf(n_impl)), (float(obj.depth_with_index(n_impl)),)),
                            ("gradient", "pr3 (M.%s_gradient %s %s)" % (oc, mk, rx.ocf(z)), tuple(float(v) for v in obj.gradient(z))),
                            ("temperature", "pr (M.%s_temperature %s)" % (oc, rx.ocf(z)), (float(obj.temperature(z)),)),
                            ("attenuation_length", "pr (M.%s_attenuation_length %s %s %s)" % (oc, mk, rx.ocf(z), rx.ocf(f)),
                             (float(obj.attenuation_length(z, f)),))]
                    # also probe depth_with_index at indices outside / at the edge of the attainable range
                    nprobe = float(rng.choice([p["n0"] - 1e-12, 1.0, 2.5, float(obj.index(p["lo"])), float(obj.index(p["hi"])), rng.uniform(1.2, p["n0"])]))
                    want.append(("depth_with_index", "pr (M.%s_depth_with_index %s %s)" % (oc, mk, rx.ocf(nprobe)), (float(obj.depth_with_index(nprobe)),)))
                for fn, code, exp in want:
                    cases.append(code)
                    expect.append(exp)
                    meta.append({"class": cls, "fn": fn, "params": p, "z": z, "f": f, "n": nprobe if fn == "depth_with_index" else None})
    # uniform ice
    for _ in range(nparam + 1):
        p = dict(n=rng.uniform(1.2, 1.9), lo=-rng.choice([100.0, 2850.0]), hi=rng.choice([0.0, -20.0]),
                 above=rng.choice([1.0, None]), below=rng.choice([None, 1.8]))
        obj = im.UniformIce(p["n"], valid_range=(p["lo"], p["hi"]), index_above=p["above"], index_below=p["below"])
        mk = mk_uice(p)
        for z in z_grid(rng, p, nz // 2):
            f = float(10 ** rng.uniform(6, 10))
            with np.errstate(all="ignore"):
                want = [("index", "pr (M.uniformIce_index %s %s)" % (mk, rx.ocf(z)), (float(obj.index(z)),)),
                        ("gradient", "pr3 (M.uniformIce_gradient %s %s)" % (mk, rx.ocf(z)), tuple(float(v) for v in obj.gradient(z))),
                        ("attenuation_length", "pr (M.uniformIce_attenuation_length %s %s %s)" % (mk, rx.ocf(z), rx.ocf(f)), (float(obj.attenuation_length(z, f)),))]
            for fn, code, exp in want:
                cases.append(code)
                expect.append(exp)
                meta.append({"class": "UniformIce", "fn": fn, "params": p, "z": z, "f": f})
    fns = []
    for c in CLASSES:
        fns += ["%s_%s" % (c, m) for m in ("index", "depth_with_index", "gradient", "temperature", "attenuation_length")]
    fns += ["UniformIce_index", "UniformIce_gradient", "UniformIce_attenuation_length"]
    res = rx.run(ctx, "From PyrexGen Require Import Gen_ice.", fns, cases, name="ice")
    bad = 0
    for r, e, m in zip(res, expect, meta):
        ctx.case(key=(m["class"], m["fn"], m["z"], m.get("f"), m.get("n")), sample={"case": m, "model": r, "impl": e})
        if r == "EXC" or not close(r, e):
            bad += 1
            if bad <= 5:
                ctx.oblige("corr:formula:%s.%s" % (m["class"], m["fn"]), False,
                           "generated model and implementation disagree: model=%r impl=%r at %s" % (r, e, json.dumps(m, default=str)))
    ctx.oblige("corr:formulas(%d cases)" % len(cases), bad == 0, "%d disagreements" % bad)
    ctx.extra["corr_formula_distribution"] = dist
    ctx.extra["corr_formula_tolerance"] = "rel 1e-11 + abs 1e-11 (same operation order; libm differences only)"


# ---------------------------------------------------------------------------- correspondence B
def corr_layered(ctx):
    """LayeredIce dispatch: implementation vs the hand model (pinned by AST hash)."""
    from pyrex.custom.layered_ice import LayeredIce
    import pyrex.ice_model as im
    rng = ctx.rng
    pins = current_pins()
    recorded = json.load(open(PIN_FILE)) if os.path.exists(PIN_FILE) else {}
    changed = [k for k in pins if recorded.get(k) != pins[k]]
    ctx.extra["layered_pins"] = {"current": pins, "changed_since_validation": changed}
    nstacks = ctx.n(12, 150) * (4 if changed else 1)
    cases, expect, meta = [], [], []
    for _ in range(nstacks):
        nl = rng.randint(1, 4)
        bounds = sorted({round(rng.uniform(-1000, 0), rng.choice([0, 1, 3])) for _ in range(nl + 1)}, reverse=True)
        if len(bounds) < 2:
            continue
        top_at_zero = rng.random() < 0.5
        if top_at_zero:
            bounds[0] = 0.0
        layers, tags = [], []
        for i in range(len(bounds) - 1):
            hi, lo = bounds[i], bounds[i + 1]
            # the layers carry their OWN declared outside indices (explicit or None): the stack's declared indices are
            # documented as "the index at the uppermost / lowermost boundary" and must not inherit these
            la, lb = rng.choice([1.0, None, 1.11]), rng.choice([None, 1.0, 2.22])
            if rng.random() < 0.5:
                layers.append(im.UniformIce(1.3 + 0.1 * i, valid_range=(lo, hi), index_above=la, index_below=lb))
            else:
                layers.append(im.AntarcticIce(valid_range=(lo, hi), index_above=la, index_below=lb))
        order = list(range(len(layers)))
        rng.shuffle(order)                      # the constructor sorts by depth
        ia, ib = rng.choice([1.0, None]), rng.choice([None, 1.95])
        li = LayeredIce([layers[i] for i in order], index_above=ia, index_below=ib)
        # independent reading of the stack's declared indices (documentation of LayeredIce): the explicit value, else the
        # in-ice index of the top layer at the uppermost boundary / of the bottom layer at the lowermost boundary
        def _inside(layer, z):
            if isinstance(layer, im.UniformIce):
                return float(layer.n)
            return float(layer.n0 - layer.k * math.exp(layer.a * z))
        want_above = float(ia) if ia is not None else _inside(li.layers[0], bounds[0])
        want_below = float(ib) if ib is not None else _inside(li.layers[-1], bounds[-1])
        for nm, got, want in (("index_above", li.index_above, want_above), ("index_below", li.index_below, want_below)):
            ctx.case(key=("layered-declared", tuple(bounds), nm, ia, ib))
            if not close(float(got), want, 4e-16, 0):
                ctx.fail("layered-declared:%s:%s" % (nm, bounds), "LayeredIce.%s = %r for a stack with boundaries %s built with index_above=%r, index_below=%r "
                         "(layers' own declared indices %s); documented value: %r" % (nm, float(got), bounds, ia, ib,
                         [(l.index_above, l.index_below) for l in li.layers], want),
                         {"kind": "layered_declared", "bounds": bounds, "which": nm, "stack_index_above": ia, "stack_index_below": ib})
        ml = "[" + "; ".join("((%s, %s), M.Z.to_nat (%s))" % (rx.ocf(l.valid_range[0]), rx.ocf(l.valid_range[1]), "M.Zpos " + _pos(i + 1))
                             for i, l in enumerate(li.layers)) + "]"
        zs = list(bounds) + [float(np.nextafter(b, s)) for b in bounds for s in (-np.inf, np.inf)] + \
            [rng.uniform(bounds[-1] - 50, bounds[0] + 50) for _ in range(6)]
        for z in zs:
            z = float(z)
            try:
                lay = li.layer_at_depth(z)
                tag = [i for i, l in enumerate(li.layers) if l is lay][0] + 1
            except ValueError:
                tag = 0
            # "dispatches every depth to the layer that contains it": the layer returned must itself contain the depth
            # (by its own public `contains`), and the stack contains exactly the depths that are dispatched
            ctx.case(key=("layered-contains", tuple(bounds), z))
            own = bool(lay.contains((0.0, 0.0, z))) if tag else None
            whole = bool(li.contains((0.0, 0.0, z)))
            if (tag and not own) or whole != bool(tag):
                ctx.fail("layered-contains:%s:%r" % (bounds, z),
                         "LayeredIce with boundaries %s at depth %r: layer_at_depth gives layer %s whose own contains() is %s; LayeredIce.contains() is %s" % (
                             bounds, z, tag or "none (ValueError)", own, whole),
                         {"kind": "layered_contains", "bounds": bounds, "z": z})
            try:
                with np.errstate(all="ignore"):
                    n = float(li.index(z))
                if tag:
                    src, ok = tag, n == float(li.layers[tag - 1].index(z))
                elif z > li.layers[0].valid_range[1]:
                    src, ok = -1, close(n, want_above, 4e-16, 0)
                else:
                    src, ok = -2, close(n, want_below, 4e-16, 0)
            except ValueError:
                src, ok = -3, True
            cases.append("(match M.layer_at_depth %s %s with Some l -> Printf.printf \"%%h \" (float_of_int (natint (M.l_tag l))) | None -> print_string \"0x0p+0 \"); "
                         "(match M.index_source %s %s with M.FromLayer t -> Printf.printf \"%%h\\n\" (float_of_int (natint t)) | M.Above -> print_string \"-0x1p+0\\n\" "
                         "| M.Below -> print_string \"-0x1p+1\\n\" | M.NoIndex -> print_string \"-0x1.8p+1\\n\")" % (ml, rx.ocf(z), ml, rx.ocf(z)))
            expect.append((float(tag), float(src)))
            meta.append({"bounds": bounds, "z": z, "index_value_consistent": ok})
        # array / list input: the result for a sequence must be the per-depth result in every order
        # (in particular a depth exactly on an interior boundary that FOLLOWS a depth of the layer above)
        good = []
        for z in zs:
            try:
                with np.errstate(all="ignore"):
                    good.append((float(z), float(li.index(float(z))), li.layer_at_depth(float(z))))
            except ValueError:
                pass
        for _rep in range(3):
            order = list(good)
            rng.shuffle(order)
            if _rep == 0:
                order.sort(key=lambda t: -t[0])          # top-down: boundary depths follow the layer above
            if len(order) < 2:
                continue
            for kind in ("array", "list"):
                arg = np.array([o[0] for o in order]) if kind == "array" else [o[0] for o in order]
                try:
                    with np.errstate(all="ignore"):
                        got_n = [float(v) for v in li.index(arg)]
                        got_l = list(li.layer_at_depth(arg))
                except Exception as e:
                    got_n, got_l = None, repr(e)
                ctx.case(key=("layered-seq", tuple(bounds), kind, tuple(o[0] for o in order)))
                okseq = got_n is not None and all(a == o[1] for a, o in zip(got_n, order)) and all(a is o[2] for a, o in zip(got_l, order))
                if not okseq:
                    ctx.fail("layered-sequence:%s:%s" % (bounds, kind),
                             "LayeredIce.index / layer_at_depth on a %s of depths %s gives %s, the per-depth scalar results are %s" % (
                                 kind, [o[0] for o in order], got_n if got_n is not None else got_l, [o[1] for o in order]),
                             {"kind": "layered_sequence", "bounds": bounds, "depths": [o[0] for o in order], "input": kind})
    pre = "let rec natint = function M.O -> 0 | M.S n -> 1 + natint n\n"
    old = rx.OCAML_PRELUDE
    rx.OCAML_PRELUDE = old + pre
    try:
        res = rx.run(ctx, "From PyrexModel Require Import LayeredIceModel.", ["layer_at_depth", "index_source", "l_tag", "Z.to_nat"], cases, name="layered")
    finally:
        rx.OCAML_PRELUDE = old
    bad = 0
    for r, e, m in zip(res, expect, meta):
        ctx.case(key=("layered", tuple(m["bounds"]), m["z"]), sample={"case": m, "model": r, "impl": e})
        if r != e or not m["index_value_consistent"]:
            bad += 1
            ctx.fail("layered:%s:%r" % (m["bounds"], m["z"]),
                     "LayeredIce dispatch at depth %r for boundaries %s: implementation (layer, source)=%s model=%s value-consistent=%s" % (
                         m["z"], m["bounds"], e, r, m["index_value_consistent"]),
                     {"kind": "layered", **m, "impl": e, "model": r})
    ctx.oblige("corr:layered(%d cases)" % len(cases), bad == 0, "%d disagreements" % bad)


def _pos(n):
    """OCaml expression of Coq positive n."""
    bits = bin(n)[3:]
    e = "M.XH"
    for b in bits:
        e = "(M.%s %s)" % ("XI" if b == "1" else "XO", e)
    return e


# ---------------------------------------------------------------------------- probes on the implementation
def probes(ctx):
    """The property as stated, judged on the implementation with independent oracles."""
    import pyrex.ice_model as im
    rng = ctx.rng
    nparam = ctx.n(3, 30)
    for cls in list(CLASSES) + ["UniformIce"]:
        plist = []
        if cls == "UniformIce":
            for _ in range(nparam):
                plist.append(dict(n=rng.uniform(1.2, 1.9), lo=-rng.choice([100.0, 2850.0]), hi=rng.choice([0.0, -20.0]),
                                  above=rng.choice([1.0, None]), below=rng.choice([None, 1.8])))
            # integer-typed parameters (an air or vacuum layer written as UniformIce(1, ...)): Python ints
            # must behave like the floats they denote, in the scalar and in the array branch
            plist.append(dict(n=1, lo=-100, hi=0, above=1.0003, below=1.35))
            plist.append(dict(n=2, lo=-2850, hi=-20, above=1, below=1.78))
        else:
            plist = [rand_params(rng, cls, default=True)] + [rand_params(rng, cls) for _ in range(nparam)]
            # integer-typed parameters and range (n0=2, k=1, integer bounds and declared indices)
            plist.append(dict(n0=2, k=1, a=0.0132, lo=-2850, hi=0, above=1, below=2))
            plist.append(dict(n0=1.78, k=0.43, a=0.0132, lo=-200, hi=-20, above=1, below=3))
        for p in plist:
            if cls == "UniformIce":
                obj = im.UniformIce(p["n"], valid_range=(p["lo"], p["hi"]), index_above=p["above"], index_below=p["below"])
            else:
                obj = build(cls, p)
            lo, hi = p["lo"], p["hi"]
            zs = np.array(sorted(set(z_grid(rng, p, 12))))
            fs = np.array([1.0, 1e6, 75e6, 3e8, float(np.nextafter(1e9, 0)), 1e9, 2.5e9, 1e12])
            tag = {"class": cls, "params": p}
            with np.errstate(all="ignore"):
                # (1) scalar == array, bounds -> declared indices
                zi = np.array(sorted({int(z) for z in zs if float(z).is_integer()} | {int(lo), int(hi), int(hi) + 7, int(lo) - 3}))
                arr_i = np.asarray(obj.index(zi))
                for i, z in enumerate(zi):
                    s = float(obj.index(int(z)))
                    if rx.ulp_diff(s, float(arr_i[i])) > 2:
                        ctx.fail("index-scalar-intarray:%s:%r" % (cls, int(z)), "%s.index: integer-dtype depth array entry %r != scalar %r at z=%r (%s)" % (cls, float(arr_i[i]), s, int(z), p),
                                 {"kind": "index_scalar_array", **tag, "z": int(z)})
                zsh = list(zs) + [float(zs[0]), float(zs[-1])]; rng.shuffle(zsh); zsh = np.array(zsh)
                arr_sh = np.asarray(obj.index(zsh))
                for i, z in enumerate(zsh):
                    s = float(obj.index(float(z)))
                    if arr_sh.shape != zsh.shape or rx.ulp_diff(s, float(arr_sh[i])) > 2:
                        ctx.fail("index-scalar-array-unsorted:%s:%r" % (cls, float(z)), "%s.index of an unsorted depth array: entry %d differs from scalar %r at z=%r (array %s) (%s)" % (
                            cls, i, s, float(z), arr_sh.tolist(), p), {"kind": "index_scalar_array", **tag, "z": float(z), "zs": [float(v) for v in zsh]})
                        break
                arr = obj.index(zs)
                for i, z in enumerate(zs):
                    s = float(obj.index(float(z)))
                    ctx.case(key=(cls, "index", float(z), json.dumps(p, sort_keys=True)))
                    if rx.ulp_diff(s, float(arr[i])) > 2:
                        ctx.fail("index-scalar-array:%s:%r" % (cls, float(z)), "%s.index scalar %r != array entry %r at z=%r (%s)" % (cls, s, float(arr[i]), float(z), p),
                                 {"kind": "index_scalar_array", **tag, "z": float(z)})
                    # independent reading of "the declared indices": the explicit value, else the profile at the edge
                    if cls == "UniformIce":
                        want_above = p["above"] if p["above"] is not None else p["n"]
                        want_below = p["below"] if p["below"] is not None else p["n"]
                    else:
                        want_above = p["above"] if p["above"] is not None else p["n0"] - p["k"] * math.exp(p["a"] * hi)
                        want_below = p["below"] if p["below"] is not None else p["n0"] - p["k"] * math.exp(p["a"] * lo)
                    if z > hi and not close(s, want_above, 4e-16, 0):
                        ctx.fail("index-above-declared:%s:%r" % (cls, float(z)), "%s.index(%r)=%r above the range, the declared index above is %r (%s)" % (cls, float(z), s, want_above, p),
                                 {"kind": "index_above", **tag, "z": float(z)})
                    if z < lo and not close(s, want_below, 4e-16, 0):
                        ctx.fail("index-below-declared:%s:%r" % (cls, float(z)), "%s.index(%r)=%r below the range, the declared index below is %r (%s)" % (cls, float(z), s, want_below, p),
                                 {"kind": "index_below", **tag, "z": float(z)})
                    if z > hi and s != float(obj.index_above):
                        ctx.fail("index-above:%s:%r" % (cls, float(z)), "%s.index(%r)=%r above the range is not index_above=%r" % (cls, float(z), s, obj.index_above),
                                 {"kind": "index_above", **tag, "z": float(z)})
                    if z < lo and s != float(obj.index_below):
                        ctx.fail("index-below:%s:%r" % (cls, float(z)), "%s.index(%r)=%r below the range is not index_below=%r" % (cls, float(z), s, obj.index_below),
                                 {"kind": "index_below", **tag, "z": float(z)})
                if cls != "UniformIce":
                    n0, k, a = p["n0"], p["k"], p["a"]
                    inside = [float(z) for z in zs if lo <= z <= hi]
                    # (2) increasing with depth
                    for z1, z2 in zip(inside[:-1], inside[1:]):
                        n1, n2 = float(obj.index(z1)), float(obj.index(z2))
                        slope_gap = k * a * math.exp(a * z1) * (z2 - z1)
                        if n2 > n1 or (slope_gap > 16 * math.ulp(n0) and not n2 < n1):
                            ctx.fail("index-monotone:%s:%r:%r" % (cls, z1, z2), "%s.index not increasing with depth: n(%r)=%r, n(%r)=%r" % (cls, z1, n1, z2, n2),
                                     {"kind": "index_monotone", **tag, "z1": z1, "z2": z2})
                    # (3) inverse
                    for z in inside:
                        n = float(obj.index(z))
                        if n0 - n < 8 * math.ulp(n0):
                            continue
                        zr = float(obj.depth_with_index(n))
                        tol = 16 * math.ulp(n0) / ((n0 - n) * a) + 1e-9 * max(1.0, abs(z))
                        if not abs(zr - z) <= tol:
                            ctx.fail("inverse:%s:%r" % (cls, z), "%s.depth_with_index(index(%r)) = %r (tolerance %.3g) (%s)" % (cls, z, zr, tol, p),
                                     {"kind": "inverse", **tag, "z": z})
                        za = obj.depth_with_index(np.array([n, n]))
                        if rx.ulp_diff(float(za[0]), zr) > 4:
                            ctx.fail("inverse-array:%s:%r" % (cls, z), "%s.depth_with_index array %r != scalar %r" % (cls, float(za[0]), zr),
                                     {"kind": "inverse_array", **tag, "z": z})
                    n_top, n_bot = float(obj.index(hi)), float(obj.index(lo))
                    for n, want in ((n_top - 0.01, hi), (0.5, hi), (n_bot + 0.01, lo), (n0 + 1, lo)):
                        if n_top - 0.01 >= n_bot:
                            continue
                        got = obj.depth_with_index(n)
                        if not (got == want):
                            ctx.fail("clamp:%s:%r" % (cls, n), "%s.depth_with_index(%r)=%r, expected the range edge %r" % (cls, n, got, want),
                                     {"kind": "clamp", **tag, "n": n})
                    # (4) gradient vs central difference (independent of the gradient formula)
                    for z in inside:
                        h = 1e-3
                        if not (lo + h <= z <= hi - h):
                            continue
                        g = obj.gradient(z)
                        fd = (float(obj.index(z + h)) - float(obj.index(z - h))) / (2 * h)
                        tol = k * a ** 3 * h * h + 8 * math.ulp(n0) / h + 1e-12
                        if g[0] != 0 or g[1] != 0 or abs(float(g[2]) - fd) > tol:
                            ctx.fail("gradient:%s:%r" % (cls, z), "%s.gradient(%r)=%r but central difference of index gives %r (tol %.3g)" % (cls, z, list(g), fd, tol),
                                     {"kind": "gradient", **tag, "z": z})
                # (5) attenuation: shapes, entries equal scalar evaluation, positive and finite -- for depth and
                # frequency arrays in ANY order (ascending, descending, shuffled, FFT order |fftfreq| straddling 1 GHz,
                # repeated entries, length 1): the array branches must be the entry-wise scalar function
                scal = {}

                def sc_at(z, f):
                    if (z, f) not in scal:
                        scal[(z, f)] = float(obj.attenuation_length(float(z), float(f)))
                    return scal[(z, f)]
                fft_f = np.abs(np.fft.fftfreq(8, 1.0 / 3.2e9))            # 0, .4, .8, 1.2, 1.6(nyq), 1.2, .8, .4 GHz
                fft_f[0] = 1.0
                orders = [(zs, fs, "ascending")]
                zperm = list(zs); rng.shuffle(zperm)
                fperm = list(fs); rng.shuffle(fperm)
                orders.append((np.array(zs[::-1]), np.array(fs[::-1]), "descending"))
                orders.append((np.array(zperm), np.array(fperm), "shuffled"))
                orders.append((np.array([zs[3], zs[3], zs[0]]), fft_f, "fft-order"))
                orders.append((np.array([zs[5 % len(zs)]]), np.array([fs[rng.randrange(len(fs))]]), "length-1"))
                for zz, ff, oname in orders:
                    m = np.asarray(obj.attenuation_length(zz, ff))
                    row = np.asarray(obj.attenuation_length(float(zz[-1]), ff))
                    col = np.asarray(obj.attenuation_length(zz, float(ff[-1])))
                    sc = obj.attenuation_length(float(zz[-1]), float(ff[-1]))
                    shapes_ok = m.shape == (len(zz), len(ff)) and row.shape == (len(ff),) and col.shape == (len(zz),) and np.ndim(sc) == 0
                    if not shapes_ok:
                        ctx.fail("atten-shape:%s:%s" % (cls, oname), "%s.attenuation_length shapes %s %s %s %s (%s arrays)" % (cls, m.shape, row.shape, col.shape, np.shape(sc), oname),
                                 {"kind": "atten_shape", **tag, "zs": [float(v) for v in zz], "fs": [float(v) for v in ff]})
                        continue
                    for i, z in enumerate(zz):
                        for j, f in enumerate(ff):
                            s = sc_at(float(z), float(f))
                            ctx.case(key=(cls, "atten", oname, float(z), float(f), json.dumps(p, sort_keys=True)))
                            okv = (close(s, float(m[i, j]), 1e-12, 0) and (i != len(zz) - 1 or close(s, float(row[j]), 1e-12, 0))
                                   and (j != len(ff) - 1 or close(s, float(col[i]), 1e-12, 0)))
                            if not okv:
                                ctx.fail("atten-entry:%s:%s:%r:%r" % (cls, oname, float(z), float(f)),
                                         "%s.attenuation_length(%s depth array, %s frequency array): entry [%d,%d] = %r (row %r, column %r) != scalar evaluation %r at z=%r f=%r" % (
                                             cls, oname, oname, i, j, float(m[i, j]), float(row[j]), float(col[i]), s, float(z), float(f)),
                                         {"kind": "atten_entry", **tag, "z": float(z), "f": float(f), "zs": [float(v) for v in zz], "fs": [float(v) for v in ff]})
                            if oname == "ascending" and not (s > 0 and math.isfinite(s)):
                                key = "atten-nonpositive:%s:%r:%r" % (cls, float(z), float(f))
                                if cls == "ArasimIce" and -float(z) > 3171.0 and s <= 0:
                                    key = "arasim-attenuation-nonpositive-below-3171m"
                                ctx.fail(key, "%s.attenuation_length(%r, %r) = %r is not positive and finite" % (cls, float(z), float(f), s),
                                         {"kind": "atten_positive", **tag, "z": float(z), "f": float(f)})
    # parameters re-assigned after construction: every method must follow the CURRENT public parameters
    # (what a freshly built model with those parameters reports)
    for cls in CLASSES:
        for _ in range(ctx.n(3, 20)):
            p0, p1 = rand_params(rng, cls, default=rng.random() < 0.5), rand_params(rng, cls)
            obj = build(cls, p0)
            z0 = 0.5 * (p0["lo"] + p0["hi"])
            with np.errstate(all="ignore"):
                obj.index(z0), obj.gradient(z0), obj.depth_with_index(1.5), obj.attenuation_length(z0, 3e8)   # first use
                changed = rng.sample(["n0", "k", "a", "valid_range", "index_above", "index_below"], rng.randint(1, 3))
                cur = dict(p0)
                for name in changed:
                    if name == "valid_range":
                        obj.valid_range = (p1["lo"], p1["hi"]); cur["lo"], cur["hi"] = p1["lo"], p1["hi"]
                    elif name == "index_above":
                        obj.index_above = p1["above"]; cur["above"] = p1["above"]
                    elif name == "index_below":
                        obj.index_below = p1["below"]; cur["below"] = p1["below"]
                    else:
                        setattr(obj, name, p1[name]); cur[name] = p1[name]
                if not cur["k"] < cur["n0"] - 1.0:
                    continue
                fresh = build(cls, cur)
                for z in [cur["lo"], cur["hi"], 0.5 * (cur["lo"] + cur["hi"]), cur["hi"] + 3.0, cur["lo"] - 3.0, rng.uniform(cur["lo"], cur["hi"])]:
                    ctx.case(key=(cls, "reassign", tuple(changed), float(z), json.dumps(cur, sort_keys=True)))
                    got = (float(obj.index(z)), [float(v) for v in obj.gradient(z)], float(obj.depth_with_index(float(fresh.index(z)))),
                           float(obj.attenuation_length(z, 3e8)))
                    want = (float(fresh.index(z)), [float(v) for v in fresh.gradient(z)], float(fresh.depth_with_index(float(fresh.index(z)))),
                            float(fresh.attenuation_length(z, 3e8)))
                    if not (close(got[0], want[0], 1e-13, 0) and close(got[1], want[1], 1e-13, 1e-300) and
                            (close(got[2], want[2], 1e-12, 1e-12)) and close(got[3], want[3], 1e-12, 0)):
                        ctx.fail("reassign:%s:%s:%r" % (cls, ",".join(changed), float(z)),
                                 "%s after assigning %s: (index, gradient, depth_with_index, attenuation) at z=%r is %r, a freshly built model with the same parameters gives %r" % (
                                     cls, changed, float(z), got, want),
                                 {"kind": "reassign", "class": cls, "params": cur, "initial": p0, "changed": changed, "z": float(z)})
    # the documented AraSim extrapolation defect, probed at a fixed point so the finding is always evaluated
    ar = im.ArasimIce()
    v = float(ar.attenuation_length(-3300.0, 3e8))
    if not v > 0:
        ctx.fail("arasim-attenuation-nonpositive-below-3171m", "ArasimIce.attenuation_length(-3300 m, 300 MHz) = %r <= 0 (linear extrapolation of the table below about -3171 m)" % v,
                 {"kind": "atten_positive", "class": "ArasimIce", "params": rand_params(ctx.rng, "ArasimIce", default=True), "z": -3300.0, "f": 3e8})


# ---------------------------------------------------------------------------- entry points
def run(ctx):
    ctx.rule = ("formula correspondence: (class, parameters, depth, frequency) tuples, depths include both bounds exactly, +-1 ulp, above and below the range; "
                "non-trivial = distinct tuples; layered: (stack, depth) incl. every boundary +-1 ulp; probes judge the property itself on the implementation")
    ctx.trusted += ["Coq 8.16.1 kernel; Coquelicot (is_derive)", "tools/py2coq.py + tools/gen_ice.py (translator, scalar branch of the array/scalar dispatch idiom)",
                    "harness/realextract.py extraction directives (R -> OCaml float) for the correspondence only",
                    "Model/LayeredIceModel.v is hand-written: pinned by AST hash, validated by correspondence"]
    ctx.assumptions += ["theorems are over the real numbers; binary64 rounding is covered by the numeric correspondence and probes only",
                        "array / matrix branches of the NumPy dispatch are not translated: checked entry-by-entry against the scalar evaluation on the implementation",
                        "ArasimIce attenuation is proved positive on the tabulated span only (partial)"]
    ctx.partial += ["arasim_attenuation_bounds_partial"]
    try:
        files, hashes = gen_files(ctx.scratch)
        for k, v in files.items():
            ctx.write_gen(k, v)
        ctx.oblige("gen:Gen_ice", True)
        ctx.extra["translated_functions"] = hashes
    except Exception as e:
        ctx.oblige("gen:Gen_ice", False, "translation failed (fail-closed): %s" % e)
        probes(ctx)
        return
    ok = ctx.coq_build("C16")
    try:
        corr_formulas(ctx)
    except Exception as e:
        ctx.oblige("corr:formulas", False, repr(e)[-1500:])
        ok = False
    try:
        corr_layered(ctx)
    except Exception as e:
        ctx.oblige("corr:layered", False, repr(e)[-1500:])
        ok = False
    if ctx.thorough or not ok or ctx.broken or True:
        probes(ctx)


def replay(ctx, obj):
    import pyrex.ice_model as im
    print(json.dumps(obj, indent=1, default=str))
    k = obj.get("kind")
    if "class" in obj and obj["class"] in CLASSES:
        o = build(obj["class"], obj["params"])
        if "z" in obj:
            z = obj["z"]
            print("index(z) =", o.index(z), " index([z]) =", o.index(np.array([z])), " depth_with_index(index(z)) =", o.depth_with_index(o.index(z)),
                  " gradient =", o.gradient(z))
            if "f" in obj:
                print("attenuation_length =", o.attenuation_length(z, obj["f"]))
            if "zs" in obj and "fs" in obj:
                zz, ff = np.array(obj["zs"]), np.array(obj["fs"])
                m = np.asarray(o.attenuation_length(zz, ff))
                print("matrix attenuation_length(zs, fs) =", m.tolist())
                print("entry-wise scalar evaluation     =", [[float(o.attenuation_length(float(a), float(b))) for b in ff] for a in zz])
    return 1
