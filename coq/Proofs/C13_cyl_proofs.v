(* C13, CylindricalGenerator.get_exit_points (parametric form): for every vertex of the closed
   cylinder and every non-zero direction the routine returns two points on the boundary, on the
   line of flight, the entry behind and the exit ahead of the vertex. *)
From Coq Require Import Reals List Bool ZArith Lra Lia Psatz.
From PyrexLib Require Import RealPrims.
From PyrexModel Require Import GeneratorModel.
From PyrexProofs Require Import C13_proofs.
Import ListNotations.
Open Scope R_scope.

Definition cyl_closed (dr dz : R) (p : vec3) : Prop :=
  vx p ^ 2 + vy p ^ 2 <= dr ^ 2 /\ - dz <= vz p <= 0.
Definition cyl_strictly_inside (dr dz : R) (p : vec3) : Prop :=
  vx p ^ 2 + vy p ^ 2 < dr ^ 2 /\ - dz < vz p < 0.
Definition cyl_on_boundary (dr dz : R) (p : vec3) : Prop :=
  cyl_closed dr dz p /\ (vx p ^ 2 + vy p ^ 2 = dr ^ 2 \/ vz p = 0 \/ vz p = - dz).

(* a pair of candidates for one constraint F (inside the infinite cylinder / between the planes)
   with boundary G: the line is inside exactly between the two parameters, which bracket 0 *)
Definition good_crossing (v d : vec3) (F G : vec3 -> Prop) (e x : cand) : Prop :=
  fst e <= 0 <= fst x /\ snd e = line_point v d (fst e) /\ snd x = line_point v d (fst x) /\
  (forall t, fst e <= t <= fst x -> F (line_point v d t)) /\ G (snd e) /\ G (snd x).

Definition in_radius (dr : R) (p : vec3) : Prop := vx p ^ 2 + vy p ^ 2 <= dr ^ 2.
Definition on_radius (dr : R) (p : vec3) : Prop := vx p ^ 2 + vy p ^ 2 = dr ^ 2.
Definition in_height (dz : R) (p : vec3) : Prop := - dz <= vz p <= 0.
Definition on_cap (dz : R) (p : vec3) : Prop := vz p = 0 \/ vz p = - dz.

Lemma vx_mk (x y z : R) : vx (x, y, z) = x. Proof. reflexivity. Qed.
Lemma vy_mk (x y z : R) : vy (x, y, z) = y. Proof. reflexivity. Qed.
Lemma vz_mk (x y z : R) : vz (x, y, z) = z. Proof. reflexivity. Qed.
Lemma vx_lp v d t : vx (line_point v d t) = vx v + vx d * t. Proof. reflexivity. Qed.
Lemma vy_lp v d t : vy (line_point v d t) = vy v + vy d * t. Proof. reflexivity. Qed.
Lemma vz_lp v d t : vz (line_point v d t) = vz v + vz d * t. Proof. reflexivity. Qed.

(* ---------------------------------------------------------------- side wall *)
Lemma cyl_side_spec dr v d :
  in_radius dr v ->
  (vx d = 0 /\ vy d = 0 /\ cyl_side dr v d = CNone /\ forall t, in_radius dr (line_point v d t)) \/
  (exists e x, cyl_side dr v d = CPair e x /\ good_crossing v d (in_radius dr) (on_radius dr) e x).
Proof.
  intro Hin. unfold in_radius in Hin. unfold cyl_side.
  set (h := sqrt (vx d ^ 2 + vy d ^ 2)). set (c := vx v ^ 2 + vy v ^ 2 - dr ^ 2).
  assert (Hc : c <= 0) by (unfold c; lra).
  assert (Hh2 : h * h = vx d ^ 2 + vy d ^ 2) by (apply sqrt_sqrt; nra).
  assert (Hh0 : 0 <= h) by apply sqrt_pos.
  destruct (Reqb h 0) eqn:E; cbn [negb].
  - apply Reqb_true in E. left.
    assert (vx d = 0) by nra. assert (vy d = 0) by nra.
    split; [assumption|]. split; [assumption|].
    replace (Rgtb c 0) with false by (symmetry; apply Rgtb_false; assumption).
    split; [reflexivity|]. intro t. unfold in_radius. rewrite vx_lp, vy_lp, H, H0. nra.
  - right. assert (Hh : 0 < h).
    { destruct (Req_dec h 0) as [Z|NZ]; [|lra]. exfalso.
      assert (Reqb h 0 = true) by (apply Reqb_true; assumption). congruence. }
    set (ux := vx d / h). set (uy := vy d / h). set (b := vx v * ux + vy v * uy).
    assert (Hu : ux * ux + uy * uy = 1).
    { unfold ux, uy. replace (vx d / h * (vx d / h) + vy d / h * (vy d / h)) with ((vx d ^ 2 + vy d ^ 2) / (h * h)) by (field; lra).
      rewrite <- Hh2. field. lra. }
    assert (Hdx : vx d = ux * h) by (unfold ux; field; lra).
    assert (Hdy : vy d = uy * h) by (unfold uy; field; lra).
    assert (Hdisc : 0 <= b ^ 2 - c) by nra.
    replace (Rltb (b ^ 2) c) with false by (symmetry; apply Rltb_false; lra).
    set (q := sqrt (b ^ 2 - c)).
    assert (Hq : q * q = b ^ 2 - c) by (apply sqrt_sqrt; assumption).
    assert (Hq0 : 0 <= q) by apply sqrt_pos.
    assert (Hqb : Rabs b <= q).
    { unfold Rabs. destruct (Rcase_abs b); nra. }
    assert (Hqb1 : b <= q /\ - b <= q) by (unfold Rabs in Hqb; destruct (Rcase_abs b); lra).
    eexists. eexists. split; [reflexivity|]. unfold good_crossing. cbn [fst snd].
    assert (R0 : forall s, (vx v + s * ux) ^ 2 + (vy v + s * uy) ^ 2 - dr ^ 2 = s * s + 2 * b * s + c).
    { intro s. unfold b, c. replace (s * s) with (s * s * (ux * ux + uy * uy)) by (rewrite Hu; ring). ring. }
    assert (Hinv : / h > 0) by (apply Rinv_0_lt_compat; assumption).
    split; [|split; [|split; [|split; [|split]]]].
    + split.
      * apply Rmult_le_reg_r with h; [assumption|]. replace ((- b - q) / h * h) with (- b - q) by (field; lra). lra.
      * apply Rmult_le_reg_r with h; [assumption|]. replace ((- b + q) / h * h) with (- b + q) by (field; lra). lra.
    + unfold line_point. rewrite Hdx, Hdy. f_equal; [f_equal|]; field; lra.
    + unfold line_point. rewrite Hdx, Hdy. f_equal; [f_equal|]; field; lra.
    + intros t Ht. unfold in_radius. rewrite vx_lp, vy_lp, Hdx, Hdy.
      replace (vx v + ux * h * t) with (vx v + (t * h) * ux) by ring.
      replace (vy v + uy * h * t) with (vy v + (t * h) * uy) by ring.
      pose proof (R0 (t * h)) as Q.
      assert (A1 : - b - q <= t * h).
      { destruct Ht as [A _]. apply (Rmult_le_compat_r h) in A; [|lra].
        replace ((- b - q) / h * h) with (- b - q) in A by (field; lra). assumption. }
      assert (A2 : t * h <= - b + q).
      { destruct Ht as [_ A]. apply (Rmult_le_compat_r h) in A; [|lra].
        replace ((- b + q) / h * h) with (- b + q) in A by (field; lra). assumption. }
      assert (0 <= (t * h - (- b - q)) * ((- b + q) - t * h)) by (apply Rmult_le_pos; lra).
      nra.
    + unfold on_radius. rewrite vx_mk, vy_mk. pose proof (R0 (- b - q)) as Q. nra.
    + unfold on_radius. rewrite vx_mk, vy_mk. pose proof (R0 (- b + q)) as Q. nra.
Qed.

(* ---------------------------------------------------------------- top and bottom *)
Lemma cap_cand_line v d z : vz d <> 0 ->
  snd (cap_cand v d z) = line_point v d (fst (cap_cand v d z)) /\ vz (snd (cap_cand v d z)) = z /\
  fst (cap_cand v d z) * vz d = z - vz v.
Proof.
  intro H. unfold cap_cand, line_point. cbn [fst snd]. split; [|split].
  - f_equal; [f_equal|]; field; assumption.
  - reflexivity.
  - field. assumption.
Qed.

Lemma cyl_caps_spec dz v d :
  in_height dz v ->
  (vz d = 0 /\ cyl_caps dz v d = CNone /\ forall t, in_height dz (line_point v d t)) \/
  (exists e x, cyl_caps dz v d = CPair e x /\ good_crossing v d (in_height dz) (on_cap dz) e x).
Proof.
  intro Hin. unfold in_height in Hin. unfold cyl_caps.
  destruct (Reqb (vz d) 0) eqn:E; cbn [negb].
  - apply Reqb_true in E. left. split; [assumption|].
    replace (Rgtb (vz v) 0) with false by (symmetry; apply Rgtb_false; lra).
    replace (Rltb (vz v) (- dz)) with false by (symmetry; apply Rltb_false; lra).
    split; [reflexivity|]. intro t. unfold in_height. rewrite vz_lp, E. lra.
  - right. assert (Hd : vz d <> 0) by (intro Z; apply Reqb_true in Z; congruence).
    eexists. eexists. split; [reflexivity|].
    set (ze := if Rltb (vz d) 0 then 0 else - dz). set (zx := if Rltb (vz d) 0 then - dz else 0).
    destruct (cap_cand_line v d ze Hd) as (Le & Ze & Pe). destruct (cap_cand_line v d zx Hd) as (Lx & Zx & Px).
    unfold good_crossing. set (te := fst (cap_cand v d ze)) in *. set (tx := fst (cap_cand v d zx)) in *.
    assert (Hsign : (vz d < 0 /\ ze = 0 /\ zx = - dz) \/ (0 < vz d /\ ze = - dz /\ zx = 0)).
    { unfold ze, zx. destruct (Rltb (vz d) 0) eqn:S; [apply Rltb_true in S; left|apply Rltb_false in S; right]; repeat split; lra. }
    split; [|split; [assumption|split; [assumption|split; [|split]]]].
    + destruct Hsign as [(S & A & B)|(S & A & B)]; rewrite A in Pe; rewrite B in Px; split; nra.
    + intros t Ht. unfold in_height. rewrite vz_lp.
      destruct Hsign as [(S & A & B)|(S & A & B)]; rewrite A in Pe; rewrite B in Px; split; nra.
    + unfold on_cap. rewrite Ze. destruct Hsign as [(_ & A & _)|(_ & A & _)]; rewrite A; [left|right]; reflexivity.
    + unfold on_cap. rewrite Zx. destruct Hsign as [(_ & _ & B)|(_ & _ & B)]; rewrite B; [right|left]; reflexivity.
Qed.

(* ---------------------------------------------------------------- the whole routine *)
Definition cyl_result (dr dz : R) (v d en ex : vec3) : Prop :=
  exists s t, s <= 0 <= t /\ en = line_point v d s /\ ex = line_point v d t /\
              cyl_on_boundary dr dz en /\ cyl_on_boundary dr dz ex.

Lemma closed_split dr dz p : cyl_closed dr dz p <-> in_radius dr p /\ in_height dz p.
Proof. unfold cyl_closed, in_radius, in_height. tauto. Qed.

Lemma pick_ok e x : fst e <= 0 <= fst x -> cyl_pick e x = Some (snd e, snd x).
Proof.
  intros [A B]. unfold cyl_pick.
  replace (Rleb (fst e) 0) with true by (symmetry; apply Rleb_true; assumption).
  replace (Rleb 0 (fst x)) with true by (symmetry; apply Rleb_true; assumption). reflexivity.
Qed.

Lemma exit_points_cyl_closed_lemma dr dz v d :
  cyl_closed dr dz v -> (vx d <> 0 \/ vy d <> 0 \/ vz d <> 0) ->
  exists en ex, cyl_exit_points dr dz v d = Some (en, ex) /\ cyl_result dr dz v d en ex.
Proof.
  intros Hc Hd. apply closed_split in Hc. destruct Hc as [Hr Hh].
  unfold cyl_exit_points.
  destruct (cyl_side_spec dr v d Hr) as [(X0 & Y0 & -> & Fr)|(e & x & -> & (B1 & Le & Lx & Fr & Ge & Gx))];
  destruct (cyl_caps_spec dz v d Hh) as [(Z0 & -> & Fh)|(e' & x' & -> & (B2 & Le' & Lx' & Fh & Ge' & Gx'))].
  - exfalso. tauto.
  - rewrite pick_ok by assumption. exists (snd e'), (snd x'). split; [reflexivity|].
    exists (fst e'), (fst x'). split; [assumption|]. split; [assumption|]. split; [assumption|].
    split; (split; [apply closed_split; split|]).
    + rewrite Le'. apply Fr.
    + rewrite Le'. apply Fh. lra.
    + destruct Ge' as [A|A]; [right; left|right; right]; assumption.
    + rewrite Lx'. apply Fr.
    + rewrite Lx'. apply Fh. lra.
    + destruct Gx' as [A|A]; [right; left|right; right]; assumption.
  - rewrite pick_ok by assumption. exists (snd e), (snd x). split; [reflexivity|].
    exists (fst e), (fst x). split; [assumption|]. split; [assumption|]. split; [assumption|].
    split; (split; [apply closed_split; split|]).
    + rewrite Le. apply Fr. lra.
    + rewrite Le. apply Fh.
    + left. assumption.
    + rewrite Lx. apply Fr. lra.
    + rewrite Lx. apply Fh.
    + left. assumption.
  - (* both: the later entrance and the earlier exit *)
    assert (Pe : fst (later e e') <= 0 /\ fst e <= fst (later e e') /\ fst e' <= fst (later e e') /\
                 (later e e' = e \/ later e e' = e')).
    { unfold later. destruct (Rltb (fst e) (fst e')) eqn:C; [apply Rltb_true in C|apply Rltb_false in C];
        repeat split; try lra; auto. }
    assert (Px : 0 <= fst (earlier x x') /\ fst (earlier x x') <= fst x /\ fst (earlier x x') <= fst x' /\
                 (earlier x x' = x \/ earlier x x' = x')).
    { unfold earlier. destruct (Rltb (fst x') (fst x)) eqn:C; [apply Rltb_true in C|apply Rltb_false in C];
        repeat split; try lra; auto. }
    destruct Pe as (E0 & E1 & E2 & Esel). destruct Px as (X0 & X1 & X2 & Xsel).
    rewrite pick_ok by lra.
    exists (snd (later e e')), (snd (earlier x x')). split; [reflexivity|].
    exists (fst (later e e')), (fst (earlier x x')). split; [lra|].
    assert (LE : snd (later e e') = line_point v d (fst (later e e'))) by (destruct Esel as [->| ->]; assumption).
    assert (LX : snd (earlier x x') = line_point v d (fst (earlier x x'))) by (destruct Xsel as [->| ->]; assumption).
    split; [assumption|]. split; [assumption|].
    split; (split; [apply closed_split; split|]).
    + rewrite LE. apply Fr. lra.
    + rewrite LE. apply Fh. lra.
    + destruct Esel as [->| ->]; [left; assumption|destruct Ge' as [A|A]; [right; left|right; right]; assumption].
    + rewrite LX. apply Fr. lra.
    + rewrite LX. apply Fh. lra.
    + destruct Xsel as [->| ->]; [left; assumption|destruct Gx' as [A|A]; [right; left|right; right]; assumption].
Qed.

(* for a vertex strictly inside the vertex lies strictly between the two points *)
Lemma exit_points_cyl_strict_lemma dr dz v d en ex :
  cyl_strictly_inside dr dz v -> cyl_result dr dz v d en ex ->
  exists s t, s < 0 < t /\ en = line_point v d s /\ ex = line_point v d t /\
              cyl_on_boundary dr dz en /\ cyl_on_boundary dr dz ex.
Proof.
  intros (Hr & Hz) (s & t & Hst & -> & -> & Be & Bx). exists s, t.
  assert (Hv : line_point v d 0 = v) by (destruct v as [[a b] c]; unfold line_point, vx, vy, vz; simpl; f_equal; [f_equal|]; ring).
  assert (s <> 0).
  { intro Z. subst s. rewrite Hv in Be. destruct Be as (_ & [A|[A|A]]); lra. }
  assert (t <> 0).
  { intro Z. subst t. rewrite Hv in Bx. destruct Bx as (_ & [A|[A|A]]); lra. }
  repeat split; try assumption; try lra; try reflexivity; try (apply Be); try (apply Bx).
Qed.

Example cyl_example :
  cyl_closed 2 2 (2, 0, 0) /\ cyl_strictly_inside 2 2 (0, 0, -1).
Proof. unfold cyl_closed, cyl_strictly_inside, vx, vy, vz; simpl. repeat split; lra. Qed.
