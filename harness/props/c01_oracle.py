"""Independent oracle for C01: quadrature of the ray equation in exponential-profile ice.

A ray with Snell invariant beta = n(z) sin(theta) in ice with n(z) = n0 - k exp(a z) obeys
    dr/dz = tan(theta) = beta / sqrt(n^2 - beta^2),   ds/dz = n / sqrt(n^2 - beta^2),
    dt/dz = n^2 / (c sqrt(n^2 - beta^2)).
Nothing here uses the closed forms of pyrex/ray_tracing.py.  The integrands are singular (or
nearly so) at the turning depth z_t where n(z_t) = beta; the substitution u = sqrt(z_t - z),
with n - beta = k exp(a z_t) (1 - exp(-a u^2)) evaluated by expm1, makes them analytic in u,
so fixed Gauss-Legendre panels converge to rounding level.  z_t = ln((n0 - beta)/k)/a exists for
every beta < n0 (it may lie above the ice; the change of variable is still valid).
"""
import math

import numpy as np

C_LIGHT = 299792458.0
_GL_X, _GL_W = np.polynomial.legendre.leggauss(48)


def _gl(f, a, b, panels):
    """Composite Gauss-Legendre of a vectorised function f on [a, b]."""
    if a == b:
        return np.zeros(3)
    edges = np.linspace(a, b, panels + 1)
    tot = np.zeros(3)
    for lo, hi in zip(edges[:-1], edges[1:]):
        x = 0.5 * (hi - lo) * _GL_X + 0.5 * (hi + lo)
        tot = tot + 0.5 * (hi - lo) * (f(x) * _GL_W).sum(axis=1)
    return tot


def turning_depth(n0, k, a, beta):
    return math.log((n0 - beta) / k) / a


def segment(n0, k, a, beta, z_lo, z_hi, n_override=None, panels=12):
    """(R, L, c*T... no: T in seconds) of the ray between depths z_lo <= z_hi (monotone piece).
    n_override: constant index to use instead of the profile (uniform-ice model below z_uniform).
    Returns np.array([R, L, T])."""
    if z_hi < z_lo:
        raise ValueError("segment expects z_lo <= z_hi")
    if z_hi == z_lo:
        return np.zeros(3)
    if n_override is not None:
        n = n_override
        g = math.sqrt(n * n - beta * beta)
        h = z_hi - z_lo
        # time of flight of the uniform model keeps n(z) in one factor (n0 n(z) / (c sqrt)); callers
        # that want the pure uniform medium pass the result through their own formula.
        return np.array([beta / g * h, n / g * h, n * n / (C_LIGHT * g) * h])
    if beta <= 1e-9:
        # (numerically) vertical: R = beta int dz / n + O(beta^3), L = h + O(beta^2 h) < 1e-18 h, T = int n dz / c
        # vertical ray: R = 0, L = h, T = int n dz / c  (closed form of an elementary integral)
        h = z_hi - z_lo
        t = _gl(lambda z: np.vstack([max(beta, 0.0) / (n0 - k * np.exp(a * z)), np.ones_like(z), (n0 - k * np.exp(a * z)) / C_LIGHT]), z_lo, z_hi, panels)
        return np.array([t[0], h, t[2]])
    zt = turning_depth(n0, k, a, beta)
    if z_hi > zt * (1 + 1e-15 * np.sign(zt)) + 1e-9:
        raise ValueError("segment reaches above the turning depth: z_hi=%r z_t=%r" % (z_hi, zt))
    u_lo = math.sqrt(max(zt - z_lo, 0.0))
    u_hi = math.sqrt(max(zt - z_hi, 0.0))
    ket = k * math.exp(a * zt)          # = n0 - beta

    def f(u):
        d = ket * (-np.expm1(-a * u * u))     # n - beta >= 0, accurate for small u
        n = beta + d
        gam = d * (n + beta)                  # n^2 - beta^2
        with np.errstate(divide="ignore", invalid="ignore"):
            w = 2.0 * u / np.sqrt(gam)         # dz = -2u du ; limit at u -> 0 is finite
        lim = 2.0 / math.sqrt(2.0 * beta * ket * a)
        w = np.where(u * u * a < 1e-30, lim, w)
        return np.vstack([beta * w, n * w, n * n * w / C_LIGHT])
    # integrate in u from u_hi (upper depth) to u_lo (lower depth): positive orientation
    return _gl(f, u_hi, u_lo, panels)


def trace(n0, k, a, z_from, z_to, theta_emit, direct, top, n_index=None):
    """Follow the ray launched at depth z_from with polar angle theta_emit (0 = straight up)
    until it reaches depth z_to.  direct: the claimed kind of the solution.
    top: upper edge of the ice (reflection there).  Returns dict with R, L, T, kind, beta, theta_arrive,
    or raises ValueError when such a ray never reaches z_to."""
    n_from = n0 - k * math.exp(a * z_from)
    beta = n_from * math.sin(theta_emit)
    # a launch that is horizontal to rounding (the limiting direct ray at max_angle, emitted at its own
    # turning depth) is bent downwards by the index gradient
    up = math.cos(theta_emit) > 1e-9
    if not (0 <= beta < n0):
        raise ValueError("beta=%r outside [0, n0)" % beta)
    zt = turning_depth(n0, k, a, beta) if beta > 0 else float("inf")
    z_turn = min(zt, top)
    out = {"beta": beta, "z_turn": z_turn, "reflects": zt > top}
    if up and z_to >= z_from:
        if z_to > z_turn + 1e-9:
            raise ValueError("ray turns at %r below the receiver depth %r" % (z_turn, z_to))
        direct_part = segment(n0, k, a, beta, z_from, min(z_to, z_turn))
        if direct:
            out.update(kind="direct", vals=direct_part)
        else:
            out.update(kind="turned", vals=segment(n0, k, a, beta, z_from, z_turn) + segment(n0, k, a, beta, min(z_to, z_turn), z_turn))
    elif up and z_to < z_from:
        # must go up, turn/reflect, come down past z_from to z_to
        if direct:
            raise ValueError("an upward ray cannot reach a lower receiver without turning")
        out.update(kind="turned", vals=segment(n0, k, a, beta, z_from, z_turn) + segment(n0, k, a, beta, z_to, z_turn))
    elif (not up) and z_to <= z_from:
        if not direct:
            raise ValueError("a downward ray never turns back up in ice whose index grows with depth")
        out.update(kind="direct", vals=segment(n0, k, a, beta, z_to, z_from))
    else:
        raise ValueError("a downward ray cannot reach a higher receiver")
    n_to = n0 - k * math.exp(a * z_to)
    s = beta / n_to
    out["sin_theta_arrive"] = s
    return out


def model_split(n0, k, a, beta, z_a, z_b, z_uniform):
    """The tracer's documented model (uniform index n0 below z_uniform) versus the true profile on
    the monotone piece [z_a, z_b]: returns (true, model) arrays [R, L, T].  Used only to size the
    tolerance that the documented uniform-ice approximation is allowed to consume."""
    lo, hi = min(z_a, z_b), max(z_a, z_b)
    true = segment(n0, k, a, beta, lo, hi)
    if lo >= z_uniform:
        return true, true.copy()
    cut = min(hi, z_uniform)
    g = math.sqrt(n0 * n0 - beta * beta)
    h = cut - lo
    # deep model: tan = beta/g, sec = n0/g, slowness = n0 n(z) / (c g)
    int_n = n0 * h - k / a * (math.exp(a * cut) - math.exp(a * lo))
    deep = np.array([beta / g * h, n0 / g * h, n0 * int_n / (C_LIGHT * g)])
    shallow = segment(n0, k, a, beta, cut, hi) if hi > cut else np.zeros(3)
    return true, deep + shallow
