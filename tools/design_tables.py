#!/usr/bin/env python3
"""Regenerate the AUTO part of DESIGN.md section 9 from known_findings/, seeded/ and /repo."""
import json, glob, os, subprocess, re
ROOT = os.path.dirname(os.path.dirname(os.path.abspath(__file__)))
def cell(x, n=400):
    return str(x).replace("|", "/").replace("\n", " ")[:n]
out = []
out.append("### 9.2 Genuine defects repaired (`fix:` commits in /repo; the unedited suite passes after each: 1353 tests)\n")
out.append("| property | commit | what failed |\n|---|---|---|")
opened = []
for f in sorted(glob.glob(os.path.join(ROOT, "known_findings", "*.json"))):
    for e in json.load(open(f)):
        if e["status"] == "fixed":
            what = re.sub(r"^fixed: property=\S+ \S+ ", "", e.get("what", ""))
            out.append("| %s | %s | %s |" % (e["property"], e.get("commit", ""), cell(what, 600)))
        else:
            opened.append(e)
out.append("\n### 9.3 Known findings kept open (each is printed as KNOWN-FINDING only for its exact key)\n")
out.append("| property | key | what |\n|---|---|---|")
for e in opened:
    out.append("| %s | `%s` | %s |" % (e["property"], cell(e["key"], 120), cell(e.get("what", ""), 700)))
out.append("\n### 9.4 Seeded changes and which check catches them\n")
out.append("Fresh sub-agents were given only a property record and a scratch worktree; each change was re-confirmed independently "
           "(`tools/seed.py confirm`: suite passes with the patch, demonstration fails with it and passes without) and kept under "
           "`seeded/<ID>_<mN>/`; `tools/seed.py detect` applies it to /repo, runs the registered quick check(s) and undoes it "
           "(`seeded/*/detect.json`).\n")
out.append(subprocess.run(["python3", os.path.join(ROOT, "tools", "seed_table.py")], stdout=subprocess.PIPE, text=True).stdout)
out.append("\n### 9.4a Harmless changes (`benign/`, `tools/benign.py`): what the owning check says\n")
out.append("`quiet` = exit 0; `no-witness` = an obligation broke (named in the replay file), the failing-input search found nothing: "
           "`VIOLATION ... no-failing-input-found`; `witness` would be a false alarm with a claimed failing input (none).\n")
out.append("| change | kind | what was changed | result | broken obligations |\n|---|---|---|---|---|")
for dd in sorted(glob.glob(os.path.join(ROOT, "benign", "C*_b*"))):
    name = os.path.basename(dd)
    meta = json.load(open(os.path.join(dd, "meta.json")))
    dj = os.path.join(dd, "detect.json")
    res, br = "not run", ""
    if os.path.exists(dj):
        v = json.load(open(dj)).get(name.split("_")[0], {})
        res = "witness (FALSE ALARM)" if v.get("witness") else ("no-witness" if v.get("detected") else "quiet")
        m = re.search(r"(\d+)/(\d+) obligations", v.get("summary", ""))
        if m and m.group(1) != m.group(2):
            br = "%s of %s hold" % (m.group(1), m.group(2))
    out.append("| %s | %s | %s | %s | %s |" % (name, meta.get("kind", ""), cell(meta.get("what", ""), 260), res, br))
out.append("\n### 9.4b Axioms each property's theorems depend on (union of `Print Assumptions` over its Props file, from the last evidence)\n")
out.append("| property | theorems | axioms |\n|---|---|---|")
for f in sorted(glob.glob(os.path.join(ROOT, "evidence", "C*.json"))):
    ev = json.load(open(f))
    ax, n = set(), 0
    for line in ev["coverage"].get("trusted_base", []):
        m = re.match(r"Print Assumptions (\S+): (.*)", line)
        if m:
            n += 1
            if not m.group(2).startswith("closed under"):
                ax |= {a.strip() for a in m.group(2).split(",")}
    out.append("| %s | %d | %s |" % (ev["property_id"], n, ", ".join(sorted(a.split(".")[-1] for a in ax)) or "none (closed under the global context)"))
out.append("\n### 9.4c What each check consists of (details in `design_notes/<ID>.md`)\n")
out.append("| id | theorems in Props | `_partial` | `_refuted` | generated (translator) inputs | deciding method |\n|---|---|---|---|---|---|")
for f in sorted(glob.glob(os.path.join(ROOT, "harness", "meta", "C*.json"))):
    m = json.load(open(f)); pid = m["property_id"]
    props = open(os.path.join(ROOT, "coq", "Props", pid + ".v")).read()
    nthm = len(re.findall(r"^\s*Theorem\s", props, re.M))
    partial = re.findall(r"Theorem\s+(\w*partial\w*)", props)
    refuted = re.findall(r"Theorem\s+(\w*refuted\w*)", props)
    srcs = props + "".join(open(p).read() for p in glob.glob(os.path.join(ROOT, "coq", "Proofs", pid + "*.v")))
    gens = sorted({g for grp in re.findall(r"From PyrexGen Require Import ([^.]*)\.", srcs) for g in grp.split()})
    out.append("| %s | %d | %s | %s | %s | %s |" % (pid, nthm, ", ".join(partial) or "—", ", ".join(refuted) or "—",
               " ".join(gens) or "— (hand model + correspondence)", cell(m["technique"], 160)))
text = "\n".join(out)
d = open(os.path.join(ROOT, "DESIGN.md")).read()
b, e = "<!-- AUTO:BEGIN -->", "<!-- AUTO:END -->"
if b in d:
    d = d[:d.index(b) + len(b)] + "\n" + text + "\n" + d[d.index(e):]
else:
    i = d.index("### 9.2 Genuine defects repaired so far")
    d = d[:i] + b + "\n" + text + "\n" + e + "\n"
open(os.path.join(ROOT, "DESIGN.md"), "w").write(d)
print("DESIGN.md tables regenerated (%d fixed, %d open)" % (text.count("\n| C") - len(opened), len(opened)))
