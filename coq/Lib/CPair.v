(* Complex numbers as pairs of reals, as the generated files (Gen_antenna.v, Gen_prop.v) use
   them: arithmetic, modulus, principal square root (numpy.sqrt on complex), polynomial
   evaluation (numpy.polyval / scipy.signal.freqs). *)
From Coq Require Import Reals List Bool Lra Psatz.
From PyrexLib Require Import RealPrims.
Import ListNotations.
Open Scope R_scope.

Definition Cx : Type := (R * R)%type.
Definition cre (z : Cx) : R := fst z.
Definition cim (z : Cx) : R := snd z.
Definition cofR (x : R) : Cx := (x, 0).
Definition cadd (a b : Cx) : Cx := (cre a + cre b, cim a + cim b).
Definition csub (a b : Cx) : Cx := (cre a - cre b, cim a - cim b).
Definition cmul (a b : Cx) : Cx := (cre a * cre b - cim a * cim b, cre a * cim b + cim a * cre b).
Definition cneg (a : Cx) : Cx := (- cre a, - cim a).
Definition cscale (s : R) (a : Cx) : Cx := (s * cre a, s * cim a).
Definition cconj (a : Cx) : Cx := (cre a, - cim a).
Definition cabs2 (a : Cx) : R := cre a * cre a + cim a * cim a.
Definition cabs (a : Cx) : R := sqrt (cabs2 a).
Definition cdiv (a b : Cx) : Cx :=
  ((cre a * cre b + cim a * cim b) / cabs2 b, (cim a * cre b - cre a * cim b) / cabs2 b).

(* principal square root: non-negative real part, sign of the imaginary part follows the
   argument's (numpy: sqrt(-x+0j) = +i sqrt x) *)
Definition csqrt (a : Cx) : Cx :=
  let m := cabs a in
  (sqrt ((m + cre a) / 2), (if Rltb (cim a) 0 then -1 else 1) * sqrt ((m - cre a) / 2)).

(* numpy.polyval(p, z): Horner, highest power first *)
Definition cpolyval (p : list R) (z : Cx) : Cx :=
  fold_left (fun acc c => cadd (cmul acc z) (cofR c)) p (0, 0).

Lemma cabs2_nonneg a : 0 <= cabs2 a.
Proof. unfold cabs2. nra. Qed.

Lemma cabs2_mul a b : cabs2 (cmul a b) = cabs2 a * cabs2 b.
Proof. unfold cabs2, cmul, cre, cim; simpl; ring. Qed.

Lemma cabs2_div a b : cabs2 b <> 0 -> cabs2 (cdiv a b) = cabs2 a / cabs2 b.
Proof. intros H. unfold cdiv, cre, cim; simpl. unfold cabs2 at 1, cre, cim; simpl.
  unfold cabs2, cre, cim in *. field. assumption. Qed.

Lemma cabs2_conj a : cabs2 (cconj a) = cabs2 a.
Proof. unfold cabs2, cconj, cre, cim; simpl; ring. Qed.

Lemma cabs2_scale s a : cabs2 (cscale s a) = s * s * cabs2 a.
Proof. unfold cabs2, cscale, cre, cim; simpl; ring. Qed.

Lemma cabs_nonneg a : 0 <= cabs a.
Proof. apply sqrt_pos. Qed.

Lemma cabs_le_1 a : cabs2 a <= 1 -> cabs a <= 1.
Proof. intros H. unfold cabs. rewrite <- sqrt_1. apply sqrt_le_1_alt. assumption. Qed.
