(* Hand model of the control flow of pyrex/custom/layered_ice/ray_tracing.py that the translator
   cannot express:
     LayeredRayTracer._build_path   (recursive enumeration of level sequences; the nested result
                                      lists are flattened here, as flatten(...) does later)
     LayeredRayTracer._potential_paths (prefixes of the enumerated sequences that end in the
                                      receiver's layer)
     one iteration of the loop of LayeredRayTracer._trace_path (which angle the next section starts with)
     zip(points[:-1], points[1:]) of LayeredRayTracer.solutions (the chain of sub-paths)
   The arithmetic inside comes from the source (Gen/Gen_layered.v).  Pinned by AST hash. *)
From Coq Require Import Reals List Bool ZArith.
From PyrexLib Require Import RealPrims ListR.
From PyrexGen Require Import Gen_layered.
Import ListNotations.

(* ---- _build_path.  `level` is path[-1]; fuel only makes the recursion structural (theorem
   build_path_fuel_irrelevant: with the fuel used by build_path_top it never runs out). *)
Definition at_end (level direction max_level : Z) : bool :=
  ((level =? 0)%Z && (direction =? -1)%Z) || ((level =? max_level)%Z && (direction =? 1)%Z).

Fixpoint build_path (fuel : nat) (path : list Z) (level direction : Z) (reflections : nat) (max_level : Z)
  : list (list Z) :=
  match fuel with
  | O => []
  | S fuel' =>
      if at_end level direction max_level then
        match reflections with
        | O => [path]
        | S r => build_path fuel' (path ++ [level]) level (- direction)%Z r max_level
        end
      else
        match reflections with
        | O => build_path fuel' (path ++ [(level + direction)%Z]) (level + direction)%Z direction O max_level
        | S r => build_path fuel' (path ++ [(level + direction)%Z]) (level + direction)%Z direction (S r) max_level
                 ++ build_path fuel' (path ++ [level]) level (- direction)%Z r max_level
        end
  end.

Fixpoint need_refl (mx : nat) (reflections : nat) : nat :=
  match reflections with O => O | S r => need_refl mx r + (mx + 2) end.
Definition build_fuel (max_level : Z) (reflections : nat) : nat :=
  Z.to_nat max_level + 1 + need_refl (Z.to_nat max_level) reflections.
Definition build_path_top (start direction : Z) (reflections : nat) (max_level : Z) : list (list Z) :=
  build_path (build_fuel max_level reflections) [start] start direction reflections max_level.

(* _potential_paths: for every enumerated path, every prefix path[:i+1] with path[i] == end *)
Fixpoint prefixes_ending (end_ : Z) (pre : list Z) (rest : list Z) : list (list Z) :=
  match rest with
  | [] => []
  | x :: rest' => (if (x =? end_)%Z then [pre ++ [x]] else []) ++ prefixes_ending end_ (pre ++ [x]) rest'
  end.
Definition potential_paths (start end_ direction : Z) (reflections : nat) (max_level : Z) : list (list Z) :=
  flat_map (prefixes_ending end_ []) (build_path_top start direction reflections max_level).

Open Scope R_scope.

(* ---- one junction of _trace_path: the section ending here was launched with `angle` where the
   index is n_here; None = the nan fill + break of total internal reflection *)
Inductive junction := Transmit (n_here n_next : R) | Reflect (n_here n_bound : R).

Definition next_angle (self : LTracer) (turned_in_layer : bool) (angle : R) (j : junction) : option R :=
  let angle := if turned_in_layer then LayeredRayTracer_trace_path__turn_in_layer self angle else angle in
  match j with
  | Transmit nh nn =>
      let s := LayeredRayTracer_trace_path__transmit_sin self angle nh nn in
      if LayeredRayTracer_trace_path__total_internal self s then None
      else Some (if LayeredRayTracer_trace_path__is_upward self angle
                 then LayeredRayTracer_trace_path__transmit_up self s
                 else LayeredRayTracer_trace_path__transmit_down self s)
  | Reflect nh nb =>
      let s := LayeredRayTracer_trace_path__reflect_sin self angle nh nb in
      Some (if LayeredRayTracer_trace_path__is_upward_refl self angle
            then LayeredRayTracer_trace_path__reflect_from_up self s
            else LayeredRayTracer_trace_path__reflect_from_down self s)
  end.

(* ---- the chain of sub-paths: [(p1, p2) for p1, p2 in zip(points[:-1], points[1:])] *)
Definition chain {A} (points : list A) : list (A * A) := consecutive (fun a b => (a, b)) points.
