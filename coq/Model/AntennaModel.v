(* Executable model of the hit bookkeeping of pyrex.antenna.Antenna and
   pyrex.detector.AntennaSystem, following the code AS WRITTEN
   (antenna.py: receive, all_waveforms, waveforms, is_hit, is_hit_mc_truth,
   full_waveform, is_hit_during, make_noise, clear; detector.py: signals,
   all_waveforms, waveforms, full_waveform, make_noise, _calculate_lead_in_times,
   clear).  No proofs here.

   Scalars are exact rationals.  A pyrex Signal is a pair of equally long lists
   (times, values); Signal.with_times is np.interp(new, times, values, left=0, right=0)
   (Lib/Interp.v).  The noise master (a FunctionSignal) is an opaque function of
   absolute time, indexed by the draw that created it and the time array it was
   created with:  nz c draw created_times t.  The trigger is an arbitrary boolean
   function of the waveform (config field). *)
From Coq Require Import List QArith ZArith Bool Qround Qabs.
From PyrexLib Require Import Interp.
Import ListNotations.
Open Scope Q_scope.

Record signal := mkSig { s_times : list Q; s_values : list Q }.

(* ---------------------------------------------------------------- NumPy pieces *)
Definition t_first (ts : list Q) : Q := hd 0 ts.        (* times[0]  *)
Definition t_second (ts : list Q) : Q := nth 1 ts 0.    (* times[1]  *)
Definition t_last (ts : list Q) : Q := last ts 0.       (* times[-1] *)

Definition nat_Q (n : nat) : Q := inject_Z (Z.of_nat n).

(* Python int(q): truncation toward zero *)
Definition Qtrunc (q : Q) : Z := Z.quot (Qnum q) (Zpos (Qden q)).

(* bool(q % d): the float remainder is non-zero iff q is not an integer multiple of d *)
Definition has_remainder (q d : Q) : bool :=
  negb (Qeq_bool (q - inject_Z (Qfloor (q / d)) * d) 0).

(* np.linspace(start, stop, num, endpoint=False):  arange(num)*step + start, step=(stop-start)/num *)
Definition linspace_open (start stop : Q) (num : nat) : list Q :=
  map (fun i => nat_Q i * ((stop - start) / nat_Q num) + start) (seq 0 num).

(* np.linspace(0, stop, num+1)[1:] *)
Definition linspace_tail (stop : Q) (num : nat) : list Q :=
  map (fun i => nat_Q i * (stop / nat_Q num)) (seq 1 num).

Fixpoint zip_with (f : Q -> Q -> Q) (a b : list Q) : list Q :=
  match a, b with
  | x :: a', y :: b' => f x y :: zip_with f a' b'
  | _, _ => []
  end.

(* Signal.with_times *)
Definition with_times (s : signal) (new_times : list Q) : signal :=
  mkSig new_times (map (fun t => interp t (s_times s) (s_values s)) new_times).

(* ---------------------------------------------------------------- configuration *)
Record config := mkConfig {
  noisy : bool;
  trig : signal -> bool;                 (* Antenna.trigger *)
  nz : nat -> list Q -> Q -> Q;          (* noise realisation (draw, creation times) at absolute time *)
  invalidate : bool                      (* all_waveforms drops its caches when signals arrived since
                                            they were filled (the code after the F9 repair); false = the
                                            incremental catch-up of the original code *)
}.

Record astate := mkA {
  signals : list signal;
  noise_master : option (nat * list Q);
  noise_draws : nat;                     (* how many noise masters have been drawn so far *)
  all_waves : list signal;               (* _all_waves *)
  triggers : list bool                   (* _triggers *)
}.

Definition a_init : astate := mkA [] None 0 [] [].

(* ---------------------------------------------------------------- Antenna.make_noise *)
Definition ensure_master (st : astate) (times : list Q) : astate * (nat * list Q) :=
  match noise_master st with
  | Some m => (st, m)
  | None =>
      let m := (noise_draws st, times) in
      (mkA (signals st) (Some m) (S (noise_draws st)) (all_waves st) (triggers st), m)
  end.

Definition noise_at (c : config) (m : nat * list Q) (times : list Q) : list Q :=
  map (nz c (fst m) (snd m)) times.

Definition make_noise (c : config) (st : astate) (times : list Q) : astate * signal :=
  let '(st', m) := ensure_master st times in
  (st', mkSig times (noise_at c m times)).

(* ---------------------------------------------------------------- Antenna.full_waveform *)
Definition signal_span (s : signal) : Q := t_last (s_times s) - t_first (s_times s).

(* max(signal.times[-1]-signal.times[0] for signal in self.signals), 0 when empty *)
Definition max_span (sigs : list signal) : Q :=
  match sigs with
  | [] => 0
  | s :: rest =>
      fold_left (fun m s' => if Qltb m (signal_span s') then signal_span s' else m)
                rest (signal_span s)
  end.

Definition n_extra (sigs : list signal) (times : list Q) : nat :=
  let dt := t_second times - t_first times in
  let signal_length := max_span sigs in
  let n0 := Qtrunc (signal_length / dt) in
  Z.to_nat (if has_remainder signal_length dt then n0 + 1 else n0)%Z.

Definition long_times (sigs : list signal) (times : list Q) : list Q :=
  let dt := t_second times - t_first times in
  let n_pts := n_extra sigs times in
  map (Qplus (t_first times)) (linspace_open (- nat_Q n_pts * dt) 0 n_pts)
  ++ times
  ++ map (Qplus (t_last times)) (linspace_tail (nat_Q n_pts * dt) n_pts).

(* the running `waveform` of full_waveform: an EmptySignal, the noise FunctionSignal,
   or a plain Signal with explicit values over long_times *)
Inductive wave := WEmpty | WNoise (m : nat * list Q) | WVals (vs : list Q).

(* waveform += other   (EmptySignal.__add__ / FunctionSignal.__add__ / Signal.__add__) *)
Definition wadd (c : config) (lt : list Q) (w : wave) (vs : list Q) : wave :=
  match w with
  | WEmpty => WVals vs
  | WNoise m => WVals (zip_with Qplus (noise_at c m lt) vs)
  | WVals a => WVals (zip_with Qplus a vs)
  end.

(* waveform.with_times(times) *)
Definition wave_at (c : config) (lt : list Q) (w : wave) (times : list Q) : list Q :=
  match w with
  | WEmpty => map (fun _ => 0) times
  | WNoise m => noise_at c m times
  | WVals a => map (fun t => interp t lt a) times
  end.

(* not (signal.times[-1] < long_times[0] or signal.times[0] > long_times[-1]) *)
Definition overlaps (s : signal) (lt : list Q) : bool :=
  negb (Qltb (t_last (s_times s)) (t_first lt) || Qltb (t_last lt) (t_first (s_times s))).

Definition superpose (c : config) (sigs : list signal) (lt : list Q) (w0 : wave) : wave :=
  fold_left (fun w s => if overlaps s lt then wadd c lt w (s_values (with_times s lt)) else w)
            sigs w0.

Definition full_waveform (c : config) (st : astate) (times : list Q) : astate * signal :=
  let lt := long_times (signals st) times in
  let '(st1, w0) :=
      if noisy c
      then (let '(st', m) := ensure_master st lt in (st', WNoise m))
      else (st, WEmpty) in
  let w := superpose c (signals st) lt w0 in
  (st1, mkSig times (wave_at c lt w times)).

(* ---------------------------------------------------------------- caches *)
Definition set_caches (st : astate) (aw : list signal) (tr : list bool) : astate :=
  mkA (signals st) (noise_master st) (noise_draws st) aw tr.

(* one iteration of   while len(self._all_waves)<len(self.signals): ...append(full_waveform(...)) *)
Definition wave_step (c : config) (st : astate) (s : signal) : astate :=
  let '(st', w) := full_waveform c st (s_times s) in
  set_caches st' (all_waves st' ++ [w]) (triggers st').

(* Antenna.all_waveforms (property): catch the cache up with the signals list; the
   loop body runs once for each signal beyond the current cache length *)
Definition all_waveforms (c : config) (st : astate) : astate * list signal :=
  let st0 := if invalidate c && negb (Nat.eqb (length (all_waves st)) (length (signals st)))
             then set_caches st [] [] else st in
  let st1 := fold_left (wave_step c) (skipn (length (all_waves st0)) (signals st0)) st0 in
  (st1, all_waves st1).

(* Antenna.waveforms (property) *)
Definition waveforms (c : config) (st : astate) : astate * list signal :=
  let '(st1, aw) := all_waveforms c st in
  let tr := fold_left (fun tr w => tr ++ [trig c w]) (skipn (length (triggers st1)) aw) (triggers st1) in
  let st2 := set_caches st1 (all_waves st1) tr in
  (st2, map fst (filter snd (combine aw tr))).

Definition is_hit (c : config) (st : astate) : astate * bool :=
  let '(st1, ws) := waveforms c st in (st1, negb (Nat.eqb (length ws) 0)).

(* is_hit_mc_truth: for a noiseless antenna it is is_hit; with noise: some triggered
   waveform whose noise alone (same times) does not trigger *)
Fixpoint mc_loop (c : config) (st : astate) (ws : list signal) : astate * bool :=
  match ws with
  | [] => (st, false)
  | w :: ws' =>
      let '(st1, nzs) := make_noise c st (s_times w) in
      if negb (trig c nzs) then (st1, true) else mc_loop c st1 ws'
  end.

Definition is_hit_mc_truth (c : config) (st : astate) : astate * bool :=
  if negb (noisy c) then is_hit c st
  else let '(st1, ws) := waveforms c st in mc_loop c st1 ws.

Definition is_hit_during (c : config) (st : astate) (times : list Q) : astate * bool :=
  let '(st1, w) := full_waveform c st times in (st1, trig c w).

(* Antenna.receive (after apply_response): self.signals.append(total_signal) *)
Definition receive (st : astate) (s : signal) : astate :=
  mkA (signals st ++ [s]) (noise_master st) (noise_draws st) (all_waves st) (triggers st).

(* Antenna.clear *)
Definition clear (st : astate) (reset_noise : bool) : astate :=
  mkA [] (if reset_noise then None else noise_master st) (noise_draws st) [] [].

(* ---------------------------------------------------------------- state machine *)
Inductive op :=
| Receive (s : signal)
| AllWaveforms
| Waveforms
| IsHit
| IsHitMC
| FullWaveform (times : list Q)
| IsHitDuring (times : list Q)
| MakeNoise (times : list Q)
| Clear (reset_noise : bool)
| Signals.                           (* read the `signals` attribute / property *)

Inductive out :=
| ONone
| OSigs (l : list signal)
| OBool (b : bool)
| OSig (s : signal).

Definition step (c : config) (st : astate) (o : op) : astate * out :=
  match o with
  | Receive s => (receive st s, ONone)
  | AllWaveforms => let '(st', l) := all_waveforms c st in (st', OSigs l)
  | Waveforms => let '(st', l) := waveforms c st in (st', OSigs l)
  | IsHit => let '(st', b) := is_hit c st in (st', OBool b)
  | IsHitMC => let '(st', b) := is_hit_mc_truth c st in (st', OBool b)
  | FullWaveform ts => let '(st', w) := full_waveform c st ts in (st', OSig w)
  | IsHitDuring ts => let '(st', b) := is_hit_during c st ts in (st', OBool b)
  | MakeNoise ts => let '(st', w) := make_noise c st ts in (st', OSig w)
  | Clear r => (clear st r, ONone)
  | Signals => (st, OSigs (signals st))
  end.

(* run a history, collecting the outputs in order *)
Fixpoint run (c : config) (st : astate) (h : list op) : astate * list out :=
  match h with
  | [] => (st, [])
  | o :: h' =>
      let '(st1, r) := step c st o in
      let '(st2, rs) := run c st1 h' in
      (st2, r :: rs)
  end.

Definition final (c : config) (st : astate) (h : list op) : astate := fst (run c st h).
Definition outputs (c : config) (h : list op) : list out := snd (run c a_init h).

(* ================================================================ AntennaSystem *)
Record sconfig := mkSConfig {
  ant_cfg : config;
  lead_in : Q;          (* lead_in_time *)
  fe_scale : Q;         (* gain of the front end *)
  fe_shift : option Q;  (* the front end stamps its output with times + D (cable delay / delay line given as a time);
                           None = the output keeps the time grid it was given *)
  fe_taps : list Q      (* FIR stage of the front end acting on the SAMPLE SEQUENCE (a front end with
                           memory: [0;..;0;1] is a delay line, [a;b] a 2-tap filter); [] = no FIR stage *)
}.

Record sstate := mkS {
  ant : astate;
  sys_signals : list signal;     (* _signals *)
  sys_all_waves : list signal;   (* _all_waves *)
  sys_triggers : list bool       (* _triggers *)
}.

Definition s_init : sstate := mkS a_init [] [] [].

(* y[i] = taps[0]*x[i] + taps[1]*x[i-1] + ... ; samples before the start of the array are 0 *)
Fixpoint fir_at (taps : list Q) (xs : list Q) (i : nat) : Q :=
  match taps with
  | [] => 0
  | c :: taps' => c * nth i xs 0 + match i with O => 0 | S i' => fir_at taps' xs i' end
  end.

Definition fir (taps : list Q) (xs : list Q) : list Q :=
  map (fir_at taps xs) (seq 0 (length xs)).

(* front_end(signal): gain, then (if any) the FIR stage on the samples; the output is stamped with the input
   times, shifted by the delay D if there is one:  Signal(signal.times + D, values) *)
Definition front_end (sc : sconfig) (s : signal) : signal :=
  let scaled := map (fun v => v * fe_scale sc) (s_values s) in
  mkSig (match fe_shift sc with None => s_times s | Some D => map (fun t => t + D) (s_times s) end)
        (match fe_taps sc with [] => scaled | taps => fir taps scaled end).

(* AntennaSystem._calculate_lead_in_times *)
Definition lead_in_n (sc : sconfig) (times : list Q) : Z :=
  let t0 := t_first times in
  let t_min := t0 - lead_in sc in
  let t_max := t_last times in
  let dt := t_second times - t0 in
  (Qtrunc ((t_max - t_min) / dt) + 2 - Z.of_nat (length times))%Z.

Definition lead_in_times (sc : sconfig) (times : list Q) : list Q :=
  let t0 := t_first times in
  let dt := t_second times - t0 in
  let n_pts := lead_in_n sc times in
  let t_min := t0 - inject_Z n_pts * dt in
  linspace_open t_min t0 (Z.to_nat n_pts) ++ times.

Definition with_ant (st : sstate) (a : astate) : sstate :=
  mkS a (sys_signals st) (sys_all_waves st) (sys_triggers st).

(* AntennaSystem.signals (property) *)
Definition sys_signal_of (sc : sconfig) (s : signal) : signal :=
  let lt := lead_in_times sc (s_times s) in
  with_times (front_end sc (with_times s lt)) (s_times s).

Definition s_signals (sc : sconfig) (st : sstate) : sstate * list signal :=
  let new := map (sys_signal_of sc) (skipn (length (sys_signals st)) (signals (ant st))) in
  let l := sys_signals st ++ new in
  (mkS (ant st) l (sys_all_waves st) (sys_triggers st), l).

(* AntennaSystem.full_waveform *)
Definition s_full_waveform (sc : sconfig) (st : sstate) (times : list Q) : sstate * signal :=
  let lt := lead_in_times sc times in
  let '(a', pre) := full_waveform (ant_cfg sc) (ant st) lt in
  (with_ant st a', with_times (front_end sc pre) times).

(* AntennaSystem.make_noise *)
Definition s_make_noise (sc : sconfig) (st : sstate) (times : list Q) : sstate * signal :=
  let lt := lead_in_times sc times in
  let '(a', pre) := make_noise (ant_cfg sc) (ant st) lt in
  (with_ant st a', with_times (front_end sc pre) times).

Definition s_wave_step (sc : sconfig) (st : sstate) (s : signal) : sstate :=
  let '(st', w) := s_full_waveform sc st (s_times s) in
  mkS (ant st') (sys_signals st') (sys_all_waves st' ++ [w]) (sys_triggers st').

Definition s_all_waveforms (sc : sconfig) (st : sstate) : sstate * list signal :=
  let st0 := if invalidate (ant_cfg sc)
                && negb (Nat.eqb (length (sys_all_waves st)) (length (signals (ant st))))
             then mkS (ant st) (sys_signals st) [] [] else st in
  let st1 := fold_left (s_wave_step sc)
                       (skipn (length (sys_all_waves st0)) (signals (ant st0))) st0 in
  (st1, sys_all_waves st1).

Definition s_waveforms (sc : sconfig) (st : sstate) : sstate * list signal :=
  let '(st1, aw) := s_all_waveforms sc st in
  let tr := fold_left (fun tr w => tr ++ [trig (ant_cfg sc) w])
                      (skipn (length (sys_triggers st1)) aw) (sys_triggers st1) in
  (mkS (ant st1) (sys_signals st1) (sys_all_waves st1) tr,
   map fst (filter snd (combine aw tr))).

Definition s_is_hit (sc : sconfig) (st : sstate) : sstate * bool :=
  let '(st1, ws) := s_waveforms sc st in (st1, negb (Nat.eqb (length ws) 0)).

Definition s_is_hit_during (sc : sconfig) (st : sstate) (times : list Q) : sstate * bool :=
  let '(st1, w) := s_full_waveform sc st times in (st1, trig (ant_cfg sc) w).

Definition s_clear (st : sstate) (reset_noise : bool) : sstate :=
  mkS (clear (ant st) reset_noise) [] [] [].

(* IsHitMC is not modelled for systems (AntennaSystem.is_hit_mc_truth always needs noise) *)
Definition s_step (sc : sconfig) (st : sstate) (o : op) : sstate * out :=
  match o with
  | Receive s => (with_ant st (receive (ant st) s), ONone)
  | AllWaveforms => let '(st', l) := s_all_waveforms sc st in (st', OSigs l)
  | Waveforms => let '(st', l) := s_waveforms sc st in (st', OSigs l)
  | IsHit | IsHitMC => let '(st', b) := s_is_hit sc st in (st', OBool b)
  | FullWaveform ts => let '(st', w) := s_full_waveform sc st ts in (st', OSig w)
  | IsHitDuring ts => let '(st', b) := s_is_hit_during sc st ts in (st', OBool b)
  | MakeNoise ts => let '(st', w) := s_make_noise sc st ts in (st', OSig w)
  | Clear r => (s_clear st r, ONone)
  | Signals => let '(st', l) := s_signals sc st in (st', OSigs l)
  end.

Fixpoint s_run (sc : sconfig) (st : sstate) (h : list op) : sstate * list out :=
  match h with
  | [] => (st, [])
  | o :: h' =>
      let '(st1, r) := s_step sc st o in
      let '(st2, rs) := s_run sc st1 h' in
      (st2, r :: rs)
  end.

Definition s_outputs (sc : sconfig) (h : list op) : list out := snd (s_run sc s_init h).

(* ================================================================ concrete configurations
   used by the correspondence check (noiseless) *)
Definition trig_always (_ : signal) : bool := true.
(* max(np.abs(signal.values)) > threshold *)
Definition trig_threshold (thr : Q) (s : signal) : bool :=
  existsb (fun v => Qltb thr (Qabs v)) (s_values s).

Definition cfg_plain (inv : bool) : config := mkConfig false trig_always (fun _ _ _ => 0) inv.
Definition cfg_thr (thr : Q) (inv : bool) : config := mkConfig false (trig_threshold thr) (fun _ _ _ => 0) inv.

(* ---------------------------------------------------------------- flat integer encoding of outputs
   (so that the harness compares plain integer lists): rationals in lowest terms *)
Definition enc_Q (q : Q) : list Z := let r := Qred q in [Qnum r; Zpos (Qden r)].
Definition enc_Qs (l : list Q) : list Z := Z.of_nat (length l) :: flat_map enc_Q l.
Definition enc_sig (s : signal) : list Z := enc_Qs (s_times s) ++ enc_Qs (s_values s).
Definition enc_out (o : out) : list Z :=
  match o with
  | ONone => [0%Z]
  | OBool b => [1%Z; if b then 1%Z else 0%Z]
  | OSig s => 2%Z :: enc_sig s
  | OSigs l => 3%Z :: Z.of_nat (length l) :: flat_map enc_sig l
  end.
Definition enc_outs (l : list out) : list Z := flat_map enc_out l.

(* ---------------------------------------------------------------- noise epochs (observation of the state)
   The draw index of the noise master held after each operation of a history (None = no master).  A master
   gets the next unused index when it is created, so the index identifies the noise epoch; the harness compares
   this trace with the identity of the implementation's _noise_master objects. *)
Fixpoint run_masters (c : config) (st : astate) (h : list op) : list (option nat) :=
  match h with
  | [] => []
  | o :: h' => let st1 := fst (step c st o) in
               option_map fst (noise_master st1) :: run_masters c st1 h'
  end.

Fixpoint s_run_masters (sc : sconfig) (st : sstate) (h : list op) : list (option nat) :=
  match h with
  | [] => []
  | o :: h' => let st1 := fst (s_step sc st o) in
               option_map fst (noise_master (ant st1)) :: s_run_masters sc st1 h'
  end.

(* noisy configuration used for that comparison: the "noise" of draw k is the constant k *)
Definition cfg_epoch (inv : bool) : config := mkConfig true trig_always (fun k _ _ => nat_Q k) inv.

Definition enc_masters (l : list (option nat)) : list Z :=
  map (fun o => match o with None => (-1)%Z | Some k => Z.of_nat k end) l.
