(* C14: every clause of the property as a lemma over the generated definitions / the hand model of
   Event.  Props/C14.v restates these statements and groups them (Print Assumptions is run per
   group).  *)
From Coq Require Import Reals List Bool ZArith Lra Lia.
From Coquelicot Require Import Coquelicot.
From PyrexLib Require Import RealPrims PartPrims.
From PyrexGen Require Import Gen_particle.
From PyrexModel Require Import EventTree.
From PyrexProofs Require Import C14_real C14_formulas C14_tree.
Import ListNotations.
Open Scope R_scope.

Lemma energy_range_is_eps_range_clause :
  forall s,
  10 ^ 3 <= Inter_energy s <= 10 ^ 12 -> 3 <= eps s <= 12.
Proof. intros s. apply energy_range. Qed.

Lemma nc_prob_ctw_clause :
  forall s u,
  CTW_choose_interaction s u = (if Rltb u (nc_frac (eps s)) then Type_nc else Type_cc) /\
  (3 <= eps s <= 12 -> 0 < nc_frac (eps s) < 1).
Proof. intros s u. split; [apply ctw_choice_lemma|apply nc_frac_is_probability]. Qed.

Lemma nc_prob_gqrs_clause :
  forall s u,
  GQRS_choose_interaction s u = (if Rltb u 0.6865254 then Type_cc else Type_nc).
Proof. exact gqrs_choice_lemma. Qed.

Lemma gqrs_y_in_unit_clause :
  forall s u, 0 <= u < 1 -> 0 < GQRS_choose_inelasticity s u <= 1.
Proof. exact gqrs_y_lemma. Qed.

Lemma ctw_y_in_unit_clause :
  forall s u1 u2,
  cc_or_nc (Inter_kind s) -> neutrino (Inter_pid s) -> eps s <= 12 -> 0 <= u2 <= 1 ->
  CTW_choose_inelasticity s u1 u2 = Some (ctw_y (Inter_kind s) (Inter_pid s) (eps s) u1 u2) /\
  0 <= ctw_y (Inter_kind s) (Inter_pid s) (eps s) u1 u2 <= 1.
Proof. intros. split; [apply ctw_y_lemma|apply ctw_y_bounds]; assumption. Qed.

Lemma ctw_y_is_inverse_cdf_clause :
  forall c1 c2 r, c1 < 0 -> 1 < c2 -> 0 <= r <= 1 ->
  low_cdf c1 c2 (low_sample c1 c2 r) = r /\ high_cdf c1 (high_sample c1 r) = r /\
  0 <= low_sample c1 c2 r <= 1e-3 /\ 1e-3 <= high_sample c1 r <= 1 /\
  low_cdf c1 c2 0 = 0 /\ low_cdf c1 c2 1e-3 = 1 /\ high_cdf c1 1e-3 = 0 /\ high_cdf c1 1 = 1 /\
  (forall y, c1 < y -> is_derive (low_cdf c1 c2) y
       (Rpower (y - c1) (- (1 / c2)) * ((1 - 1 / c2) / (Rpower (1e-3 - c1) (1 - 1 / c2) - Rpower (0 - c1) (1 - 1 / c2))))) /\
  (forall y, c1 < y -> is_derive (high_cdf c1) y (1 / (y - c1) * (1 / (ln (1 - c1) - ln (1e-3 - c1))))).
Proof.
  intros c1 c2 r H1 H2 Hr.
  split; [apply low_sample_inverse_cdf; assumption|].
  split; [apply high_sample_inverse_cdf; assumption|].
  split; [apply low_sample_bounds; assumption|].
  split; [apply high_sample_bounds; assumption|].
  split; [apply (low_cdf_normalised c1 c2 H1 H2)|]. split; [apply (low_cdf_normalised c1 c2 H1 H2)|].
  split; [apply (high_cdf_normalised c1 H1)|]. split; [apply (high_cdf_normalised c1 H1)|].
  split; [intros y Hy; apply low_cdf_derivative; assumption|intros y Hy; apply high_cdf_derivative; assumption].
Qed.

Lemma ctw_parameters_admissible_clause :
  forall low kind pid e, e <= 12 ->
  ctw_c1 low kind pid e < 0 /\ 1 < ctw_c2 e.
Proof. intros. split; [apply ctw_c1_neg|apply ctw_c2_gt1; assumption]. Qed.

Lemma fractions_spec_ctw_clause :
  forall s tabs ns us,
  cc_or_nc (Inter_kind s) -> neutrino (Inter_pid s) -> 0 < Inter_energy s -> 0 <= Inter_inelasticity s <= 1 ->
  match CTW_choose_shower_fractions s (model_sec CTW_choose_secondary_fractions s tabs ns us) with
  | None => False
  | Some None => Inter_kind s = Type_cc /\ ~ electron_flavour (Inter_pid s) /\ Inter_include_secondaries s = true
  | Some (Some (em, had)) =>
      fractions_ok (Inter_kind s) (Inter_pid s) (Inter_inelasticity s) em had /\
      (Inter_include_secondaries s = false -> (em, had) = primary (Inter_kind s) (Inter_pid s) (Inter_inelasticity s))
  end.
Proof. intros. rewrite ctw_shower_lemma by assumption. rewrite ctw_secondaries_inherited. apply fractions_lemma; assumption. Qed.

Lemma fractions_spec_gqrs_clause :
  forall s tabs ns us,
  cc_or_nc (Inter_kind s) -> neutrino (Inter_pid s) -> 0 < Inter_energy s -> 0 <= Inter_inelasticity s <= 1 ->
  match GQRS_choose_shower_fractions s (model_sec GQRS_choose_secondary_fractions s tabs ns us) with
  | None => False
  | Some None => Inter_kind s = Type_cc /\ ~ electron_flavour (Inter_pid s) /\ Inter_include_secondaries s = true
  | Some (Some (em, had)) =>
      fractions_ok (Inter_kind s) (Inter_pid s) (Inter_inelasticity s) em had /\
      (Inter_include_secondaries s = false -> (em, had) = primary (Inter_kind s) (Inter_pid s) (Inter_inelasticity s))
  end.
Proof. intros. rewrite gqrs_shower_lemma by assumption. apply fractions_lemma; assumption. Qed.

Lemma secondaries_bounded_by_lepton_energy_clause :
  forall s tabs le ei ns us, 0 <= le ->
  0 <= fst (GQRS_choose_secondary_fractions s tabs le ei ns us) <= le /\
  0 <= snd (GQRS_choose_secondary_fractions s tabs le ei ns us) <= le /\
  CTW_choose_secondary_fractions = GQRS_choose_secondary_fractions.
Proof. intros s tabs le ei ns us H. destruct (secondary_fractions_bounded s tabs le ei ns us H) as [A B]. repeat split; try apply A; try apply B. Qed.

Lemma sigma_pos_ctw_clause :
  forall s, cc_or_nc (Inter_kind s) -> neutrino (Inter_pid s) ->
  exists sigma tot, CTW_cross_section s = Some sigma /\ CTW_total_cross_section s = Some tot /\ 0 < sigma /\ 0 < tot.
Proof.
  intros s Hk Hp. eexists. eexists. split; [apply ctw_cross_section_lemma; assumption|].
  split; [apply ctw_total_cross_section_lemma; assumption|].
  split; [apply ctw_sigma_pos|]. apply Rplus_lt_0_compat; apply ctw_sigma_pos.
Qed.

Lemma sigma_pos_gqrs_clause :
  forall s, cc_or_nc (Inter_kind s) -> neutrino (Inter_pid s) ->
  exists sigma tot, GQRS_cross_section s = Some sigma /\ GQRS_total_cross_section s = Some tot /\ 0 < sigma /\ 0 < tot.
Proof.
  intros s Hk Hp. eexists. eexists. split; [apply gqrs_cross_section_lemma; assumption|].
  split; [apply gqrs_total_cross_section_lemma; assumption|].
  split; [apply gqrs_sigma_pos|]. unfold gqrs_total_sigma. apply Rmult_lt_0_compat; [apply gqrs_total_coeff_pos|apply Rpower_pos].
Qed.

Lemma sigma_increasing_ctw_clause :
  forall s1 s2 x1 x2 t1 t2,
  cc_or_nc (Inter_kind s1) -> neutrino (Inter_pid s1) ->
  Inter_kind s2 = Inter_kind s1 -> Inter_pid s2 = Inter_pid s1 ->
  10 ^ 3 <= Inter_energy s1 -> Inter_energy s1 < Inter_energy s2 -> Inter_energy s2 <= 10 ^ 12 ->
  CTW_cross_section s1 = Some x1 -> CTW_cross_section s2 = Some x2 ->
  CTW_total_cross_section s1 = Some t1 -> CTW_total_cross_section s2 = Some t2 ->
  x1 < x2 /\ t1 < t2.
Proof.
  intros s1 s2 x1 x2 t1 t2 Hk Hp Ek Ep H1 H12 H2 X1 X2 T1 T2.
  assert (P3 : 0 < 10 ^ 3) by (apply pow_lt; lra).
  assert (R1 : 3 <= eps s1 <= 12) by (apply energy_range; lra).
  assert (R2 : 3 <= eps s2 <= 12) by (apply energy_range; lra).
  assert (Hlt : eps s1 < eps s2) by (apply log10_lt; lra).
  rewrite ctw_cross_section_lemma in X1, X2 by (rewrite ?Ek, ?Ep; assumption).
  rewrite ctw_total_cross_section_lemma in T1, T2 by (rewrite ?Ep; assumption).
  inversion X1; inversion X2; inversion T1; inversion T2; subst. rewrite Ek, Ep.
  split; [apply ctw_sigma_increasing; try assumption; lra|].
  apply Rplus_lt_compat; apply ctw_sigma_increasing; try assumption; try lra; unfold cc_or_nc; auto.
Qed.

Lemma sigma_increasing_gqrs_clause :
  forall s1 s2 x1 x2 t1 t2,
  cc_or_nc (Inter_kind s1) -> neutrino (Inter_pid s1) ->
  Inter_kind s2 = Inter_kind s1 -> Inter_pid s2 = Inter_pid s1 ->
  0 < Inter_energy s1 -> Inter_energy s1 < Inter_energy s2 ->
  GQRS_cross_section s1 = Some x1 -> GQRS_cross_section s2 = Some x2 ->
  GQRS_total_cross_section s1 = Some t1 -> GQRS_total_cross_section s2 = Some t2 ->
  x1 < x2 /\ t1 < t2.
Proof.
  intros s1 s2 x1 x2 t1 t2 Hk Hp Ek Ep H1 H12 X1 X2 T1 T2.
  rewrite gqrs_cross_section_lemma in X1, X2 by (rewrite ?Ek, ?Ep; assumption).
  rewrite gqrs_total_cross_section_lemma in T1, T2 by (rewrite ?Ep; assumption).
  inversion X1; inversion X2; inversion T1; inversion T2; subst. rewrite Ek, Ep.
  split; [apply gqrs_sigma_increasing; assumption|apply gqrs_total_sigma_increasing; assumption].
Qed.

Lemma ctw_total_is_sum_clause :
  forall s, neutrino (Inter_pid s) ->
  default_model_is_CTW = true /\
  exists cc nc,
    Default_cross_section (mkInter Type_cc (Inter_pid s) (Inter_energy s) (Inter_inelasticity s) (Inter_include_secondaries s)) = Some cc /\
    Default_cross_section (mkInter Type_nc (Inter_pid s) (Inter_energy s) (Inter_inelasticity s) (Inter_include_secondaries s)) = Some nc /\
    Default_total_cross_section s = Some (cc + nc).
Proof.
  intros s Hp. split; [reflexivity|]. unfold Default_cross_section, Default_total_cross_section.
  eexists. eexists. split; [apply ctw_cross_section_lemma; [left; reflexivity|exact Hp]|].
  split; [apply ctw_cross_section_lemma; [right; reflexivity|exact Hp]|].
  rewrite ctw_total_cross_section_lemma by assumption. reflexivity.
Qed.

Lemma gqrs_sum_rule_only_for_neutrinos_clause :
  forall E,
  gqrs_sigma 1 12 E + gqrs_sigma 2 12 E = gqrs_total_sigma 12 E /\
  gqrs_sigma 1 (-12) E + gqrs_sigma 2 (-12) E - gqrs_total_sigma (-12) E = 1e-38 * Rpower E 0.363.
Proof. intros E. split; [apply gqrs_sum_rule_neutrino|apply gqrs_sum_rule_antineutrino_fails]. Qed.

Lemma length_is_inverse_clause :
  forall s,
  CTW_interaction_length s = option_map (fun sigma => 1 / (avogadro * sigma)) (CTW_cross_section s) /\
  CTW_total_interaction_length s = option_map (fun sigma => 1 / (avogadro * sigma)) (CTW_total_cross_section s) /\
  GQRS_interaction_length s = option_map (fun sigma => 1 / (avogadro * sigma)) (GQRS_cross_section s) /\
  GQRS_total_interaction_length s = option_map (fun sigma => 1 / (avogadro * sigma)) (GQRS_total_cross_section s) /\
  avogadro = 6.02214076e23.
Proof.
  intros s. destruct (ctw_length_lemma s) as [A B]. destruct (gqrs_length_lemma s) as [C D].
  repeat split; assumption.
Qed.
