(* Hand model of pyrex/antenna.py Antenna.receive (list handling, Python `sum` over Signal
   objects with Signal.__radd__/__add__, append to self.signals), as written:

     if hasattr(signal, '__len__'):
         if not hasattr(polarization, '__len__') or len(signal) != len(polarization): raise ValueError
     else: signal = [signal]; polarization = [polarization]
     total_signal = sum([self.apply_response(sig, direction, pol, force_real) for sig, pol in zip(...)])
     self.signals.append(total_signal)

   `apply` is the (generated) apply_response with antenna / direction / force_real fixed.
   The antenna state relevant here is the list self.signals.  Signal.__add__ raises ValueError
   for different times or incompatible value types.  The empty input list (sum([]) = 0) is
   outside the model (receive_model returns RecvDegenerate).
   Pinned by AST hash (harness/pins/C08.json) and validated by correspondence. No proofs here. *)
From Coq Require Import Reals List Bool ZArith.
From PyrexLib Require Import RealPrims SignalAlg.
Import ListNotations.
Open Scope R_scope.

Fixpoint list_Reqb (a b : list R) : bool :=
  match a, b with
  | [], [] => true
  | x :: a', y :: b' => Reqb x y && list_Reqb a' b'
  | _, _ => false
  end.

(* Signal.__add__ *)
Definition sig_add (a b : Sig) : option Sig :=
  if negb (list_Reqb (sg_times a) (sg_times b)) then None
  else if negb (Z.eqb (sg_type a) ty_undefined) && negb (Z.eqb (sg_type b) ty_undefined)
          && negb (Z.eqb (sg_type a) (sg_type b)) then None
  else Some (mkSig (sg_times a) (vals_add (sg_values a) (sg_values b))
                   (if Z.eqb (sg_type a) ty_undefined then sg_type b else sg_type a)).

(* sum([s1; s2; ...]) = ((0 + s1) + s2) + ...   with 0 + s1 = s1 (Signal.__radd__) *)
Fixpoint sum_from (acc : Sig) (l : list Sig) : option Sig :=
  match l with
  | [] => Some acc
  | s :: t => match sig_add acc s with Some acc' => sum_from acc' t | None => None end
  end.

Fixpoint apply_all {P} (apply : Sig -> P -> option Sig) (l : list (Sig * P)) : option (list Sig) :=
  match l with
  | [] => Some []
  | (s, p) :: t =>
      match apply s p with
      | None => None                     (* ValueError propagates out of the comprehension *)
      | Some o => match apply_all apply t with Some os => Some (o :: os) | None => None end
      end
  end.

Inductive recv_result := RecvOk | RecvValueError | RecvDegenerate.

(* lens_ok: the signal / polarization containers passed the length test *)
Definition receive_model {P} (apply : Sig -> P -> option Sig) (signals : list Sig) (lens_ok : bool)
           (inputs : list (Sig * P)) : list Sig * recv_result :=
  if negb lens_ok then (signals, RecvValueError)
  else match apply_all apply inputs with
       | None => (signals, RecvValueError)
       | Some [] => (signals, RecvDegenerate)
       | Some (o :: os) =>
           match sum_from o os with
           | None => (signals, RecvValueError)
           | Some total => (signals ++ [total], RecvOk)
           end
       end.
