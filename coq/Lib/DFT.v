(* A concrete discrete Fourier transform of length M over Coquelicot's complex numbers.

     dft  M x k = sum_{n<M} x n * w^(-k n)         w = e^{2 pi i / M}
     idft M X n = (1/M) sum_{k<M} X k * w^(k n)

   Signals are functions nat -> C read on indices < M.  Twiddle factors carry an integer
   exponent (tw M j = w^j, j : Z), so that all index manipulations are ring identities
   in Z.  The exponent is reduced modulo M inside the definition (twr) - that is the form
   that is executed after extraction (small angles, accurate in floating point); twr_tw
   shows it is the same number.

   Proved here (no hypotheses): linearity, orthogonality of the roots of unity,
   inversion (both directions), Parseval/Plancherel, the circular shift theorem,
   conjugate symmetry for real input, and the "real part = Hermitian-symmetrised
   spectrum" identity used for force_real and for irfft. *)
From Coq Require Import Reals ZArith Lia Lra Bool Arith.
From Coquelicot Require Import Coquelicot.
Local Open Scope R_scope.
Local Open Scope C_scope.

(* ------------------------------------------------------------------ finite sums *)
Fixpoint Csum (f : nat -> C) (n : nat) : C :=
  match n with O => 0 | S n' => Csum f n' + f n' end.

Fixpoint Rsum (f : nat -> R) (n : nat) : R :=
  match n with O => 0%R | S n' => (Rsum f n' + f n')%R end.

Lemma Csum_ext f g n : (forall i, (i < n)%nat -> f i = g i) -> Csum f n = Csum g n.
Proof.
  induction n; intros H; simpl; [reflexivity|].
  rewrite IHn, H by (intros; try apply H; lia). reflexivity.
Qed.

Lemma Rsum_ext f g n : (forall i, (i < n)%nat -> f i = g i) -> Rsum f n = Rsum g n.
Proof.
  induction n; intros H; simpl; [reflexivity|].
  rewrite IHn, H by (intros; try apply H; lia). reflexivity.
Qed.

Lemma Csum_0 n : Csum (fun _ => 0) n = 0.
Proof. induction n; simpl; [reflexivity|]. rewrite IHn. ring. Qed.

Lemma Csum_plus f g n : Csum (fun i => f i + g i) n = Csum f n + Csum g n.
Proof. induction n; simpl; [ring|]. rewrite IHn. ring. Qed.

Lemma Csum_scal c f n : Csum (fun i => c * f i) n = c * Csum f n.
Proof. induction n; simpl; [ring|]. rewrite IHn. ring. Qed.

Lemma Csum_scal_r c f n : Csum (fun i => f i * c) n = Csum f n * c.
Proof. induction n; simpl; [ring|]. rewrite IHn. ring. Qed.

Lemma Csum_swap (f : nat -> nat -> C) n m :
  Csum (fun i => Csum (fun j => f i j) m) n = Csum (fun j => Csum (fun i => f i j) n) m.
Proof.
  induction n; simpl.
  - rewrite Csum_0. reflexivity.
  - rewrite IHn, <- Csum_plus. reflexivity.
Qed.

Lemma Csum_delta f n n0 : (n0 < n)%nat ->
  Csum (fun i => if Nat.eqb i n0 then f i else 0) n = f n0.
Proof.
  induction n; intros H; [lia|]. simpl.
  destruct (Nat.eqb_spec n n0).
  - subst. rewrite (Csum_ext _ (fun _ => 0)), Csum_0; [ring|].
    intros i Hi. destruct (Nat.eqb_spec i n0); [lia|reflexivity].
  - rewrite IHn by lia. ring.
Qed.

Lemma Csum_split f a b : Csum f (a + b) = Csum f a + Csum (fun i => f (a + i)%nat) b.
Proof.
  induction b; simpl.
  - rewrite Nat.add_0_r. ring.
  - rewrite Nat.add_succ_r. simpl. rewrite IHb. ring.
Qed.

Lemma Csum_rev f n : Csum f n = Csum (fun i => f (n - 1 - i)%nat) n.
Proof.
  induction n; [reflexivity|].
  transitivity (Csum (fun i => f (S n - 1 - i)%nat) (1 + n)); [|reflexivity].
  rewrite Csum_split.
  change (Csum (fun i => f (S n - 1 - i)%nat) 1) with (0 + f (S n - 1 - 0)%nat).
  replace (S n - 1 - 0)%nat with n by lia.
  change (Csum f (S n)) with (Csum f n + f n).
  rewrite IHn.
  rewrite (Csum_ext (fun i => f (S n - 1 - (1 + i))%nat) (fun i => f (n - 1 - i)%nat)).
  - ring.
  - intros i Hi. f_equal. lia.
Qed.

Lemma Csum_conj f n : Cconj (Csum f n) = Csum (fun i => Cconj (f i)) n.
Proof.
  induction n; simpl.
  - unfold Cconj, RtoC; simpl. f_equal. ring.
  - rewrite <- IHn. unfold Cconj, Cplus; simpl. f_equal. ring.
Qed.

Lemma Re_Csum f n : Re (Csum f n) = Rsum (fun i => Re (f i)) n.
Proof. induction n; simpl; [reflexivity|]. rewrite <- IHn. reflexivity. Qed.

Lemma Im_Csum f n : Im (Csum f n) = Rsum (fun i => Im (f i)) n.
Proof. induction n; simpl; [reflexivity|]. rewrite <- IHn. reflexivity. Qed.

Lemma Csum_RtoC f n : Csum (fun i => RtoC (f i)) n = RtoC (Rsum f n).
Proof.
  induction n; simpl; [reflexivity|]. rewrite IHn, RtoC_plus. reflexivity.
Qed.

Lemma Csum_const c n : Csum (fun _ => c) n = RtoC (INR n) * c.
Proof.
  induction n.
  - simpl. ring.
  - rewrite S_INR, RtoC_plus. simpl Csum. rewrite IHn. ring.
Qed.

Lemma Rsum_plus f g n : Rsum (fun i => (f i + g i)%R) n = (Rsum f n + Rsum g n)%R.
Proof. induction n; simpl; [ring|]. rewrite IHn. ring. Qed.

Lemma Rsum_scal c f n : Rsum (fun i => (c * f i)%R) n = (c * Rsum f n)%R.
Proof. induction n; simpl; [ring|]. rewrite IHn. ring. Qed.

Lemma Rsum_le f g n : (forall i, (i < n)%nat -> (f i <= g i)%R) -> (Rsum f n <= Rsum g n)%R.
Proof.
  induction n; intros H; simpl; [lra|].
  apply Rplus_le_compat; [apply IHn; intros; apply H; lia | apply H; lia].
Qed.

Lemma Rsum_nonneg f n : (forall i, (i < n)%nat -> (0 <= f i)%R) -> (0 <= Rsum f n)%R.
Proof.
  induction n; intros H; simpl; [lra|].
  apply Rplus_le_le_0_compat; [apply IHn; intros; apply H; lia | apply H; lia].
Qed.

Lemma Rsum_split f a b : Rsum f (a + b) = (Rsum f a + Rsum (fun i => f (a + i)%nat) b)%R.
Proof.
  induction b; simpl.
  - rewrite Nat.add_0_r. ring.
  - rewrite Nat.add_succ_r. simpl. rewrite IHb. ring.
Qed.

Lemma Rsum_0 n : Rsum (fun _ => 0%R) n = 0%R.
Proof. induction n; simpl; [reflexivity|]. rewrite IHn. ring. Qed.

(* sum over all residues of a function of (M - k) mod M: the index negation is a
   permutation of [0, M) *)
Definition negidx (M k : nat) : nat := ((M - k) mod M)%nat.

Lemma negidx_lt M k : (0 < M)%nat -> (negidx M k < M)%nat.
Proof. intros. unfold negidx. apply Nat.mod_upper_bound. lia. Qed.

Lemma negidx_0 M : negidx M 0 = 0%nat.
Proof.
  unfold negidx. destruct M; [reflexivity|].
  rewrite Nat.sub_0_r. apply Nat.mod_same. lia.
Qed.

Lemma negidx_pos M k : (0 < k < M)%nat -> negidx M k = (M - k)%nat.
Proof. intros. unfold negidx. apply Nat.mod_small. lia. Qed.

Lemma negidx_invol M k : (k < M)%nat -> negidx M (negidx M k) = k.
Proof.
  intros H. destruct k.
  - rewrite negidx_0, negidx_0. reflexivity.
  - rewrite (negidx_pos M (S k)) by lia. rewrite negidx_pos by lia. lia.
Qed.

Lemma Csum_S_l f n : Csum f (S n) = f 0%nat + Csum (fun i => f (S i)) n.
Proof.
  change (S n) with (1 + n)%nat. rewrite Csum_split. simpl. ring.
Qed.

Lemma Csum_negidx f M : Csum (fun k => f (negidx M k)) M = Csum f M.
Proof.
  destruct M as [|m]; [reflexivity|].
  rewrite !Csum_S_l. rewrite negidx_0. f_equal.
  rewrite (Csum_rev (fun i => f (S i))).
  apply Csum_ext. intros i Hi.
  rewrite negidx_pos by lia. f_equal. lia.
Qed.

(* ------------------------------------------------------------- roots of unity *)
Definition cis (t : R) : C := (cos t, sin t).

Lemma cis_plus a b : cis (a + b) = cis a * cis b.
Proof. unfold cis, Cmult; simpl. rewrite cos_plus, sin_plus. f_equal; ring. Qed.

Lemma cis_0 : cis 0 = 1.
Proof. unfold cis. rewrite cos_0, sin_0. reflexivity. Qed.

Lemma cis_opp a : cis (- a) = Cconj (cis a).
Proof. unfold cis, Cconj; simpl. rewrite cos_neg, sin_neg. reflexivity. Qed.

Lemma cis_2PI_nat (k : nat) : cis (2 * PI * INR k) = 1.
Proof.
  induction k.
  - simpl. rewrite Rmult_0_r. apply cis_0.
  - rewrite S_INR. replace (2 * PI * (INR k + 1))%R with (2 * PI * INR k + 2 * PI)%R by ring.
    rewrite cis_plus, IHk. unfold cis. rewrite cos_2PI, sin_2PI.
    change (1%R, 0%R) with (RtoC 1). ring.
Qed.

Lemma Cconj_1 : Cconj 1 = 1.
Proof. unfold Cconj, RtoC; simpl. f_equal. ring. Qed.

Lemma cis_2PI_Z (k : Z) : cis (2 * PI * IZR k) = 1.
Proof.
  destruct (Z_le_gt_dec 0 k) as [H|H].
  - rewrite <- (Z2Nat.id k) by lia. rewrite <- INR_IZR_INZ. apply cis_2PI_nat.
  - assert (E : k = (- Z.of_nat (Z.to_nat (- k)))%Z) by lia. rewrite E. clear E.
    rewrite opp_IZR, <- INR_IZR_INZ.
    replace (2 * PI * - INR (Z.to_nat (- k)))%R with (- (2 * PI * INR (Z.to_nat (- k))))%R by ring.
    rewrite cis_opp, cis_2PI_nat. apply Cconj_1.
Qed.

Lemma Cmod_cis t : Cmod (cis t) = 1%R.
Proof.
  unfold Cmod, cis; simpl fst; simpl snd.
  replace (cos t ^ 2 + sin t ^ 2)%R with 1%R; [apply sqrt_1|].
  rewrite <- (sin2_cos2 t). unfold Rsqr. ring.
Qed.

(* w^j with w = e^{2 pi i / M} *)
Definition tw (M : nat) (j : Z) : C := cis (2 * PI * IZR j / INR M).

(* the executed form: exponent reduced to [0, M) first *)
Definition twr (M : nat) (j : Z) : C := tw M (j mod Z.of_nat M).

Lemma tw_plus M a b : tw M (a + b) = tw M a * tw M b.
Proof.
  unfold tw. rewrite plus_IZR, <- cis_plus. f_equal. unfold Rdiv. ring.
Qed.

Lemma tw_0 M : tw M 0 = 1.
Proof. unfold tw. unfold Rdiv. rewrite Rmult_0_r, Rmult_0_l. apply cis_0. Qed.

Lemma tw_opp M a : tw M (- a) = Cconj (tw M a).
Proof.
  unfold tw. rewrite opp_IZR, <- cis_opp. f_equal. unfold Rdiv. ring.
Qed.

Lemma tw_period M a : (0 < M)%nat -> tw M (Z.of_nat M * a) = 1.
Proof.
  intros HM. unfold tw. rewrite mult_IZR, <- INR_IZR_INZ.
  replace (2 * PI * (INR M * IZR a) / INR M)%R with (2 * PI * IZR a)%R.
  - apply cis_2PI_Z.
  - field. apply not_0_INR. lia.
Qed.

Lemma tw_shift M a b : (0 < M)%nat -> tw M (a + Z.of_nat M * b) = tw M a.
Proof. intros. rewrite tw_plus, tw_period by assumption. ring. Qed.

Lemma twr_tw M j : (0 < M)%nat -> twr M j = tw M j.
Proof.
  intros HM. unfold twr.
  rewrite (Z.div_mod j (Z.of_nat M)) at 2 by lia.
  rewrite Z.add_comm, tw_shift by assumption. reflexivity.
Qed.

Lemma Cmod_tw M j : Cmod (tw M j) = 1%R.
Proof. apply Cmod_cis. Qed.

Lemma tw_conj_mult M j : tw M j * Cconj (tw M j) = 1.
Proof.
  rewrite <- tw_opp, <- tw_plus. replace (j + - j)%Z with 0%Z by lia. apply tw_0.
Qed.

(* a root of unity other than 1 *)
Lemma cis_neq_1 t : (0 < t < 2 * PI)%R -> cis t <> 1.
Proof.
  intros Ht E. unfold cis, RtoC in E. injection E as Ec Es.
  destruct (sin_eq_O_2PI_0 t) as [H|[H|H]]; try lra.
  subst t. rewrite cos_PI in Ec. lra.
Qed.

Lemma tw_neq_1 M j : (0 < j < Z.of_nat M)%Z -> tw M j <> 1.
Proof.
  intros Hj. unfold tw. apply cis_neq_1.
  assert (HM : (0 < INR M)%R) by (apply lt_0_INR; lia).
  assert (H0 : (0 < IZR j)%R) by (apply IZR_lt; lia).
  assert (H1 : (IZR j < INR M)%R) by (rewrite INR_IZR_INZ; apply IZR_lt; lia).
  assert (HP := PI_RGT_0).
  split.
  - apply Rdiv_lt_0_compat; [|assumption]. apply Rmult_lt_0_compat; lra.
  - apply Rmult_lt_reg_r with (INR M); [assumption|].
    unfold Rdiv. rewrite Rmult_assoc, Rinv_l, Rmult_1_r by lra.
    apply Rmult_lt_compat_l; lra.
Qed.

Lemma tw_neq_1_abs M j : (j <> 0)%Z -> (- Z.of_nat M < j < Z.of_nat M)%Z -> tw M j <> 1.
Proof.
  intros Hj Hb. destruct (Z_lt_le_dec 0 j).
  - apply tw_neq_1. lia.
  - intros E. apply (tw_neq_1 M (- j)); [lia|].
    rewrite tw_opp, E. apply Cconj_1.
Qed.

(* geometric sum of a root of unity *)
Lemma tw_geom M j m :
  (tw M j - 1) * Csum (fun n => tw M (j * Z.of_nat n)) m = tw M (j * Z.of_nat m) - 1.
Proof.
  induction m.
  - simpl. rewrite Z.mul_0_r, tw_0. ring.
  - simpl Csum. rewrite Cmult_plus_distr_l, IHm.
    replace (j * Z.of_nat (S m))%Z with (j * Z.of_nat m + j)%Z by lia.
    rewrite tw_plus. ring.
Qed.

Lemma Cmult_integral (a b : C) : a * b = 0 -> a <> 0 -> b = 0.
Proof.
  intros H Ha. destruct (Ceq_dec b 0) as [|Hb]; [assumption|].
  exfalso. exact (Cmult_neq_0 _ _ Ha Hb H).
Qed.

Lemma tw_orthogonal M j : (0 < M)%nat -> (- Z.of_nat M < j < Z.of_nat M)%Z ->
  Csum (fun n => tw M (j * Z.of_nat n)) M = if Z.eqb j 0 then RtoC (INR M) else 0.
Proof.
  intros HM Hj. destruct (Z.eqb_spec j 0).
  - subst. rewrite (Csum_ext _ (fun _ => 1)).
    + rewrite Csum_const. ring.
    + intros. rewrite Z.mul_0_l. apply tw_0.
  - apply Cmult_integral with (tw M j - 1).
    + rewrite tw_geom. rewrite Z.mul_comm, tw_period by assumption. ring.
    + intros E. apply (tw_neq_1_abs M j n Hj).
      replace (tw M j) with (tw M j - 1 + 1) by ring. rewrite E. ring.
Qed.

(* ------------------------------------------------------------------ transforms *)
Definition dft (M : nat) (x : nat -> C) (k : nat) : C :=
  Csum (fun n => x n * twr M (- (Z.of_nat k * Z.of_nat n))) M.

Definition idft (M : nat) (X : nat -> C) (n : nat) : C :=
  RtoC (/ INR M) * Csum (fun k => X k * twr M (Z.of_nat k * Z.of_nat n)) M.

Lemma dft_tw M x k :
  dft M x k = Csum (fun n => x n * tw M (- (Z.of_nat k * Z.of_nat n))) M.
Proof. apply Csum_ext. intros. rewrite twr_tw by lia. reflexivity. Qed.

Lemma idft_tw M X n :
  idft M X n = RtoC (/ INR M) * Csum (fun k => X k * tw M (Z.of_nat k * Z.of_nat n)) M.
Proof. unfold idft. f_equal. apply Csum_ext. intros. rewrite twr_tw by lia. reflexivity. Qed.

Lemma dft_ext M x y k : (forall n, (n < M)%nat -> x n = y n) -> dft M x k = dft M y k.
Proof. intros H. apply Csum_ext. intros. rewrite H by assumption. reflexivity. Qed.

Lemma idft_ext M X Y n : (forall k, (k < M)%nat -> X k = Y k) -> idft M X n = idft M Y n.
Proof. intros H. unfold idft. f_equal. apply Csum_ext. intros. rewrite H by assumption. reflexivity. Qed.

(* linearity *)
Lemma dft_linear M a b x y k :
  dft M (fun n => a * x n + b * y n) k = a * dft M x k + b * dft M y k.
Proof.
  unfold dft. rewrite <- !Csum_scal, <- Csum_plus. apply Csum_ext. intros. ring.
Qed.

Lemma idft_linear M a b X Y n :
  idft M (fun k => a * X k + b * Y k) n = a * idft M X n + b * idft M Y n.
Proof.
  unfold idft.
  transitivity (RtoC (/ INR M) * (a * Csum (fun k => X k * twr M (Z.of_nat k * Z.of_nat n)) M
                                  + b * Csum (fun k => Y k * twr M (Z.of_nat k * Z.of_nat n)) M)).
  - f_equal. rewrite <- !Csum_scal, <- Csum_plus. apply Csum_ext. intros. ring.
  - ring.
Qed.

Lemma INR_inv_mult M : (0 < M)%nat -> RtoC (/ INR M) * RtoC (INR M) = 1.
Proof.
  intros. rewrite <- RtoC_mult. f_equal. apply Rinv_l. apply not_0_INR. lia.
Qed.

(* inversion *)
Theorem idft_dft M x n : (n < M)%nat -> idft M (dft M x) n = x n.
Proof.
  intros Hn. rewrite idft_tw.
  rewrite (Csum_ext _ (fun k => Csum (fun m => x m * tw M (Z.of_nat k * (Z.of_nat n - Z.of_nat m))) M)).
  2:{ intros k Hk. rewrite dft_tw, <- Csum_scal_r. apply Csum_ext. intros m Hm.
      rewrite <- Cmult_assoc, <- tw_plus. do 2 f_equal. ring. }
  rewrite Csum_swap.
  rewrite (Csum_ext _ (fun m => if Nat.eqb m n then x m * RtoC (INR M) else 0)).
  2:{ intros m Hm. rewrite Csum_scal.
      rewrite (Csum_ext _ (fun k => tw M ((Z.of_nat n - Z.of_nat m) * Z.of_nat k)))
        by (intros; f_equal; ring).
      rewrite tw_orthogonal by lia.
      destruct (Nat.eqb_spec m n); destruct (Z.eqb_spec (Z.of_nat n - Z.of_nat m) 0); try lia; ring. }
  rewrite Csum_delta by assumption.
  rewrite (Cmult_comm (x n)), Cmult_assoc, INR_inv_mult by lia. ring.
Qed.

Theorem dft_idft M X k : (k < M)%nat -> dft M (idft M X) k = X k.
Proof.
  intros Hk. rewrite dft_tw.
  rewrite (Csum_ext _ (fun n => Csum (fun j => RtoC (/ INR M) * (X j * tw M (Z.of_nat n * (Z.of_nat j - Z.of_nat k)))) M)).
  2:{ intros n Hn. rewrite idft_tw, Csum_scal, <- Cmult_assoc, <- Csum_scal_r.
      f_equal. apply Csum_ext. intros j Hj.
      rewrite <- Cmult_assoc, <- tw_plus. do 2 f_equal. ring. }
  rewrite Csum_swap.
  rewrite (Csum_ext _ (fun j => if Nat.eqb j k then X j else 0)).
  2:{ intros j Hj. rewrite Csum_scal, Csum_scal.
      rewrite (Csum_ext _ (fun n => tw M ((Z.of_nat j - Z.of_nat k) * Z.of_nat n)))
        by (intros; f_equal; ring).
      rewrite tw_orthogonal by lia.
      destruct (Nat.eqb_spec j k); destruct (Z.eqb_spec (Z.of_nat j - Z.of_nat k) 0); try lia.
      - rewrite (Cmult_comm (X j)), Cmult_assoc, INR_inv_mult by lia. ring.
      - ring. }
  apply Csum_delta. assumption.
Qed.

(* ------------------------------------------------------- conjugation, |z|^2 *)
Lemma Cconj_plus a b : Cconj (a + b) = Cconj a + Cconj b.
Proof. unfold Cconj, Cplus; simpl. f_equal. ring. Qed.

Lemma Cconj_mult a b : Cconj (a * b) = Cconj a * Cconj b.
Proof. unfold Cconj, Cmult; simpl. f_equal; ring. Qed.

Lemma Cconj_RtoC r : Cconj (RtoC r) = RtoC r.
Proof. unfold Cconj, RtoC; simpl. f_equal. ring. Qed.

Lemma Cconj_invol a : Cconj (Cconj a) = a.
Proof. destruct a. unfold Cconj; simpl. f_equal. ring. Qed.

Lemma Cconj_tw M j : Cconj (tw M j) = tw M (- j).
Proof. symmetry. apply tw_opp. Qed.

Definition Cnorm2 (z : C) : R := (Re z * Re z + Im z * Im z)%R.

Lemma Cmult_conj z : z * Cconj z = RtoC (Cnorm2 z).
Proof. destruct z. unfold Cnorm2, Cconj, Cmult, RtoC; simpl. f_equal; ring. Qed.

Lemma Cnorm2_mult a b : Cnorm2 (a * b) = (Cnorm2 a * Cnorm2 b)%R.
Proof. destruct a, b. unfold Cnorm2; simpl. ring. Qed.

Lemma Cnorm2_Cmod z : Cnorm2 z = (Cmod z ^ 2)%R.
Proof.
  unfold Cnorm2, Cmod, Re, Im. rewrite <- Rsqr_pow2, Rsqr_sqrt; [ring|].
  nra.
Qed.

Lemma Cnorm2_nonneg z : (0 <= Cnorm2 z)%R.
Proof. unfold Cnorm2. nra. Qed.

Lemma Cnorm2_tw M j : Cnorm2 (tw M j) = 1%R.
Proof. rewrite Cnorm2_Cmod, Cmod_tw. ring. Qed.

Lemma Cnorm2_RtoC r : Cnorm2 (RtoC r) = (r * r)%R.
Proof. unfold Cnorm2; simpl. ring. Qed.

Lemma Re_sq_le_Cnorm2 z : (Re z * Re z <= Cnorm2 z)%R.
Proof. unfold Cnorm2. nra. Qed.

Lemma Cnorm2_le_1 z : (Cmod z <= 1)%R -> (Cnorm2 z <= 1)%R.
Proof.
  intros H. rewrite Cnorm2_Cmod. assert (H0 := Cmod_ge_0 z). nra.
Qed.

Lemma RtoC_Re_conj z : RtoC (Re z) = RtoC (/ 2) * (z + Cconj z).
Proof. destruct z. unfold RtoC, Cconj, Cplus, Cmult, Re; simpl. f_equal; field. Qed.

(* the sum that appears in idft, without the 1/M *)
Lemma idft_sum M X n : (0 < M)%nat ->
  Csum (fun k => X k * tw M (Z.of_nat k * Z.of_nat n)) M = RtoC (INR M) * idft M X n.
Proof.
  intros HM. rewrite idft_tw, Cmult_assoc, (Cmult_comm (RtoC (INR M))), INR_inv_mult by assumption.
  ring.
Qed.

(* Plancherel / Parseval *)
Theorem dft_plancherel M x y :
  Csum (fun k => dft M x k * Cconj (dft M y k)) M
  = RtoC (INR M) * Csum (fun n => x n * Cconj (y n)) M.
Proof.
  destruct (Nat.eq_dec M 0) as [->|HM]; [unfold Csum; ring|].
  rewrite (Csum_ext _ (fun k => Csum (fun n => Cconj (y n) * (dft M x k * tw M (Z.of_nat k * Z.of_nat n))) M)).
  2:{ intros k Hk. rewrite (dft_tw M y), Csum_conj, <- Csum_scal. apply Csum_ext. intros n Hn.
      rewrite Cconj_mult, Cconj_tw, Z.opp_involutive. ring. }
  rewrite Csum_swap, <- Csum_scal. apply Csum_ext. intros n Hn.
  rewrite Csum_scal, idft_sum, idft_dft by lia. ring.
Qed.

Theorem dft_parseval M x :
  Rsum (fun k => Cnorm2 (dft M x k)) M = (INR M * Rsum (fun n => Cnorm2 (x n)) M)%R.
Proof.
  apply RtoC_inj. rewrite RtoC_mult, <- !Csum_RtoC.
  rewrite (Csum_ext _ (fun k => dft M x k * Cconj (dft M x k))) by (intros; symmetry; apply Cmult_conj).
  rewrite dft_plancherel. f_equal. apply Csum_ext. intros. apply Cmult_conj.
Qed.

Theorem idft_parseval M X : (0 < M)%nat ->
  Rsum (fun n => Cnorm2 (idft M X n)) M = (/ INR M * Rsum (fun k => Cnorm2 (X k)) M)%R.
Proof.
  intros HM.
  assert (H := dft_parseval M (idft M X)).
  rewrite (Rsum_ext _ (fun k => Cnorm2 (X k))) in H by (intros; rewrite dft_idft by assumption; reflexivity).
  rewrite H. field. apply not_0_INR. lia.
Qed.

(* ------------------------------------------------------- circular shift theorem *)
Lemma Csum_cyc f M s : (s <= M)%nat ->
  Csum (fun n => f ((n + s) mod M)%nat) M = Csum f M.
Proof.
  intros Hs. destruct (Nat.eq_dec M 0) as [->|HM]; [reflexivity|].
  set (g := fun n => f ((n + s) mod M)%nat).
  assert (E1 : Csum g M = Csum g ((M - s) + s)) by (f_equal; lia).
  assert (E2 : Csum f M = Csum f (s + (M - s))) by (f_equal; lia).
  rewrite E1, E2, !Csum_split. unfold g.
  rewrite Cplus_comm. f_equal.
  - apply Csum_ext. intros i Hi.
    replace (M - s + i + s)%nat with (i + 1 * M)%nat by lia.
    rewrite Nat.mod_add, Nat.mod_small by lia. reflexivity.
  - apply Csum_ext. intros i Hi.
    rewrite Nat.mod_small by lia. f_equal. lia.
Qed.

Lemma tw_mod_nat M (a : nat) (c : Z) : (0 < M)%nat ->
  tw M (c * Z.of_nat (a mod M)) = tw M (c * Z.of_nat a).
Proof.
  intros HM. rewrite Nat2Z.inj_mod.
  rewrite (Z.div_mod (Z.of_nat a) (Z.of_nat M)) at 2 by lia.
  replace (c * (Z.of_nat M * (Z.of_nat a / Z.of_nat M) + Z.of_nat a mod Z.of_nat M))%Z
    with (c * (Z.of_nat a mod Z.of_nat M) + Z.of_nat M * (c * (Z.of_nat a / Z.of_nat M)))%Z by ring.
  rewrite tw_shift by assumption. reflexivity.
Qed.

(* delaying x circularly by m samples multiplies its spectrum by w^(-k m) *)
Definition circ_delay (M m : nat) (x : nat -> C) (n : nat) : C := x ((n + (M - m)) mod M)%nat.

Theorem dft_shift M m x k : (m <= M)%nat ->
  dft M (circ_delay M m x) k = tw M (- (Z.of_nat k * Z.of_nat m)) * dft M x k.
Proof.
  intros Hm. destruct (Nat.eq_dec M 0) as [->|HM]; [unfold dft, Csum; ring|].
  rewrite !dft_tw. unfold circ_delay.
  rewrite <- (Csum_cyc (fun n => x n * tw M (- (Z.of_nat k * Z.of_nat n))) M (M - m)) by lia.
  rewrite <- Csum_scal. apply Csum_ext. intros n Hn.
  set (j := ((n + (M - m)) mod M)%nat).
  assert (E : tw M (- (Z.of_nat k * Z.of_nat n))
              = tw M (- (Z.of_nat k * Z.of_nat m)) * tw M (- (Z.of_nat k * Z.of_nat j))).
  { rewrite <- tw_plus. unfold j.
    replace (- (Z.of_nat k * Z.of_nat m) + - (Z.of_nat k * Z.of_nat ((n + (M - m)) mod M)))%Z
      with ((- Z.of_nat k) * Z.of_nat ((n + (M - m)) mod M) + - (Z.of_nat k * Z.of_nat m))%Z by ring.
    rewrite tw_plus, tw_mod_nat, <- tw_plus by lia.
    rewrite Nat2Z.inj_add, Nat2Z.inj_sub by lia.
    replace (- Z.of_nat k * (Z.of_nat n + (Z.of_nat M - Z.of_nat m)) + - (Z.of_nat k * Z.of_nat m))%Z
      with (- (Z.of_nat k * Z.of_nat n) + Z.of_nat M * (- Z.of_nat k))%Z by ring.
    rewrite tw_shift by lia. reflexivity. }
  rewrite E. ring.
Qed.

(* ------------------------------------------------- conjugation and index negation *)
Lemma tw_negidx M k (n : Z) : (k < M)%nat ->
  tw M (Z.of_nat (negidx M k) * n) = tw M (- (Z.of_nat k * n)).
Proof.
  intros Hk. destruct k.
  - rewrite negidx_0. simpl. reflexivity.
  - rewrite negidx_pos by lia. rewrite Nat2Z.inj_sub by lia.
    replace ((Z.of_nat M - Z.of_nat (S k)) * n)%Z with (- (Z.of_nat (S k) * n) + Z.of_nat M * n)%Z by ring.
    apply tw_shift. lia.
Qed.

Theorem dft_conj M x k : (k < M)%nat ->
  Cconj (dft M x k) = dft M (fun n => Cconj (x n)) (negidx M k).
Proof.
  intros Hk. rewrite !dft_tw, Csum_conj. apply Csum_ext. intros n Hn.
  rewrite Cconj_mult, Cconj_tw, Z.opp_involutive. f_equal.
  replace (- (Z.of_nat (negidx M k) * Z.of_nat n))%Z
    with (Z.of_nat (negidx M k) * (- Z.of_nat n))%Z by ring.
  rewrite tw_negidx by assumption. f_equal. ring.
Qed.

(* conjugate symmetry of the spectrum of a real signal *)
Theorem dft_real_hermitian M x k : (k < M)%nat ->
  (forall n, (n < M)%nat -> Cconj (x n) = x n) ->
  Cconj (dft M x k) = dft M x (negidx M k).
Proof.
  intros Hk Hx. rewrite dft_conj by assumption. apply dft_ext. assumption.
Qed.

Theorem idft_conj M X n :
  Cconj (idft M X n) = idft M (fun k => Cconj (X (negidx M k))) n.
Proof.
  destruct (Nat.eq_dec M 0) as [->|HM].
  { unfold idft; simpl. rewrite Cconj_mult, Cconj_RtoC. f_equal. unfold Cconj, RtoC; simpl; f_equal; ring. }
  rewrite !idft_tw, Cconj_mult, Cconj_RtoC, Csum_conj. f_equal.
  rewrite <- (Csum_negidx (fun k => Cconj (X k * tw M (Z.of_nat k * Z.of_nat n)))).
  apply Csum_ext. intros k Hk.
  rewrite Cconj_mult, Cconj_tw. f_equal.
  replace (- (Z.of_nat (negidx M k) * Z.of_nat n))%Z
    with (Z.of_nat (negidx M k) * (- Z.of_nat n))%Z by ring.
  rewrite tw_negidx by assumption. f_equal. ring.
Qed.

(* Hermitian symmetrisation of a response / spectrum *)
Definition herm (M : nat) (H : nat -> C) (k : nat) : C :=
  RtoC (/ 2) * (H k + Cconj (H (negidx M k))).

Lemma herm_hermitian M H k : (k < M)%nat -> Cconj (herm M H k) = herm M H (negidx M k).
Proof.
  intros Hk. unfold herm. rewrite negidx_invol by assumption.
  rewrite Cconj_mult, Cconj_RtoC, Cconj_plus, Cconj_invol. ring.
Qed.

(* taking the real part after the inverse transform = symmetrising the spectrum *)
Theorem Re_idft_herm M Z n : RtoC (Re (idft M Z n)) = idft M (herm M Z) n.
Proof.
  rewrite RtoC_Re_conj, idft_conj. unfold herm.
  rewrite Cmult_plus_distr_l.
  rewrite <- (idft_linear M (RtoC (/ 2)) (RtoC (/ 2)) Z (fun k => Cconj (Z (negidx M k)))).
  apply idft_ext. intros. ring.
Qed.

(* ... and when the spectrum is H.X with X Hermitian (X = dft of a real signal), only the
   response needs symmetrising *)
Theorem Re_idft_filter M H X n :
  (forall k, (k < M)%nat -> Cconj (X k) = X (negidx M k)) ->
  RtoC (Re (idft M (fun k => H k * X k) n)) = idft M (fun k => herm M H k * X k) n.
Proof.
  intros HX. rewrite Re_idft_herm. apply idft_ext. intros k Hk. unfold herm.
  rewrite Cconj_mult, HX by (apply negidx_lt; lia). rewrite negidx_invol by assumption. ring.
Qed.
