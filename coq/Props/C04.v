(* C04: Signals keep times and values aligned, copy independently and combine pointwise.
   Statements only; proofs in Proofs/C04_proofs.v, C04_specs.v, C04_interp.v.
   Model: Model/SignalModel.v (heap model of pyrex/signals.py as written). *)
From Coq Require Import List QArith Bool Arith.
From PyrexLib Require Import InterpQ.
From PyrexModel Require Import SignalModel.
From PyrexProofs Require Import C04_proofs C04_specs C04_interp.
Import ListNotations.
Open Scope Q_scope.

(* 1. one value per time sample, after ANY history (even with the aliasing of the unrepaired code) *)
Theorem len_invariant : forall alias ops o,
  In o (objs (run_state alias ops)) ->
  length (values_of (run_state alias ops) o) = length (times_of (run_state alias ops) o).
Proof. exact len_invariant_lemma. Qed.
Print Assumptions len_invariant.

Theorem constructor_pads_and_truncates : forall n vs, length (pad_trunc n vs) = n.
Proof. exact pad_trunc_length. Qed.
Print Assumptions constructor_pads_and_truncates.

(* 2. after ANY history all arrays held by the caller (arguments) and by the signal objects
   (times and values of every operand and every result) are pairwise distinct buffers ... *)
Theorem no_sharing : forall ops, NoDup (holders (run_state false ops)).
Proof. exact no_sharing_lemma. Qed.
Print Assumptions no_sharing.

(* ... so an in-place write through one of them changes no other *)
Theorem write_frame : forall st c c' f, c' <> c -> cell (write st c f) c' = cell st c'.
Proof. exact write_frame_lemma. Qed.
Print Assumptions write_frame.

(* F6: with `new_signal.times = new_times` (the code before the repair) the statement is false:
   f.with_times(t).shift(1) changes the caller's t *)
Theorem no_sharing_refuted_with_alias :
  ~ NoDup (holders (run_state true f6_history)) /\
  map qpair (cell (run_state true f6_history) 1) = [(2, 1); (3, 1)]%Z /\
  map qpair (cell (run_state false f6_history) 1) = [(1, 1); (2, 1)]%Z.
Proof. exact no_sharing_refuted_with_alias_lemma. Qed.
Print Assumptions no_sharing_refuted_with_alias.

(* 3. addition: defined iff equal time grids and compatible types, else ValueError and no change *)
Theorem add_defined_iff : forall st a b,
  (exists st' id, do_add st a b = (st', RObj id)) <->
  (eqQ_list (times_of st a) (times_of st b) /\ compatible (s_vt a) (s_vt b) = true).
Proof. exact add_defined_iff_lemma. Qed.
Print Assumptions add_defined_iff.

Theorem add_refused : forall st a b,
  ~ (eqQ_list (times_of st a) (times_of st b) /\ compatible (s_vt a) (s_vt b) = true) ->
  do_add st a b = (st, RErr ValueErr).
Proof. exact add_refused_lemma. Qed.
Print Assumptions add_refused.

(* value-type table (all 16 combinations): undefined is neutral, equal types add, others refuse *)
Theorem add_type_rule : forall a b,
  add_type a b = if compatible a b then Some (if vt_eqb a Undef then b else a) else None.
Proof. exact add_type_table. Qed.
Print Assumptions add_type_rule.

(* result: class table (all 9 combinations), coerced type, same grid, pointwise values;
   EmptySignal + x is a copy of x, FunctionSignal + EmptySignal a copy of the FunctionSignal *)
Theorem add_spec : forall st a b st' id,
  obj_wfL (lens st) a -> obj_wfL (lens st) b ->
  do_add st a b = (st', RObj id) ->
  id = length (objs st) /\
  exists t v, result_obs st' id = Some (add_cls (s_cls a) (s_cls b), false, add_vt (s_vt a) (s_vt b), t, v) /\
    eqQ_list t (times_of st a) /\
    match s_cls a, s_cls b with
    | Empty, Empty => v = zeros (length (times_of st b))
    | Empty, _ => v = values_of st b
    | Fun, Empty => v = values_of st a
    | Fun, Fun => eqQ_list v (map2 Qplus (values_of st a) (fun_values (times_of st a) (s_comps b)))
    | _, _ => eqQ_list v (map2 Qplus (values_of st a) (values_of st b))
    end.
Proof. exact add_result_lemma. Qed.
Print Assumptions add_spec.

(* the empty signal is neutral also for function backing: EmptySignal + FunctionSignal and FunctionSignal +
   EmptySignal are function-backed with exactly the FunctionSignal's components (so a later re-gridding
   re-evaluates the function, with_times_spec_function, instead of interpolating stored samples) *)
Theorem add_with_empty_keeps_function : forall st a b st' id,
  ((s_cls a = Empty /\ s_cls b = Fun) \/ (s_cls a = Fun /\ s_cls b = Empty)) ->
  do_add st a b = (st', RObj id) ->
  exists o', get_obj st' id = Some o' /\ s_cls o' = Fun /\
             s_comps o' = s_comps (match s_cls a with Empty => b | _ => a end).
Proof. exact add_with_empty_keeps_function_lemma. Qed.
Print Assumptions add_with_empty_keeps_function.

(* scaling: a new object on the same grid with the same type; every value multiplied *)
Theorem scale_spec : forall st o f st' r,
  obj_wfL (lens st) o -> do_scale st o f = (st', r) ->
  r = RObj (length (objs st)) /\
  exists v, result_obs st' (length (objs st)) =
              Some (match s_cls o with Fun => Fun | _ => Sig end, false, s_vt o, times_of st o, v) /\
    match s_cls o with
    | Fun => v = fun_values (times_of st o) (scale_comps f (s_comps o))
    | _ => v = map f (values_of st o)
    end.
Proof. exact scale_result_lemma. Qed.
Print Assumptions scale_spec.

Theorem scale_spec_function_signal : forall ts cs q,
  eqQ_list (fun_values ts (scale_comps (fun v => qmul v q) cs)) (map (fun x => x * q) (fun_values ts cs)).
Proof. exact fun_scale_values. Qed.
Print Assumptions scale_spec_function_signal.

Theorem scale_in_place_spec : forall st i o f vc,
  s_vals o = Some vc -> (vc < length (arrs st))%nat ->
  do_iscale st i o f = (write st vc (fun _ v => f v), RSame i) /\
  cell (write st vc (fun _ v => f v)) vc = map f (cell st vc) /\
  (forall c, c <> vc -> cell (write st vc (fun _ v => f v)) c = cell st c).
Proof. exact iscale_result_lemma. Qed.
Print Assumptions scale_in_place_spec.

(* 4. re-gridding *)
Theorem with_times_spec_sampled : forall st o tc st' r,
  s_cls o = Sig -> do_with_times false st o tc = (st', r) ->
  match interp_all (times_of st o) (values_of st o) (cell st tc) with
  | None => r = RErr ValueErr /\ st' = st
  | Some nv => r = RObj (length (objs st)) /\
               result_obs st' (length (objs st)) = Some (Sig, false, s_vt o, cell st tc, nv) /\
               nv = map (fun x => match interp (times_of st o) (values_of st o) x with Some v => v | None => 0 end)
                        (cell st tc)
  end.
Proof. exact with_times_sig_lemma. Qed.
Print Assumptions with_times_spec_sampled.

(* ... where, on a strictly increasing grid, interp is: the stored value at shared sample times,
   the straight line between neighbouring samples, zero outside the original span *)
Theorem interp_spec : forall x0 xp f0 fp x,
  chain x0 xp -> length fp = length xp ->
  exists v, interp (x0 :: xp) (f0 :: fp) x = Some v /\
    (forall j xj fj, nth_error (x0 :: xp) j = Some xj -> nth_error (f0 :: fp) j = Some fj -> x == xj -> v = fj) /\
    (forall j a b fa fb, nth_error (x0 :: xp) j = Some a -> nth_error (x0 :: xp) (S j) = Some b ->
        nth_error (f0 :: fp) j = Some fa -> nth_error (f0 :: fp) (S j) = Some fb ->
        a < x -> x < b -> v == fa + (fb - fa) / (b - a) * (x - a)) /\
    (x < x0 \/ last (x0 :: xp) 0 < x -> v = 0).
Proof. exact interp_spec_lemma. Qed.
Print Assumptions interp_spec.

Theorem with_times_spec_empty : forall st o tc st' r,
  s_cls o = Empty -> do_with_times false st o tc = (st', r) ->
  r = RObj (length (objs st)) /\
  result_obs st' (length (objs st)) = Some (Empty, false, s_vt o, cell st tc, zeros (length (cell st tc))).
Proof. exact with_times_empty_lemma. Qed.
Print Assumptions with_times_spec_empty.

(* a function-backed signal re-evaluates its function exactly on the new grid *)
Theorem with_times_spec_function : forall st o tc st' id,
  s_cls o = Fun -> do_with_times false st o tc = (st', RObj id) ->
  id = length (objs st) /\
  result_obs st' id = Some (Fun, false, s_vt o, cell st tc, fun_values (cell st tc) (s_comps o)).
Proof. exact with_times_fun_lemma. Qed.
Print Assumptions with_times_spec_function.

(* non-vacuity: a concrete history exercising padding, Signal+FunctionSignal, re-gridding of both
   kinds and a refused addition *)
Theorem demo_history_outcomes :
  map out_code (snd (run false init demo_history)) =
  [(2, 0); (2, 0); (0, 0); (0, 1); (0, 2); (2, 0); (0, 3); (0, 4); (0, 5); (3, 0)]%Z.
Proof. exact demo_outcomes. Qed.
Print Assumptions demo_history_outcomes.
