(* C06: FunctionSignal.values equals the eager evaluation of its definition. *)
From Coq Require Import List QArith Qround ZArith Bool Arith Lia.
From PyrexLib Require Import InterpQ.
From PyrexModel Require Import SignalModel FunValuesModel.
From PyrexProofs Require Import C04_proofs C04_specs.
Import ListNotations.
Open Scope Q_scope.

Section Values.
  Variable F : Type.
  Variable apply_filters : list F -> list Q -> list Q.
  (* _apply_filters returns np.real(filtered_vals[:len(input_vals)]) *)
  Hypothesis apply_filters_length : forall fs xs, length (apply_filters fs xs) = length xs.

  Notation fcomp := (fcomp F).
  Notation full_times := (full_times F).
  Notation window := (window F).
  Notation contrib := (contrib F apply_filters).
  Notation values_code := (values_code F apply_filters).

  Lemma pre_times_length : forall t dt n, length (pre_times t dt n) = n.
  Proof. intros. unfold pre_times. rewrite map_length, seq_length. reflexivity. Qed.
  Lemma post_times_length : forall t dt n, length (post_times t dt n) = n.
  Proof. intros. unfold post_times. rewrite map_length, seq_length. reflexivity. Qed.

  Lemma full_times_length : forall ts c,
    length (full_times ts c) =
    (n_points (c_lead (base F c)) (dt_of ts) + length ts + n_points (c_trail (base F c)) (dt_of ts))%nat.
  Proof.
    intros. unfold full_times. rewrite !app_length, pre_times_length, post_times_length. lia.
  Qed.

  (* window alignment: position n_before + j of the extended grid is the signal's own j-th sample *)
  Lemma window_alignment : forall ts c j, (j < length ts)%nat ->
    nth (n_points (c_lead (base F c)) (dt_of ts) + j) (full_times ts c) 0 = nth j ts 0.
  Proof.
    intros ts c j Hj. unfold full_times.
    rewrite app_nth2 by (rewrite pre_times_length; lia). rewrite pre_times_length.
    replace (n_points (c_lead (base F c)) (dt_of ts) + j - n_points (c_lead (base F c)) (dt_of ts))%nat with j by lia.
    apply app_nth1. exact Hj.
  Qed.

  Lemma skipn_app_exact : forall A (a b : list A), skipn (length a) (a ++ b) = b.
  Proof. induction a; simpl; auto. Qed.
  Lemma firstn_app_exact : forall A (a b : list A), firstn (length a) (a ++ b) = a.
  Proof. induction a; simpl; intros; auto. f_equal. apply IHa. Qed.

  Lemma window_map : forall ts c (g : Q -> Q), window ts c (map g (full_times ts c)) = map g ts.
  Proof.
    intros. unfold window, full_times. rewrite !map_app.
    rewrite <- (pre_times_length (nth 0 ts 0) (dt_of ts) (n_points (c_lead (base F c)) (dt_of ts))) at 1.
    rewrite <- (map_length g (pre_times _ _ _)). rewrite skipn_app_exact.
    rewrite <- (map_length g ts) at 1. apply firstn_app_exact.
  Qed.

  Lemma window_length : forall ts c l, length l = length (full_times ts c) -> length (window ts c l) = length ts.
  Proof.
    intros ts c l H. unfold window. rewrite firstn_length, skipn_length, H, full_times_length. lia.
  Qed.

  Lemma full_vals_length : forall ts c, length (full_vals F apply_filters ts c) = length (full_times ts c).
  Proof.
    intros. unfold full_vals. destruct (filters F c).
    - unfold func_vals. apply map_length.
    - rewrite apply_filters_length. unfold func_vals. apply map_length.
  Qed.

  Lemma contrib_length : forall ts c, length (contrib ts c) = length ts.
  Proof. intros. unfold contrib. apply window_length. apply full_vals_length. Qed.

  (* without filters the buffers are irrelevant: the cropped evaluation on the extended grid is the
     evaluation on the signal's own times *)
  Lemma contrib_nofilter : forall ts c, filters F c = [] ->
    contrib ts c = map (fun t => comp_val t (base F c)) ts.
  Proof.
    intros ts c H. unfold contrib, full_vals. rewrite H. unfold func_vals. apply window_map.
  Qed.

  Lemma fold_acc_length : forall ts cs acc, length acc = length ts ->
    length (fold_left (fun a c => map2 qadd a (contrib ts c)) cs acc) = length ts.
  Proof.
    induction cs; simpl; intros acc H; [exact H|]. apply IHcs.
    rewrite map2_length, H, contrib_length. apply Nat.min_id.
  Qed.

  (* one value per time sample *)
  Lemma values_code_length : forall ts cs, length (values_code ts cs) = length ts.
  Proof. intros. unfold values_code. apply fold_acc_length. apply zeros_length. Qed.

  Lemma nth_map2 : forall f a b j, (j < length a)%nat -> (j < length b)%nat ->
    nth j (map2 f a b) 0 = f (nth j a 0) (nth j b 0).
  Proof.
    induction a; destruct b; simpl; intros; try lia. destruct j; [reflexivity|]. apply IHa; lia.
  Qed.

  Lemma nth_zeros : forall n j, nth j (zeros n) 0 = 0.
  Proof. induction n; destruct j; simpl; auto. Qed.

  Fixpoint sumQ (l : list Q) : Q := match l with [] => 0 | x :: r => x + sumQ r end.

  Lemma fold_acc_nth : forall ts cs acc j, length acc = length ts -> (j < length ts)%nat ->
    nth j (fold_left (fun a c => map2 qadd a (contrib ts c)) cs acc) 0 ==
    nth j acc 0 + sumQ (map (fun c => nth j (contrib ts c) 0) cs).
  Proof.
    induction cs; simpl; intros acc j H Hj; [ring|].
    rewrite IHcs by (try rewrite map2_length, H, contrib_length, Nat.min_id; auto).
    rewrite nth_map2 by (try rewrite contrib_length; lia). unfold qadd. rewrite qn_eq. ring.
  Qed.

  (* VALUES = EAGER EVALUATION: sample j of the lazily assembled values is the sum over the
     components of sample j of (scaled function on the buffer-extended grid, passed once through
     that component's filter list, cropped to the signal's own times) *)
  Theorem values_eq_eager_lemma : forall ts cs j, (j < length ts)%nat ->
    nth j (values_code ts cs) 0 == sumQ (map (fun c => nth j (contrib ts c) 0) cs).
  Proof.
    intros. unfold values_code. rewrite fold_acc_nth by (try apply zeros_length; auto).
    rewrite nth_zeros. ring.
  Qed.

  Lemma map2_map_l : forall (g h : Q -> Q) ts, map2 qadd (map g ts) (map h ts) = map (fun t => qadd (g t) (h t)) ts.
  Proof. induction ts; simpl; auto. f_equal. exact IHts. Qed.

  Lemma fold_nofilter : forall ts cs (a0 : Q -> Q),
    Forall (fun c => filters F c = []) cs ->
    fold_left (fun a c => map2 qadd a (contrib ts c)) cs (map a0 ts) =
    map (fun t => fold_left (fun a c => qadd a (comp_val t c)) (map (base F) cs) (a0 t)) ts.
  Proof.
    induction cs; simpl; intros a0 H; [reflexivity|]. inversion H; subst.
    rewrite contrib_nofilter by assumption. rewrite map2_map_l. rewrite IHcs by assumption. reflexivity.
  Qed.

  Lemma zeros_map : forall (ts : list Q), zeros (length ts) = map (fun _ => 0) ts.
  Proof. induction ts; simpl; auto. f_equal. exact IHts. Qed.

  (* link to C04: with no filters set, the code's values are exactly the thunk used by the C04 model,
     whatever the buffers are *)
  Theorem values_code_nofilter_lemma : forall ts cs,
    Forall (fun c => filters F c = []) cs ->
    values_code ts cs = fun_values ts (map (base F) cs).
  Proof.
    intros. unfold values_code, fun_values. rewrite zeros_map. apply fold_nofilter. assumption.
  Qed.
End Values.

(* the number of buffer samples is the ceiling of buffer/dt: the extended grid covers the buffer *)
Lemma n_points_ceiling : forall b dt, 0 < dt -> 0 <= b ->
  b <= inject_Z (Z.of_nat (n_points b dt)) * dt /\
  inject_Z (Z.of_nat (n_points b dt)) * dt < b + dt.
Proof.
  intros b dt Hdt Hb. unfold n_points.
  set (q := b / dt). assert (Hq : 0 <= q) by (unfold q; apply Qle_shift_div_l; [exact Hdt|rewrite Qmult_0_l; exact Hb]).
  assert (Hk : (0 <= Qfloor q)%Z).
  { change 0%Z with (Qfloor 0). apply Qfloor_resp_le. exact Hq. }
  assert (Bq : b == q * dt) by (unfold q; field; intro X; rewrite X in Hdt; apply (Qlt_irrefl 0); exact Hdt).
  pose proof (Qfloor_le q) as L1. pose proof (Qlt_floor q) as L2.
  destruct (Qeq_bool q (inject_Z (Qfloor q))) eqn:E.
  - apply Qeq_bool_iff in E. rewrite Nat.add_0_r, Z2Nat.id by exact Hk. rewrite Bq, <- E. split.
    + apply Qle_refl.
    + rewrite <- (Qplus_0_r (q * dt)) at 1. apply Qplus_lt_r. exact Hdt.
  - assert (NE : ~ q == inject_Z (Qfloor q)) by (intro X; apply Qeq_bool_iff in X; congruence).
    rewrite Nat2Z.inj_add, Z2Nat.id by exact Hk. simpl Z.of_nat. rewrite inject_Z_plus. split.
    + rewrite Bq. apply Qmult_le_compat_r; [|apply Qlt_le_weak; exact Hdt]. apply Qlt_le_weak.
      rewrite <- inject_Z_plus. exact L2.
    + rewrite Bq. setoid_replace (q * dt + dt) with ((q + 1) * dt) by ring.
      apply Qmult_lt_compat_r; [exact Hdt|]. apply Qplus_lt_l.
      destruct (Qle_lt_or_eq _ _ L1) as [X|X]; [exact X|exfalso; apply NE; symmetry; exact X].
Qed.
