(* C07: real-number and list lemmas used by the Askaryan proofs. *)
From Coq Require Import Reals List Bool ZArith Lra Lia.
From PyrexLib Require Import RealPrims.
From PyrexModel Require Import AskaryanIndex AskaryanModel.
From PyrexProofs Require Import C07_index.
Import ListNotations.
Open Scope R_scope.

(* ------------------------------------------------------------------ *)
(* --- integer parts --- *)
(* ------------------------------------------------------------------ *)

Lemma Rfloor_Z_spec : forall x, IZR (Rfloor_Z x) <= x < IZR (Rfloor_Z x) + 1.
Proof.
  intros x. unfold Rfloor_Z. rewrite minus_IZR.
  destruct (archimed x) as [H1 H2]. lra.
Qed.

Lemma Rfloor_Z_unique : forall x (z : Z), IZR z <= x < IZR z + 1 -> Rfloor_Z x = z.
Proof.
  intros x z H. pose proof (Rfloor_Z_spec x) as S.
  assert (H1 : (Rfloor_Z x < z + 1)%Z) by (apply lt_IZR; rewrite plus_IZR; lra).
  assert (H2 : (z < Rfloor_Z x + 1)%Z) by (apply lt_IZR; rewrite plus_IZR; lra).
  lia.
Qed.

Lemma Rfloor_Z_plus : forall x (m : Z), Rfloor_Z (x + IZR m) = (Rfloor_Z x + m)%Z.
Proof.
  intros x m. apply Rfloor_Z_unique. rewrite plus_IZR.
  pose proof (Rfloor_Z_spec x). lra.
Qed.

Lemma Rfloor_Z_IZR : forall z : Z, Rfloor_Z (IZR z) = z.
Proof. intros z. apply Rfloor_Z_unique. lra. Qed.

Lemma Rtrunc_IZR : forall z : Z, Rtrunc (IZR z) = z.
Proof.
  intros z. unfold Rtrunc. destruct (Rltb (IZR z) 0).
  - rewrite <- opp_IZR, Rfloor_Z_IZR. lia.
  - apply Rfloor_Z_IZR.
Qed.

Lemma Rtrunc_nonneg_eq : forall x, 0 <= x -> Rtrunc x = Rfloor_Z x.
Proof.
  intros x Hx. unfold Rtrunc. destruct (Rltb x 0) eqn:E.
  - apply Rltb_true in E. lra.
  - reflexivity.
Qed.

Lemma Rtrunc_nonneg : forall x, 0 <= x -> (0 <= Rtrunc x)%Z.
Proof.
  intros x Hx. rewrite Rtrunc_nonneg_eq by assumption.
  pose proof (Rfloor_Z_spec x) as S.
  assert (H : (0 < Rfloor_Z x + 1)%Z) by (apply lt_IZR; rewrite plus_IZR; lra).
  lia.
Qed.

Lemma Rtrunc_bound : forall x, 0 <= x -> IZR (Rtrunc x) <= x < IZR (Rtrunc x) + 1.
Proof.
  intros x Hx. rewrite Rtrunc_nonneg_eq by assumption. apply Rfloor_Z_spec.
Qed.

Lemma Rtrunc_Rfloor : forall x, Rtrunc (Rfloor x) = Rfloor_Z x.
Proof. intros x. unfold Rfloor. apply Rtrunc_IZR. Qed.

(* ------------------------------------------------------------------ *)
(* --- periodicity with an integer number of turns --- *)
(* ------------------------------------------------------------------ *)

Lemma IZR_INR_to_nat : forall k : Z, (0 <= k)%Z -> INR (Z.to_nat k) = IZR k.
Proof. intros k Hk. rewrite INR_IZR_INZ, Z2Nat.id by assumption. reflexivity. Qed.

Lemma cos_period_Z : forall x (k : Z), cos (x + 2 * PI * IZR k) = cos x.
Proof.
  intros x k. destruct (Z_le_gt_dec 0 k) as [Hk|Hk].
  - rewrite <- (IZR_INR_to_nat k) by assumption.
    replace (x + 2 * PI * INR (Z.to_nat k)) with (x + 2 * INR (Z.to_nat k) * PI) by ring.
    apply cos_period.
  - rewrite <- (cos_period (x + 2 * PI * IZR k) (Z.to_nat (- k))).
    f_equal. rewrite IZR_INR_to_nat by lia. rewrite opp_IZR. ring.
Qed.

Lemma sin_period_Z : forall x (k : Z), sin (x + 2 * PI * IZR k) = sin x.
Proof.
  intros x k. destruct (Z_le_gt_dec 0 k) as [Hk|Hk].
  - rewrite <- (IZR_INR_to_nat k) by assumption.
    replace (x + 2 * PI * INR (Z.to_nat k)) with (x + 2 * INR (Z.to_nat k) * PI) by ring.
    apply sin_period.
  - rewrite <- (sin_period (x + 2 * PI * IZR k) (Z.to_nat (- k))).
    f_equal. rewrite IZR_INR_to_nat by lia. rewrite opp_IZR. ring.
Qed.

(* ------------------------------------------------------------------ *)
(* --- rsum f n = f 0 + ... + f (n-1) --- *)
(* ------------------------------------------------------------------ *)

Lemma fold_right_Rplus_acc : forall (l : list R) a,
  fold_right Rplus a l = fold_right Rplus 0 l + a.
Proof.
  induction l as [|x l IH]; intros a; simpl.
  - ring.
  - rewrite IH. ring.
Qed.

Lemma rsum_0 : forall f, rsum f 0 = 0.
Proof. reflexivity. Qed.

Lemma rsum_S : forall f n, rsum f (S n) = rsum f n + f n.
Proof.
  intros f n. unfold rsum. rewrite seq_S, map_app, fold_right_app. simpl.
  rewrite fold_right_Rplus_acc. ring.
Qed.

Lemma rsum_ext : forall n f g, (forall k, (k < n)%nat -> f k = g k) -> rsum f n = rsum g n.
Proof.
  induction n as [|n IH]; intros f g H.
  - reflexivity.
  - rewrite !rsum_S. rewrite (IH f g) by (intros k Hk; apply H; lia).
    rewrite H by lia. reflexivity.
Qed.

Lemma rsum_scal : forall n f c, rsum (fun k => c * f k) n = c * rsum f n.
Proof.
  induction n as [|n IH]; intros f c.
  - rewrite !rsum_0. ring.
  - rewrite !rsum_S, IH. ring.
Qed.

Lemma rsum_zero : forall n f, (forall k, (k < n)%nat -> f k = 0) -> rsum f n = 0.
Proof.
  induction n as [|n IH]; intros f H.
  - reflexivity.
  - rewrite rsum_S, IH by (intros k Hk; apply H; lia).
    rewrite H by lia. ring.
Qed.

Lemma rsum_plus : forall n f g, rsum (fun k => f k + g k) n = rsum f n + rsum g n.
Proof.
  induction n as [|n IH]; intros f g.
  - rewrite !rsum_0. ring.
  - rewrite !rsum_S, IH. ring.
Qed.

(* peel the first term instead of the last *)
Lemma rsum_S_l : forall n f, rsum f (S n) = f 0%nat + rsum (fun i => f (S i)) n.
Proof.
  induction n as [|n IH]; intros f.
  - rewrite rsum_S, !rsum_0. ring.
  - rewrite rsum_S, IH, rsum_S. ring.
Qed.

(* ------------------------------------------------------------------ *)
(* --- np.diff --- *)
(* ------------------------------------------------------------------ *)

Lemma diff_cons2 : forall a b l, diff (a :: b :: l) = (b - a) :: diff (b :: l).
Proof. reflexivity. Qed.

Lemma diff_length : forall l, length (diff l) = pred (length l).
Proof.
  induction l as [|a l IH]; [reflexivity|].
  destruct l as [|b l]; [reflexivity|].
  rewrite diff_cons2. simpl length in *. rewrite IH. reflexivity.
Qed.

Lemma diff_nth : forall l j, (S j < length l)%nat -> nth j (diff l) 0 = nth (S j) l 0 - nth j l 0.
Proof.
  induction l as [|a l IH]; intros j H.
  - simpl in H. lia.
  - destruct l as [|b l].
    + simpl in H. lia.
    + rewrite diff_cons2. destruct j as [|j].
      * reflexivity.
      * change (nth (S j) ((b - a) :: diff (b :: l)) 0) with (nth j (diff (b :: l)) 0).
        rewrite IH by (simpl in *; lia). reflexivity.
Qed.

Lemma diff_map_scale : forall c l, diff (map (fun x => c * x) l) = map (fun x => c * x) (diff l).
Proof.
  intros c. induction l as [|a l IH]; [reflexivity|].
  destruct l as [|b l]; [reflexivity|].
  rewrite diff_cons2. change (map (fun x => c * x) (a :: b :: l))
    with (c * a :: c * b :: map (fun x => c * x) l).
  rewrite diff_cons2.
  change (c * b :: map (fun x => c * x) l) with (map (fun x => c * x) (b :: l)).
  rewrite IH. simpl map. f_equal. ring.
Qed.

Lemma diff_map_div : forall c l, diff (map (fun x => x / c) l) = map (fun x => x / c) (diff l).
Proof.
  intros c. induction l as [|a l IH]; [reflexivity|].
  destruct l as [|b l]; [reflexivity|].
  rewrite diff_cons2. change (map (fun x => x / c) (a :: b :: l))
    with (a / c :: b / c :: map (fun x => x / c) l).
  rewrite diff_cons2.
  change (b / c :: map (fun x => x / c) l) with (map (fun x => x / c) (b :: l)).
  rewrite IH. simpl map. f_equal. unfold Rdiv. ring.
Qed.

Lemma diff_repeat0 : forall n, diff (repeat 0 n) = repeat 0 (pred n).
Proof.
  destruct n as [|n]; [reflexivity|].
  induction n as [|n IH]; [reflexivity|].
  change (repeat 0 (S (S n))) with (0 :: 0 :: repeat 0 n).
  rewrite diff_cons2.
  change (0 :: repeat 0 n) with (repeat 0 (S n)). rewrite IH.
  simpl. f_equal. ring.
Qed.

Lemma list_ext_nth : forall (l1 l2 : list R), length l1 = length l2 ->
  (forall j, (j < length l1)%nat -> nth j l1 0 = nth j l2 0) -> l1 = l2.
Proof.
  induction l1 as [|a l1 IH]; intros l2 Hl H.
  - destruct l2; [reflexivity | discriminate].
  - destruct l2 as [|b l2]; [discriminate|].
    f_equal.
    + apply (H 0%nat). simpl. lia.
    + apply IH.
      * simpl in Hl. lia.
      * intros j Hj. apply (H (S j)). simpl. lia.
Qed.

Lemma diff_ext_nth : forall l1 l2, length l1 = length l2 -> (forall j, (j < length l1)%nat -> nth j l1 0 = nth j l2 0) -> diff l1 = diff l2.
Proof.
  intros l1 l2 Hl H. rewrite (list_ext_nth l1 l2 Hl H). reflexivity.
Qed.

(* ------------------------------------------------------------------ *)
(* --- map2 / zeros --- *)
(* ------------------------------------------------------------------ *)

Lemma map2_length : forall f a b, length a = length b -> length (map2 f a b) = length a.
Proof.
  intros f. induction a as [|x a IH]; intros b H.
  - reflexivity.
  - destruct b as [|y b]; [discriminate|].
    simpl. rewrite IH by (simpl in H; lia). reflexivity.
Qed.

Lemma map2_nth : forall f a b j, length a = length b -> (j < length a)%nat -> nth j (map2 f a b) 0 = f (nth j a 0) (nth j b 0).
Proof.
  intros f. induction a as [|x a IH]; intros b j H Hj.
  - simpl in Hj. lia.
  - destruct b as [|y b]; [discriminate|].
    destruct j as [|j].
    + reflexivity.
    + simpl. apply IH; simpl in *; lia.
Qed.

Lemma map2_plus_zeros : forall n, map2 Rplus (zerosR n) (zerosR n) = zerosR n.
Proof.
  unfold zerosR. induction n as [|n IH]; [reflexivity|].
  simpl. rewrite IH. f_equal. ring.
Qed.

(* ------------------------------------------------------------------ *)
(* --- full convolution --- *)
(* ------------------------------------------------------------------ *)

Lemma padd_length : forall a b, length (padd a b) = Nat.max (length a) (length b).
Proof.
  induction a as [|x a IH]; intros b.
  - reflexivity.
  - destruct b as [|y b].
    + reflexivity.
    + simpl. rewrite IH. reflexivity.
Qed.

Lemma padd_nth : forall a b j, nth j (padd a b) 0 = nth j a 0 + nth j b 0.
Proof.
  induction a as [|x a IH]; intros b j.
  - simpl. destruct j; ring.
  - destruct b as [|y b].
    + simpl padd. destruct j; simpl; ring.
    + destruct j as [|j]; simpl.
      * reflexivity.
      * apply IH.
Qed.

Lemma convolve_cons : forall x a b,
  convolve (x :: a) b =
  padd (map (Rmult x) b) (match a with [] => [] | _ => 0 :: convolve a b end).
Proof. reflexivity. Qed.

Lemma convolve_length : forall a b, a <> [] -> b <> [] -> length (convolve a b) = (length a + length b - 1)%nat.
Proof.
  induction a as [|x a IH]; intros b Ha Hb.
  - contradiction.
  - rewrite convolve_cons, padd_length, map_length.
    destruct a as [|y a].
    + simpl. lia.
    + change (length (0 :: convolve (y :: a) b)) with (S (length (convolve (y :: a) b))).
      rewrite IH by (assumption || discriminate).
      destruct b as [|z b]; [contradiction|]. simpl. lia.
Qed.

Lemma nth_map_Rmult : forall x (b : list R) m, nth m (map (Rmult x) b) 0 = x * nth m b 0.
Proof.
  intros x b m. replace 0 with (x * 0) at 1 by ring. apply map_nth.
Qed.

(* the tail term of the recursion, uniformly in the shape of a *)
Lemma convolve_tail_nth : forall a b m,
  nth m (match a with [] => [] | _ => 0 :: convolve a b end) 0 =
  nth m (0 :: convolve a b) 0.
Proof.
  intros a b m. destruct a as [|y a].
  - simpl. destruct m as [|m]; [reflexivity|]. destruct m; reflexivity.
  - reflexivity.
Qed.

Lemma convolve_nth : forall a b m,
  nth m (convolve a b) 0 = rsum (fun i => nth i a 0 * getz 0 b (Z.of_nat m - Z.of_nat i)) (length a).
Proof.
  induction a as [|x a IH]; intros b m.
  - simpl. rewrite rsum_0. destruct m; reflexivity.
  - rewrite convolve_cons, padd_nth, nth_map_Rmult, convolve_tail_nth.
    simpl length. rewrite rsum_S_l.
    f_equal.
    + simpl nth. rewrite getz_nth by lia. f_equal. f_equal. lia.
    + destruct m as [|m].
      * simpl nth at 1. symmetry. apply rsum_zero. intros k Hk.
        rewrite getz_neg by lia. ring.
      * change (nth (S m) (0 :: convolve a b) 0) with (nth m (convolve a b) 0).
        rewrite IH. apply rsum_ext. intros k Hk.
        change (nth (S k) (x :: a) 0) with (nth k a 0).
        f_equal. f_equal. lia.
Qed.

(* the same with an integer index *)
Lemma convolve_getz : forall a b (m : Z),
  getz 0 (convolve a b) m = rsum (fun i => nth i a 0 * getz 0 b (m - Z.of_nat i)) (length a).
Proof.
  intros a b m. destruct (Z_lt_le_dec m 0) as [Hm|Hm].
  - rewrite getz_neg by assumption. symmetry. apply rsum_zero. intros k Hk.
    rewrite getz_neg by lia. ring.
  - rewrite getz_nth by assumption. rewrite convolve_nth.
    apply rsum_ext. intros k Hk. rewrite Z2Nat.id by assumption. reflexivity.
Qed.

