(* numpy.arctan2 as defined in RealPrims.atan2: the point (cos, sin) of the returned angle is
   the normalised vector (x, y); sign facts used by the ray tracers (theta0 > 0 <-> upward). *)
From Coq Require Import Reals Lra Psatz.
From PyrexLib Require Import RealPrims.
Open Scope R_scope.

Definition hyp (x y : R) : R := sqrt (x * x + y * y).

Lemma hyp_sq x y : hyp x y * hyp x y = x * x + y * y.
Proof. unfold hyp. apply sqrt_sqrt. nra. Qed.

Lemma hyp_nonneg x y : 0 <= hyp x y.
Proof. unfold hyp. apply sqrt_pos. Qed.

Lemma hyp_pos x y : x <> 0 \/ y <> 0 -> 0 < hyp x y.
Proof.
  intros H. unfold hyp. apply sqrt_lt_R0.
  destruct H as [H|H].
  - assert (0 < x * x) by nra. nra.
  - assert (0 < y * y) by nra. nra.
Qed.

Lemma hyp_0 : hyp 0 0 = 0.
Proof. unfold hyp. replace (0 * 0 + 0 * 0) with 0 by ring. apply sqrt_0. Qed.

Lemma hyp_opp x y : hyp (- x) (- y) = hyp x y.
Proof. unfold hyp. f_equal. ring. Qed.

Lemma hyp_rot x y c s : c * c + s * s = 1 -> hyp (c * x - s * y) (s * x + c * y) = hyp x y.
Proof.
  intros H. unfold hyp. f_equal.
  replace ((c * x - s * y) * (c * x - s * y) + (s * x + c * y) * (s * x + c * y))
    with ((c * c + s * s) * (x * x + y * y)) by ring.
  rewrite H. ring.
Qed.

(* sqrt (1 + (y/x)^2) = hyp x y / |x| *)
Lemma sqrt_1_ratio x y : x <> 0 -> sqrt (1 + (y / x)²) = hyp x y / Rabs x.
Proof.
  intros Hx. unfold hyp, Rsqr.
  replace (1 + y / x * (y / x)) with ((x * x + y * y) / (x * x)) by (field; assumption).
  rewrite sqrt_div_alt by nra.
  f_equal. replace (x * x) with (Rsqr x) by reflexivity. apply sqrt_Rsqr_abs.
Qed.

Lemma cos_sin_atan2 y x : x <> 0 \/ y <> 0 ->
  cos (atan2 y x) = x / hyp x y /\ sin (atan2 y x) = y / hyp x y.
Proof.
  intros H. pose proof (hyp_pos x y H) as Hh. unfold atan2.
  destruct (Rltb 0 x) eqn:E1.
  { apply Rltb_true in E1.
    rewrite cos_atan, sin_atan, sqrt_1_ratio by lra.
    rewrite Rabs_pos_eq by lra. split; field; lra. }
  apply Rltb_false in E1.
  destruct (Rltb x 0) eqn:E2.
  { apply Rltb_true in E2.
    assert (Hs : sqrt (1 + (y / x)²) = hyp x y / - x).
    { rewrite sqrt_1_ratio by lra. rewrite Rabs_left by lra. reflexivity. }
    destruct (Rleb 0 y).
    - rewrite cos_plus, sin_plus, cos_PI, sin_PI, cos_atan, sin_atan, Hs. split; field; lra.
    - rewrite cos_minus, sin_minus, cos_PI, sin_PI, cos_atan, sin_atan, Hs. split; field; lra. }
  apply Rltb_false in E2.
  assert (x = 0) by lra. subst x.
  assert (Hy : y <> 0) by (destruct H; [lra | assumption]).
  assert (Hhy : hyp 0 y = Rabs y).
  { unfold hyp. replace (0 * 0 + y * y) with (Rsqr y) by (unfold Rsqr; ring). apply sqrt_Rsqr_abs. }
  destruct (Rltb 0 y) eqn:E3.
  { apply Rltb_true in E3. rewrite cos_PI2, sin_PI2, Hhy, Rabs_pos_eq by lra. split; field; lra. }
  apply Rltb_false in E3.
  destruct (Rltb y 0) eqn:E4.
  { apply Rltb_true in E4.
    replace (- PI / 2) with (- (PI / 2)) by field.
    rewrite cos_neg, sin_neg, cos_PI2, sin_PI2, Hhy, Rabs_left by lra. split; field; lra. }
  apply Rltb_false in E4. lra.
Qed.

Lemma cos_atan2 y x : x <> 0 \/ y <> 0 -> cos (atan2 y x) = x / hyp x y.
Proof. intros H. apply (cos_sin_atan2 y x H). Qed.
Lemma sin_atan2 y x : x <> 0 \/ y <> 0 -> sin (atan2 y x) = y / hyp x y.
Proof. intros H. apply (cos_sin_atan2 y x H). Qed.

Lemma Rltb_irrefl a : Rltb a a = false.
Proof. apply Rltb_false. lra. Qed.

Lemma atan2_0_0 : atan2 0 0 = 0.
Proof. unfold atan2. rewrite !Rltb_irrefl. reflexivity. Qed.

(* hyp * (cos, sin) of the azimuth is the vector itself -- also for the zero vector *)
Lemma hyp_cos_atan2 y x : hyp x y * cos (atan2 y x) = x.
Proof.
  destruct (Req_dec x 0) as [Hx|Hx]; [destruct (Req_dec y 0) as [Hy|Hy]|].
  - subst. rewrite hyp_0. ring.
  - rewrite cos_atan2 by (right; assumption). field. apply Rgt_not_eq, hyp_pos. right; assumption.
  - rewrite cos_atan2 by (left; assumption). field. apply Rgt_not_eq, hyp_pos. left; assumption.
Qed.
Lemma hyp_sin_atan2 y x : hyp x y * sin (atan2 y x) = y.
Proof.
  destruct (Req_dec x 0) as [Hx|Hx]; [destruct (Req_dec y 0) as [Hy|Hy]|].
  - subst. rewrite hyp_0. ring.
  - rewrite sin_atan2 by (right; assumption). field. apply Rgt_not_eq, hyp_pos. right; assumption.
  - rewrite sin_atan2 by (left; assumption). field. apply Rgt_not_eq, hyp_pos. left; assumption.
Qed.

(* elevation angles: for x >= 0 the sign of atan2 y x is the sign of y, and |atan2| <= pi/2 *)
Lemma atan_pos t : 0 < t -> 0 < atan t.
Proof. intros H. rewrite <- atan_0. apply atan_increasing. assumption. Qed.
Lemma atan_neg t : t < 0 -> atan t < 0.
Proof. intros H. rewrite <- atan_0. apply atan_increasing. assumption. Qed.

Lemma atan2_pos y x : 0 <= x -> 0 < y -> 0 < atan2 y x.
Proof.
  intros Hx Hy. unfold atan2.
  destruct (Rltb 0 x) eqn:E1.
  { apply Rltb_true in E1. apply atan_pos. apply Rdiv_lt_0_compat; assumption. }
  apply Rltb_false in E1.
  destruct (Rltb x 0) eqn:E2. { apply Rltb_true in E2. lra. }
  destruct (Rltb 0 y) eqn:E3. { pose proof PI_RGT_0. lra. }
  apply Rltb_false in E3. lra.
Qed.

Lemma atan2_neg y x : 0 <= x -> y < 0 -> atan2 y x < 0.
Proof.
  intros Hx Hy. unfold atan2.
  destruct (Rltb 0 x) eqn:E1.
  { apply Rltb_true in E1. apply atan_neg.
    replace (y / x) with (- ((- y) / x)) by (field; lra).
    assert (0 < - y / x) by (apply Rdiv_lt_0_compat; lra). lra. }
  apply Rltb_false in E1.
  destruct (Rltb x 0) eqn:E2. { apply Rltb_true in E2. lra. }
  destruct (Rltb 0 y) eqn:E3. { apply Rltb_true in E3. lra. }
  destruct (Rltb y 0) eqn:E4. { pose proof PI_RGT_0. lra. }
  apply Rltb_false in E4. lra.
Qed.

Lemma atan2_zero_y x : 0 <= x -> atan2 0 x = 0.
Proof.
  intros Hx. unfold atan2.
  destruct (Rltb 0 x) eqn:E1.
  { apply Rltb_true in E1. replace (0 / x) with 0 by (field; lra). apply atan_0. }
  apply Rltb_false in E1.
  destruct (Rltb x 0) eqn:E2. { apply Rltb_true in E2. lra. }
  rewrite Rltb_irrefl. reflexivity.
Qed.

(* reversing the horizontal separation reverses (cos phi, sin phi) *)
Lemma cos_atan2_opp y x : x <> 0 \/ y <> 0 -> cos (atan2 (- y) (- x)) = - cos (atan2 y x).
Proof.
  intros H. rewrite !cos_atan2, hyp_opp; try assumption; try (destruct H; [left|right]; lra).
  field. apply Rgt_not_eq, hyp_pos; assumption.
Qed.
Lemma sin_atan2_opp y x : x <> 0 \/ y <> 0 -> sin (atan2 (- y) (- x)) = - sin (atan2 y x).
Proof.
  intros H. rewrite !sin_atan2, hyp_opp; try assumption; try (destruct H; [left|right]; lra).
  field. apply Rgt_not_eq, hyp_pos; assumption.
Qed.

(* rotating the separation by psi rotates (cos phi, sin phi) by psi *)
Lemma rot_nonzero x y c s : c * c + s * s = 1 -> x <> 0 \/ y <> 0 ->
  c * x - s * y <> 0 \/ s * x + c * y <> 0.
Proof.
  intros Hcs H.
  destruct (Req_dec (c * x - s * y) 0) as [H1|H1]; [|left; assumption].
  destruct (Req_dec (s * x + c * y) 0) as [H2|H2]; [|right; assumption].
  exfalso.
  assert (Hx : x = (c * c + s * s) * x) by (rewrite Hcs; ring).
  assert (Hy : y = (c * c + s * s) * y) by (rewrite Hcs; ring).
  assert (x = 0) by (rewrite Hx; replace ((c * c + s * s) * x) with (c * (c * x - s * y) + s * (s * x + c * y)) by ring; rewrite H1, H2; ring).
  assert (y = 0) by (rewrite Hy; replace ((c * c + s * s) * y) with (c * (s * x + c * y) - s * (c * x - s * y)) by ring; rewrite H1, H2; ring).
  destruct H; contradiction.
Qed.

Lemma cos_atan2_rot x y c s : c * c + s * s = 1 -> x <> 0 \/ y <> 0 ->
  cos (atan2 (s * x + c * y) (c * x - s * y)) = c * cos (atan2 y x) - s * sin (atan2 y x).
Proof.
  intros Hcs H. pose proof (rot_nonzero x y c s Hcs H) as H'.
  rewrite (cos_atan2 _ _ H'), (cos_atan2 _ _ H), (sin_atan2 _ _ H), hyp_rot by assumption.
  field. apply Rgt_not_eq, hyp_pos; assumption.
Qed.
Lemma sin_atan2_rot x y c s : c * c + s * s = 1 -> x <> 0 \/ y <> 0 ->
  sin (atan2 (s * x + c * y) (c * x - s * y)) = s * cos (atan2 y x) + c * sin (atan2 y x).
Proof.
  intros Hcs H. pose proof (rot_nonzero x y c s Hcs H) as H'.
  rewrite (sin_atan2 _ _ H'), (cos_atan2 _ _ H), (sin_atan2 _ _ H), hyp_rot by assumption.
  field. apply Rgt_not_eq, hyp_pos; assumption.
Qed.
