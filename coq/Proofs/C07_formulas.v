(* C07: facts about the GENERATED Askaryan formulas (Gen/Gen_askaryan.v, regenerated from
   pyrex/askaryan.py on every run).  Every lemma here is re-proved against whatever the source
   says now: an edit that breaks a scaling law breaks the proof. *)
From Coq Require Import Reals List Bool ZArith Lra Lia.
From Coquelicot Require Import Coquelicot.
From PyrexLib Require Import RealPrims.
From PyrexGen Require Import Gen_askaryan.
Open Scope R_scope.

Ltac hide_inverses_except d :=
  repeat match goal with
  | |- context [/ ?x] => lazymatch x with d => fail | _ => let v := fresh "iv" in set (v := / x) end
  end.
Ltac hide_inverses :=
  repeat match goal with |- context [/ ?x] => let v := fresh "iv" in set (v := / x) end.
Ltac split_ifs := repeat match goal with |- context [if ?c then _ else _] => destruct c end.

Lemma shift_sub a b s : (a + s) - (b + s) = a - b.
Proof. ring. Qed.

Lemma Reqb_refl x : Reqb x x = true.
Proof. apply Reqb_true; reflexivity. Qed.

Lemma sq_le_of_abs a b : Rabs a <= Rabs b -> a ^ 2 <= b ^ 2.
Proof.
  intros H. rewrite <- (pow2_abs a), <- (pow2_abs b).
  pose proof (Rabs_pos a). nra.
Qed.
Lemma sq_lt_of_abs a b : Rabs a < Rabs b -> a ^ 2 < b ^ 2.
Proof.
  intros H. rewrite <- (pow2_abs a), <- (pow2_abs b).
  pose proof (Rabs_pos a). nra.
Qed.

(* ------------------------------------------------------------------------------ ZHS *)
Lemma zhs_e_omega_inv_distance E d psi th thc f : d <> 0 ->
  ZHS_e_omega E d psi th thc f * d = ZHS_e_omega E 1 psi th thc f.
Proof.
  intros Hd. unfold ZHS_e_omega. cbv zeta.
  set (G := exp _). set (r := Rabs f / 500e6).
  assert (1 + 0.4 * r ^ 2 <> 0) by (assert (0 <= r^2) by (apply pow2_ge_0); lra).
  field. split; assumption.
Qed.

(* the spectral amplitude sees the viewing angle only through theta = |viewing_angle| *)
Lemma zhs_e_omega_signed_angle_irrelevant E d psi1 psi2 th thc f :
  ZHS_e_omega E d psi1 th thc f = ZHS_e_omega E d psi2 th thc f.
Proof. reflexivity. Qed.

Lemma zhs_theta_even psi : ZHS_theta (- psi) = ZHS_theta psi.
Proof. unfold ZHS_theta. cbv zeta. apply Rabs_Ropp. Qed.

Lemma zhs_e_omega_linear_in_energy c E d psi th thc f :
  ZHS_e_omega (c * E) d psi th thc f = c * ZHS_e_omega E d psi th thc f.
Proof. unfold ZHS_e_omega. cbv zeta. unfold Rdiv. ring. Qed.

Lemma zhs_e_omega_zero_energy d psi th thc f : ZHS_e_omega 0 d psi th thc f = 0.
Proof. unfold ZHS_e_omega. cbv zeta. unfold Rdiv. ring. Qed.

(* amplitude * Gaussian: the explicit form of the generated definition *)
Definition zhs_amp (E d f : R) : R :=
  1.1e-7 * E / 1000 * (Rabs f / 500e6) * 1 / (1 + 0.4 * (Rabs f / 500e6) ^ 2) / d * 1e-6.
Definition zhs_gauss (th thc f : R) : R :=
  exp (- 0.5 * ((th - thc) * (Rabs f / 500e6) / radians 2.4) ^ 2).
Lemma zhs_e_omega_form E d psi th thc f :
  ZHS_e_omega E d psi th thc f = zhs_amp E d f * zhs_gauss th thc f.
Proof. reflexivity. Qed.

Lemma zhs_amp_nonneg E d f : 0 <= E -> 0 < d -> 0 <= zhs_amp E d f.
Proof.
  intros HE Hd. unfold zhs_amp.
  pose proof (Rabs_pos f). set (r := Rabs f / 500e6).
  assert (0 <= r) by (unfold r; apply Rmult_le_pos; [assumption | lra]).
  assert (0 < 1 + 0.4 * r ^ 2) by (assert (0 <= r^2) by (apply pow2_ge_0); lra).
  assert (0 < / (1 + 0.4 * r ^ 2)) by (apply Rinv_0_lt_compat; assumption).
  assert (0 < / d) by (apply Rinv_0_lt_compat; assumption).
  replace (1.1e-7 * E / 1000 * r * 1 / (1 + 0.4 * r ^ 2) / d * 1e-6)
    with (1.1e-7 * 1e-6 / 1000 * (E * (r * (/ (1 + 0.4 * r ^ 2) * / d)))) by (unfold Rdiv; ring).
  apply Rmult_le_pos; [lra | ].
  apply Rmult_le_pos; [assumption | ]. apply Rmult_le_pos; [assumption | ].
  left; apply Rmult_lt_0_compat; assumption.
Qed.
Lemma zhs_amp_pos E d f : 0 < E -> 0 < d -> f <> 0 -> 0 < zhs_amp E d f.
Proof.
  intros HE Hd Hf. unfold zhs_amp.
  pose proof (Rabs_pos_lt f Hf). set (r := Rabs f / 500e6).
  assert (0 < r) by (unfold r; apply Rmult_lt_0_compat; [assumption | lra]).
  assert (0 < 1 + 0.4 * r ^ 2) by (assert (0 <= r^2) by (apply pow2_ge_0); lra).
  assert (0 < / (1 + 0.4 * r ^ 2)) by (apply Rinv_0_lt_compat; assumption).
  assert (0 < / d) by (apply Rinv_0_lt_compat; assumption).
  replace (1.1e-7 * E / 1000 * r * 1 / (1 + 0.4 * r ^ 2) / d * 1e-6)
    with (1.1e-7 * 1e-6 / 1000 * (E * (r * (/ (1 + 0.4 * r ^ 2) * / d)))) by (unfold Rdiv; ring).
  apply Rmult_lt_0_compat; [lra | ].
  apply Rmult_lt_0_compat; [assumption | ]. apply Rmult_lt_0_compat; [assumption | ].
  apply Rmult_lt_0_compat; assumption.
Qed.

Lemma radians_pos x : 0 < x -> 0 < radians x.
Proof. intros. unfold radians. pose proof PI_RGT_0. apply Rmult_lt_0_compat; [nra | lra]. Qed.

Lemma zhs_gauss_monotone th1 th2 thc f :
  Rabs (th1 - thc) <= Rabs (th2 - thc) -> zhs_gauss th2 thc f <= zhs_gauss th1 thc f.
Proof.
  intros H. unfold zhs_gauss.
  set (q := Rabs f / 500e6 / radians 2.4).
  replace ((th2 - thc) * (Rabs f / 500e6) / radians 2.4) with ((th2 - thc) * q) by (unfold q, Rdiv; ring).
  replace ((th1 - thc) * (Rabs f / 500e6) / radians 2.4) with ((th1 - thc) * q) by (unfold q, Rdiv; ring).
  apply sq_le_of_abs in H.
  destruct (Rle_lt_or_eq_dec _ _ H) as [Hlt | Heq].
  - assert (0 <= q ^ 2) by apply pow2_ge_0.
    assert (((th1 - thc) * q) ^ 2 <= ((th2 - thc) * q) ^ 2) by (rewrite !Rpow_mult_distr; nra).
    destruct (Rle_lt_or_eq_dec _ _ H1) as [L | E]; [left; apply exp_increasing; lra | right; rewrite E; reflexivity].
  - right. rewrite !Rpow_mult_distr, Heq. reflexivity.
Qed.
Lemma zhs_gauss_strict th1 th2 thc f : f <> 0 ->
  Rabs (th1 - thc) < Rabs (th2 - thc) -> zhs_gauss th2 thc f < zhs_gauss th1 thc f.
Proof.
  intros Hf H. unfold zhs_gauss.
  set (q := Rabs f / 500e6 / radians 2.4).
  replace ((th2 - thc) * (Rabs f / 500e6) / radians 2.4) with ((th2 - thc) * q) by (unfold q, Rdiv; ring).
  replace ((th1 - thc) * (Rabs f / 500e6) / radians 2.4) with ((th1 - thc) * q) by (unfold q, Rdiv; ring).
  apply sq_lt_of_abs in H.
  assert (0 < q).
  { unfold q. pose proof (Rabs_pos_lt f Hf). pose proof (radians_pos 2.4 ltac:(lra)).
    apply Rmult_lt_0_compat; [apply Rmult_lt_0_compat; [assumption | lra] | apply Rinv_0_lt_compat; assumption]. }
  assert (0 < q ^ 2) by (apply pow_lt; assumption).
  apply exp_increasing. rewrite !Rpow_mult_distr. nra.
Qed.

(* cone factor: the ZHS amplitude of every spectral component falls with |theta - theta_c| *)
Lemma zhs_cone_factor_monotone E d psi th1 th2 thc f : 0 <= E -> 0 < d ->
  Rabs (th1 - thc) <= Rabs (th2 - thc) -> ZHS_e_omega E d psi th2 thc f <= ZHS_e_omega E d psi th1 thc f.
Proof.
  intros HE Hd H. rewrite !zhs_e_omega_form.
  apply Rmult_le_compat_l; [apply zhs_amp_nonneg; assumption | apply zhs_gauss_monotone; assumption].
Qed.
Lemma zhs_cone_factor_strict E d psi th1 th2 thc f : 0 < E -> 0 < d -> f <> 0 ->
  Rabs (th1 - thc) < Rabs (th2 - thc) -> ZHS_e_omega E d psi th2 thc f < ZHS_e_omega E d psi th1 thc f.
Proof.
  intros HE Hd Hf H. rewrite !zhs_e_omega_form.
  apply Rmult_lt_compat_l; [apply zhs_amp_pos; assumption | apply zhs_gauss_strict; assumption].
Qed.
Lemma zhs_denominators_nonzero d f : 0 < d -> 1 + 0.4 * (Rabs f / 500e6) ^ 2 <> 0 /\ d <> 0 /\ radians 2.4 <> 0.
Proof.
  intros. assert (0 <= (Rabs f / 500e6)^2) by apply pow2_ge_0. pose proof (radians_pos 2.4 ltac:(lra)).
  repeat split; lra.
Qed.

(* shift bookkeeping depends on t0 - times[0] and times[1] - times[0] only *)
Lemma zhs_shift_joint a b L t0 s : ZHS_shift (a + s) (b + s) L (t0 + s) = ZHS_shift a b L t0.
Proof. unfold ZHS_shift. cbv zeta. rewrite !shift_sub. reflexivity. Qed.
Lemma zhs_zeroed_joint a b L t0 s : ZHS_zeroed (a + s) (b + s) L (t0 + s) = ZHS_zeroed a b L t0.
Proof. unfold ZHS_zeroed. cbv zeta. rewrite !shift_sub. reflexivity. Qed.

(* ------------------------------------------------------------------------------ AVZ *)
Lemma avz_tmp_inv_distance E1 E2 emf hadf d th thc f : d <> 0 ->
  AVZ_tmp E1 E2 emf hadf d th thc f * d = AVZ_tmp E1 E2 emf hadf 1 th thc f.
Proof.
  intros Hd. unfold AVZ_tmp. cbv zeta.
  split_ifs; unfold Rdiv; rewrite ?Rinv_1; try ring; hide_inverses_except d; field; assumption.
Qed.

Lemma radians_0 : radians 0 = 0.
Proof. unfold radians. unfold Rdiv. ring. Qed.

Lemma Rgtb_0_0 : Rgtb 0 0 = false.
Proof. apply Rgtb_false. lra. Qed.
Lemma Rgtb_scal_pos c E : 0 < c -> Rgtb (c * E) 0 = Rgtb E 0.
Proof.
  intros Hc. destruct (Rgtb E 0) eqn:H.
  - apply Rgtb_true in H. apply Rgtb_true. nra.
  - apply Rgtb_false in H. apply Rgtb_false. nra.
Qed.

Lemma avz_tmp_zero_energy emf hadf d th thc f : AVZ_tmp 0 0 emf hadf d th thc f = 0.
Proof.
  unfold AVZ_tmp. cbv zeta. rewrite (Reqb_refl 0), ?Rgtb_0_0. cbn [negb andb orb].
  rewrite ?radians_0, ?(Reqb_refl 0). cbn [negb andb]. rewrite ?Bool.andb_false_r.
  split_ifs; unfold Rdiv; ring.
Qed.

(* the electromagnetic part, viewed on the cone, is proportional to the shower energy
   (off the cone the LPM width dThetaEM depends on the energy, so only on-cone linearity holds);
   the shower is present iff its energy is positive, hence the scale factor must not be negative *)
Lemma avz_em_on_cone_linear_in_energy c E hadE emf hadf d thc f : 0 <= c ->
  AVZ_em_tmp (c * E) hadE emf hadf d thc thc f = c * AVZ_em_tmp E hadE emf hadf d thc thc f.
Proof.
  intros [Hc | Hc].
  - unfold AVZ_em_tmp. cbv zeta.
    replace (thc - thc) with 0 by ring.
    assert (Z0 : forall x, (0 / x) ^ 2 = 0) by (intros; unfold Rdiv; ring).
    rewrite !Z0, !Rmult_0_r, exp_0, ?(Rgtb_scal_pos c E Hc).
    split_ifs; unfold Rdiv; ring.
  - subst c. rewrite Rmult_0_l, Rmult_0_l.
    unfold AVZ_em_tmp. cbv zeta. rewrite ?Rgtb_0_0.
    split_ifs; unfold Rdiv; ring.
Qed.

(* the generated electromagnetic contribution is  K * sin(theta) * G(theta)  *)
Definition avz_gauss (th thc sigma : R) : R := exp (- ln 2 * ((th - thc) / sigma) ^ 2).
Definition avz_em_K (E d thc f : R) : R :=
  2.53e-7 * E / 1e3 * f / 1.15e9 / (1 + Rpower (f / 1.15e9) 1.44) / 1e6 / sin thc / d.
Lemma avz_em_tmp_form E hadE emf hadf d th thc f :
  AVZ_em_tmp E hadE emf hadf d th thc f =
  if Rgtb E 0 then avz_em_K E d thc f * sin th * avz_gauss th thc (AVZ_dThetaEM E hadE emf hadf d th thc f) else 0.
Proof.
  unfold AVZ_em_tmp, AVZ_dThetaEM, avz_em_K, avz_gauss. cbv zeta.
  destruct (Rgtb E 0); [ | reflexivity].
  unfold Rdiv. ring.
Qed.
(* the width of the cone does not depend on the viewing angle *)
Lemma avz_dThetaEM_angle_free E hadE emf hadf d th1 th2 thc f :
  AVZ_dThetaEM E hadE emf hadf d th1 thc f = AVZ_dThetaEM E hadE emf hadf d th2 thc f.
Proof. reflexivity. Qed.
Lemma avz_dThetaHad_angle_free E hadE emf hadf d th1 th2 thc f :
  AVZ_dThetaHad E hadE emf hadf d th1 thc f = AVZ_dThetaHad E hadE emf hadf d th2 thc f.
Proof. reflexivity. Qed.

Lemma avz_dThetaEM_pos E hadE emf hadf d th thc f : 0 <= E -> 0 < f -> 0 < AVZ_dThetaEM E hadE emf hadf d th thc f.
Proof.
  intros HE Hf. unfold AVZ_dThetaEM. cbv zeta.
  pose proof (radians_pos 2.7 ltac:(lra)).
  apply Rmult_lt_0_compat.
  - apply Rmult_lt_0_compat; [apply Rmult_lt_0_compat; [assumption | lra] | apply Rinv_0_lt_compat; assumption].
  - unfold Rpower. apply exp_pos.
Qed.

Lemma avz_gauss_monotone th1 th2 thc sigma :
  Rabs (th1 - thc) <= Rabs (th2 - thc) -> avz_gauss th2 thc sigma <= avz_gauss th1 thc sigma.
Proof.
  intros H. unfold avz_gauss. apply sq_le_of_abs in H.
  assert (L2 : 0 < ln 2) by (rewrite <- ln_1; apply ln_increasing; lra).
  assert (0 <= (/ sigma) ^ 2) by apply pow2_ge_0.
  assert (((th1 - thc) / sigma) ^ 2 <= ((th2 - thc) / sigma) ^ 2)
    by (unfold Rdiv; rewrite !Rpow_mult_distr; apply Rmult_le_compat_r; assumption).
  destruct (Rle_lt_or_eq_dec _ _ H1) as [L | E]; [left; apply exp_increasing; nra | right; rewrite E; reflexivity].
Qed.
Lemma avz_gauss_strict th1 th2 thc sigma : sigma <> 0 ->
  Rabs (th1 - thc) < Rabs (th2 - thc) -> avz_gauss th2 thc sigma < avz_gauss th1 thc sigma.
Proof.
  intros Hs H. unfold avz_gauss. apply sq_lt_of_abs in H.
  assert (L2 : 0 < ln 2) by (rewrite <- ln_1; apply ln_increasing; lra).
  assert (0 < (/ sigma) ^ 2) by (apply pow2_gt_0, Rinv_neq_0_compat; assumption).
  apply exp_increasing. unfold Rdiv. rewrite !Rpow_mult_distr.
  assert ((th1 - thc) ^ 2 * (/ sigma) ^ 2 < (th2 - thc) ^ 2 * (/ sigma) ^ 2) by (apply Rmult_lt_compat_r; assumption).
  set (A1 := (th1 - thc) ^ 2 * (/ sigma) ^ 2) in *. set (A2 := (th2 - thc) ^ 2 * (/ sigma) ^ 2) in *. nra.
Qed.
Lemma avz_gauss_pos th thc s : 0 < avz_gauss th thc s.
Proof. apply exp_pos. Qed.
Lemma avz_gauss_le_1 th thc s : avz_gauss th thc s <= 1.
Proof.
  unfold avz_gauss. rewrite <- exp_0.
  assert (L2 : 0 < ln 2) by (rewrite <- ln_1; apply ln_increasing; lra).
  assert (0 <= ((th - thc) / s) ^ 2) by apply pow2_ge_0.
  destruct (Req_dec (((th - thc) / s) ^ 2) 0) as [E | E]; [right; rewrite E; f_equal; ring | left; apply exp_increasing; nra].
Qed.

(* inner side of the cone: sin(theta) and the Gaussian both grow towards theta_c *)
Lemma avz_em_increasing_inside K th1 th2 thc sigma : 0 <= K -> sigma <> 0 ->
  0 <= th1 -> th1 < th2 -> th2 <= thc -> thc <= PI / 2 ->
  K * sin th1 * avz_gauss th1 thc sigma <= K * sin th2 * avz_gauss th2 thc sigma.
Proof.
  intros HK Hs H0 H12 H2 Hc.
  assert (S12 : sin th1 < sin th2) by (apply sin_increasing_1; lra).
  assert (S1 : 0 <= sin th1) by (apply sin_ge_0; pose proof PI_RGT_0; lra).
  assert (G : avz_gauss th1 thc sigma < avz_gauss th2 thc sigma).
  { apply avz_gauss_strict; [assumption | rewrite !Rabs_left1 by lra; lra]. }
  pose proof (avz_gauss_pos th1 thc sigma).
  rewrite !Rmult_assoc. apply Rmult_le_compat_l; [assumption | nra].
Qed.

(* outer side: g(theta) = sin(theta) exp(-ln2 ((theta-thc)/sigma)^2) has derivative
   exp(..) * (cos(theta) - 2 ln2 (theta-thc)/sigma^2 sin(theta)); it is negative as soon as
   theta - theta_c exceeds  delta = sigma^2 cot(theta_c) / (2 ln 2)  (the displacement of the
   peak caused by the sin(theta) factor is at most delta) *)
Definition avz_g (thc sigma th : R) : R := sin th * avz_gauss th thc sigma.
Definition avz_peak_shift_bound (thc sigma : R) : R := sigma ^ 2 * (cos thc / sin thc) / (2 * ln 2).

Lemma avz_g_derive thc sigma th : sigma <> 0 ->
  is_derive (avz_g thc sigma) th
    (avz_gauss th thc sigma * (cos th - 2 * ln 2 * (th - thc) / sigma ^ 2 * sin th)).
Proof.
  intros Hs. unfold avz_g, avz_gauss.
  auto_derive; [trivial | ].
  repeat match goal with
  | |- context [exp ?a] =>
      lazymatch a with
      | - ln 2 * ((th - thc) / sigma) ^ 2 => fail
      | _ => replace a with (- ln 2 * ((th - thc) / sigma) ^ 2) by (unfold Rdiv; ring)
      end
  end.
  field. assumption.
Qed.

Lemma cot_decreasing a b : 0 < a -> a <= b -> b < PI -> cos b / sin b <= cos a / sin a.
Proof.
  intros Ha Hab Hb.
  assert (0 < sin a) by (apply sin_gt_0; lra).
  assert (0 < sin b) by (apply sin_gt_0; lra).
  (* cos b sin a <= cos a sin b  <=>  sin (b - a) >= 0 *)
  assert (0 <= sin (b - a)) by (apply sin_ge_0; lra).
  rewrite sin_minus in H1.
  apply (Rmult_le_reg_r (sin a * sin b)); [apply Rmult_lt_0_compat; assumption | ].
  replace (cos b / sin b * (sin a * sin b)) with (cos b * sin a) by (field; lra).
  replace (cos a / sin a * (sin a * sin b)) with (cos a * sin b) by (field; lra).
  lra.
Qed.

Lemma avz_g_derivative_negative_outside thc sigma th : sigma <> 0 ->
  0 < thc -> thc < PI -> thc + avz_peak_shift_bound thc sigma < th -> thc <= th -> th < PI ->
  avz_gauss th thc sigma * (cos th - 2 * ln 2 * (th - thc) / sigma ^ 2 * sin th) < 0.
Proof.
  intros Hs H0 Hc Hd Hle Hpi.
  assert (L2 : 0 < ln 2) by (rewrite <- ln_1; apply ln_increasing; lra).
  assert (S2 : 0 < sigma ^ 2) by (apply pow2_gt_0; assumption).
  assert (St : 0 < sin th) by (apply sin_gt_0; lra).
  assert (Sc : 0 < sin thc) by (apply sin_gt_0; lra).
  pose proof (cot_decreasing thc th H0 Hle Hpi) as Hcot.
  unfold avz_peak_shift_bound in Hd.
  assert (cos thc / sin thc < 2 * ln 2 * (th - thc) / sigma ^ 2).
  { apply (Rmult_lt_reg_r (sigma ^ 2 / (2 * ln 2))); [apply Rdiv_lt_0_compat; lra | ].
    replace (2 * ln 2 * (th - thc) / sigma ^ 2 * (sigma ^ 2 / (2 * ln 2))) with (th - thc) by (field; lra).
    replace (cos thc / sin thc * (sigma ^ 2 / (2 * ln 2))) with (sigma ^ 2 * (cos thc / sin thc) / (2 * ln 2)) by (field; lra).
    lra. }
  assert (cos th / sin th < 2 * ln 2 * (th - thc) / sigma ^ 2) by lra.
  assert (cos th < 2 * ln 2 * (th - thc) / sigma ^ 2 * sin th).
  { apply (Rmult_lt_compat_r (sin th)) in H1; [ | assumption].
    replace (cos th / sin th * sin th) with (cos th) in H1 by (field; lra). assumption. }
  pose proof (avz_gauss_pos th thc sigma). nra.
Qed.

Lemma avz_g_derivative_positive_inside thc sigma th : sigma <> 0 ->
  0 < th -> th < thc -> thc <= PI / 2 ->
  0 < avz_gauss th thc sigma * (cos th - 2 * ln 2 * (th - thc) / sigma ^ 2 * sin th).
Proof.
  intros Hs H0 Hc Hpi.
  assert (L2 : 0 < ln 2) by (rewrite <- ln_1; apply ln_increasing; lra).
  assert (S2 : 0 < sigma ^ 2) by (apply pow2_gt_0; assumption).
  assert (St : 0 < sin th) by (apply sin_gt_0; pose proof PI_RGT_0; lra).
  assert (Ct : 0 < cos th) by (apply cos_gt_0; pose proof PI_RGT_0; lra).
  pose proof (avz_gauss_pos th thc sigma).
  apply Rmult_lt_0_compat; [assumption | ].
  assert (0 < 2 * ln 2 * (thc - th) / sigma ^ 2 * sin th).
  { apply Rmult_lt_0_compat; [ | assumption]. apply Rdiv_lt_0_compat; [nra | assumption]. }
  replace (2 * ln 2 * (th - thc) / sigma ^ 2 * sin th) with (- (2 * ln 2 * (thc - th) / sigma ^ 2 * sin th)) by (field; lra).
  lra.
Qed.

(* a function with negative derivative on an interval decreases on it (mean value theorem) *)
Lemma decreasing_of_negative_derivative (g g' : R -> R) a b :
  a < b -> (forall x, a <= x <= b -> is_derive g x (g' x)) -> (forall x, a <= x <= b -> g' x < 0) -> g b < g a.
Proof.
  intros Hab Hd Hn.
  destruct (MVT_gen g a b g') as [c [Hc Heq]].
  - intros x Hx. apply Hd. rewrite Rmin_left, Rmax_right in Hx by lra. lra.
  - intros x Hx. rewrite Rmin_left, Rmax_right in Hx by lra.
    apply continuity_pt_filterlim.
    apply (ex_derive_continuous (K := R_AbsRing) (V := R_NormedModule) g x).
    exists (g' x); apply Hd; lra.
  - rewrite Rmin_left, Rmax_right in Hc by lra.
    specialize (Hn c Hc). nra.
Qed.

Lemma avz_g_decreasing_outside thc sigma th1 th2 : sigma <> 0 ->
  0 < thc -> thc < PI -> thc + avz_peak_shift_bound thc sigma < th1 -> thc <= th1 -> th1 < th2 -> th2 < PI ->
  avz_g thc sigma th2 < avz_g thc sigma th1.
Proof.
  intros Hs H0 Hc Hd Hle H12 Hpi.
  apply (decreasing_of_negative_derivative (avz_g thc sigma)
           (fun th => avz_gauss th thc sigma * (cos th - 2 * ln 2 * (th - thc) / sigma ^ 2 * sin th))); [assumption | | ].
  - intros x Hx. apply avz_g_derive; assumption.
  - intros x Hx. apply avz_g_derivative_negative_outside; try assumption; lra.
Qed.

(* ------------------------------------------------------------------------------ ARZ *)
Lemma arz_em_rac_linear_in_energy c t E :
  ARZAskaryanSignal_em_shower_RAC t (c * E) = c * ARZAskaryanSignal_em_shower_RAC t E.
Proof. unfold ARZAskaryanSignal_em_shower_RAC. cbv zeta. split_ifs; ring. Qed.
Lemma arz_had_rac_linear_in_energy c t E :
  ARZAskaryanSignal_had_shower_RAC t (c * E) = c * ARZAskaryanSignal_had_shower_RAC t E.
Proof. unfold ARZAskaryanSignal_had_shower_RAC. cbv zeta. split_ifs; ring. Qed.

Ltac unfold_ss :=
  unfold ARZ_ss_oncone, ARZ_ss_z_to_t, ARZ_ss_dt, ARZ_ss_N, ARZ_ss_dt_divider_Q, ARZ_ss_dt_divider_RAC,
         ARZ_ss_dt_divider, ARZ_ss_dz, ARZ_ss_z_max, ARZ_ss_n_Q, ARZ_ss_n_Q_negative, ARZ_ss_t_start,
         ARZ_ss_n_shift, ARZ_ss_n_extra, ARZ_ss_n_RAC, ARZ_ss_outside, ARZ_ss_n_shift_total, ARZ_ss_A;
  cbv zeta.

(* every scalar of shower_signal depends on the times only through times[0]-t0 and times[1]-times[0] *)
Ltac ss_joint := intros; unfold_ss; rewrite ?shift_sub; reflexivity.
Lemma ss_oncone_joint a b L E th n t0 s : ARZ_ss_oncone (a + s) (b + s) L E th n (t0 + s) = ARZ_ss_oncone a b L E th n t0.
Proof. ss_joint. Qed.
Lemma ss_z_to_t_joint a b L E th n t0 s : ARZ_ss_z_to_t (a + s) (b + s) L E th n (t0 + s) = ARZ_ss_z_to_t a b L E th n t0.
Proof. ss_joint. Qed.
Lemma ss_dt_joint a b L E th n t0 s : ARZ_ss_dt (a + s) (b + s) L E th n (t0 + s) = ARZ_ss_dt a b L E th n t0.
Proof. ss_joint. Qed.
Lemma ss_dt_divider_joint a b L E th n t0 s : ARZ_ss_dt_divider (a + s) (b + s) L E th n (t0 + s) = ARZ_ss_dt_divider a b L E th n t0.
Proof. ss_joint. Qed.
Lemma ss_dz_joint a b L E th n t0 s : ARZ_ss_dz (a + s) (b + s) L E th n (t0 + s) = ARZ_ss_dz a b L E th n t0.
Proof. ss_joint. Qed.
Lemma ss_n_Q_joint a b L E th n t0 s : ARZ_ss_n_Q (a + s) (b + s) L E th n (t0 + s) = ARZ_ss_n_Q a b L E th n t0.
Proof. ss_joint. Qed.
Lemma ss_n_Q_negative_joint a b L E th n t0 s : ARZ_ss_n_Q_negative (a + s) (b + s) L E th n (t0 + s) = ARZ_ss_n_Q_negative a b L E th n t0.
Proof. ss_joint. Qed.
Lemma ss_t_start_joint a b L E th n t0 s : ARZ_ss_t_start (a + s) (b + s) L E th n (t0 + s) = ARZ_ss_t_start a b L E th n t0.
Proof. ss_joint. Qed.
Lemma ss_n_shift_joint a b L E th n t0 s : ARZ_ss_n_shift (a + s) (b + s) L E th n (t0 + s) = ARZ_ss_n_shift a b L E th n t0.
Proof. ss_joint. Qed.
Lemma ss_n_extra_joint a b L E th n t0 s : ARZ_ss_n_extra (a + s) (b + s) L E th n (t0 + s) = ARZ_ss_n_extra a b L E th n t0.
Proof. ss_joint. Qed.
Lemma ss_n_RAC_joint a b L E th n t0 s : ARZ_ss_n_RAC (a + s) (b + s) L E th n (t0 + s) = ARZ_ss_n_RAC a b L E th n t0.
Proof. ss_joint. Qed.
Lemma ss_outside_joint a b L E th n t0 s : ARZ_ss_outside (a + s) (b + s) L E th n (t0 + s) = ARZ_ss_outside a b L E th n t0.
Proof. ss_joint. Qed.
Lemma ss_n_shift_total_joint a b L E th n t0 s : ARZ_ss_n_shift_total (a + s) (b + s) L E th n (t0 + s) = ARZ_ss_n_shift_total a b L E th n t0.
Proof. ss_joint. Qed.
Lemma ss_A_joint a b L E th n t0 s c LQ : ARZ_ss_A (a + s) (b + s) L E th n (t0 + s) c LQ = ARZ_ss_A a b L E th n t0 c LQ.
Proof. ss_joint. Qed.

(* integer bookkeeping identities of shower_signal *)
Lemma ss_n_RAC_def a b L E th n t0 :
  ARZ_ss_n_RAC a b L E th n t0 =
  (ARZ_ss_N a b L E th n t0 * ARZ_ss_dt_divider a b L E th n t0 + 1 - ARZ_ss_n_Q a b L E th n t0 + ARZ_ss_n_extra a b L E th n t0)%Z.
Proof. reflexivity. Qed.
Lemma ss_conv_length a b L E th n t0 :
  (ARZ_ss_n_Q a b L E th n t0 + ARZ_ss_n_RAC a b L E th n t0 - 1 =
   ARZ_ss_N a b L E th n t0 * ARZ_ss_dt_divider a b L E th n t0 + ARZ_ss_n_extra a b L E th n t0)%Z.
Proof. rewrite ss_n_RAC_def. lia. Qed.
Lemma ss_n_shift_total_def a b L E th n t0 :
  ARZ_ss_n_shift_total a b L E th n t0 = (ARZ_ss_n_shift a b L E th n t0 + ARZ_ss_n_Q_negative a b L E th n t0)%Z.
Proof. reflexivity. Qed.
Lemma ss_N_def a b L E th n t0 : ARZ_ss_N a b L E th n t0 = (L + 1)%Z.
Proof. reflexivity. Qed.
Lemma ss_outside_def a b L E th n t0 :
  ARZ_ss_outside a b L E th n t0 =
  ((- ARZ_ss_n_shift_total a b L E th n t0 >=? ARZ_ss_N a b L E th n t0 * ARZ_ss_dt_divider a b L E th n t0)%Z
   || (ARZ_ss_n_shift_total a b L E th n t0 - ARZ_ss_n_extra a b L E th n t0 >=? ARZ_ss_N a b L E th n t0 * ARZ_ss_dt_divider a b L E th n t0)%Z).
Proof.
  unfold_ss. f_equal; f_equal; lia.
Qed.
(* the vector potential scale is linear in the convolution value *)
Lemma ss_A_linear a b L E th n t0 c LQ : ARZ_ss_A a b L E th n t0 c LQ = c * ARZ_ss_A a b L E th n t0 1 LQ.
Proof. unfold_ss. unfold Rdiv. ring. Qed.
