(* C10: Event kernel delivers one time-aligned signal per ray solution, any component.
   Statements only (proofs: Proofs/C10_proofs.v, C10_iface_proofs.v) about
   Model/KernelModel.v, the model of EventKernel.event as written, for ALL events, antenna
   lists, ray-trace / signal-model / trigger oracles and settings; plus the generated
   interface table of the shipped components. *)
From Coq Require Import List ZArith Bool String.
From PyrexModel Require Import KernelModel.
From PyrexGen Require Import Gen_iface.
From PyrexProofs Require Import C10_proofs C10_iface_proofs.
Import ListNotations.
Open Scope Z_scope.

(* Shape of every event() call: create_event first, then the component calls of the
   particles passing the weight cut (particle-major, antenna-minor), then the trigger
   function(s), then the writer with ray paths / polarizations listed per antenna in the
   order of the (particle, solution) pairs; the generator's event is what is returned. *)
Theorem event_shape : forall c g ev qs cnt,
  event c g ev qs cnt =
  (cnt,
   CCreate :: all_calls c qs ++ snd (eval_trig (c_trig c)) ++
     (if c_writer c
      then [CWrite (fst (eval_trig (c_trig c)))
                   (map (fun a => map (fun qp => p_id (snd qp)) (pairs c qs a)) (c_ants c))
                   (map (fun a => map pol_of (pairs c qs a)) (c_ants c))
                   (cnt - g)]
      else []),
   match fst (eval_trig (c_trig c)) with
   | TRNone => RetEvent ev
   | TRBool b => RetPair ev b
   | TRDict l => match dict_get l 0 with Some b => RetPair ev b | None => RetKeyError end
   end).
Proof. exact event_shape_lemma. Qed.
Print Assumptions event_shape.

(* exactly one receive call per (passing particle, ray solution) of that antenna *)
Theorem one_signal_per_solution : forall c g ev qs cnt a,
  NoDup (c_ants c) -> In a (c_ants c) ->
  List.length (filter (is_recv_for a) (snd (fst (event c g ev qs cnt)))) =
  list_sum (map (fun q => List.length (sols c q a)) (filter (passes (c_wmin c)) qs)).
Proof.
  intros. rewrite event_deliveries_lemma by assumption. rewrite map_length. apply pairs_length.
Qed.
Print Assumptions one_signal_per_solution.

(* index by index: the k-th signal handed to antenna a, the k-th ray path and the k-th
   polarization reported for a all belong to the k-th (particle, solution) pair of a *)
Theorem paths_pols_aligned : forall c g ev qs cnt a,
  NoDup (c_ants c) -> In a (c_ants c) ->
  let ps := pairs c qs a in
  filter (is_recv_for a) (snd (fst (event c g ev qs cnt))) = map (deliver c a) ps /\
  (c_writer c = true ->
   exists tr rps pls thrown,
     In (CWrite tr rps pls thrown) (snd (fst (event c g ev qs cnt))) /\
     rps = map (fun a => map (fun qp => p_id (snd qp)) (pairs c qs a)) (c_ants c) /\
     pls = map (fun a => map pol_of (pairs c qs a)) (c_ants c) /\
     thrown = cnt - g) /\
  map call_path (map (deliver c a) ps) = map (fun qp => p_id (snd qp)) ps.
Proof.
  intros c g ev qs cnt a Hnd Hin ps. split; [apply event_deliveries_lemma; assumption|]. split.
  - intros Hw. rewrite event_shape_lemma. rewrite Hw. cbn [fst snd]. do 4 eexists. split; [|repeat split; reflexivity].
    right. apply in_or_app. right. apply in_or_app. right. left. reflexivity.
  - rewrite map_map. apply map_ext. intros. apply deliver_path.
Qed.
Print Assumptions paths_pols_aligned.

(* every delivered signal lives on the configured grid delayed by that solution's time of
   flight, given the component contracts (a signal model answers on the times it is given,
   propagate delays by tof) *)
Theorem grid_is_times_plus_tof : forall (model_origin : Z -> Z) (prop_origin : path -> Z -> Z),
  (forall t, model_origin t = t) -> (forall p t, prop_origin p t = t + p_tof p) ->
  forall c qp, delivered_origin model_origin prop_origin c qp = c_t0 c + p_tof (snd qp).
Proof. exact grid_lemma. Qed.
Print Assumptions grid_is_times_plus_tof.

(* the three things that can happen for one solution *)
Theorem solution_cases : forall c q a p,
  (offcone c q p = true /\ do_path c q a p = [CRecvEmpty a (p_id p) (c_t0 c + p_tof p)]) \/
  (offcone c q p = false /\ c_sig c (q_id q) (p_id p) = true /\
   do_path c q a p = [CSignal (q_id q) (p_id p) (psi_deg (q_dir q) (p_emit p)) (p_len p) (c_t0 c);
                      CPropagate (p_id p) (q_id q) (nu_pol (p_emit p) (q_dir q)) (c_interp c);
                      CRecv a (p_id p) (q_id q) (p_recv p)]) \/
  (offcone c q p = false /\ c_sig c (q_id q) (p_id p) = false /\
   do_path c q a p = [CSignal (q_id q) (p_id p) (psi_deg (q_dir q) (p_emit p)) (p_len p) (c_t0 c);
                      CRecvEmpty a (p_id p) (c_t0 c + p_tof p)]).
Proof. exact do_path_shape. Qed.
Print Assumptions solution_cases.

(* the off-cone cut (and a failing signal model) only replace the pulse: number, order and
   paths of the signals each antenna gets, and the reported ray paths / polarizations, do
   not depend on offcone_max or on the signal model *)
Theorem offcone_only_replaces_pulse : forall c1 c2 qs a,
  c_ants c1 = c_ants c2 -> c_trace c1 = c_trace c2 -> c_wmin c1 = c_wmin c2 ->
  NoDup (c_ants c1) -> In a (c_ants c1) ->
  map call_path (filter (is_recv_for a) (all_calls c1 qs)) = map call_path (filter (is_recv_for a) (all_calls c2 qs)) /\
  List.length (filter (is_recv_for a) (all_calls c1 qs)) = List.length (filter (is_recv_for a) (all_calls c2 qs)) /\
  map (fun a => map (fun qp => p_id (snd qp)) (pairs c1 qs a)) (c_ants c1) = map (fun a => map (fun qp => p_id (snd qp)) (pairs c2 qs a)) (c_ants c2) /\
  map (fun a => map pol_of (pairs c1 qs a)) (c_ants c1) = map (fun a => map pol_of (pairs c2 qs a)) (c_ants c2).
Proof. exact offcone_only_replaces_lemma. Qed.
Print Assumptions offcone_only_replaces_pulse.

(* weight cuts: scalar form on the total weight, pair form on survival / interaction
   weights that are not None; a particle failing the cut reaches no component *)
Theorem weight_cut_spec : forall q,
  (forall m, passes (WScalar m) q = true <-> q_w q >= m) /\
  (forall w0 w1, passes (WPair w0 w1) q = true <->
     (forall s, q_surv q = Some s -> s >= w0) /\ (forall s, q_int q = Some s -> s >= w1)).
Proof. intros q. split; intros; [apply passes_scalar | apply passes_pair]. Qed.
Print Assumptions weight_cut_spec.

Theorem cut_particles_untouched : forall c qs x pid,
  In x (all_calls c qs) -> call_pid x = Some pid ->
  exists q, In q qs /\ passes (c_wmin c) q = true /\ q_id q = pid.
Proof. exact all_calls_pid. Qed.
Print Assumptions cut_particles_untouched.

(* the trigger result is the supplied function (once), or each function of the dict once in
   dict order with the 'global' entry (key 0) returned *)
Theorem trigger_is_supplied_function : forall t,
  match t with
  | TNone => eval_trig t = (TRNone, [])
  | TFun b => eval_trig t = (TRBool b, [CTrig (-1)])
  | TDict l => eval_trig t = (TRDict l, map (fun kv => CTrig (fst kv)) l)
  end.
Proof. exact trigger_lemma. Qed.
Print Assumptions trigger_is_supplied_function.

Theorem returns_generator_event : forall c g ev qs cnt,
  match snd (event c g ev qs cnt) with
  | RetEvent e => e = ev /\ c_trig c = TNone
  | RetPair e b => e = ev /\ (c_trig c = TFun b \/ exists l, c_trig c = TDict l /\ dict_get l 0 = Some b)
  | RetKeyError => exists l, c_trig c = TDict l /\ dict_get l 0 = None
  end.
Proof.
  intros. rewrite event_shape_lemma. cbn [snd]. destruct (c_trig c) as [|b|l]; simpl; auto.
  destruct (dict_get l 0) eqn:E; simpl; eauto.
Qed.
Print Assumptions returns_generator_event.

(* every shipped ray tracer constructor, Askaryan signal constructor, propagate method,
   receive method and EmptySignal accepts the call EventKernel.event makes (table generated
   from the source by tools/iface_table.py on every run) *)
Theorem interfaces_compatible :
  forallb (fun x : string * signature * callsite => accepts (snd (fst x)) (snd x)) calls = true.
Proof. exact interfaces_compatible_lemma. Qed.
Print Assumptions interfaces_compatible.

Theorem interface_table_counted : List.length calls = n_calls /\ (0 < n_calls)%nat.
Proof. exact calls_counted_lemma. Qed.
Print Assumptions interface_table_counted.

Theorem accepts_means_keywords_known : forall s c,
  accepts s c = true -> forall k, In k (k_kw c) -> has_param (s_params s) k = true \/ s_varkw s = true.
Proof. exact accepts_keywords. Qed.
Print Assumptions accepts_means_keywords_known.
