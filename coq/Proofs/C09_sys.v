(* C09, AntennaSystem part: the lead-in grid keeps every requested time as a node, so the
   round trip  times -> lead-in grid -> front end -> times  is exact for a linear front end:
   the system waveform is the front end applied to the sum of all received signals, and each
   entry of `signals` is the front end applied to the corresponding antenna signal. *)
From Coq Require Import List QArith ZArith Bool Lia Lqa Qround.
From PyrexLib Require Import Interp.
From PyrexModel Require Import AntennaModel AntennaSpec.
From PyrexProofs Require Import C09_struct C09_sum.
Import ListNotations.
Open Scope Q_scope.

Lemma lead_value : forall (t0 dt : Q) n i, (0 < n)%nat ->
  nat_Q i * ((t0 - (t0 - nat_Q n * dt)) / nat_Q n) + (t0 - nat_Q n * dt) == t0 + (nat_Q i - nat_Q n) * dt.
Proof.
  intros t0 dt n i Hn. pose proof (nat_Q_pos n Hn) as Hp. field. intro E. rewrite E in Hp. discriminate Hp.
Qed.

Lemma lead_pre_ok : forall t0 dt z, 0 < dt ->
  let pre := linspace_open (t0 - inject_Z z * dt) t0 (Z.to_nat z) in
  increasing pre /\ forall x, In x pre -> x < t0.
Proof.
  intros t0 dt z Hdt. cbn zeta.
  destruct (Z.to_nat z) as [|n'] eqn:En; [simpl; split; [auto|intros x []]|].
  assert (Hz : inject_Z z = nat_Q (S n')).
  { unfold nat_Q. rewrite <- En. rewrite Z2Nat.id; [reflexivity|]. lia. }
  rewrite Hz. set (n := S n') in *. assert (Hn : (0 < n)%nat) by (unfold n; lia).
  unfold linspace_open. split.
  - apply inc_map_seq. intros i j Hij. rewrite !lead_value by exact Hn.
    pose proof (nat_Q_lt i j Hij). nra.
  - intros x Hx. apply in_map_iff in Hx. destruct Hx as (i & Hx & Hi). subst x.
    apply in_seq in Hi. rewrite lead_value by exact Hn.
    assert (nat_Q i < nat_Q n) by (apply nat_Q_lt; lia). nra.
Qed.

Lemma lead_in_times_increasing : forall sc ts, wf_window ts -> increasing (lead_in_times sc ts).
Proof.
  intros sc ts Hw. pose proof (window_dt_pos ts Hw) as Hdt. destruct Hw as (Hinc & Hlen).
  unfold lead_in_times.
  destruct (lead_pre_ok (t_first ts) (t_second ts - t_first ts) (lead_in_n sc ts) Hdt) as (P1 & P2).
  apply increasing_app; auto.
  intros x y Hx Hy. specialize (P2 x Hx).
  destruct (increasing_bounds ts y Hinc Hy) as (Hge & _). lra.
Qed.

Lemma lead_in_times_nodes : forall sc ts j, (j < length ts)%nat ->
  exists i, (i < length (lead_in_times sc ts))%nat /\ nth i (lead_in_times sc ts) 0 = nth j ts 0.
Proof.
  intros sc ts j Hj. unfold lead_in_times.
  set (pre := linspace_open _ _ _).
  exists (length pre + j)%nat. split.
  - rewrite app_length. lia.
  - rewrite app_nth2 by lia. replace (length pre + j - length pre)%nat with j by lia. reflexivity.
Qed.

Lemma lead_in_times_window : forall sc ts, wf_window ts -> wf_window (lead_in_times sc ts).
Proof.
  intros sc ts Hw. split; [apply lead_in_times_increasing; exact Hw|].
  unfold lead_in_times. rewrite app_length. destruct Hw as (_ & Hlen). lia.
Qed.

Lemma Forall2_Qeq_nth : forall (a b : list Q), Forall2 Qeq a b ->
  forall i, (i < length a)%nat -> nth i a 0 == nth i b 0.
Proof.
  intros a b H. induction H as [|x y a b Hxy H IH]; intros i Hi; simpl in Hi; [lia|].
  destruct i; simpl; auto. apply IH. lia.
Qed.

Lemma Forall2_Qeq_length : forall (a b : list Q), Forall2 Qeq a b -> length a = length b.
Proof. intros a b H. induction H; simpl; auto. Qed.

(* round trip through a grid that contains the requested times as nodes, with a
   pointwise scaling in between *)
Lemma round_trip_scaled : forall lt (vals : list Q) ts (k : Q) (f : Q -> Q),
  increasing lt -> length vals = length lt ->
  (forall i, (i < length lt)%nat -> nth i vals 0 == f (nth i lt 0)) ->
  (forall j, (j < length ts)%nat -> exists i, (i < length lt)%nat /\ nth i lt 0 = nth j ts 0) ->
  Forall2 Qeq (map (fun t => interp t lt (map (fun v => v * k) vals)) ts)
              (map (fun t => f t * k) ts).
Proof.
  intros lt vals ts k f Hinc Hlen Hval Hnodes.
  apply Forall2_nth_Q; [rewrite !map_length; reflexivity|].
  intros j Hj. rewrite map_length in Hj.
  rewrite (nth_map_Q (fun t => interp t lt (map (fun v => v * k) vals))) by exact Hj.
  rewrite (nth_map_Q (fun t => f t * k)) by exact Hj.
  destruct (Hnodes j Hj) as (i & Hi & Hnode). rewrite <- Hnode.
  rewrite interp_node; auto; [|rewrite map_length; lia].
  rewrite (nth_map_Q (fun v => v * k)) by lia.
  rewrite (Hval i Hi). reflexivity.
Qed.

Lemma sys_full_waveform_is_sum_lemma : forall sc st ts,
  noisy (ant_cfg sc) = false -> fe_taps sc = [] -> fe_shift sc = None -> wf_window ts ->
  fst (s_full_waveform sc st ts) = st /\
  sig_eq (snd (s_full_waveform sc st ts))
         (mkSig ts (map (fun t => sum_at (signals (ant st)) t * fe_scale sc) ts)).
Proof.
  intros sc st ts Hn Htaps Hshift Hw. unfold s_full_waveform.
  rewrite fw_noiseless by exact Hn. cbn [fst snd]. split; [destruct st; reflexivity|].
  set (lt := lead_in_times sc ts). set (sigs := signals (ant st)).
  pose proof (lead_in_times_window sc ts Hw) as Hwl. fold lt in Hwl.
  destruct (full_waveform_is_sum_lemma (ant_cfg sc) sigs lt Hwl) as (Ht & Hv).
  unfold spec_wave in Hv. cbn [s_values] in Hv.
  unfold sig_eq, with_times, front_end. rewrite Htaps, Hshift. cbn [s_times s_values]. split; [reflexivity|].
  apply round_trip_scaled.
  - apply Hwl.
  - rewrite (Forall2_Qeq_length _ _ Hv), map_length. reflexivity.
  - intros i Hi. rewrite (Forall2_Qeq_nth _ _ Hv) by (rewrite (Forall2_Qeq_length _ _ Hv), map_length; exact Hi).
    rewrite (nth_map_Q (sum_at sigs)) by exact Hi. reflexivity.
  - intros j Hj. apply lead_in_times_nodes. exact Hj.
Qed.

(* each entry of AntennaSystem.signals is the front end applied to that antenna signal *)
Lemma sys_signal_is_front_end_lemma : forall sc s,
  fe_taps sc = [] -> fe_shift sc = None ->
  wf_window (s_times s) -> length (s_times s) = length (s_values s) ->
  sig_eq (sys_signal_of sc s) (front_end sc s).
Proof.
  intros sc s Htaps Hshift Hw Hlen. unfold sys_signal_of, sig_eq, with_times, front_end. rewrite Htaps, Hshift. cbn [s_times s_values].
  split; [reflexivity|].
  set (lt := lead_in_times sc (s_times s)).
  pose proof (lead_in_times_window sc _ Hw) as Hwl. fold lt in Hwl.
  assert (R := round_trip_scaled lt (map (fun t => interp t (s_times s) (s_values s)) lt) (s_times s)
                 (fe_scale sc) (fun t => interp t (s_times s) (s_values s))).
  assert (E : Forall2 Qeq (map (fun t => interp t (s_times s) (s_values s) * fe_scale sc) (s_times s))
                          (map (fun v => v * fe_scale sc) (s_values s))).
  { apply Forall2_nth_Q; [rewrite !map_length; exact Hlen|].
    intros j Hj. rewrite map_length in Hj.
    rewrite (nth_map_Q (fun t => interp t (s_times s) (s_values s) * fe_scale sc)) by exact Hj.
    rewrite (nth_map_Q (fun v => v * fe_scale sc)) by lia.
    rewrite interp_node; auto; [reflexivity|apply Hw]. }
  assert (R' : Forall2 Qeq
                 (map (fun t => interp t lt (map (fun v => v * fe_scale sc) (map (fun t0 => interp t0 (s_times s) (s_values s)) lt))) (s_times s))
                 (map (fun t => interp t (s_times s) (s_values s) * fe_scale sc) (s_times s))).
  { apply R.
    - apply Hwl.
    - apply map_length.
    - intros i Hi. rewrite (nth_map_Q (fun t => interp t (s_times s) (s_values s))) by exact Hi. reflexivity.
    - intros j Hj. apply lead_in_times_nodes. exact Hj. }
  clear R. revert R' E.
  generalize (map (fun t => interp t lt (map (fun v => v * fe_scale sc) (map (fun t0 => interp t0 (s_times s) (s_values s)) lt))) (s_times s)).
  generalize (map (fun t => interp t (s_times s) (s_values s) * fe_scale sc) (s_times s)).
  generalize (map (fun v => v * fe_scale sc) (s_values s)).
  intros c b a Hab. revert c. induction Hab as [|x y a b Hxy Hab IH]; intros c Hbc; inversion Hbc; subst; constructor.
  - rewrite Hxy. assumption.
  - apply IH. assumption.
Qed.

(* the lead-in really covers lead_in_time for a uniform window: n_pts * dt > lead_in >= 0 *)
Lemma lead_in_covers_lemma : forall sc ts,
  wf_window ts -> 0 <= lead_in sc ->
  t_last ts - t_first ts == nat_Q (length ts - 1) * (t_second ts - t_first ts) ->
  let dt := t_second ts - t_first ts in
  (1 <= lead_in_n sc ts)%Z /\ lead_in sc < inject_Z (lead_in_n sc ts) * dt.
Proof.
  intros sc ts Hw HL Hu. cbn zeta. pose proof (window_dt_pos ts Hw) as Hdt.
  destruct Hw as (_ & Hlen). unfold lead_in_n.
  set (dt := t_second ts - t_first ts) in *.
  set (q := (t_last ts - (t_first ts - lead_in sc)) / dt).
  assert (Hq : q == nat_Q (length ts - 1) + lead_in sc / dt).
  { assert (E1 : t_last ts - (t_first ts - lead_in sc) == nat_Q (length ts - 1) * dt + lead_in sc)
      by (rewrite <- Hu; ring).
    unfold q. rewrite E1. field. intro E. rewrite E in Hdt. exact (Qlt_irrefl _ Hdt). }
  (* Qtrunc q = Qfloor q for q >= 0 *)
  assert (Hq0 : 0 <= q).
  { rewrite Hq. assert (0 <= lead_in sc / dt) by (apply Qle_shift_div_l; lra).
    assert (0 <= nat_Q (length ts - 1)).
    { unfold nat_Q. change 0 with (inject_Z 0). rewrite <- Zle_Qle. lia. }
    lra. }
  assert (Ht : Qtrunc q = Qfloor q).
  { unfold Qtrunc, Qfloor. destruct q as [qn qd]. simpl.
    unfold Qle in Hq0. simpl in Hq0. rewrite Z.mul_1_r in Hq0.
    apply Z.quot_div_nonneg; lia. }
  rewrite Ht.
  assert (Hf : (Qfloor q = Z.of_nat (length ts - 1) + Qfloor (lead_in sc / dt))%Z).
  { assert (E : q == inject_Z (Z.of_nat (length ts - 1)) + lead_in sc / dt) by exact Hq.
    rewrite E. clear.
    generalize (Z.of_nat (length ts - 1)) as k. generalize (lead_in sc / dt) as x. intros x k.
    assert (H1 := Qfloor_le x). assert (H2 := Qlt_floor x).
    rewrite inject_Z_plus in H2. change (inject_Z 1) with 1 in H2.
    apply Z.le_antisymm.
    - assert (Qfloor (inject_Z k + x) < k + Qfloor x + 1)%Z; [|lia].
      rewrite Zlt_Qlt. rewrite !inject_Z_plus.
      apply Qle_lt_trans with (inject_Z k + x); [apply Qfloor_le|]. change (inject_Z 1) with 1. lra.
    - assert (inject_Z (k + Qfloor x) <= inject_Z k + x) by (rewrite inject_Z_plus; lra).
      apply Qfloor_resp_le in H. rewrite Qfloor_Z in H. exact H. }
  rewrite Hf.
  assert (Hfl : (0 <= Qfloor (lead_in sc / dt))%Z).
  { assert (0 <= lead_in sc / dt) by (apply Qle_shift_div_l; lra).
    apply Qfloor_resp_le in H. exact H. }
  split; [lia|].
  replace (Z.of_nat (length ts - 1) + Qfloor (lead_in sc / dt) + 2 - Z.of_nat (length ts))%Z
    with (Qfloor (lead_in sc / dt) + 1)%Z by lia.
  assert (H2 := Qlt_floor (lead_in sc / dt)).
  assert (lead_in sc == lead_in sc / dt * dt) by (field; lra).
  rewrite H at 1. apply Qmult_lt_compat_r; [exact Hdt|exact H2].
Qed.
