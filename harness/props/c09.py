"""C09: Antenna and antenna-system hit bookkeeping is consistent under every history.

Three-way comparison on generated operation histories:
  implementation (real pyrex objects)  vs  executable Coq model (coq/Model/AntennaModel.v,
  evaluated by vm_compute)  vs  an independent property oracle (exact Fractions; "the waveform
  over a window is the sum of all received signals interpolated onto it").
Data are small dyadic rationals so that float arithmetic is exact and `=` is the comparison.
"""
import bisect
import json
import logging
import os
import sys
from fractions import Fraction as Fr

import numpy as np

from harness import common
from harness.common import ROOT

IMPORTS = ("From Coq Require Import List QArith ZArith.\n"
           "From PyrexLib Require Import Interp.\n"
           "From PyrexModel Require Import AntennaModel.\n"
           "Import ListNotations.\nOpen Scope Q_scope.\n")

DTS = [Fr(1), Fr(1, 2), Fr(2), Fr(1, 4)]
QUERY_OPS = ["all", "wf", "hit", "hitmc", "full", "during", "signals"]


# ------------------------------------------------------------------ rationals / literals
def fr(x):
    return x if isinstance(x, Fr) else Fr(x)


def fs(x):          # Fraction -> json string
    return "%d/%d" % (x.numerator, x.denominator)


def qlit(x):
    x = fr(x)
    n = "(%d)" % x.numerator if x.numerator < 0 else "%d" % x.numerator
    return "(%s # %d)" % (n, x.denominator)


def qlist(l):
    return "[" + "; ".join(qlit(x) for x in l) + "]"


def grid_times(g):
    t0, dt = Fr(g["t0"]), Fr(g["dt"])
    return [t0 + i * dt for i in range(g["n"])]


def sig_of(d):
    """json signal {t0,dt,n,vals} -> (times, values) as Fractions"""
    return grid_times(d), [Fr(v) for v in d["vals"]]


def sig_lit(times, values):
    return "(mkSig %s %s)" % (qlist(times), qlist(values))


# ------------------------------------------------------------------ independent oracle
def interp_fr(x, ts, vs):
    """linear interpolation with zero outside [ts[0], ts[-1]] (property-level definition)."""
    if x < ts[0] or x > ts[-1]:
        return Fr(0)
    j = bisect.bisect_right(ts, x) - 1
    if j >= len(ts) - 1:
        return vs[len(ts) - 1]
    return vs[j] + (vs[j + 1] - vs[j]) * (x - ts[j]) / (ts[j + 1] - ts[j])


class Oracle:
    """What the property says: a pure function of the received signals (since the last clear)."""

    def __init__(self, cfg):
        self.thr = Fr(cfg["thr"]) if cfg.get("thr") is not None else None
        self.k = Fr(cfg.get("k", "1/1")) if cfg["kind"] == "sys" else Fr(1)
        # FIR stage of the front end (memory of len(taps)-1 samples): on a grid of step dt the output at t is
        # sum_m taps[m] * input(t - m*dt), the input being the (gain times the) sum of the received signals at ANY
        # time, also before the requested window (that is what the lead-in is for)
        self.taps = [Fr(c) for c in cfg["taps"]] if cfg["kind"] == "sys" and cfg.get("taps") else [Fr(1)]
        # cable delay: the front end stamps its output with times + D, so the output at t is the input at t - D
        self.shift = Fr(cfg["shift"]) if cfg["kind"] == "sys" and cfg.get("shift") else Fr(0)
        self.received = []

    def trig(self, vals):
        if self.thr is None:
            return True
        return max(abs(v) for v in vals) > self.thr

    def fe_of(self, sigs, times):
        dt = times[1] - times[0]
        return [sum((c * self.k * sum((interp_fr(t - self.shift - m * dt, ts, vs) for ts, vs in sigs), Fr(0))
                     for m, c in enumerate(self.taps)), Fr(0)) for t in times]

    def wave(self, times):
        return (list(times), self.fe_of(self.received, times))

    def all(self):
        return [self.wave(ts) for ts, _ in self.received]

    def do(self, op, stored=None):
        kind = op[0]
        if kind in ("recv", "recv2"):
            self.received.append(stored)
            return None
        if kind == "clear":
            self.received = []
            return None
        if kind == "all":
            return self.all()
        if kind == "wf":
            return [w for w in self.all() if self.trig(w[1])]
        if kind in ("hit", "hitmc"):
            return any(self.trig(w[1]) for w in self.all())
        if kind == "full":
            return self.wave(grid_times(op[1]))
        if kind == "during":
            return self.trig(self.wave(grid_times(op[1]))[1])
        if kind == "signals":
            return [(list(ts), self.fe_of([(ts, vs)], ts)) for ts, vs in self.received]
        raise ValueError(kind)


# ------------------------------------------------------------------ implementation side
def _classes():
    import pyrex
    logging.getLogger("pyrex").setLevel(logging.CRITICAL)
    from pyrex.antenna import Antenna, DipoleAntenna
    from pyrex.detector import AntennaSystem
    from pyrex.signals import Signal, EmptySignal, FunctionSignal

    class ExactAntenna(Antenna):
        """Antenna whose response is the identity without the FFT round trip, so that the
        stored signals stay integer/dyadic (apply_response is documented as overridable)."""
        thr = None

        def apply_response(self, signal, direction=None, polarization=None, force_real=False):
            new_signal = signal.copy()
            new_signal.value_type = Signal.Type.voltage
            return new_signal

        def trigger(self, signal):
            if self.thr is None:
                return super().trigger(signal)
            return bool(max(np.abs(signal.values)) > self.thr)

    class LinSystem(AntennaSystem):
        k = 1.0
        taps = None
        shift = 0.0

        def front_end(self, signal):
            out = self._front_end_values(signal)
            if self.shift:
                # cable delay / delay line: same samples, later time stamps (the output grid is NOT the input grid)
                return Signal(np.asarray(out.times) + self.shift, out.values, value_type=out.value_type)
            return out

        def _front_end_values(self, signal):
            if self.taps is None:
                if self.k == 1.0:
                    return super().front_end(signal)
                return signal * self.k
            # gain followed by an FIR filter on the samples (front end with memory; zero initial state)
            x = np.asarray(signal.values) * self.k
            y = np.zeros(len(x))
            for m, c in enumerate(self.taps):
                if m < len(x):
                    y[m:] += c * x[:len(x) - m]
            return Signal(signal.times, y, value_type=signal.value_type)

    return dict(Antenna=Antenna, DipoleAntenna=DipoleAntenna, AntennaSystem=AntennaSystem, Signal=Signal,
                EmptySignal=EmptySignal, FunctionSignal=FunctionSignal,
                ExactAntenna=ExactAntenna, LinSystem=LinSystem)


_CL = None


def classes():
    global _CL
    if _CL is None:
        _CL = _classes()
    return _CL


def build(cfg, noisy=False):
    C = classes()
    kind = cfg["kind"]
    noise_kw = dict(freq_range=(0.05, 0.45), noise_rms=1.0, unique_noise_waveforms=4) if noisy else {}
    if kind in ("exact", "thr", "sys"):
        a = C["ExactAntenna"]((0, 0, 0), noisy=noisy, **noise_kw)
        if cfg.get("thr") is not None:
            a.thr = float(Fr(cfg["thr"]))
        if kind == "sys":
            s = C["LinSystem"](a)
            s.lead_in_time = float(Fr(cfg.get("lead_in", "0/1")))
            s.k = float(Fr(cfg.get("k", "1/1")))
            if cfg.get("taps"):
                s.taps = [float(Fr(c)) for c in cfg["taps"]]
            if cfg.get("shift"):
                s.shift = float(Fr(cfg["shift"]))
            return s
        return a
    if kind == "real":
        return C["Antenna"]((0, 0, 0), noisy=noisy, **noise_kw)
    if kind == "dipole":
        return C["DipoleAntenna"]("d", (0, 0, 0), center_frequency=0.2, bandwidth=0.2, temperature=300,
                                  resistance=100, orientation=(0, 0, 1),
                                  trigger_threshold=float(Fr(cfg["thr"])), noisy=noisy,
                                  unique_noise_waveforms=4)
    raise ValueError(kind)


def np_times(times):
    return np.array([float(t) for t in times])


def mk_signal(d):
    """json signal -> pyrex object.  form "empty": an EmptySignal (what EventKernel sends for off-cone rays; all
    zeros on its grid); form "func": a FunctionSignal whose function is the piecewise-linear interpolant of the
    listed samples with zero outside (so evaluating it anywhere IS linear interpolation); default: Signal."""
    C = classes()
    ts, vs = sig_of(d)
    vt = C["Signal"].Type.voltage
    form = d.get("form")
    if form == "empty":
        return C["EmptySignal"](np_times(ts), value_type=vt)
    xp, fp = np_times(ts), np.array([float(v) for v in vs])
    if form == "func":
        return C["FunctionSignal"](np_times(ts), lambda t, xp=xp, fp=fp: np.interp(t, xp, fp, left=0, right=0),
                                   value_type=vt)
    return C["Signal"](xp, fp, value_type=vt)


def sig_out(s):
    return ([Fr(float(t)) for t in s.times], [Fr(float(v)) for v in s.values])


def impl_do(obj, op):
    """Execute one op on the real object; returns canonical output."""
    kind = op[0]
    if kind == "recv":
        obj.receive(mk_signal(op[1]))
        return None
    if kind == "recv2":
        obj.receive([mk_signal(op[1]), mk_signal(op[2])], polarization=[(0, 0, 1), (1, 0, 0)])
        return None
    if kind == "clear":
        obj.clear(reset_noise=bool(op[1]))
        return None
    if kind == "all":
        return [sig_out(w) for w in obj.all_waveforms]
    if kind == "wf":
        return [sig_out(w) for w in obj.waveforms]
    if kind == "hit":
        return bool(obj.is_hit)
    if kind == "hitmc":
        return bool(obj.is_hit_mc_truth)
    if kind == "full":
        return sig_out(obj.full_waveform(np_times(grid_times(op[1]))))
    if kind == "during":
        return bool(obj.is_hit_during(np_times(grid_times(op[1]))))
    if kind == "noise":
        return sig_out(obj.make_noise(np_times(grid_times(op[1]))))
    if kind == "signals":
        return [sig_out(w) for w in obj.signals]
    raise ValueError(kind)


def stored_signal(obj):
    a = getattr(obj, "antenna", obj)
    return sig_out(a.signals[-1])


def expected_stored(op):
    if op[0] == "recv":
        return sig_of(op[1])
    ts, va = sig_of(op[1])
    _, vb = sig_of(op[2])
    return ts, [x + y for x, y in zip(va, vb)]


# ------------------------------------------------------------------ model side
def cfg_lit(cfg, invalidate=True):
    inv = "true" if invalidate else "false"
    base = "(cfg_thr %s %s)" % (qlit(Fr(cfg["thr"])), inv) if cfg.get("thr") is not None else "(cfg_plain %s)" % inv
    if cfg["kind"] == "sys":
        return "(mkSConfig %s %s %s %s %s)" % (base, qlit(Fr(cfg.get("lead_in", "0/1"))), qlit(Fr(cfg.get("k", "1/1"))), shift_lit(cfg),
                                               qlist([Fr(c) for c in cfg.get("taps") or []]))
    return base


def shift_lit(cfg):
    return "(Some %s)" % qlit(Fr(cfg["shift"])) if cfg.get("shift") else "None"


def op_lit(op, stored):
    kind = op[0]
    if kind in ("recv", "recv2"):
        return "Receive %s" % sig_lit(*stored)
    if kind == "clear":
        return "Clear %s" % ("true" if op[1] else "false")
    if kind == "full":
        return "FullWaveform %s" % qlist(grid_times(op[1]))
    if kind == "during":
        return "IsHitDuring %s" % qlist(grid_times(op[1]))
    if kind == "noise":
        return "MakeNoise %s" % qlist(grid_times(op[1]))
    return {"all": "AllWaveforms", "wf": "Waveforms", "hit": "IsHit", "hitmc": "IsHitMC", "signals": "Signals"}[kind]


def model_expr(cfg, hist, stored_list, invalidate=True):
    it = iter(stored_list)
    ops = "[" + "; ".join(op_lit(op, next(it) if op[0] in ("recv", "recv2") else None) for op in hist) + "]"
    fn = "s_outputs" if cfg["kind"] == "sys" else "outputs"
    return "enc_outs (%s %s %s)" % (fn, cfg_lit(cfg, invalidate), ops)


def parse_zlist(s):
    s = s.strip()
    assert s.startswith("[") and s.endswith("]"), s[:80]
    body = s[1:-1].replace("(", "").replace(")", "").strip()
    return [int(x) for x in body.split(";")] if body else []


def decode_outs(z, n_ops):
    """inverse of enc_outs"""
    pos = [0]

    def nxt():
        v = z[pos[0]]
        pos[0] += 1
        return v

    def qs():
        n = nxt()
        out = []
        for _ in range(n):
            a = nxt()
            b = nxt()
            out.append(Fr(a, b))
        return out

    def sig():
        t = qs()
        v = qs()
        return (t, v)
    res = []
    for _ in range(n_ops):
        tag = nxt()
        if tag == 0:
            res.append(None)
        elif tag == 1:
            res.append(bool(nxt()))
        elif tag == 2:
            res.append(sig())
        elif tag == 3:
            n = nxt()
            res.append([sig() for _ in range(n)])
        else:
            raise ValueError("bad tag %r" % tag)
    assert pos[0] == len(z), "trailing data in model output"
    return res


# ------------------------------------------------------------------ comparison
def out_equal(a, b, tol=None):
    """Exact (tol None) or tolerance comparison of two canonical outputs. Times are always exact."""
    if a is None or b is None or isinstance(a, bool) or isinstance(b, bool):
        return type(a) is type(b) and a == b
    if isinstance(a, tuple) and isinstance(b, tuple):
        if a[0] != b[0] or len(a[1]) != len(b[1]):
            return False
        if tol is None:
            return a[1] == b[1]
        return all(abs(x - y) <= tol for x, y in zip(a[1], b[1]))
    if isinstance(a, list) and isinstance(b, list):
        return len(a) == len(b) and all(out_equal(x, y, tol) for x, y in zip(a, b))
    return False


def show(o):
    if isinstance(o, tuple):
        return {"times": [str(t) for t in o[0]], "values": [str(float(v)) if v.denominator > 10**6 else str(v) for v in o[1]]}
    if isinstance(o, list):
        return [show(x) for x in o]
    return o


# ------------------------------------------------------------------ generators
def rand_grid(rng, lo=-8, hi=24):
    dt = rng.choice(DTS)
    n = rng.randint(2, 9)
    t0 = Fr(rng.randint(lo * 4, hi * 4), 4)
    return {"t0": fs(t0), "dt": fs(dt), "n": n}


def rand_signal(rng, prev, totals=(), thr=None):
    """integer/dyadic-valued signal on a dyadic grid; placed relative to earlier signals so that
    overlapping / nested / disjoint / identical windows all occur, and shaped relative to them so that
    triggers APPEAR (doubling, pulses just above the threshold) and DISAPPEAR (opposite-sign copies that
    cancel one earlier signal or the whole sum, pulses that pull the sum just below the threshold)"""
    mode = "free"
    if prev:
        if rng.random() < 0.35:
            mode = rng.choice(["cancel", "cancel", "cancel_total", "cancel_total", "double", "to_threshold"])
        else:
            mode = rng.choice(["free", "overlap", "nested", "same", "disjoint", "touch"])
    g = rand_grid(rng)
    vals = None
    if mode != "free":
        i = rng.randrange(len(prev)) if rng.random() < 0.5 else len(prev) - 1
        p = prev[i]
        pt = grid_times(p)
        if mode in ("same", "cancel", "cancel_total", "double", "to_threshold"):
            g = {"t0": p["t0"], "dt": p["dt"], "n": p["n"]}
        elif mode == "overlap":
            g["t0"] = fs(pt[rng.randrange(len(pt))] + Fr(rng.randint(-2, 2), 4))
        elif mode == "nested":
            g["dt"] = fs(rng.choice([Fr(1, 4), Fr(1, 2)]))
            g["n"] = rng.randint(2, 4)
            g["t0"] = fs(pt[0] + Fr(rng.randint(0, 3), 4))
        elif mode == "disjoint":
            g["t0"] = fs(pt[-1] + rng.randint(1, 30))
        elif mode == "touch":
            g["t0"] = fs(pt[-1])
        if mode in ("cancel", "double") and i < len(totals):
            sign = -1 if mode == "cancel" else 1
            vals = [sign * v for v in totals[i][1]]
        elif mode in ("cancel_total", "to_threshold") and totals:
            vals = [-sum((interp_fr(t, ts, vs) for ts, vs in totals), Fr(0)) for t in pt]
            if mode == "to_threshold" and thr is not None:
                # leave the sum with a single peak exactly at / just below / just above the threshold
                j = rng.randrange(len(vals))
                vals[j] += rng.choice([1, -1]) * (thr + rng.choice([Fr(0), Fr(0), Fr(-1, 2), Fr(1, 2), Fr(-1), Fr(1)]))
        if vals is not None and rng.random() < 0.35:
            j = rng.randrange(len(vals))
            vals[j] += rng.choice([1, -1, Fr(1, 2), 2, -3])
    if vals is None:
        vals = [rng.choice([0, 0, 1, -1, 2, 3, -4, 5, 7, -9, rng.randint(-9, 9)]) for _ in range(g["n"])]
        if thr is not None and rng.random() < 0.3:
            # a pulse around the threshold
            j = rng.randrange(len(vals))
            vals = [0] * len(vals)
            vals[j] = rng.choice([1, -1]) * (thr + rng.choice([Fr(0), Fr(1, 2), Fr(-1, 2), Fr(1), Fr(-1)]))
        if rng.random() < 0.1:
            vals = [0] * g["n"]
    g["vals"] = [fs(Fr(v)) for v in vals]
    return g


def rand_query_grid(rng, prev):
    if prev and rng.random() < 0.75:
        p = rng.choice(prev)
        pt = grid_times(p)
        g = rand_grid(rng)
        g["t0"] = fs(pt[rng.randrange(len(pt))] + Fr(rng.randint(-12, 4), 4))
        if rng.random() < 0.3:
            g = {"t0": p["t0"], "dt": p["dt"], "n": p["n"]}
        return g
    return rand_grid(rng, -40, 60)


def rand_history(rng, cfg, max_ops=40, noise=False):
    n_ops = rng.randint(3, max_ops)
    hist, prev = [], []
    qops = [q for q in QUERY_OPS if not (q == "hitmc" and (cfg["kind"] == "sys" or noise))]
    if noise:
        qops = qops + ["noise", "noise", "full"]
    p_recv = rng.choice([0.25, 0.4, 0.55])
    p_clear = 0.06
    if noise:
        # also: antennas that are idle / have only produced noise, clears (with and without noise reset) on them,
        # twice in a row, with noise reads on re-used windows in between
        p_recv = rng.choice([0.0, 0.08, 0.25, 0.4])
        p_clear = rng.choice([0.06, 0.2, 0.3])
    used_grids = []
    thr = Fr(cfg["thr"]) if cfg.get("thr") is not None else None
    totals = []          # what the antenna stores for each receive (exact classes)
    first_q = [q for q in ("hit", "hitmc", "wf", "all", "during", "full") if q in qops]
    force_query = False

    def query(q):
        if q in ("full", "during", "noise"):
            if noise and used_grids and rng.random() < 0.6:
                g0 = rng.choice(used_grids)
                g = dict(g0)
                if rng.random() < 0.5:      # overlapping, same step
                    g["t0"] = fs(Fr(g0["t0"]) + rng.randint(-3, 3) * Fr(g0["dt"]))
                return [q, g]
            if prev and q != "noise" and rng.random() < 0.5:
                pq = rng.choice(prev)
                g = {"t0": pq["t0"], "dt": pq["dt"], "n": pq["n"]}
            else:
                g = rand_query_grid(rng, prev)
            used_grids.append(g)
            return [q, g]
        return [q]
    while len(hist) < n_ops:
        r = rng.random()
        if force_query:
            # every kind of query gets to be the FIRST one after a receive
            force_query = False
            hist.append(query(rng.choice(first_q + (["noise", "noise", "full"] if noise else []))))
        elif r < p_recv and len(prev) < 6:
            s = rand_signal(rng, prev, totals, thr)
            ts, vs = sig_of(s)
            if rng.random() < 0.12:
                s2 = dict(s)
                s2["vals"] = ["%d/1" % rng.randint(-5, 5) for _ in range(s["n"])]
                hist.append(["recv2", s, s2])
                vs = [a + b for a, b in zip(vs, sig_of(s2)[1])]
            else:
                r2 = rng.random()
                if r2 < 0.14:
                    # an EmptySignal (off-cone ray): zeros on its own grid, usually overlapping the other signals
                    s["vals"] = ["0/1"] * s["n"]
                    s["form"] = "empty"
                    vs = [Fr(0)] * s["n"]
                elif r2 < 0.24 and cfg["kind"] != "dipole":
                    s["form"] = "func"
                hist.append(["recv", s])
            prev.append(s)
            totals.append((ts, vs))
            force_query = rng.random() < 0.6
        elif p_recv <= r < p_recv + p_clear:
            hist.append(["clear", rng.random() < (0.6 if noise else 0.4)])
            if noise and rng.random() < 0.25:
                hist.append(["clear", rng.random() < 0.6])          # twice in a row
            prev = []
            totals = []
            force_query = noise and rng.random() < 0.6             # a read right after the clear
        else:
            hist.append(query(rng.choice(qops)))
    return hist


def rand_cfg(rng, i):
    kinds = ["exact", "thr", "sys", "sys", "thr", "real", "dipole"]
    kind = kinds[i % len(kinds)]
    cfg = {"kind": kind}
    if kind in ("thr", "dipole") or (kind == "sys" and rng.random() < 0.7):
        cfg["thr"] = fs(rng.choice([Fr(2), Fr(4), Fr(6), Fr(9, 2), Fr(11), Fr(0)]))
        if kind == "dipole":
            cfg["thr"] = fs(rng.choice([Fr(1, 2), Fr(2), Fr(3)]))
    if kind == "sys":
        cfg["lead_in"] = fs(rng.choice([Fr(0), Fr(0), Fr(1, 2), Fr(3), Fr(11, 4), Fr(10), Fr(1, 8)]))
        cfg["k"] = fs(rng.choice([Fr(1), Fr(1), Fr(2), Fr(-1), Fr(1, 2), Fr(3)]))
        if rng.random() < 0.6:
            # front end with memory: delay line / 2-tap / 3- or 4-tap FIR on the samples; the lead-in must cover
            # the memory for every grid step used (dt <= 2): lead_in >= (len(taps)-1)*2
            taps = rng.choice([[0, 1], [0, 0, 1], [0, 0, 0, 1], [1, -1], [Fr(1, 2), Fr(1, 2)], [1, 2, -1],
                               [Fr(1, 4), Fr(1, 2), Fr(1, 4)], [2, 0, 0, -1], [0, 0, 0, 0, 0, 1]])
            mem = len(taps) - 1
            cfg["taps"] = [fs(Fr(c)) for c in taps]
            cfg["lead_in"] = fs(rng.choice([Fr(2 * mem), Fr(2 * mem) + Fr(1, 2), Fr(2 * mem) + Fr(11, 4), Fr(4 * mem + 3)]))
        if rng.random() < 0.45:
            # front end whose output is NOT on the grid it was given: a cable delay D stamps the output with
            # times + D.  D is a whole number of samples for every grid step used (multiple of 2) so that the
            # property oracle in(t - D) is exact; the lead-in covers the delay plus the filter memory.
            D = Fr(rng.choice([2, 2, 4, 6]))
            cfg["shift"] = fs(D)
            cfg["lead_in"] = fs(Fr(cfg["lead_in"]) + D + rng.choice([Fr(0), Fr(1, 2), Fr(3)]))
    return cfg


# ------------------------------------------------------------------ running one history
def run_impl(cfg, hist):
    """Returns (outputs, stored signals, oracle outputs, exception text or None)."""
    exact = cfg["kind"] in ("exact", "thr", "sys")
    obj = build(cfg)
    orc = Oracle(cfg)
    outs, stored, oouts = [], [], []
    for op in hist:
        try:
            o = impl_do(obj, op)
        except Exception as e:      # noqa
            return outs, stored, oouts, "%s: %s at op %d %r" % (type(e).__name__, str(e)[:200], len(outs), op[0])
        st = None
        if op[0] in ("recv", "recv2"):
            st = stored_signal(obj)
            if exact:
                # what the antenna stored must be what it was sent
                exp = expected_stored(op)
                if not out_equal(st, exp):
                    outs.append({"stored_by_receive": show(st)})
                    oouts.append({"signal_sent": show(exp)})
                    stored.append(exp)
                    orc.do(op, exp)
                    continue
            stored.append(st)
        outs.append(o)
        oouts.append(orc.do(op, st))
    return outs, stored, oouts, None


def tolerance(stored):
    return Fr(1, 10**9) * (1 + sum((max(abs(v) for v in vs) for _, vs in stored), Fr(0)))


def near_threshold(cfg, outs_model, tol):
    """tolerance mode only: a waveform whose max|v| is within 1000*tol of the threshold makes the
    boolean outcome depend on rounding; such histories are not compared."""
    if cfg.get("thr") is None:
        return False
    thr = Fr(cfg["thr"])

    def sigs(o):
        if isinstance(o, tuple):
            yield o
        elif isinstance(o, list):
            for x in o:
                yield x
    for o in outs_model:
        for s in sigs(o):
            if s[1] and abs(max(abs(v) for v in s[1]) - thr) <= 1000 * tol:
                return True
    return False


def first_diff(a, b, tol):
    for i, (x, y) in enumerate(zip(a, b)):
        if not out_equal(x, y, tol):
            return i
    return None if len(a) == len(b) else min(len(a), len(b))


def judge(cfg, hist, model_outs):
    """Compare implementation with oracle (property) and with the model.
    Returns dict(prop_fail=idx|None, corr_fail=idx|None, exc=..., outs..)."""
    exact = cfg["kind"] in ("exact", "thr", "sys")
    outs, stored, oouts, exc = run_impl(cfg, hist)
    tol = None if exact else tolerance(stored)
    res = {"exc": exc, "impl": outs, "oracle": oouts, "model": model_outs, "tol": tol, "skipped": False}
    if exc:
        res["prop_fail"] = len(outs)
        res["corr_fail"] = len(outs)
        return res
    if not exact and model_outs is not None and near_threshold(cfg, model_outs, tol):
        res["skipped"] = True
        res["prop_fail"] = res["corr_fail"] = None
        return res
    res["prop_fail"] = first_diff(outs, oouts, tol)
    res["corr_fail"] = first_diff(outs, model_outs, tol) if model_outs is not None else None
    return res


def stored_for_model(cfg, hist):
    """Signals handed to the model: the generated ones in exact mode, the stored (post-response)
    ones for the real Antenna / DipoleAntenna."""
    exact = cfg["kind"] in ("exact", "thr", "sys")
    if exact:
        return [expected_stored(op) for op in hist if op[0] in ("recv", "recv2")]
    _, stored, _, _ = run_impl(cfg, hist)
    n = sum(1 for op in hist if op[0] in ("recv", "recv2"))
    # on an exception the tail is missing: pad with the generated signal
    gen = [expected_stored(op) for op in hist if op[0] in ("recv", "recv2")]
    return stored + gen[len(stored):n]


def eval_models(ctx, cases, invalidate=True):
    exprs = [model_expr(cfg, hist, stored_for_model(cfg, hist), invalidate) for cfg, hist in cases]
    vals = ctx.coq_eval_exprs(IMPORTS, exprs, chunk=max(1, (len(exprs) + 15) // 16))
    return [decode_outs(parse_zlist(v), len(hist)) for v, (cfg, hist) in zip(vals, cases)]


def shrink(cfg, hist, bad, budget=200):
    """Greedy op removal while `bad(hist)` stays true."""
    cur = list(hist)
    changed = True
    while changed and budget > 0:
        changed = False
        i = len(cur) - 1
        while i >= 0 and budget > 0:
            cand = cur[:i] + cur[i + 1:]
            budget -= 1
            try:
                if cand and bad(cand):
                    cur = cand
                    changed = True
            except Exception:
                pass
            i -= 1
    return cur


def history_key(cfg, hist):
    return "hist:" + json.dumps([cfg, hist], sort_keys=True, separators=(",", ":"))


def summarize(hist):
    return " ".join(op[0] for op in hist)


# ------------------------------------------------------------------ noise probes
NOISE_CFGS = [{"kind": "exact"}, {"kind": "sys", "lead_in": "3/1", "k": "2/1"},
              {"kind": "sys", "lead_in": "0/1", "k": "1/1"}, {"kind": "real"},
              {"kind": "dipole", "thr": "2/1"}, {"kind": "thr", "thr": "3/1"},
              # front ends with memory; lead_in_time covers the memory for every grid step (dt <= 2)
              {"kind": "sys", "lead_in": "6/1", "k": "1/1", "taps": ["0/1", "0/1", "0/1", "1/1"]},
              {"kind": "sys", "lead_in": "5/2", "k": "2/1", "taps": ["1/1", "-1/1"]},
              {"kind": "sys", "lead_in": "27/4", "k": "-1/1", "taps": ["1/4", "1/2", "1/4"]},
              {"kind": "sys", "lead_in": "10/1", "k": "1/2", "thr": "3/1", "taps": ["2/1", "0/1", "0/1", "-1/1"]},
              {"kind": "sys", "lead_in": "10/1", "k": "1/1", "taps": ["0/1", "0/1", "0/1", "0/1", "0/1", "1/1"]},
              # cable delay (output stamped with times + D), alone and behind a filter
              {"kind": "sys", "lead_in": "9/2", "k": "2/1", "shift": "4/1"},
              {"kind": "sys", "lead_in": "7/1", "k": "1/1", "shift": "2/1", "taps": ["1/1", "-1/1"]}]

_G8 = {"t0": "0/1", "dt": "1/1", "n": 8}
_D8 = {"t0": "0/1", "dt": "1/10", "n": 8}
_D8b = {"t0": "1/10", "dt": "1/10", "n": 8}
NOISE_FIXED_DECIMAL = [
    ({"kind": "sys", "lead_in": L, "k": "1/1"},
     [["noise", _D8], ["full", _D8], ["noise", _D8b], ["full", _D8b],
      ["recv", {"t0": "1/5", "dt": "1/10", "n": 5, "vals": ["0/1", "3/1", "-2/1", "1/1", "0/1"]}],
      ["full", _D8], ["noise", _D8], ["all"], ["full", _D8b], ["clear", True], ["noise", _D8]])
    for L in ("2/5", "3/5", "4/5", "9/10", "1/1")]
NOISE_FIXED = [
    ({"kind": "sys", "lead_in": "6/1", "k": "2/1", "taps": ["0/1", "0/1", "0/1", "1/1"]},
     [["noise", _G8], ["noise", {"t0": "4/1", "dt": "1/1", "n": 8}],
      ["recv", {"t0": "2/1", "dt": "1/1", "n": 6, "vals": ["0/1", "5/1", "-3/1", "4/1", "1/1", "0/1"]}],
      ["full", _G8], ["all"],
      ["recv", {"t0": "3/1", "dt": "1/2", "n": 5, "vals": ["0/1", "0/1", "0/1", "0/1", "0/1"], "form": "empty"}],
      ["wf"], ["noise", {"t0": "3/1", "dt": "1/2", "n": 5}], ["full", {"t0": "4/1", "dt": "1/1", "n": 8}]]),
    # resets on an idle antenna / an antenna that has only produced noise / twice in a row
    ({"kind": "exact"},
     [["recv", {"t0": "2/1", "dt": "1/1", "n": 4, "vals": ["0/1", "5/1", "-3/1", "0/1"]}], ["all"], ["clear", True],
      ["full", _G8], ["clear", True], ["full", _G8], ["clear", False], ["noise", _G8], ["clear", True], ["clear", True],
      ["noise", _G8], ["clear", False], ["clear", True], ["full", _G8]]),
    ({"kind": "sys", "lead_in": "5/2", "k": "2/1", "taps": ["1/1", "-1/1"]},
     [["noise", _G8], ["clear", True], ["noise", _G8], ["clear", False], ["full", _G8], ["clear", True], ["clear", False],
      ["full", _G8], ["recv", {"t0": "2/1", "dt": "1/1", "n": 4, "vals": ["0/1", "5/1", "-3/1", "0/1"]}], ["wf"],
      ["clear", True], ["noise", _G8]]),
] + NOISE_FIXED_DECIMAL


def scale_times(hist, f):
    """the same history on a time axis multiplied by f"""
    out = []
    for op in hist:
        op2 = []
        for x in op:
            if isinstance(x, dict) and "t0" in x:
                x = dict(x, t0=fs(Fr(x["t0"]) * f), dt=fs(Fr(x["dt"]) * f))
            op2.append(x)
        out.append(op2)
    return out


def noise_model_expr(cfg, hist):
    gen = iter([expected_stored(op) for op in hist if op[0] in ("recv", "recv2")])
    ops = "[" + "; ".join(op_lit(op, next(gen) if op[0] in ("recv", "recv2") else None) for op in hist) + "]"
    if cfg["kind"] == "sys":
        sc = "(mkSConfig (cfg_epoch true) %s %s %s %s)" % (qlit(Fr(cfg.get("lead_in", "0/1"))), qlit(Fr(cfg.get("k", "1/1"))), shift_lit(cfg),
                                                          qlist([Fr(c) for c in cfg.get("taps") or []]))
        return "enc_masters (s_run_masters %s s_init %s)" % (sc, ops)
    return "enc_masters (run_masters (cfg_epoch true) a_init %s)" % ops


def noise_probe(ctx, n_hist):
    """Noisy objects.  (a) implementation against the property: one noise realisation at the same absolute times
    until clear(reset_noise=True); that clear drops the master unconditionally and the next realisation is a
    fresh one; no other operation replaces the master.  (b) implementation against the model: the identity of
    the _noise_master object after every op (serial number by first appearance, -1 = none) equals the model's
    noise-master draw index (run_masters)."""
    rng = ctx.rng
    reported = 0
    n_bad = 0
    runs = []
    for i in range(n_hist):
        if i < len(NOISE_FIXED):
            cfg, hist = NOISE_FIXED[i]
            seed = 12345
        else:
            cfg = rng.choice(NOISE_CFGS)
            hist = rand_history(rng, cfg, max_ops=25, noise=True)
            seed = rng.randrange(2**31)
            if cfg["kind"] == "sys" and not cfg.get("taps") and not cfg.get("shift") and rng.random() < 0.6:
                # decimal (non-dyadic) time axis: every time and step divided by 10 (dt = 0.025 .. 0.2) and a decimal
                # lead_in_time, so that buffer/dt quotients land on and next to exact integers in floating point;
                # identity / gain front ends only (their oracle does not depend on the number of lead-in samples)
                cfg = dict(cfg, lead_in=fs(Fr(rng.choice([0, 3, 4, 6, 7, 8, 9, 10, 12, 25]), 10)))
                hist = scale_times(hist, Fr(1, 10))
        bad, trace = noise_run(cfg, hist, seed)
        ctx.case(key=("noise", json.dumps(cfg, sort_keys=True), json.dumps(hist)),
                 nontrivial=bad is not None or any(op[0] in ("noise", "full", "all", "wf") for op in hist),
                 sample={"noise_history": summarize(hist), "cfg": cfg, "noise_master_serials": trace} if i in (1, len(NOISE_FIXED)) else None)
        n_bad += 1 if bad else 0
        if bad and reported < 3:
            reported += 1
            small = hist if i < len(NOISE_FIXED) else shrink(cfg, hist, lambda h: noise_history_bad(cfg, h, seed) is not None)
            what = noise_history_bad(cfg, small, seed)
            ctx.fail("noise:" + history_key(cfg, small),
                     "noisy %s: %s ; history: %s" % (json.dumps(cfg), what, summarize(small)),
                     {"kind": "noise", "cfg": cfg, "history": small, "np_seed": seed})
        if not bad:
            runs.append((cfg, hist, trace))
    ctx.oblige("probe:noise realisation / epochs consistent (implementation)", n_bad == 0, "%d of %d noisy histories" % (n_bad, n_hist))
    # (b) epochs against the model
    cmp_runs = [r for r in runs if r[2] is not None]
    detail, n_dis = "", 0
    try:
        vals = ctx.coq_eval_exprs(IMPORTS, [noise_model_expr(c, h) for c, h, _ in cmp_runs],
                                  chunk=max(1, (len(cmp_runs) + 7) // 8)) if cmp_runs else []
        for (cfg, hist, trace), v in zip(cmp_runs, vals):
            mt = parse_zlist(v)
            if mt != trace:
                n_dis += 1
                j = next((x for x in range(min(len(mt), len(trace))) if mt[x] != trace[x]), min(len(mt), len(trace)))
                if not detail:
                    detail = "history [%s] on %s: after op %d (%s) the implementation holds noise master #%s, the model #%s" % (
                        summarize(hist), json.dumps(cfg), j, hist[j][0] if j < len(hist) else "?", trace[j:j + 1], mt[j:j + 1])
                    ctx.fail("corr:noise:" + history_key(cfg, hist), "noise epochs of implementation and Coq model disagree: " + detail,
                             {"kind": "noise", "cfg": cfg, "history": hist, "np_seed": 12345}, witness=False)
        ctx.oblige("corr:noise epochs impl=model", n_dis == 0, detail)
    except Exception as e:   # noqa
        ctx.oblige("corr:noise epochs impl=model", False, str(e)[-800:])
    ctx.extra["noise_epochs"] = {"histories": n_hist, "compared_with_model": len(cmp_runs), "disagreements": n_dis,
                                 "resets": sum(1 for _, h, _ in runs for op in h if op[0] == "clear" and op[1]),
                                 "masters_drawn": sum((max(t) + 1) for _, _, t in cmp_runs if t)}
    return n_hist


def noise_history_bad(cfg, hist, seed):
    return noise_run(cfg, hist, seed)[0]


_MISSING = object()


def noise_run(cfg, hist, seed):
    """Returns (description of the first inconsistency or None, serial numbers of the noise master after each op).
    For every make_noise / full_waveform / all_waveforms / waveforms output, value - (front end of the sum of
    the received signals) is the noise sample n(t) of that trace.
    (1) two samples at the same absolute time (and, for a front end acting on samples, the same grid step) within
        one noise epoch must agree;
    (2) n(t_j) must equal the front end applied to the ANTENNA's noise on the infinite grid of step dt through
        t_j:  sum_m taps[m]*k*N(t_j - m*dt), N read from Antenna.make_noise at those absolute times (numpy only;
        never touches the system's lead-in code);
    (3) epochs: clear(reset_noise=True) leaves no noise master whatever the antenna holds (the empty state); no
        other operation replaces an existing master (object identity); after a reset the noise at absolute times
        seen before is NOT the earlier realisation again."""
    np.random.seed(seed)
    obj = build(cfg, noisy=True)
    orc = Oracle(cfg)
    k = float(orc.k)
    taps = [float(c) for c in orc.taps]
    gain = abs(k) * sum(abs(c) for c in taps)
    ant = getattr(obj, "antenna", obj)
    seen = {}        # current epoch
    past = {}        # earlier epochs (latest value per key)
    received = []
    masters = []     # keeps every master object alive so that identity is meaningful
    trace = []
    prev_serial = -1

    def tol():
        return 1e-9 * (1 + gain) * (1 + sum(float(max(abs(v) for v in vs)) for _, vs in received))

    def expected_noise(times):
        dt = times[1] - times[0]
        exp = np.zeros(len(times))
        for m, c in enumerate(taps):
            exp += c * k * np.asarray(ant.make_noise(np_times([t - orc.shift - m * dt for t in times])).values)
        return exp

    def note(sig, what, with_signals=True):
        times = sig[0]
        dt = times[1] - times[0]
        sigpart = [float(v) for v in orc.fe_of(received, times)] if (with_signals and received) else [0.0] * len(times)
        exp = expected_noise(times)
        ns = [float(v) - sp for v, sp in zip(sig[1], sigpart)]
        keys = [((t, dt) if len(taps) > 1 else t) for t in times]
        shared = [(n, past[key]) for n, key in zip(ns, keys) if key in past]
        if shared and any(abs(o) > 1e-6 for _, o in shared) and all(abs(n - o) <= tol() for n, o in shared):
            return ("%s shows, after clear(reset_noise=True), the SAME noise realisation as before the reset at all %d "
                    "absolute times it shares with earlier reads (e.g. %r)" % (what, len(shared), shared[0][0]))
        for i, (t, n, key) in enumerate(zip(times, ns, keys)):
            if key in seen:
                if abs(seen[key][0] - n) > tol():
                    return "noise at t=%s was %r (%s) and is now %r (%s) although the noise was not reset" % (
                        t, seen[key][0], seen[key][1], n, what)
            else:
                seen[key] = (n, what)
            if abs(n - exp[i]) > tol():
                return ("noise part of %s at t=%s (sample %d of the trace, dt=%s) is %r but the front end applied to the "
                        "antenna noise at the absolute times t-m*dt gives %r" % (what, t, i, dt, n, float(exp[i])))
        return None
    for j, op in enumerate(hist):
        try:
            o = impl_do(obj, op)
        except Exception as e:   # noqa
            return "exception %s: %s at op %d %s" % (type(e).__name__, str(e)[:150], j, op[0]), None
        # ---- epochs by object identity
        if trace is not None:
            m = getattr(ant, "_noise_master", _MISSING)
            if m is _MISSING:
                trace = None
            else:
                if m is None:
                    serial = -1
                else:
                    serial = next((x for x, mm in enumerate(masters) if mm is m), None)
                    if serial is None:
                        masters.append(m)
                        serial = len(masters) - 1
                trace.append(serial)
                if op[0] == "clear" and op[1]:
                    if serial != -1:
                        return ("clear(reset_noise=True) at op %d left the noise master in place (the antenna held %d signals): "
                                "the next noise is not a fresh realisation" % (j, len(received))), trace
                elif prev_serial != -1 and serial != prev_serial:
                    return "op %d (%s) replaced the noise master although the noise was not reset" % (j, op[0]), trace
                prev_serial = serial
        r = None
        if op[0] in ("recv", "recv2"):
            received.append(stored_signal(obj))
        elif op[0] == "clear":
            received = []
            if op[1]:
                for key, (n, _) in seen.items():
                    past[key] = n
                seen = {}
        elif op[0] == "noise":
            r = note(o, "make_noise@%d" % j, with_signals=False)
        elif op[0] == "full":
            r = note(o, "full_waveform@%d" % j)
        elif op[0] in ("all", "wf"):
            if op[0] == "all" and len(o) != len(received):
                return "all_waveforms has %d entries for %d received signals" % (len(o), len(received)), trace
            for w in o:
                r = r or note(w, "%s@%d" % (op[0], j))
        if r:
            return r, trace
    return None, trace


# ------------------------------------------------------------------ lead-in grid (pure function), compared directly
def leadin_impl(lead_in, grid):
    cfg = {"kind": "sys", "lead_in": fs(lead_in), "k": "1/1"}
    obj = build(cfg)
    out = obj._calculate_lead_in_times(np_times(grid_times(grid)))
    return [Fr(float(t)) for t in out]


def leadin_oracle_bad(lead_in, grid, out):
    """The lead-in grid must preserve dt: it ends with the requested times, every step (also the one into
    times[0]) is exactly dt, and it reaches back at least lead_in_time. Returns text or None."""
    ts = grid_times(grid)
    dt = ts[1] - ts[0]
    if len(out) < len(ts) or out[len(out) - len(ts):] != ts:
        return "does not end with the requested times"
    pre = out[:len(out) - len(ts)] + [ts[0]]
    for a, b in zip(pre, pre[1:]):
        if b - a != dt:
            return "step %s between lead-in samples %s and %s instead of dt=%s" % (b - a, a, b, dt)
    if ts[0] - pre[0] < lead_in:
        return "reaches back only %s < lead_in_time %s" % (ts[0] - pre[0], lead_in)
    return None


def leadin_check(ctx, n_cases):
    rng = ctx.rng
    cases = []
    for _ in range(n_cases):
        L = rng.choice([Fr(0), Fr(1, 8), Fr(1, 2), Fr(3), Fr(11, 4), Fr(10), Fr(25, 4), Fr(7), Fr(rng.randint(0, 160), 8)])
        g = rand_grid(rng, -40, 60)
        g["n"] = rng.choice([2, 3, 4, 5, 8, 9, 16, 31, 40, rng.randint(2, 64)])
        cases.append((L, g))
    exprs = ["enc_Qs (lead_in_times (mkSConfig (cfg_plain true) %s 1 None []) %s)" % (qlit(L), qlist(grid_times(g))) for L, g in cases]
    try:
        vals = ctx.coq_eval_exprs(IMPORTS, exprs, chunk=max(1, (len(exprs) + 7) // 8))
        model = []
        for v in vals:
            z = parse_zlist(v)
            model.append([Fr(z[1 + 2 * i], z[2 + 2 * i]) for i in range(z[0])])
    except Exception as e:   # noqa
        ctx.oblige("corr:lead_in_times-model-evaluates", False, str(e)[-800:])
        model = [None] * len(cases)
    n_prop = n_corr = 0
    detail = ""
    for (L, g), mo in zip(cases, model):
        try:
            out = leadin_impl(L, g)
            bad = leadin_oracle_bad(L, g, out)
        except Exception as e:   # noqa
            out, bad = None, "exception %s: %s" % (type(e).__name__, str(e)[:150])
        ctx.case(key=("leadin", fs(L), json.dumps(g, sort_keys=True)), nontrivial=L > 0,
                 sample={"lead_in": fs(L), "window": g, "lead_in_points": (len(out) - g["n"]) if out else None} if n_prop + n_corr == 0 and L > 1 and len(ctx.samples) < 5 and g["n"] > 8 else None)
        if bad:
            n_prop += 1
            if n_prop <= 2:
                ctx.fail("leadin:%s:%s" % (fs(L), json.dumps(g, sort_keys=True)),
                         "AntennaSystem._calculate_lead_in_times(lead_in_time=%s, window t0=%s dt=%s n=%d) does not preserve dt: %s "
                         "(a front end with memory then sees a non-uniformly sampled input)" % (L, g["t0"], g["dt"], g["n"], bad),
                         {"kind": "leadin", "lead_in": fs(L), "grid": g})
        elif mo is not None and out != mo:
            n_corr += 1
            detail = "lead_in=%s window=%s impl=%s model=%s" % (L, g, [str(x) for x in out][:12], [str(x) for x in mo][:12])
    ctx.oblige("corr:lead_in_times impl=oracle(dt preserved)", n_prop == 0, "%d windows" % n_prop)
    ctx.oblige("corr:lead_in_times impl=model", n_corr == 0 and n_prop == 0, detail)
    ctx.extra["lead_in_grid_cases"] = {"windows": len(cases), "not_dt_preserving": n_prop, "model_disagreements": n_corr}


# ------------------------------------------------------------------ the check
F9_HISTORY = [["recv", {"t0": "0/1", "dt": "1/1", "n": 8, "vals": ["0/1", "1/1", "2/1", "3/1", "3/1", "2/1", "1/1", "0/1"]}],
              ["all"],
              ["recv", {"t0": "4/1", "dt": "1/1", "n": 8, "vals": ["0/1", "5/1", "5/1", "5/1", "5/1", "5/1", "5/1", "0/1"]}],
              ["all"]]


def corpus_cases():
    d = os.path.join(ROOT, "corpus", "C09")
    out = []
    if os.path.isdir(d):
        for f in sorted(os.listdir(d)):
            if f.endswith(".json"):
                o = json.load(open(os.path.join(d, f)))
                out.append((o["cfg"], o["history"]))
    return out


def run(ctx):
    ctx.rule = ("random interleavings (3..40 ops, <=6 signals between clears) of receive (single / two-polarization list) / "
                "all_waveforms / waveforms / is_hit / is_hit_mc_truth / full_waveform(t) / is_hit_during(t) / signals / "
                "clear(reset) on: an identity-response Antenna subclass (exact), the same with a max|v|>thr trigger, "
                "AntennaSystem(lead-in 0 or positive, linear front end k) around them, the real Antenna and DipoleAntenna "
                "(noisy=False; stored post-FFT signals are the model input, values compared within 1e-9*(1+sum max|v|)); "
                "signals are integer valued on dyadic grids (dt in {1/4,1/2,1,2}), placed overlapping / nested / identical / "
                "touching / disjoint relative to earlier ones. Each output of each op is compared implementation = Coq model "
                "(vm_compute) and implementation = independent oracle (sum of interpolated received signals, exact Fractions). "
                "non-trivial = history with >=1 receive and >=1 waveform query; distinct by (config, history).")
    ctx.trusted += ["Coq 8.16.1 kernel; vm_compute to run the model on the generated histories",
                    "harness/props/c09.py: generators, the flat integer encoding/decoding of outputs, the Fraction oracle",
                    "Model/AntennaModel.v is hand written; tied to antenna.py/detector.py by the correspondence only",
                    "np.interp / np.linspace / Signal arithmetic are modelled (Lib/Interp.v) and validated by the correspondence",
                    "exact classes override Antenna.apply_response (identity) to avoid the FFT round trip; the real Antenna and "
                    "DipoleAntenna go through the real apply_response and are compared with a tolerance"]
    ctx.assumptions += ["theorems assume every received signal and query window has strictly increasing times, at least two "
                        "samples for query windows and len(times)=len(values) (true of every pyrex Signal used by the kernel)",
                        "front ends: identity / linear scaling only (a non-linear front end is applied by the code to the sum)",
                        "noise is an opaque function of absolute time per noise master (draw index, creation times)",
                        "AntennaSystem.is_hit_mc_truth is not covered (it always draws noise, also for noiseless antennas)"]
    ok = ctx.coq_build("C09")

    rng = ctx.rng
    n_hist = ctx.n(280, 10000)
    cases = list(corpus_cases())
    cases.append(({"kind": "exact"}, F9_HISTORY))
    cases.append(({"kind": "sys", "lead_in": "3/1", "k": "2/1"}, F9_HISTORY))
    i = 0
    while len(cases) < n_hist:
        cfg = rand_cfg(rng, i)
        i += 1
        max_ops = 40 if cfg["kind"] in ("exact", "thr", "sys") else 25
        cases.append((cfg, rand_history(rng, cfg, max_ops=max_ops)))

    model_outs = None
    try:
        model_outs = eval_models(ctx, cases)
        ctx.oblige("corr:model-evaluates", True)
    except Exception as e:     # noqa
        ctx.oblige("corr:model-evaluates", False, str(e)[-1200:])

    dist = {"ops": {}, "kinds": {}, "lens": {}, "n_signals": {}, "skipped_near_threshold": 0,
            "max_denominator_log2": 0}
    corr_bad, prop_bad = [], []
    for idx, (cfg, hist) in enumerate(cases):
        mo = model_outs[idx] if model_outs is not None else None
        r = judge(cfg, hist, mo)
        nrecv = sum(1 for op in hist if op[0] in ("recv", "recv2"))
        nq = sum(1 for op in hist if op[0] in ("all", "wf", "hit", "hitmc", "full", "during"))
        ctx.case(key=(json.dumps(cfg, sort_keys=True), json.dumps(hist)), nontrivial=nrecv >= 1 and nq >= 1,
                 sample={"cfg": cfg, "history": hist[:12]} if idx in (2, 3, 4) else None)
        dist["kinds"][cfg["kind"]] = dist["kinds"].get(cfg["kind"], 0) + 1
        dist["lens"][str(len(hist) // 10 * 10)] = dist["lens"].get(str(len(hist) // 10 * 10), 0) + 1
        dist["n_signals"][str(nrecv)] = dist["n_signals"].get(str(nrecv), 0) + 1
        for op in hist:
            dist["ops"][op[0]] = dist["ops"].get(op[0], 0) + 1
        if r["skipped"]:
            dist["skipped_near_threshold"] += 1
            continue
        if r["prop_fail"] is not None:
            prop_bad.append((cfg, hist, r))
        elif r["corr_fail"] is not None:
            corr_bad.append((cfg, hist, r))
    ctx.extra["input_distribution"] = dist
    ctx.extra["correspondence"] = {"histories": len(cases), "disagreements_with_model": len(corr_bad) + len(prop_bad),
                                   "property_failures": len(prop_bad)}

    # property failures: witness on the implementation, judged by the independent oracle
    for cfg, hist, r in prop_bad[:3]:
        small = shrink(cfg, hist, lambda h: judge(cfg, h, None)["prop_fail"] is not None)
        rs = judge(cfg, small, None)
        j = rs["prop_fail"]
        what = ("history [%s] on %s: op %d (%s) returned %s but the sum of the received signals gives %s" % (
            summarize(small), json.dumps(cfg), j, small[j][0] if j < len(small) else "?",
            rs["exc"] or json.dumps(show(rs["impl"][j]))[:300],
            json.dumps(show(rs["oracle"][j]))[:300] if j < len(rs["oracle"]) else "-"))
        ctx.fail(history_key(cfg, small), what, {"kind": "history", "cfg": cfg, "history": small})
    ctx.oblige("corr:impl=oracle(property)", not prop_bad,
               "%d histories where the implementation deviates from the property oracle" % len(prop_bad))
    # model disagreements (implementation still satisfies the oracle): correspondence broken
    detail = ""
    if corr_bad:
        cfg, hist, r = corr_bad[0]
        j = r["corr_fail"]
        detail = "history [%s] on %s: op %d impl=%s model=%s" % (summarize(hist), json.dumps(cfg), j,
                                                                 json.dumps(show(r["impl"][j]))[:300] if j < len(r["impl"]) else "-",
                                                                 json.dumps(show(r["model"][j]))[:300] if j < len(r["model"]) else "-")
        ctx.fail("corr:" + history_key(cfg, hist), "implementation and Coq model disagree (property oracle still satisfied): " + detail,
                 {"kind": "history", "cfg": cfg, "history": hist}, witness=False)
    ctx.oblige("corr:impl=model", not corr_bad and not prop_bad, detail)

    # the refuted theorem's witness (pre-repair caching discipline) replayed: the old-discipline model
    # must reproduce the stale waveform, the implementation must not
    try:
        old = eval_models(ctx, [({"kind": "exact"}, F9_HISTORY)], invalidate=False)[0]
        new_r = judge({"kind": "exact"}, F9_HISTORY, None)
        stale = old[3][0][1] == [Fr(v) for v in (0, 1, 2, 3, 3, 2, 1, 0)]
        ctx.oblige("witness:stale_cache_refuted-replayed", stale and new_r["prop_fail"] is None,
                   "old-discipline model stale=%s, implementation deviates from oracle at %r" % (stale, new_r["prop_fail"]))
        ctx.extra["f9_witness"] = {"history": summarize(F9_HISTORY), "old_model_first_waveform": [str(v) for v in old[3][0][1]],
                                   "implementation_first_waveform": [str(v) for v in new_r["impl"][3][0][1]]}
    except Exception as e:   # noqa
        ctx.oblige("witness:stale_cache_refuted-replayed", False, str(e)[-600:])

    # lead-in grid compared directly (pure function)
    leadin_check(ctx, ctx.n(150, 3000))

    # noise probes (implementation only)
    n_noise = ctx.n(60, 2000)
    ctx.extra["noise_probe_histories"] = noise_probe(ctx, n_noise)
    ctx.partial += ["AntennaSystem theorems (sys_*) are for noiseless antennas and linear front ends only",
                    "noise clause: proved on the model (noise_fixed_until_reset, noisy_full_waveform_is_noise_plus_sum); "
                    "on the implementation it is probed on generated histories, not proved",
                    "lead_in_covers assumes a uniform window and lead_in_time >= 0"]
    return ok


def replay(ctx, obj):
    if obj.get("kind") == "noise":
        r = noise_history_bad(obj["cfg"], obj["history"], obj["np_seed"])
        print("noise history [%s] on %s: %s" % (summarize(obj["history"]), obj["cfg"], r or "consistent"))
        return 1 if r else 0
    if obj.get("kind") == "leadin":
        L, g = Fr(obj["lead_in"]), obj["grid"]
        out = leadin_impl(L, g)
        bad = leadin_oracle_bad(L, g, out)
        print("lead_in_time=%s window=%s" % (L, g))
        print("implementation lead-in grid: %s" % [str(x) for x in out])
        try:
            v = ctx.coq_eval_exprs(IMPORTS, ["enc_Qs (lead_in_times (mkSConfig (cfg_plain true) %s 1 None []) %s)" % (qlit(L), qlist(grid_times(g)))])[0]
            z = parse_zlist(v)
            print("coq model lead-in grid     : %s" % [str(Fr(z[1 + 2 * i], z[2 + 2 * i])) for i in range(z[0])])
        except Exception as e:   # noqa
            print("model evaluation failed: %s" % str(e)[-300:])
        print("dt preserved: %s" % (bad or "yes"))
        return 1 if bad else 0
    if obj.get("kind") != "history":
        print(json.dumps(obj, indent=1)[:3000])
        return 1
    cfg, hist = obj["cfg"], obj["history"]
    try:
        mo = eval_models(ctx, [(cfg, hist)])[0]
    except Exception as e:   # noqa
        print("model evaluation failed: %s" % str(e)[-500:])
        mo = None
    r = judge(cfg, hist, mo)
    for j, op in enumerate(hist):
        print("op %2d %-8s impl=%s" % (j, op[0], json.dumps(show(r["impl"][j]))[:400] if j < len(r["impl"]) else r["exc"]))
        if j < len(r["oracle"]) and (j >= len(r["impl"]) or not out_equal(r["impl"][j], r["oracle"][j], r["tol"])):
            print("      property oracle = %s" % json.dumps(show(r["oracle"][j]))[:400])
        if mo is not None and j < len(mo) and (j >= len(r["impl"]) or not out_equal(r["impl"][j], mo[j], r["tol"])):
            print("      coq model       = %s" % json.dumps(show(mo[j]))[:400])
    print("property holds on this history: %s; model agrees: %s" % (r["prop_fail"] is None, r["corr_fail"] is None))
    return 0 if r["prop_fail"] is None and r["corr_fail"] is None else 1
