(* Specification side of C09: short definitions the model is compared with.
   Definitions only. *)
From Coq Require Import List QArith ZArith Bool.
From PyrexLib Require Import Interp.
From PyrexModel Require Import AntennaModel.
Import ListNotations.
Open Scope Q_scope.

(* the signals an antenna holds after a history: everything received since the last clear *)
Fixpoint received_from (acc : list signal) (h : list op) : list signal :=
  match h with
  | [] => acc
  | Receive s :: h' => received_from (acc ++ [s]) h'
  | Clear _ :: h' => received_from [] h'
  | _ :: h' => received_from acc h'
  end.
Definition received (h : list op) : list signal := received_from [] h.

(* "the sum of all received signals interpolated onto the window" *)
Definition sum_at (sigs : list signal) (t : Q) : Q :=
  fold_right (fun s acc => interp t (s_times s) (s_values s) + acc) 0 sigs.

Definition spec_wave (sigs : list signal) (times : list Q) : signal :=
  mkSig times (map (sum_at sigs) times).

(* equality of waveforms: same grid, values equal as rationals *)
Definition sig_eq (a b : signal) : Prop :=
  s_times a = s_times b /\ Forall2 Qeq (s_values a) (s_values b).

(* well-formedness of data (what every pyrex Signal / time window satisfies) *)
Definition wf_signal (s : signal) : Prop :=
  increasing (s_times s) /\ length (s_times s) = length (s_values s) /\ s_times s <> [].
Definition wf_window (ts : list Q) : Prop := increasing ts /\ (2 <= length ts)%nat.

(* a fresh antenna that has just received `sigs` (nothing queried yet) *)
Definition fresh (sigs : list signal) : astate := mkA sigs None 0 [] [].

(* what a query returns on a fresh antenna holding sigs *)
Definition fresh_answer (c : config) (sigs : list signal) (q : op) : out := snd (step c (fresh sigs) q).

Definition is_query (o : op) : bool :=
  match o with Receive _ | Clear _ | MakeNoise _ => false | _ => true end.

Definition no_reset (h : list op) : Prop := forall o, In o h -> o <> Clear true.

(* noiseless full_waveform as a function of the signal list (no state) *)
Definition fw_pure (c : config) (sigs : list signal) (ts : list Q) : signal :=
  let lt := long_times sigs ts in
  mkSig ts (wave_at c lt (superpose c sigs lt WEmpty) ts).

Definition all_pure (c : config) (sigs : list signal) : list signal :=
  map (fun s => fw_pure c sigs (s_times s)) sigs.

(* ---------------------------------------------------------------- front ends with memory *)
(* sum_m taps[m] * f m *)
Fixpoint dot (taps : list Q) (f : nat -> Q) : Q :=
  match taps with
  | [] => 0
  | c :: taps' => c * f 0%nat + dot taps' (fun m => f (S m))
  end.

(* the FIR front end applied to an input u defined at ALL times (the infinite grid of step dt through t),
   read off at time t: sum_m taps[m] * u(t - m*dt) *)
Definition fir_response (taps : list Q) (u : Q -> Q) (dt t : Q) : Q :=
  dot taps (fun m => u (t - nat_Q m * dt)).

(* a uniformly sampled window: times[j] = times[0] + j*(times[1]-times[0]) *)
Definition uniform (ts : list Q) : Prop :=
  forall j, (j < length ts)%nat -> nth j ts 0 == t_first ts + nat_Q j * (t_second ts - t_first ts).
