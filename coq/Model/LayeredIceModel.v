(* Hand model of pyrex/custom/layered_ice/ice_model.py LayeredIce.layer_at_depth / index
   dispatch (pinned by AST hash and validated by correspondence in harness/props/c16.py). *)
From Coq Require Import Reals List Bool.
From PyrexLib Require Import RealPrims.
Import ListNotations.
Open Scope R_scope.

(* a layer: (lo, hi, tag) with lo < hi; the stack is ordered from the top down *)
Definition layer : Type := (R * R * nat)%type.
Definition l_lo (l : layer) : R := fst (fst l).
Definition l_hi (l : layer) : R := snd (fst l).
Definition l_tag (l : layer) : nat := snd l.

(* for layer in self.layers: if lo < depth <= hi: take it; break *)
Fixpoint find_layer (ls : list layer) (z : R) : option layer :=
  match ls with
  | [] => None
  | l :: r => if Rltb (l_lo l) z && Rleb z (l_hi l) then Some l else find_layer r z
  end.

(* ... else: (python for/else) the LAST layer is taken when z is exactly its lower edge *)
Definition layer_at_depth (ls : list layer) (z : R) : option layer :=
  match find_layer ls z with
  | Some l => Some l
  | None => match ls with
            | [] => None
            | l0 :: r => let l := last r l0 in if Reqb (l_lo l) z then Some l else None
            end
  end.

(* dispatch of LayeredIce.index: which value source is used at depth z *)
Inductive src := FromLayer (tag : nat) | Above | Below | NoIndex.
Definition index_source (ls : list layer) (z : R) : src :=
  match layer_at_depth ls z with
  | Some l => FromLayer (l_tag l)
  | None => match ls with
            | [] => NoIndex
            | l0 :: r => if Rgtb z (l_hi l0) then Above
                         else if Rleb z (l_lo (last r l0)) then Below else NoIndex
            end
  end.

(* boundaries property: strata from top to bottom, None when adjacent layers do not connect *)
Fixpoint strata_from (prev : R) (ls : list layer) : option (list R) :=
  match ls with
  | [] => Some []
  | l :: r => if Reqb (l_hi l) prev
              then match strata_from (l_lo l) r with Some s => Some (l_lo l :: s) | None => None end
              else None
  end.
Definition boundaries (ls : list layer) : option (list R) :=
  match ls with
  | [] => None
  | l0 :: r => match strata_from (l_lo l0) r with
               | Some s => Some (l_hi l0 :: l_lo l0 :: s)
               | None => None
               end
  end.

(* well-formed stack: each layer non-degenerate, consecutive layers connect *)
Fixpoint connected (ls : list layer) : Prop :=
  match ls with
  | [] => True
  | l :: r => l_lo l < l_hi l /\
              match r with [] => True | l' :: _ => l_hi l' = l_lo l end /\ connected r
  end.
