"""Run real-valued Coq definitions (generated Gen_*.v / hand models over R) as OCaml floats.

Used ONLY to validate models against the implementation and to search for failing inputs,
never as a proof.  The extraction directives below are the complete list (DESIGN section 3).
"""
import math
import os
import re

from harness import common

DIRECTIVES = r'''
Require Import Reals ZArith List.
Require Import ExtrOcamlBasic.
Extract Inlined Constant R => "float".
Extract Inlined Constant R0 => "0.0".
Extract Inlined Constant R1 => "1.0".
Extract Inlined Constant Rplus => "(+.)".
Extract Inlined Constant Rmult => "( *. )".
Extract Inlined Constant Ropp => "(~-.)".
Extract Inlined Constant Rminus => "(-.)".
Extract Inlined Constant Rinv => "(fun x -> 1.0 /. x)".
Extract Inlined Constant Rdiv => "(/.)".
Extract Inlined Constant exp => "exp".
Extract Inlined Constant ln => "log".
Extract Inlined Constant sqrt => "sqrt".
Extract Inlined Constant sin => "sin".
Extract Inlined Constant cos => "cos".
Extract Inlined Constant tan => "tan".
Extract Inlined Constant atan => "atan".
Extract Inlined Constant asin => "asin".
Extract Inlined Constant acos => "acos".
Extract Inlined Constant sinh => "sinh".
Extract Inlined Constant cosh => "cosh".
Extract Inlined Constant tanh => "tanh".
Extract Inlined Constant Rabs => "abs_float".
Extract Inlined Constant Rmax => "(fun x y -> if x < y then y else x)".
Extract Inlined Constant Rmin => "(fun x y -> if y < x then y else x)".
Extract Inlined Constant Rsqr => "(fun x -> x *. x)".
Extract Inlined Constant PI => "(4.0 *. atan 1.0)".
Extract Inlined Constant Rpower => "( ** )".
Extract Constant Rlt_dec => "(fun x y -> x < y)".
Extract Constant Rle_dec => "(fun x y -> x <= y)".
Extract Constant Rgt_dec => "(fun x y -> x > y)".
Extract Constant Rge_dec => "(fun x y -> x >= y)".
Extract Constant Req_EM_T => "(fun x y -> x = y)".
Extract Constant total_order_T => "(fun x y -> if x < y then Some true else if x = y then Some false else None)".
Extract Constant IZR => "(fun z -> let rec p = function XH -> 1.0 | XO q -> 2.0 *. p q | XI q -> 2.0 *. p q +. 1.0 in match z with Z0 -> 0.0 | Zpos q -> p q | Zneg q -> -. (p q))".
Extract Constant pow => "(fun x n -> let rec go acc n = match n with O -> acc | S m -> go (acc *. x) m in go 1.0 n)".
Extract Constant up => "(fun x -> let f = floor x +. 1.0 in let rec pos_of n = if n <= 1.0 then XH else let h = floor (n /. 2.0) in if n -. 2.0 *. h >= 1.0 then XI (pos_of h) else XO (pos_of h) in if f = 0.0 then Z0 else if f > 0.0 then Zpos (pos_of f) else Zneg (pos_of (-. f)))".
Extract Constant ClassicalDedekindReals.sig_forall_dec => "(fun _ -> failwith ""classical"")".
'''

OCAML_PRELUDE = r'''
let pr x = Printf.printf "%h\n" x
let pr2 (a, b) = Printf.printf "%h %h\n" a b
let pr3 ((a, b), c) = Printf.printf "%h %h %h\n" a b c
let prb b = print_string (if b then "true\n" else "false\n")
let pro = function None -> print_string "None\n" | Some x -> Printf.printf "%h\n" x
let z_to_float z = let rec p = function M.XH -> 1.0 | M.XO q -> 2.0 *. p q | M.XI q -> 2.0 *. p q +. 1.0 in match z with M.Z0 -> 0.0 | M.Zpos q -> p q | M.Zneg q -> -. (p q)
let prz z = Printf.printf "%h\n" (z_to_float z)
let guard f = try f () with _ -> print_string "EXC\n"
'''


def ocf(x):
    """Python float -> OCaml float literal (exact)."""
    x = float(x)
    if math.isnan(x):
        return "nan"
    if math.isinf(x):
        return "infinity" if x > 0 else "neg_infinity"
    h = x.hex()
    return "(%s)" % h if x < 0 or h.startswith("-") else h


def parse_line(line):
    """One output line -> tuple of floats / 'EXC' / bool / None."""
    line = line.strip()
    if line in ("EXC", "None"):
        return line
    if line in ("true", "false"):
        return line == "true"
    return tuple(float.fromhex(t) if t not in ("nan", "inf", "-inf", "infinity", "-infinity") else float(t.replace("infinity", "inf"))
                 for t in line.split())


def run(ctx, requires, functions, cases, name="rx"):
    """requires: e.g. "From PyrexGen Require Import Gen_ice."
    functions: Coq names to extract; cases: list of OCaml statements (strings) each printing
    exactly one line (use pr/pr2/pr3/prb/pro with functions qualified as M.<ocaml name>).
    Returns list of parsed output lines."""
    d = os.path.join(ctx.scratch, name)
    os.makedirs(d, exist_ok=True)
    body = DIRECTIVES + requires + "\n" + 'Extraction "%s/m.ml" Z.of_nat %s.\n' % (d, " ".join(functions))
    rc, out = ctx.coq_eval(name + "_extract", body, "")
    if rc:
        raise RuntimeError("extraction failed: " + out[-2000:])
    mli = os.path.join(d, "m.mli")
    if os.path.exists(mli):
        os.remove(mli)
    # split cases into chunks to keep compile units small
    results = []
    chunk = 1500
    for ci in range(0, len(cases), chunk):
        part = cases[ci:ci + chunk]
        src = OCAML_PRELUDE + "\nlet () =\n" + "\n".join("  guard (fun () -> %s);" % c for c in part) + "\n  ()\n"
        open(os.path.join(d, "cases.ml"), "w").write(src)
        rc, out = common.sh("ocamlfind ocamlopt -w -a -O2 m.ml cases.ml -o run.exe 2>&1 || ocamlfind ocamlopt -w -a m.ml cases.ml -o run.exe", cwd=d, timeout=600)
        if rc:
            raise RuntimeError("ocaml compile failed: " + out[-2000:])
        rc, out = common.sh("./run.exe", cwd=d, timeout=600)
        if rc:
            raise RuntimeError("extracted program failed: " + out[-2000:])
        lines = [l for l in out.split("\n") if l.strip()]
        if len(lines) != len(part):
            raise RuntimeError("expected %d output lines, got %d: %s" % (len(part), len(lines), out[-500:]))
        results += [parse_line(l) for l in lines]
    ctx.checker_cmds.append("coqc <scratch>/%s_extract.v (Extraction) ; ocamlfind ocamlopt m.ml cases.ml ; ./run.exe  (%d model evaluations as floats)" % (name, len(cases)))
    return results


def ocaml_name(coq_name):
    n = coq_name[0].lower() + coq_name[1:]
    return n


def ulp_diff(a, b):
    """Distance in units of the last place between two finite floats (0 if both nan / equal)."""
    if a == b or (math.isnan(a) and math.isnan(b)):
        return 0.0
    if math.isinf(a) or math.isinf(b) or math.isnan(a) or math.isnan(b):
        return float("inf")
    u = max(math.ulp(a), math.ulp(b))
    return abs(a - b) / u
