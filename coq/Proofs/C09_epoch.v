(* C09, noise epochs: clear(reset_noise=True) drops the noise master unconditionally (whatever the antenna
   holds), a master created afterwards is a fresh draw (its index was never used before), and no other
   operation ever replaces a master.  For all configurations and histories. *)
From Coq Require Import List QArith ZArith Bool Lia.
From PyrexLib Require Import Interp.
From PyrexModel Require Import AntennaModel AntennaSpec.
From PyrexProofs Require Import C09_struct.
Import ListNotations.

(* a property of the noise fields that survives drawing a master when there is none, and survives
   dropping it, survives every operation *)
Section NoisePreservation.
  Variable R : option (nat * list Q) -> nat -> Prop.
  Hypothesis R_draw : forall nd ts, R None nd -> R (Some (nd, ts)) (S nd).
  Hypothesis R_drop : forall nm nd, R nm nd -> R None nd.

  Definition RS (st : astate) : Prop := R (noise_master st) (noise_draws st).

  Lemma ensure_master_R : forall st ts, RS st -> RS (fst (ensure_master st ts)).
  Proof.
    unfold RS, ensure_master. intros st ts H. destruct (noise_master st) eqn:E; simpl.
    - rewrite E. exact H.
    - apply R_draw. exact H.
  Qed.

  Lemma fw_R : forall c st ts, RS st -> RS (fst (full_waveform c st ts)).
  Proof.
    intros c st ts H. unfold full_waveform. destruct (noisy c).
    - pose proof (ensure_master_R st (long_times (signals st) ts) H) as E.
      destruct (ensure_master st (long_times (signals st) ts)). exact E.
    - exact H.
  Qed.

  Lemma make_noise_R : forall c st ts, RS st -> RS (fst (make_noise c st ts)).
  Proof.
    intros c st ts H. unfold make_noise. pose proof (ensure_master_R st ts H) as E.
    destruct (ensure_master st ts). exact E.
  Qed.

  Lemma catch_up_R : forall c todo st, RS st -> RS (fold_left (wave_step c) todo st).
  Proof.
    intros c todo. induction todo as [|s todo IH]; intros st H; simpl; auto.
    apply IH. unfold wave_step. pose proof (fw_R c st (s_times s) H) as E.
    destruct (full_waveform c st (s_times s)). exact E.
  Qed.

  Lemma all_waveforms_R : forall c st, RS st -> RS (fst (all_waveforms c st)).
  Proof.
    intros c st H. unfold all_waveforms. cbn [fst]. apply catch_up_R.
    destruct (invalidate c && negb (Nat.eqb (length (all_waves st)) (length (signals st)))); exact H.
  Qed.

  Lemma waveforms_R : forall c st, RS st -> RS (fst (waveforms c st)).
  Proof.
    intros c st H. unfold waveforms. pose proof (all_waveforms_R c st H) as E.
    destruct (all_waveforms c st). exact E.
  Qed.

  Lemma mc_loop_R : forall c ws st, RS st -> RS (fst (mc_loop c st ws)).
  Proof.
    intros c ws. induction ws as [|w ws IH]; intros st H; cbn [mc_loop fst]; auto.
    pose proof (make_noise_R c st (s_times w) H) as E.
    destruct (make_noise c st (s_times w)) as [st1 nzs]. cbn [fst] in E.
    destruct (negb (trig c nzs)); cbn [fst]; auto.
  Qed.

  Lemma step_R : forall c st o, RS st -> RS (fst (step c st o)).
  Proof.
    intros c st o H. destruct o; unfold step.
    - exact H.
    - pose proof (all_waveforms_R c st H). destruct (all_waveforms c st). assumption.
    - pose proof (waveforms_R c st H). destruct (waveforms c st). assumption.
    - unfold is_hit. pose proof (waveforms_R c st H). destruct (waveforms c st). assumption.
    - unfold is_hit_mc_truth. destruct (negb (noisy c)).
      + unfold is_hit. pose proof (waveforms_R c st H). destruct (waveforms c st). assumption.
      + pose proof (waveforms_R c st H) as F. destruct (waveforms c st) as [st1 ws]. cbn [fst] in F.
        pose proof (mc_loop_R c ws st1 F) as F2. destruct (mc_loop c st1 ws). exact F2.
    - pose proof (fw_R c st times H). destruct (full_waveform c st times). assumption.
    - unfold is_hit_during. pose proof (fw_R c st times H). destruct (full_waveform c st times). assumption.
    - pose proof (make_noise_R c st times H). destruct (make_noise c st times). assumption.
    - unfold RS, clear in *. cbn [fst noise_master noise_draws]. destruct reset_noise; [eapply R_drop; exact H|exact H].
    - exact H.
  Qed.

  Lemma final_R : forall c h st, RS st -> RS (final c st h).
  Proof.
    intros c h. induction h as [|o h IH]; intros st H; [exact H|].
    rewrite final_cons. apply IH. apply step_R. exact H.
  Qed.
End NoisePreservation.

(* the index of the master held is always one that has been drawn *)
Definition index_drawn (nm : option (nat * list Q)) (nd : nat) : Prop :=
  match nm with Some m => (fst m < nd)%nat | None => True end.

Lemma index_drawn_history : forall c h,
  index_drawn (noise_master (final c a_init h)) (noise_draws (final c a_init h)).
Proof.
  intros c h. apply (final_R index_drawn).
  - intros nd ts _. simpl. lia.
  - intros nm nd _. exact I.
  - exact I.
Qed.

(* every master held from now on has an index above k *)
Definition above (k : nat) (nm : option (nat * list Q)) (nd : nat) : Prop :=
  (k < nd)%nat /\ match nm with Some m => (k < fst m)%nat | None => True end.

(* clear(reset_noise=True) drops the master whatever else the antenna holds, and any master seen after it,
   after any further history, is a different draw from the one held before *)
Lemma reset_gives_fresh_master_lemma : forall c h1 h2 r m1,
  let st := final c a_init h1 in
  noise_master st = Some m1 ->
  noise_master (clear st true) = None /\
  noise_master (clear st false) = Some m1 /\
  (r = true ->
   forall m2, noise_master (final c (clear st r) h2) = Some m2 -> (fst m1 < fst m2)%nat).
Proof.
  intros c h1 h2 r m1 st Hm. split; [reflexivity|]. split; [exact Hm|].
  intros -> m2 H2.
  pose proof (index_drawn_history c h1) as D. fold st in D. rewrite Hm in D. simpl in D.
  assert (A : RS (above (fst m1)) (clear st true)).
  { unfold RS, above, clear. simpl. split; [exact D|exact I]. }
  pose proof (final_R (above (fst m1))) as F.
  assert (A2 : RS (above (fst m1)) (final c (clear st true) h2)).
  { apply F; auto.
    - intros nd ts (K1 & _). split; simpl; lia.
    - intros nm nd (K1 & _). split; [exact K1|exact I]. }
  unfold RS, above in A2. rewrite H2 in A2. apply A2.
Qed.

(* an idle antenna (no signals, only noise produced) is no exception: stated for the state reached by ANY
   history, in particular those that end with clears and noise reads only *)
Example reset_on_idle_antenna :
  let c := cfg_epoch true in
  enc_masters (run_masters c a_init
     [Receive (mkSig [0;1] [1;1]); AllWaveforms; Clear true; FullWaveform [0;1]; Clear true; FullWaveform [0;1];
      Clear false; MakeNoise [0;1]; Clear true; Clear true; MakeNoise [5;6]])
  = [-1; 0; -1; 1; -1; 2; 2; 2; -1; -1; 3]%Z.
Proof. vm_compute. reflexivity. Qed.
