(* C10 <- C03: the propagate contract used by C10's grid_is_times_plus_tof, discharged for the shipped
   propagate() methods.  BasicRayTracePath_propagate_both (inherited by SpecializedRayTracePath),
   UniformRayTracePath_propagate_both and LayeredRayTracePath_propagate_both are generated from the source
   on every run (Gen/Gen_prop.v); concrete_filter is C05's model of Signal.filter_frequencies.  C03 proves
   (hypothesis-free, Proofs/C03_concrete.v) that their outputs live on the input times + tof with
   unchanged length; here that is instantiated with the pulse the kernel hands over. *)
From Coq Require Import Reals List Bool ZArith.
From PyrexLib Require Import RealPrims Vec3Facts CPair SignalAlg ListOps.
From PyrexGen Require Import Gen_ice Gen_prop.
From PyrexModel Require Import PropagationModel.
From PyrexProofs Require Import C03_fresnel C03_proofs C03_propagate FilterBridge C03_concrete.
Import ListNotations.
Open Scope R_scope.

Definition shift_grid (tof : R) (grid : list R) : list R := map (fun t => t + tof) grid.

(* the common construction *)
Lemma spec_grid e r phi tof Hs Hp pulse pol grid :
  sg_times pulse = grid -> wf pulse ->
  let '((os, op), _) := propagate_spec (sig_filter_F concrete_filter) e r phi tof pulse pol Hs Hp in
  sg_times os = shift_grid tof grid /\ sg_times op = shift_grid tof grid /\
  length (sg_values os) = length grid /\ length (sg_values op) = length grid.
Proof.
  intros Hg W. destruct (propagate_concrete_stmt e r phi tof Hs Hp) as [G _].
  specialize (G pulse pol W). unfold shift_grid. rewrite <- Hg. exact G.
Qed.

Lemma shipped_propagate_grid_lemma :
  (forall self pulse pol fres freqs atten_vals grid, sg_times pulse = grid -> wf pulse ->
     let '((os, op), _) := BasicRayTracePath_propagate_both (sig_filter_F concrete_filter) self pulse pol fres freqs atten_vals in
     sg_times os = shift_grid (Path_tof self) grid /\ sg_times op = shift_grid (Path_tof self) grid /\
     length (sg_values os) = length grid /\ length (sg_values op) = length grid) /\
  (forall self pulse pol fres att grid, sg_times pulse = grid -> wf pulse ->
     let '((os, op), _) := UniformRayTracePath_propagate_both (sig_filter_F concrete_filter) self pulse pol fres att in
     sg_times os = shift_grid (UPath_tof self) grid /\ sg_times op = shift_grid (UPath_tof self) grid /\
     length (sg_values os) = length grid /\ length (sg_values op) = length grid) /\
  (forall self pulse pol fres att grid, sg_times pulse = grid -> wf pulse ->
     let '((os, op), _) := LayeredRayTracePath_propagate_both (sig_filter_F concrete_filter) self pulse pol fres att in
     sg_times os = shift_grid (LPath_tof self) grid /\ sg_times op = shift_grid (LPath_tof self) grid /\
     length (sg_values os) = length grid /\ length (sg_values op) = length grid).
Proof.
  destruct (propagate_is_one_construction_stmt (sig_filter_F concrete_filter)) as [HB [HU HL]].
  repeat split; intros.
  - rewrite HB. apply spec_grid; assumption.
  - rewrite HU. apply spec_grid; assumption.
  - rewrite HL. apply spec_grid; assumption.
Qed.

(* C10's delivered grid, now over real time grids and with the shipped propagate in place of the
   abstract contract: what an antenna is handed for one ray solution is either
   EmptySignal(signal_times + tof) or the two outputs of propagate applied to the signal model's pulse;
   only the signal-model contract (pulse on the times it was given, aligned values) remains a hypothesis *)
Section DeliveredGrid.
  Variable grid : list R.                       (* kernel.signal_times *)
  Variable pulse : Sig.                         (* signal_model(times=signal_times, ...) *)
  Hypothesis Hpulse : sg_times pulse = grid /\ wf pulse.

  Definition delivered_grids (empty : bool) (tof : R) (propagated : (Sig * Sig) * (vec3 * vec3)) : list R * list R :=
    if empty then (shift_grid tof grid, shift_grid tof grid)
    else (sg_times (fst (fst propagated)), sg_times (snd (fst propagated))).

  Lemma delivered_grids_lemma :
    (forall empty self pol fres freqs atten_vals,
       delivered_grids empty (Path_tof self)
         (BasicRayTracePath_propagate_both (sig_filter_F concrete_filter) self pulse pol fres freqs atten_vals)
       = (shift_grid (Path_tof self) grid, shift_grid (Path_tof self) grid)) /\
    (forall empty self pol fres att,
       delivered_grids empty (UPath_tof self)
         (UniformRayTracePath_propagate_both (sig_filter_F concrete_filter) self pulse pol fres att)
       = (shift_grid (UPath_tof self) grid, shift_grid (UPath_tof self) grid)) /\
    (forall empty self pol fres att,
       delivered_grids empty (LPath_tof self)
         (LayeredRayTracePath_propagate_both (sig_filter_F concrete_filter) self pulse pol fres att)
       = (shift_grid (LPath_tof self) grid, shift_grid (LPath_tof self) grid)).
  Proof.
    destruct Hpulse as [Hg W]. destruct shipped_propagate_grid_lemma as [HB [HU HL]].
    repeat split; intros [|]; try reflexivity; intros; unfold delivered_grids.
    - specialize (HB self pulse pol fres freqs atten_vals grid Hg W).
      destruct (BasicRayTracePath_propagate_both _ _ _ _ _ _ _) as [[os op] ps]. simpl.
      destruct HB as [H1 [H2 _]]. rewrite H1, H2. reflexivity.
    - specialize (HU self pulse pol fres att grid Hg W).
      destruct (UniformRayTracePath_propagate_both _ _ _ _ _ _) as [[os op] ps]. simpl.
      destruct HU as [H1 [H2 _]]. rewrite H1, H2. reflexivity.
    - specialize (HL self pulse pol fres att grid Hg W).
      destruct (LayeredRayTracePath_propagate_both _ _ _ _ _ _) as [[os op] ps]. simpl.
      destruct HL as [H1 [H2 _]]. rewrite H1, H2. reflexivity.
  Qed.
End DeliveredGrid.

(* non-vacuity: a two-sample pulse on a grid satisfies the hypotheses *)
Example ex_pulse_wf : let p := mkSig [0; 1] [2; 3] ty_field in sg_times p = [0; 1] /\ wf p.
Proof. split; reflexivity. Qed.
