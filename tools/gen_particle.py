"""Gen_particle.v: the interaction models of pyrex/particle.py (GQRSInteraction, CTWInteraction).

Extends the py2coq subset (by subclassing, py2coq.py itself is untouched) with what the
Interaction classes need:

* `self` is the record Inter = {kind, pid, energy, inelasticity, include_secondaries}:
    self.kind                      -> Inter_kind self         : Z   (value of Interaction.Type)
    self.particle.id[.value]       -> Inter_pid self          : Z   (value of Particle.Type)
    self.particle.energy           -> Inter_energy self       : R
    self.Type.<name>               -> the integer written in the class body of Interaction.Type
    self.particle.Type.<name>      -> the integer written in the class body of Particle.Type
* `raise` : a function whose body can raise returns `option T`; `raise ...` is `None`,
  `return v` is `Some v`; a property of that kind used inside an expression is bound with
  `match ... with Some v => ... | None => None end` in front of the statement (the exception
  propagates).
* `if` whose branches assign variables: the rest of the block is duplicated into both
  branches (`if c: A else: B; rest`  ==  `if c: A; rest else: B; rest`).
* the retry loop of choose_shower_fractions
      loop_counter = 0
      while loop_counter<N:
          loop_counter += 1
          a, b = self._choose_secondary_fractions(x, i)
          if ...: return ...
  is `retry_loop N 0 (fun it => let '(a, b) := sec it x i in ...)`, where the new parameter
  `sec : nat -> R -> Z -> R * R` is "the result of the it-th call of
  _choose_secondary_fractions" (instantiated in the proofs with the translated function).  The function can fall off
  its end (Python None): its result type is `option (option T)` -- None: raises,
  Some None: returns None, Some (Some v): returns v.
* functions with data-dependent `for` loops (_choose_secondary_fractions) are translated in stream
  mode: np.random.rand() / np.random.poisson(lam) take the next element of the parameters
  `us : list R` / `ns : list Z` (draw / draw_poisson, dynamic order; a draw must be the whole
  right-hand side of an assignment); `for _ in range(n): body` (no return/break/continue) is
  `for_range (Z.to_nat n) (fun '(carried, ns, us) => body) (carried, ns, us)`; module-level tables
  `_int_*[i]`, `_y_cum_*[i]` are fields of the parameter record SecTables; string constants and
  `==` on them are Coq strings; np.interp(x, xp, np.linspace(0, 1, len(xp))) is np_interp_last /
  linspace01.
* elsewhere np.random.rand() draws are fresh parameters u1 u2 ... (py2coq).
Everything else raises TranslationError (fail-closed).
"""
import ast
import hashlib
import os
import sys

sys.path.insert(0, os.path.dirname(os.path.abspath(__file__)))
import py2coq
from py2coq import Module, ClassTr, FnTr, TranslationError, coq_type as base_coq_type

INTER_RECORD = [("kind", "Z"), ("pid", "Z"), ("energy", "R"), ("inelasticity", "R"),
                ("include_secondaries", "bool")]
MEMBERS = ["choose_interaction", "choose_inelasticity", "cross_section", "total_cross_section",
           "interaction_length", "total_interaction_length", "choose_shower_fractions", "_choose_secondary_fractions"]


class NeedOpt(Exception):
    pass


def enum_values(mod, cname, ename):
    """{member name: int} of the Enum class `ename` nested in class `cname`."""
    for n in mod.classes[cname].body:
        if isinstance(n, ast.ClassDef) and n.name == ename:
            out = {}
            for s in n.body:
                if isinstance(s, ast.Assign) and len(s.targets) == 1 and isinstance(s.targets[0], ast.Name):
                    v = s.value
                    neg = False
                    if isinstance(v, ast.UnaryOp) and isinstance(v.op, ast.USub):
                        neg, v = True, v.operand
                    if isinstance(v, ast.Constant) and isinstance(v.value, int) and not isinstance(v.value, bool):
                        out[s.targets[0].id] = -v.value if neg else v.value
                    else:
                        mod.err(s, "enum member is not an integer literal")
            return out
    raise TranslationError("%s: enum %s.%s not found" % (mod.source, cname, ename))


def zlit(v):
    return "%d%%Z" % v if v >= 0 else "(%d)%%Z" % v


def int_literal(n):
    if isinstance(n, ast.Constant) and isinstance(n.value, int) and not isinstance(n.value, bool):
        return n.value
    if isinstance(n, ast.UnaryOp) and isinstance(n.op, ast.USub) and isinstance(n.operand, ast.Constant) \
            and isinstance(n.operand.value, int) and not isinstance(n.operand.value, bool):
        return -n.operand.value
    return None


def coq_type(t, mod=None):
    if t in ("str", "streamR", "streamZ"):
        return {"str": "string", "streamR": "list R", "streamZ": "list Z"}[t]
    if t.startswith("opt:"):
        return "option " + coq_type(t[4:], mod)
    if t.startswith("optn:"):
        return "(option " + coq_type(t[5:], mod) + ")"
    return base_coq_type(t, mod)


class PFnTr(FnTr):
    itype = None     # Interaction.Type values
    ptype = None     # Particle.Type values

    def __init__(self, *a, **kw):
        super().__init__(*a, **kw)
        self.opt_mode = False      # function can raise: result is option
        self.none_ret = False      # function can fall off its end (retry loop): option (option T)
        self.loop_mode = False     # inside the retry-loop body
        self.pending = []          # (variable, option-valued call) to bind in front of the statement
        self.uses_sec = False
        self.nbind = 0
        self.stream_mode = False   # function with data-dependent for loops: draws come from the streams ns / us
        self.uses_tabs = False
        self.cur_assign_value = None
        self.tables = {}           # module-level table name -> element type

    # ------------------------------------------------------------------ expressions
    def e_Attribute(self, n):
        d = self.dotted(n)
        if d and d[0] == self.self_name:
            if len(d) == 3 and d[1] == "Type":
                if d[2] not in self.itype:
                    self.err(n, "unknown Interaction.Type member %s" % d[2])
                return zlit(self.itype[d[2]]), "Z"
            if len(d) == 4 and d[1] == "particle" and d[2] == "Type":
                if d[3] not in self.ptype:
                    self.err(n, "unknown Particle.Type member %s" % d[3])
                return zlit(self.ptype[d[3]]), "Z"
            if d[1:] in (("particle", "id"), ("particle", "id", "value")):
                return "(Inter_pid %s)" % self.self_name, "Z"
            if d[1:] == ("particle", "energy"):
                return "(Inter_energy %s)" % self.self_name, "R"
            if len(d) >= 2 and d[1] == "particle":
                self.err(n, "unsupported particle attribute")
        return super().e_Attribute(n)

    def self_attr(self, n, attr):
        if not any(f == attr for f, _ in self.mod.records[self.record]) and self.lookup_member:
            r = self.lookup_member(attr)
            if r and r[2].startswith("opt:"):
                if r[1] != "property" or r[2].startswith("opt:optn:"):
                    self.err(n, "only properties that may raise can be used inside expressions")
                if not self.opt_mode:
                    raise NeedOpt()
                if self.loop_mode:
                    self.err(n, "a raising property inside the retry loop is not supported")
                self.nbind += 1
                v = "val%d" % self.nbind
                call = "(%s %s)" % (r[0], self.self_name)
                self.pending.append(lambda code, v=v, call=call:
                                    "match %s with\n  | Some %s => %s\n  | None => None\n  end" % (call, v, code))
                return v, r[2][4:]
        return super().self_attr(n, attr)

    def e_Constant(self, n):
        if isinstance(n.value, str):
            if '"' in n.value:
                self.err(n, "unsupported string literal")
            return '"%s"%%string' % n.value, "str"
        return super().e_Constant(n)

    def e_Subscript(self, n):
        if isinstance(n.value, ast.Name) and n.value.id not in self.vars and n.value.id in self.tables:
            idx, ti = self.expr(n.slice)
            if ti != "Z":
                self.err(n, "module-level tables are indexed with an integer variable")
            self.uses_tabs = True
            return "(Tab%s tabs %s)" % (n.value.id, idx), self.tables[n.value.id]
        return super().e_Subscript(n)

    def e_Compare(self, n):
        if len(n.ops) == 1 and isinstance(n.ops[0], (ast.Eq, ast.NotEq)):
            ca, ta = self.expr(n.left)
            if ta == "str":
                cb, tb = self.expr(n.comparators[0])
                if tb != "str":
                    self.err(n, "comparison of a string with %s" % tb)
                c = "(String.eqb %s %s)" % (ca, cb)
                return (c if isinstance(n.ops[0], ast.Eq) else "(negb %s)" % c), "bool"
        if len(n.ops) == 1:
            a, b = n.left, n.comparators[0]
            ia, ib = int_literal(a), int_literal(b)
            opn = type(n.ops[0]).__name__
            f = {"Lt": "Z.ltb", "LtE": "Z.leb", "Gt": "Z.gtb", "GtE": "Z.geb", "Eq": "Z.eqb"}.get(opn)
            if f and (ia is None) != (ib is None):
                other = b if ia is not None else a
                co, to = self.expr(other)
                if to == "Z":
                    lit = zlit(ia if ia is not None else ib)
                    return ("(%s %s %s)" % ((f, lit, co) if ia is not None else (f, co, lit))), "bool"
        return super().e_Compare(n)

    def e_Call(self, n):
        f = n.func
        if isinstance(f, ast.Name) and f.id == "bool" and len(n.args) == 1 and not n.keywords:
            return self.boolean(n.args[0])
        d = self.dotted(f)
        if self.stream_mode and d and d[:2] == ("np", "random"):
            if n is not self.cur_assign_value or n.keywords:
                self.err(n, "in a function with for loops a random draw must be the whole right-hand side of an assignment")
            self.nbind += 1
            if d[2] in ("rand", "random_sample", "random") and not n.args:
                v = "rnd%d" % self.nbind
                self.pending.append(lambda code, v=v: "let '(%s, us) := draw us in\n  %s" % (v, code))
                return v, "R"
            if d[2] == "poisson" and len(n.args) == 1:
                lam, _ = self.num(n.args[0])
                v = "cnt%d" % self.nbind
                self.pending.append(lambda code, v=v, lam=lam: "let '(%s, ns) := draw_poisson %s ns in\n  %s" % (v, lam, code))
                return v, "Z"
            self.err(n, "unsupported random draw")
        if d == ("np", "interp") and len(n.args) == 3 and not n.keywords:
            x, _ = self.num(n.args[0])
            xp, t1 = self.expr(n.args[1])
            fp, t2 = self.expr(n.args[2])
            if t1 != "listR" or t2 != "listR":
                self.err(n, "np.interp(x, list, list) expected")
            return "(np_interp_last %s %s %s)" % (x, xp, fp), "R"
        if d == ("np", "linspace") and len(n.args) == 3 and not n.keywords:
            a0, a1, a2 = n.args
            if int_literal(a0) == 0 and int_literal(a1) == 1 and isinstance(a2, ast.Call) and isinstance(a2.func, ast.Name) \
                    and a2.func.id == "len" and len(a2.args) == 1:
                l, tl = self.expr(a2.args[0])
                if tl == "listR":
                    return "(linspace01 (List.length %s))" % l, "listR"
            self.err(n, "only np.linspace(0, 1, len(list)) is supported")
        if d == (self.self_name, "_choose_secondary_fractions"):
            if not self.loop_mode or n.keywords or len(n.args) != 2:
                self.err(n, "_choose_secondary_fractions is only supported as the draw of the retry loop")
            a0, t0 = self.expr(n.args[0])
            a1, t1 = self.expr(n.args[1])
            if t0 != "R" or t1 != "Z":
                self.err(n, "_choose_secondary_fractions(lepton_energy : R, energy_index : Z) expected, got %s, %s" % (t0, t1))
            self.uses_sec = True
            return "(sec it %s %s)" % (a0, a1), "tuple[R,R]"
        return super().e_Call(n)

    # ------------------------------------------------------------------ statements
    def block(self, stmts, k=None):
        if not stmts:
            return super().block(stmts, k)
        mark = len(self.pending)
        code = self.block1(stmts, k)
        binds = self.pending[mark:]
        del self.pending[mark:]
        for wrap in reversed(binds):
            code = wrap(code)
        return code

    def wrap_ret(self, c):
        if self.loop_mode:
            return "Some %s" % c
        if self.none_ret:
            return "Some (Some %s)" % c
        if self.opt_mode:
            return "Some %s" % c
        return c

    def loaded_names(self, stmts):
        out = set()
        for st in stmts:
            for x in ast.walk(st):
                if isinstance(x, ast.Name):
                    out.add(x.id)
        return out

    def for_loop(self, s, rest, k):
        """for _ in range(n): body   (no return/break/continue)  ->  for_range (Z.to_nat n) (fun state => body) state"""
        it = s.iter
        if not (isinstance(it, ast.Call) and isinstance(it.func, ast.Name) and it.func.id == "range" and len(it.args) == 1
                and not it.keywords and isinstance(s.target, ast.Name) and not s.orelse):
            self.err(s, "only `for name in range(n):` loops are supported")
        cnt, tc = self.expr(it.args[0])
        if tc != "Z":
            self.err(s, "range() of %s" % tc)
        for st in s.body:
            for x in ast.walk(st):
                if isinstance(x, (ast.Return, ast.Break, ast.Continue, ast.While, ast.For, ast.Raise)):
                    self.err(x, "unsupported statement inside a for loop")
                if isinstance(x, ast.Name) and x.id == s.target.id:
                    self.err(x, "the loop variable must not be used")

        def assigned_deep(stmts):
            out = []
            for st in stmts:
                for x in ast.walk(st):
                    if isinstance(x, (ast.Assign, ast.AugAssign)):
                        for t in (x.targets if isinstance(x, ast.Assign) else [x.target]):
                            out += py2coq.names_of(t)
            return out
        carried = [v for v in dict.fromkeys(assigned_deep(s.body)) if v in self.vars]
        carried += [v for v in ("ns", "us") if v in self.vars and v not in carried]
        types = [self.vars[v][1] for v in carried]
        saved = dict(self.vars)
        for v, t in zip(carried, types):
            self.vars[v] = (v, t)

        def kk():
            parts = [self.vars[v] for v in carried]
            if [t for _, t in parts] != types:
                self.err(s, "a loop-carried variable changes its type")
            return py2coq.tuple_code([c for c, _ in parts])
        body = self.block(list(s.body), kk)
        self.vars = saved
        for v, t in zip(carried, types):
            self.vars[v] = (v, t)
        pat = py2coq.tuple_code(carried)
        bind = "'%s" % pat if len(carried) > 1 else pat
        return "let %s := for_range (Z.to_nat %s) (fun %s =>\n  %s) %s in\n  %s" % (
            bind, cnt, bind, body, pat, self.block(rest, k))

    def block1(self, stmts, k):
        s, rest = stmts[0], stmts[1:]
        self.cur_assign_value = s.value if isinstance(s, ast.Assign) else None
        if isinstance(s, ast.For):
            return self.for_loop(s, rest, k)
        if isinstance(s, ast.Return):
            if s.value is None:
                self.err(s, "bare return")
            c, t = self.expr(s.value)
            self.ret_types.append(t)
            return self.wrap_ret(c)
        if isinstance(s, ast.Raise):
            if self.loop_mode:
                self.err(s, "raise inside the retry loop is not supported")
            if not self.opt_mode:
                raise NeedOpt()
            self.raises = True
            return "None"
        if isinstance(s, ast.Assign) and len(s.targets) == 1 and isinstance(s.targets[0], ast.Name) \
                and int_literal(s.value) is not None and self.vars.get(s.targets[0].id, (None, None))[1] == "Z":
            name = s.targets[0].id
            return "let %s := %s in\n  %s" % (name, zlit(int_literal(s.value)), self.block(rest, k))
        if isinstance(s, ast.While):
            return self.retry_loop(s, rest, k)
        if isinstance(s, ast.If) and not self.is_none_test(s):
            test = self.const_bool(s.test)
            if test == "true":
                return self.block(list(s.body) + rest, k)
            if test == "false":
                return self.block(list(s.orelse) + rest, k)
            rb = self.always_returns(s.body)
            ro = self.always_returns(s.orelse) if s.orelse else False
            if (rb and ro) or not rest:
                a = self.sub(list(s.body), None if rb else k)
                b = self.sub(list(s.orelse), None if ro else k)
                return "if %s then %s\n  else %s" % (test, a, b)
            if rb or ro:
                # only one branch continues: no duplication needed
                a = self.sub(list(s.body) + ([] if rb else rest), None if rb else k)
                b = self.sub(list(s.orelse) + ([] if ro else rest), None if ro else k)
                return "if %s then %s\n  else %s" % (test, a, b)
            # both branches continue with `rest`: translate it once as a local function of the
            # variables the branches assign  (if c: A else: B; rest == if c: A; rest else: B; rest)
            vs = self.assigned(s.body) + [v for v in self.assigned(s.orelse) if v not in self.assigned(s.body)]
            used = self.loaded_names(rest)
            vs = [v for v in vs if v in used]
            vs += [v for v in ("ns", "us") if v in self.vars and v not in vs]
            self.ncont = getattr(self, "ncont", 0) + 1
            name = "cont%d" % self.ncont
            seen = []

            def kk():
                parts = []
                for v in vs:
                    if v not in self.vars:
                        raise TranslationError("%s:%d: variable %r is not assigned on every path" % (self.mod.source, s.lineno, v))
                    parts.append(self.vars[v])
                seen.append([t for _, t in parts])
                return "(%s %s)" % (name, " ".join(c for c, _ in parts)) if parts else name
            a = self.sub(list(s.body), kk)
            b = self.sub(list(s.orelse), kk)
            if not seen or any(t != seen[0] for t in seen):
                self.err(s, "branches assign different types %s" % seen)
            saved = dict(self.vars)
            for v, t in zip(vs, seen[0]):
                self.vars[v] = (v, t)
            rest_code = self.block(rest, k)
            self.vars = saved
            lam = " ".join("(%s : %s)" % (v, coq_type(t, self.mod)) for v, t in zip(vs, seen[0]))
            if not vs:
                return "let %s := (%s) in\n  if %s then %s\n  else %s" % (name, rest_code, test, a, b)
            return "let %s := (fun %s =>\n  %s) in\n  if %s then %s\n  else %s" % (name, lam, rest_code, test, a, b)
        return super().block(stmts, k)

    def is_none_test(self, s):
        t = s.test
        return isinstance(t, ast.Compare) and len(t.ops) == 1 and isinstance(t.ops[0], (ast.Is, ast.IsNot))

    def retry_loop(self, s, rest, k):
        """while counter<N: counter += 1; <body that returns or falls through to the next try>"""
        if rest or k is not None or s.orelse or self.loop_mode or not self.none_ret:
            self.err(s, "a while loop is only supported as the final retry loop of a function")
        t = s.test
        ok = (isinstance(t, ast.Compare) and len(t.ops) == 1 and isinstance(t.ops[0], ast.Lt)
              and isinstance(t.left, ast.Name) and int_literal(t.comparators[0]) is not None
              and int_literal(t.comparators[0]) >= 0)
        if not ok:
            self.err(s, "retry loop test must be `counter < literal`")
        counter, bound = t.left.id, int_literal(t.comparators[0])
        if self.loop_start.get(counter) != 0:
            self.err(s, "retry loop counter must be initialised with 0 just before the loop")
        body = list(s.body)
        first = body[0] if body else None
        if not (isinstance(first, ast.AugAssign) and isinstance(first.op, ast.Add) and isinstance(first.target, ast.Name)
                and first.target.id == counter and int_literal(first.value) == 1):
            self.err(s, "retry loop must start with `counter += 1`")
        for st in body[1:]:
            for x in ast.walk(st):
                if isinstance(x, ast.Name) and x.id == counter:
                    self.err(x, "the retry loop body must not use the counter")
                if isinstance(x, (ast.Break, ast.Continue, ast.While, ast.For)):
                    self.err(x, "unsupported statement inside the retry loop")
        self.loop_mode = True
        saved = dict(self.vars)
        code = self.block(body[1:], "None")
        self.vars = saved
        self.loop_mode = False
        return "Some (retry_loop %d%%nat 0%%nat (fun it : nat =>\n  %s))" % (bound, code)


class PClassTr(ClassTr):
    tables = {}

    def __init__(self, *a, **kw):
        super().__init__(*a, **kw)
        self.fn_class = PFnTr

    def translate_def(self, node, tr, coqname, has_self, pkey):
        try:
            return self._translate(node, tr, coqname, has_self, pkey, opt=False)
        except NeedOpt:
            tr2 = self.fn_class(self.mod, cname=self.cname, record=self.record, consts=self.consts)
            tr2.lookup_member = self.lookup
            return self._translate(node, tr2, coqname, has_self, pkey, opt=True)

    def _translate(self, node, tr, coqname, has_self, pkey, opt):
        args = [a.arg for a in node.args.args]
        if node.args.vararg or node.args.kwarg or node.args.kwonlyargs or node.args.defaults:
            self.mod.err(node, "varargs / defaults are not supported")
        params = []
        if has_self:
            tr.self_name = args[0]
            params.append("(%s : %s)" % (args[0], self.record))
            args = args[1:]
        else:
            tr.self_name = "\0"
        ptypes = self.param_types.get(pkey, {})
        for a in args:
            t = ptypes.get(a, "R")
            tr.vars[a] = (a, t)
            params.append("(%s : %s)" % (a, coq_type(t, self.mod)))
        tr.ret_types = []
        tr.raises = False
        tr.opt_mode = opt
        tr.tables = self.tables
        tr.stream_mode = any(isinstance(x, ast.For) for x in ast.walk(node))
        if tr.stream_mode:
            tr.vars["ns"] = ("ns", "streamZ")
            tr.vars["us"] = ("us", "streamR")
        whiles = [x for x in ast.walk(node) if isinstance(x, ast.While)]
        tr.none_ret = bool(whiles)
        if tr.none_ret and not opt:
            raise NeedOpt()
        # counters initialised with a literal directly before a while loop
        tr.loop_start = {}
        for x in ast.walk(node):
            body = getattr(x, "body", None)
            if isinstance(body, list):
                for a, b in zip(body, body[1:]):
                    if isinstance(b, ast.While) and isinstance(a, ast.Assign) and len(a.targets) == 1 \
                            and isinstance(a.targets[0], ast.Name) and py_int(a.value) is not None:
                        tr.loop_start[a.targets[0].id] = py_int(a.value)
        body = tr.block(list(node.body), None)
        rts = tr.ret_types
        if not rts:
            self.mod.err(node, "function never returns a value")
        rt = rts[0]
        if any(t != rt for t in rts):
            self.mod.err(node, "inconsistent return types %s" % rts)
        if tr.none_ret:
            rt_out = "opt:optn:" + rt
        elif opt:
            rt_out = "opt:" + rt
        else:
            rt_out = rt
        if tr.uses_tabs:
            params.insert(1 if has_self else 0, "(tabs : SecTables)")
        if tr.stream_mode:
            params += ["(ns : list Z)", "(us : list R)"]
        if tr.uses_sec:
            params.append("(sec : nat -> R -> Z -> R * R)")
        params += ["(%s : R)" % u for u in tr.randoms]
        self.mod.emit("Definition %s %s : %s :=\n  %s." % (coqname, " ".join(params), coq_type(rt_out, self.mod), body))
        self.mod.hashes[coqname] = hashlib.sha256(ast.dump(node).encode()).hexdigest()[:16]
        return (coqname, "fn", rt_out)


def py_int(n):
    return int_literal(n)


def generate(repo):
    mod = Module(repo, "pyrex/particle.py", records={"Inter": INTER_RECORD})
    PFnTr.itype = enum_values(mod, "Interaction", "Type")
    PFnTr.ptype = enum_values(mod, "Particle", "Type")
    mod.record_decl("Inter")
    # the enum values the statements (and the harness) refer to
    mod.emit("Definition Type_undefined : Z := %s.\nDefinition Type_cc : Z := %s.\nDefinition Type_nc : Z := %s." % (
        zlit(PFnTr.itype["undefined"]), zlit(PFnTr.itype["charged_current"]), zlit(PFnTr.itype["neutral_current"])))
    for nm in ("electron_neutrino", "electron_antineutrino", "muon_neutrino", "muon_antineutrino",
               "tau_neutrino", "tau_antineutrino"):
        mod.emit("Definition Pid_%s : Z := %s." % (nm, zlit(PFnTr.ptype[nm])))
    # module-level secondary tables: _int_<x> = np.sum(...) (one number per energy index),
    # _y_cum_<x> = cumulative distribution (one row per energy index); they are parameters (record SecTables)
    tables = {}
    for n in mod.tree.body:
        if isinstance(n, ast.Assign) and len(n.targets) == 1 and isinstance(n.targets[0], ast.Name):
            nm = n.targets[0].id
            if nm.startswith("_int_"):
                tables[nm] = "R"
            elif nm.startswith("_y_cum_"):
                tables[nm] = "listR"
    PClassTr.tables = tables
    mod.emit("Record SecTables := mkSecTables {\n  %s\n}." % ";\n  ".join(
        "Tab%s : Z -> %s" % (nm, "R" if t == "R" else "list R") for nm, t in tables.items()))
    done_nodes = {}
    for cname in ("GQRSInteraction", "CTWInteraction"):
        pre = cname.replace("Interaction", "")
        ct = PClassTr(mod, cname, record="Inter", prefix=pre,
                      param_types={"_choose_secondary_fractions": {"energy_index": "Z"}})
        for m in MEMBERS:
            _, node = mod.find_member(cname, m)
            if node is None:
                raise TranslationError("pyrex/particle.py: %s.%s not found" % (cname, m))
            if m == "_choose_secondary_fractions" and id(node) in done_nodes:
                # inherited unchanged: one translation serves both classes
                mod.emit("Definition %s_%s := %s." % (pre, m.lstrip("_"), done_nodes[id(node)]))
                continue
            r = ct.member(m)
            if r is None:
                raise TranslationError("pyrex/particle.py: %s.%s not found" % (cname, m))
            done_nodes[id(node)] = r[0]
    # the preferred model alias
    alias = None
    for n in mod.tree.body:
        if isinstance(n, ast.Assign) and len(n.targets) == 1 and isinstance(n.targets[0], ast.Name) \
                and n.targets[0].id == "NeutrinoInteraction" and isinstance(n.value, ast.Name):
            alias = n.value.id
    if alias not in ("GQRSInteraction", "CTWInteraction"):
        raise TranslationError("pyrex/particle.py: NeutrinoInteraction is not an alias of a translated class (%r)" % alias)
    pre = alias.replace("Interaction", "")
    for m, sig, call in (("cross_section", "(self : Inter)", "self"), ("total_cross_section", "(self : Inter)", "self"),
                         ("interaction_length", "(self : Inter)", "self"), ("total_interaction_length", "(self : Inter)", "self")):
        mod.emit("Definition Default_%s %s := %s_%s %s." % (m, sig, pre, m, call))
    mod.emit("Definition default_model_is_CTW : bool := %s." % ("true" if alias == "CTWInteraction" else "false"))
    text = mod.result()
    text = text.replace("From PyrexLib Require Import RealPrims.", "From Coq Require Import String.\nFrom PyrexLib Require Import RealPrims PartPrims.", 1)
    return text, mod.hashes


if __name__ == "__main__":
    text, h = generate(sys.argv[1])
    print(text)
