(* C08: Antenna response is linear, rotation-covariant, scales fields by antenna factor.
   Statements only.  Antenna_* / DipoleAntenna_* / AntennaSystem_* are regenerated from
   pyrex/antenna.py and pyrex/detector.py on every run (Gen/Gen_antenna.v); response_spec,
   sph_coords, dip_dgain, dip_pgain, rot_ant, sig_filter_of are the short specification-side
   definitions of Proofs/C08_proofs.v; qrot is the rotation matrix of a quaternion
   (Lib/Vec3Facts.v); receive_model is the pinned hand model of Antenna.receive. *)
From Coq Require Import Reals List Bool ZArith.
From PyrexLib Require Import RealPrims Vec3Facts CPair SignalAlg.
From PyrexModel Require Import ButterModel AntennaResponseModel.
From PyrexGen Require Import Gen_antenna.
From PyrexProofs Require Import C08_proofs FilterBridge C08_concrete.
Import ListNotations.
Open Scope R_scope.

(* --- the response is (filtered signal) x directional gain x polarization gain x efficiency,
       divided by the antenna factor exactly for fields, refused for every other type ------- *)
Theorem response_factor_antenna : forall filt self signal direction polarization fr,
  Antenna_apply_response filt self signal direction polarization fr
  = response_spec (filt (fun _ => cofR 1) fr (prefilter signal))
      (ant_dgain self direction * ant_pgain self polarization * Ant_efficiency self)
      (Ant_antenna_factor self) (sg_type signal).
Proof. exact antenna_response_factor. Qed.
Print Assumptions response_factor_antenna.

Theorem response_factor_dipole : forall filt self signal direction polarization fr,
  DipoleAntenna_apply_response filt self signal direction polarization fr
  = response_spec (filt (fun f => DipoleAntenna_frequency_response self f) fr (prefilter signal))
      (dip_dgain self direction * dip_pgain self polarization * Ant_efficiency self)
      (Ant_antenna_factor self) (sg_type signal).
Proof. exact dipole_response_factor. Qed.
Print Assumptions response_factor_dipole.

Theorem response_field_voltage_other : forall filtered g af vt,
  (vt = ty_voltage -> response_spec filtered g af vt = Some (sig_scale g filtered)) /\
  (vt = ty_field -> response_spec filtered g af vt = Some (sig_scale (g / af) filtered)) /\
  (vt <> ty_voltage -> vt <> ty_field -> response_spec filtered g af vt = None).
Proof. exact response_spec_cases. Qed.
Print Assumptions response_field_voltage_other.

Theorem signal_type_enum_values :
  SignalType_voltage = ty_voltage /\ SignalType_field = ty_field /\ SignalType_power = ty_power /\
  SignalType_undefined = ty_undefined /\ SignalType_unknown = ty_undefined.
Proof. exact enum_values. Qed.
Print Assumptions signal_type_enum_values.

(* --- linear in the signal (C05's filter facts as hypotheses of the section) --------------- *)
Theorem response_linear_antenna :
  forall F : list R -> list R -> (R -> R * R) -> bool -> list R,
  (forall times xs g fr, (length times <= 2 * length xs)%nat -> length (F times xs g fr) = length times) ->
  (forall times xs ys a b g fr n, length xs = length ys -> length times = length xs -> (n < length times)%nat ->
     nth n (F times (lincomb a b xs ys) g fr) 0 = a * nth n (F times xs g fr) 0 + b * nth n (F times ys g fr) 0) ->
  forall self dir pol fr a b x y,
  well_formed x -> sg_times y = sg_times x -> sg_type y = sg_type x -> length (sg_values y) = length (sg_values x) ->
  Antenna_apply_response (sig_filter_of F) self (sig_lincomb a b x y) dir pol fr
  = opt_lincomb a b (Antenna_apply_response (sig_filter_of F) self x dir pol fr)
                    (Antenna_apply_response (sig_filter_of F) self y dir pol fr).
Proof. exact response_linear_antenna_stmt. Qed.
Print Assumptions response_linear_antenna.

Theorem response_linear_dipole :
  forall F : list R -> list R -> (R -> R * R) -> bool -> list R,
  (forall times xs g fr, (length times <= 2 * length xs)%nat -> length (F times xs g fr) = length times) ->
  (forall times xs ys a b g fr n, length xs = length ys -> length times = length xs -> (n < length times)%nat ->
     nth n (F times (lincomb a b xs ys) g fr) 0 = a * nth n (F times xs g fr) 0 + b * nth n (F times ys g fr) 0) ->
  forall self dir pol fr a b x y,
  well_formed x -> sg_times y = sg_times x -> sg_type y = sg_type x -> length (sg_values y) = length (sg_values x) ->
  DipoleAntenna_apply_response (sig_filter_of F) self (sig_lincomb a b x y) dir pol fr
  = opt_lincomb a b (DipoleAntenna_apply_response (sig_filter_of F) self x dir pol fr)
                    (DipoleAntenna_apply_response (sig_filter_of F) self y dir pol fr).
Proof. exact response_linear_dipole_stmt. Qed.
Print Assumptions response_linear_dipole.

(* --- rotating axes, arrival direction and polarization by the same rotation (and moving the
       antenna anywhere) leaves the response unchanged ----------------------------------------- *)
Theorem rotation_covariant_antenna : forall filt a b c d pos' self signal direction polarization fr,
  qn2 a b c d = 1 ->
  Antenna_apply_response filt (rot_ant a b c d pos' self) signal
      (option_map (qrot a b c d) direction) (option_map (qrot a b c d) polarization) fr
  = Antenna_apply_response filt self signal direction polarization fr.
Proof. exact antenna_rotation_covariant. Qed.
Print Assumptions rotation_covariant_antenna.

Theorem rotation_covariant_dipole : forall filt a b c d pos' self signal direction polarization fr,
  qn2 a b c d = 1 ->
  DipoleAntenna_apply_response filt (rot_ant a b c d pos' self) signal
      (option_map (qrot a b c d) direction) (option_map (qrot a b c d) polarization) fr
  = DipoleAntenna_apply_response filt self signal direction polarization fr.
Proof. exact dipole_rotation_covariant. Qed.
Print Assumptions rotation_covariant_dipole.

(* (r, theta, phi) of the arrival direction, which every subclass's directional_gain is a
   function of, are invariant *)
Theorem rotation_covariant_coordinates : forall a b c d pos' self dv, qn2 a b c d = 1 ->
  Antenna_convert_to_antenna_coordinates (rot_ant a b c d pos' self) (vsub pos' (vnormalize (qrot a b c d dv)))
  = Antenna_convert_to_antenna_coordinates self (vsub (Ant_position self) (vnormalize dv)).
Proof. exact coordinates_rotation_invariant. Qed.
Print Assumptions rotation_covariant_coordinates.

Theorem rotation_identities : forall a b c d u v,
  vdot (qrot a b c d u) (qrot a b c d v) = qn2 a b c d * qn2 a b c d * vdot u v /\
  vcross (qrot a b c d u) (qrot a b c d v) = vscale (qn2 a b c d) (qrot a b c d (vcross u v)).
Proof. exact rotation_identities_stmt. Qed.
Print Assumptions rotation_identities.

(* --- dipole gains --------------------------------------------------------------------------- *)
Theorem dipole_gains : forall self dv p,
  orthonormal_axes self -> vnorm dv <> 0 ->
  let dhat := vnormalize dv in
  dip_dgain self (Some dv) = vnorm (vcross (Ant_z_axis self) dhat) /\
  dip_dgain self (Some dv) = sqrt (1 - vdot (Ant_z_axis self) dhat * vdot (Ant_z_axis self) dhat) /\
  (exists theta, 0 <= theta <= PI /\ cos theta = vdot (Ant_z_axis self) (vopp dhat) /\ dip_dgain self (Some dv) = sin theta) /\
  dip_pgain self (Some p) = vdot (Ant_z_axis self) (vnormalize p).
Proof. exact dipole_gains_stmt. Qed.
Print Assumptions dipole_gains.

(* --- the order-1 Butterworth band-pass is passive --------------------------------------------- *)
Theorem butter_passive : forall w_lo w_hi w, 0 < w_lo -> w_lo < w_hi ->
  let '(b, a) := butter1_bandpass_analog w_lo w_hi in cabs2 (snd (freqs b a w)) <= 1.
Proof. exact butter_passive_lemma. Qed.
Print Assumptions butter_passive.

Theorem dipole_frequency_response_passive : forall pos z x eff fc bw eh f,
  0 < fc - bw / 2 -> 0 < bw ->
  cabs (DipoleAntenna_frequency_response (dipole_of_params pos z x eff fc bw eh) f) <= 1.
Proof. exact dipole_response_passive. Qed.
Print Assumptions dipole_frequency_response_passive.

Theorem dipole_output_energy_bound :
  forall F : list R -> list R -> (R -> R * R) -> bool -> list R,
  (forall times xs g fr, length times = length xs -> (forall u, cabs (g u) <= 1) -> energy (F times xs g fr) <= energy xs) ->
  forall pos z x eff fc bw eh s dir pol fr o,
  0 < fc - bw / 2 -> 0 < bw -> well_formed s ->
  DipoleAntenna_apply_response (sig_filter_of F) (dipole_of_params pos z x eff fc bw eh) s dir pol fr = Some o ->
  exists k, sg_values o = map (Rmult k) (F (sg_times s) (sg_values s)
               (fun f => DipoleAntenna_frequency_response (dipole_of_params pos z x eff fc bw eh) f) fr)
            /\ energy (sg_values o) <= k * k * energy (sg_values s).
Proof. exact dipole_output_energy_bound_stmt. Qed.
Print Assumptions dipole_output_energy_bound.

(* --- AntennaSystem forwards set-up and response to its antenna ------------------------------- *)
Theorem system_delegates : forall filt sys signal direction polarization fr z x,
  AntennaSystem_Antenna_apply_response filt sys signal direction polarization fr
    = Antenna_apply_response filt (Sys_antenna sys) signal direction polarization fr /\
  AntennaSystem_DipoleAntenna_apply_response filt sys signal direction polarization fr
    = DipoleAntenna_apply_response filt (Sys_antenna sys) signal direction polarization fr /\
  AntennaSystem_Antenna_set_orientation sys z x = Antenna_set_orientation (Sys_antenna sys) z x /\
  AntennaSystem_DipoleAntenna_set_orientation sys z x = DipoleAntenna_set_orientation (Sys_antenna sys) z x.
Proof. exact system_delegates_lemma. Qed.
Print Assumptions system_delegates.

Theorem set_orientation_normalises_and_checks : forall self z x,
  Antenna_set_orientation self z x
  = if Rleb (Rabs (vdot (vnormalize z) (vnormalize x))) 1e-8 then Some (vnormalize z, vnormalize x) else None.
Proof. exact set_orientation_spec. Qed.
Print Assumptions set_orientation_normalises_and_checks.

(* --- receive: a refused component leaves the stored signals untouched; otherwise exactly one
       signal is appended, the sum of the polarized components' responses --------------------- *)
Theorem receive_rejects_before_state_change : forall (P : Type) (apply : Sig -> P -> option Sig) signals lens_ok inputs,
  (exists s p, In (s, p) inputs /\ apply s p = None) ->
  receive_model apply signals lens_ok inputs = (signals, RecvValueError).
Proof. exact receive_rejects_before_state_change_stmt. Qed.
Print Assumptions receive_rejects_before_state_change.

Theorem receive_appends_one_or_nothing : forall (P : Type) (apply : Sig -> P -> option Sig) signals lens_ok inputs,
  let '(st, r) := receive_model apply signals lens_ok inputs in
  (r = RecvOk /\ exists total, st = signals ++ [total]) \/ (r <> RecvOk /\ st = signals).
Proof. exact receive_appends_one_or_nothing_stmt. Qed.
Print Assumptions receive_appends_one_or_nothing.

Theorem receive_sums_components : forall (P : Type) (apply : Sig -> P -> option Sig) signals s1 p1 s2 p2 o1 o2,
  apply s1 p1 = Some o1 -> apply s2 p2 = Some o2 ->
  sg_times o1 = sg_times o2 -> sg_type o1 = ty_voltage -> sg_type o2 = ty_voltage ->
  receive_model apply signals true [(s1, p1)] = (signals ++ [o1], RecvOk) /\
  receive_model apply signals true [(s1, p1); (s2, p2)]
  = (signals ++ [mkSig (sg_times o1) (vals_add (sg_values o1) (sg_values o2)) ty_voltage], RecvOk).
Proof. exact receive_sums_components_stmt. Qed.
Print Assumptions receive_sums_components.

(* --- the same without hypotheses: concrete_filter is C05's model of Signal.filter_frequencies
       (Model/FilterModel.v, zero-padded DFT, any length); its length / linearity / passivity are C05's
       theorems, carried over by Proofs/FilterBridge.v (lincomb, energy = indexed sum, cabs = Cmod) ------ *)
Theorem response_linear_and_energy_concrete :
  (forall self dir pol fr a b x y,
     well_formed x -> sg_times y = sg_times x -> sg_type y = sg_type x -> length (sg_values y) = length (sg_values x) ->
     Antenna_apply_response (sig_filter_of concrete_filter) self (sig_lincomb a b x y) dir pol fr
     = opt_lincomb a b (Antenna_apply_response (sig_filter_of concrete_filter) self x dir pol fr)
                       (Antenna_apply_response (sig_filter_of concrete_filter) self y dir pol fr)) /\
  (forall self dir pol fr a b x y,
     well_formed x -> sg_times y = sg_times x -> sg_type y = sg_type x -> length (sg_values y) = length (sg_values x) ->
     DipoleAntenna_apply_response (sig_filter_of concrete_filter) self (sig_lincomb a b x y) dir pol fr
     = opt_lincomb a b (DipoleAntenna_apply_response (sig_filter_of concrete_filter) self x dir pol fr)
                       (DipoleAntenna_apply_response (sig_filter_of concrete_filter) self y dir pol fr)) /\
  (forall pos z x eff fc bw eh s dir pol fr o,
     0 < fc - bw / 2 -> 0 < bw -> well_formed s ->
     DipoleAntenna_apply_response (sig_filter_of concrete_filter) (dipole_of_params pos z x eff fc bw eh) s dir pol fr = Some o ->
     exists k, sg_values o = map (Rmult k) (concrete_filter (sg_times s) (sg_values s)
                  (fun f => DipoleAntenna_frequency_response (dipole_of_params pos z x eff fc bw eh) f) fr)
               /\ energy (sg_values o) <= k * k * energy (sg_values s)).
Proof. exact response_linear_and_energy_concrete_stmt. Qed.
Print Assumptions response_linear_and_energy_concrete.
