"""Shared machinery of the C11 / C12 checks (HDF5 writer / readers / FileGenerator).

A *case* is JSON: {"files": [filecase, ...], "queries": [...]}
  filecase = {"det": d, "opts": {...}, "sessions": [[add, ...], ...]}
  add      = {"parts": [tag...], "trig": T, "waves": [[tag...] per antenna],
              "rays": None | [[tag...] per entry], "pols": "ok"|"none"|"outer"|["inner", i]|["vec", i, j],
              "noise": [tag per antenna], "thrown": int, "fault": None|"meta"|"noise"|"wave"}
  T        = None | true | false | "bad" | {"g": null|true|false, "x": [[name, bool | [bool...]], ...]}
Tags are integers >= 1 embedded in the stored data (particle energy, waveform values[0],
ray metadata 'tag', noise amplitude[0]); 0 stands for a zero-filled (missing) cell, so
every comparison is exact.

run_impl(case, scratch) drives the real pyrex.File writer / reader / FileGenerator on real
h5py files; model_expr(case) is the Coq term evaluating the executable model
(coq/Model/IOModel.v) on the same case; both sides are brought to one canonical
nested-list form and compared for equality.
"""
import json
import os
import re
import shutil
import traceback

import numpy as np

OKEYS = ["particles", "triggers", "antenna_triggers", "waveforms", "rays", "noise"]
OKEY_COQ = {"particles": "OP", "triggers": "OT", "antenna_triggers": "OA",
            "waveforms": "OW", "rays": "OR", "noise": "ON"}
TABLES = ["P", "T", "M", "R", "N", "W"]          # order of every per-table tuple
LOC = {"P": "/monte_carlo_data/particles", "T": "/data/triggers", "M": "/monte_carlo_data/triggers",
       "R": "/monte_carlo_data/rays", "N": "/monte_carlo_data/noise", "W": "/data/waveforms"}
LOC_INV = {v: k for k, v in LOC.items()}
CKEY = {"P": "particles_meta", "T": "triggers", "M": "mc_triggers", "R": "rays_meta", "N": "noise", "W": "waveforms"}
RKEY = {"P": "particles_meta", "T": "triggers", "M": "mc_triggers", "R": "rays_meta", "N": "noise", "W": "waveforms"}
CUSTOM = ["k0", "k1", "k2"]
HASH_P = (1 << 61) - 1
HASH_B = 1000003


def name_bit(name):
    if name.startswith("antenna_"):
        return int(name.split("_")[1])
    return 4 + CUSTOM.index(name)


# --------------------------------------------------------------------------- stubs
def _pyrex():
    import pyrex
    import pyrex.io
    import pyrex.generation
    return pyrex


class _Noise:
    def __init__(self, tag):
        n = 1 + tag % 3
        self.freqs = np.arange(n, dtype=float) + 1.0
        self.amps = np.array([float(tag)] + [0.5] * (n - 1))
        self.phases = np.arange(n, dtype=float) * 0.25


class _BadWave:
    """A waveform object lacking .values (malformed detector state)."""
    times = np.array([0.0, 1.0])


def make_antenna_class():
    pyrex = _pyrex()

    class StubAntenna(pyrex.Antenna):
        """Real pyrex.Antenna (real _metadata) with scripted waveforms / trigger / noise."""
        def __init__(self, i):
            super().__init__(position=(float(i), 2.0 * i, -100.0 - i), noisy=False)
            self._waves = []

        @property
        def all_waveforms(self):
            return self._waves

        def trigger(self, signal):
            return bool(int(signal.values[0]) % 2 == 1)
    return StubAntenna


def wave_signal(tag):
    pyrex = _pyrex()
    n = 2 + tag % 3
    return pyrex.Signal(np.arange(n, dtype=float), np.array([float(tag)] + [0.25 * k for k in range(1, n)]))


class _Ray:
    def __init__(self, tag):
        self.tag = tag

    @property
    def _metadata(self):
        return {"tag": float(self.tag), "name": "ray%d" % self.tag, "tof": 0.5 * self.tag, "path_length": 3.0 * self.tag}


DIRS = [(1, 0, 0), (0, 1, 0), (0, 0, 1), (-1, 0, 0), (0, -1, 0), (0, 0, -1)]
PIDS = [12, -12, 14, -14, 16, -16]


def make_particle(tag, bad_meta=False):
    pyrex = _pyrex()
    state = np.random.get_state()
    np.random.seed(tag)
    try:
        p = pyrex.Particle(particle_id=PIDS[tag % 6], vertex=(float(tag), 2.0 * tag, -float(tag) - 0.5),
                           direction=DIRS[tag % 6], energy=float(tag),
                           interaction_type=("cc" if tag % 2 else "nc"))
    finally:
        np.random.set_state(state)
    p.survival_weight = 1.0 / (1 + tag % 4)
    p.interaction_weight = 0.5 + (tag % 3)
    if bad_meta:
        p.energy = [[1.0, 2.0]]      # neither string nor scalar: _write_metadata raises ValueError
    return p


def trig_arg(t):
    if t is None or isinstance(t, bool):
        return t
    if t == "bad":
        return 1
    d = {}
    if t.get("g") is not None:
        d["global"] = bool(t["g"])
    for name, val in t.get("x", []):
        d[name] = bool(val) if isinstance(val, bool) else [bool(v) for v in val]
    return d


def build_add(add, det):
    """Python arguments of HDF5Writer.add for one add spec; sets the detector's waveforms/noise."""
    pyrex = _pyrex()
    fault = add.get("fault")
    parts = [make_particle(t, bad_meta=(fault == "meta" and k == len(add["parts"]) - 1))
             for k, t in enumerate(add["parts"])]
    event = pyrex.Event(parts)
    for i, ant in enumerate(det):
        ant._waves = [wave_signal(t) for t in add["waves"][i]]
        tag = add["noise"][i]
        ant._noise_master = _Noise(tag) if tag else None
    if fault == "wave":
        det[-1]._waves = list(det[-1]._waves) + [_BadWave()]
    if fault == "noise":
        del det[-1]._noise_master
    kwargs = {"triggered": trig_arg(add["trig"]), "events_thrown": add.get("thrown", 1)}
    rays = add.get("rays")
    pols = add.get("pols", "ok")
    if rays is not None:
        kwargs["ray_paths"] = [[_Ray(t) for t in lst] for lst in rays]
        if pols != "none":
            P = [[np.array([float(t), 0.5 * t, -float(t)]) for t in lst] for lst in rays]
            if pols == "outer":
                P = P + [[]]
            elif isinstance(pols, list) and pols[0] == "inner":
                i = pols[1]
                if 0 <= i < len(P):
                    P[i] = P[i] + [np.array([1.0, 1.0, 1.0])]
            elif isinstance(pols, list) and pols[0] == "vec":
                i, j = pols[1], pols[2]
                if 0 <= i < len(P) and 0 <= j < len(P[i]):
                    P[i][j] = P[i][j][:2]
            kwargs["polarizations"] = P
    return event, kwargs, parts


def restore_detector(det):
    for ant in det:
        if not hasattr(ant, "_noise_master"):
            ant._noise_master = None


def writer_kwargs(opts):
    kw = {"write_" + k: bool(opts["write_" + k]) for k in OKEYS}
    kw["require_trigger"] = opts["require_trigger"]
    return kw


def write_file(fc, path):
    """Run the add sessions of one filecase on the real writer.
    Returns {"outcomes": [...], "counters": [per session end], "ctor": None|exc name}."""
    pyrex = _pyrex()
    Stub = make_antenna_class()
    det = [Stub(i) for i in range(fc["det"])]
    outcomes, counters = [], []
    if os.path.exists(path):
        os.remove(path)
    for s, session in enumerate(fc["sessions"]):
        try:
            w = pyrex.File(path, "a" if s else "w", **writer_kwargs(fc["opts"]))
        except Exception as e:
            return {"ctor": type(e).__name__, "outcomes": [], "counters": []}
        w.open()
        try:
            if not fc.get("nodet"):
                w.set_detector(det)
            for add in session:
                event, kwargs, _ = build_add(add, det)
                try:
                    w.add(event, **kwargs)
                    outcomes.append("ok")
                except Exception as e:
                    outcomes.append(type(e).__name__)
                restore_detector(det)
            counters.append([int(w._counters[CKEY[t]]) for t in TABLES] + [int(w._counters["indices"])])
        finally:
            w.close()
    return {"ctor": None, "outcomes": outcomes, "counters": counters}


# ------------------------------------------------------------------- raw file view
def raw_view(path):
    """Index table, column order, rows per table, total_thrown read with bare h5py."""
    import h5py
    out = {}
    with h5py.File(path, "r") as f:
        idx = f["/event_indices"]
        keys = [k if isinstance(k, str) else k.decode() for k in idx.attrs["keys"]]
        out["cols"] = [LOC_INV.get(k, k) for k in keys]
        arr = idx[...] if idx.shape[0] and idx.shape[1] else np.zeros((idx.shape[0], idx.shape[1], 2), dtype=int)
        rows = []
        for r in range(idx.shape[0]):
            row = []
            for t in TABLES:
                if t in out["cols"]:
                    c = out["cols"].index(t)
                    row.append([int(arr[r, c, 0]), int(arr[r, c, 1])])
                else:
                    row.append([0, 0])
            rows.append(row)
        out["index"] = rows
        shapes, exists = [], []
        for t in TABLES:
            loc = LOC[t]
            if loc in f:
                exists.append(True)
                ds = f[loc]["float"] if t in ("P", "R") else f[loc]
                ds2 = f[loc]["str"] if t in ("P", "R") else f[loc]
                shapes.append(max(int(ds.shape[0]), int(ds2.shape[0])))
            else:
                exists.append(False)
                shapes.append(0)
        out["nrows"] = shapes
        out["exists"] = exists
        thrown = 0
        if LOC["P"] in f and "total_thrown" in f[LOC["P"]].attrs:
            thrown = int(f[LOC["P"]].attrs["total_thrown"])
        out["thrown"] = thrown
    return out


# ------------------------------------------------------------------ event observation
def _na(e):
    return isinstance(e, ValueError) and "not saved" in str(e)


def _vl_tag(a):
    a = np.asarray(a)
    return int(a[0]) if a.size else 0


def observe_event(ev, reg=None, deep=True):
    """Canonical observation of one event through the public accessors:
    list over TABLES of "NA" | "CRASH:<exc>" | list of rows (each a list of ints).
    With deep=True every other accessor / field is cross-checked against the registry of
    what was handed to the writer; an inconsistency yields a "BAD:..." entry."""
    out = []
    # P
    try:
        info = ev.get_particle_info()
        rows = [[int(p["energy"])] for p in info]
        if deep:
            bad = _check_particles(ev, info, rows, reg)
            if bad:
                rows = "BAD:" + bad
        out.append(rows)
    except Exception as e:
        out.append("NA" if _na(e) else "CRASH:" + type(e).__name__)
    # T
    try:
        t = ev.triggered
        out.append([] if t is None else [[int(bool(t))]])
    except Exception as e:
        out.append("NA" if _na(e) else "CRASH:" + type(e).__name__)
    # M
    try:
        if not ev._bool_dict["mc_triggers"]:
            raise ValueError("Monte Carlo trigger data was not saved in this file")
        data = ev.get_data("mc_triggers")
        keys = ev._keys["mc_triggers"]
        rows = []
        for r in range(len(data)):
            rows.append([sum(1 << name_bit(k) for k, c in keys.items() if data[r][c])])
        if deep:
            allnames = sorted(ev.get_triggered_components())
            want = sorted(k for k, c in keys.items() if any(data[r][c] for r in range(len(data))))
            if allnames != want:
                rows = "BAD:get_triggered_components()=%s rows say %s" % (allnames, want)
            else:
                for r in range(len(data) + 1):
                    got = sorted(ev.get_triggered_components(ray=r))
                    want = sorted(k for k, c in keys.items() if r < len(data) and data[r][c])
                    if got != want:
                        rows = "BAD:get_triggered_components(ray=%d)=%s row says %s" % (r, got, want)
                        break
        out.append(rows)
    except Exception as e:
        out.append("NA" if _na(e) else "CRASH:" + type(e).__name__)
    # R
    try:
        info = ev.get_rays_info()
        rows = []
        bad = ""
        for r, per_ant in enumerate(info):
            row = []
            for a, d in enumerate(per_ant):
                tag = int(d["tag"])
                row.append(tag)
                if deep:
                    want_name = ("ray%d" % tag) if tag else ""
                    if (d["name"] != want_name or d["tof"] != 0.5 * tag or d["path_length"] != 3.0 * tag or
                            d["polarization_x"] != float(tag) or d["polarization_y"] != 0.5 * tag or
                            d["polarization_z"] != -float(tag)):
                        bad = "ray %d antenna %d fields inconsistent with tag %d: %r" % (r, a, tag, d)
            rows.append(row)
        if deep and not bad and len(info):
            pol = ev.get_rays_info("polarization")
            tg = ev.get_rays_info("tag")
            nm = ev.get_rays_info("name")
            for r, row in enumerate(rows):
                for a, tag in enumerate(row):
                    if (int(tg[r][a]) != tag or list(pol[r][a]) != [float(tag), 0.5 * tag, -float(tag)]
                            or nm[r][a] != (("ray%d" % tag) if tag else "")):
                        bad = "get_rays_info(attribute) differs from dict form at ray %d antenna %d" % (r, a)
        out.append("BAD:" + bad if bad else rows)
    except Exception as e:
        out.append("NA" if _na(e) else "CRASH:" + type(e).__name__)
    # N
    try:
        nb = ev.noise_bases
        if len(nb) == 0:
            out.append([])
        else:
            row, bad = [], ""
            for a in range(len(nb)):
                tag = _vl_tag(nb[a][1])
                row.append(tag)
                if deep:
                    ref = _Noise(tag) if tag else None
                    ok = (all(len(nb[a][k]) == 0 for k in range(3)) if ref is None else
                          (np.array_equal(nb[a][0], ref.freqs) and np.array_equal(nb[a][1], ref.amps)
                           and np.array_equal(nb[a][2], ref.phases)))
                    if not ok:
                        bad = "noise basis of antenna %d inconsistent with tag %d" % (a, tag)
            out.append("BAD:" + bad if bad else [row])
    except Exception as e:
        out.append("NA" if _na(e) else "CRASH:" + type(e).__name__)
    # W
    try:
        wf = ev.get_waveforms()
        rows, bad = [], ""
        for r in range(len(wf)):
            row = []
            for a in range(len(wf[r])):
                tag = _vl_tag(wf[r][a][1])
                row.append(tag)
                if deep:
                    if tag:
                        ref = wave_signal(tag)
                        ok = np.array_equal(wf[r][a][0], ref.times) and np.array_equal(wf[r][a][1], ref.values)
                    else:
                        ok = len(wf[r][a][0]) == 0 and len(wf[r][a][1]) == 0
                    if not ok:
                        bad = "waveform %d antenna %d inconsistent with tag %d" % (r, a, tag)
            rows.append(row)
        if deep and not bad:
            for r in range(len(wf)):
                one = ev.get_waveforms(waveform_type=r)
                if [_vl_tag(one[a][1]) for a in range(len(one))] != rows[r]:
                    bad = "get_waveforms(waveform_type=%d) differs" % r
            for a in range(len(wf[0]) if len(wf) else 0):
                col = ev.get_waveforms(antenna_id=a)
                if [_vl_tag(col[r][1]) for r in range(len(col))] != [row[a] for row in rows]:
                    bad = "get_waveforms(antenna_id=%d) differs" % a
        out.append("BAD:" + bad if bad else rows)
    except Exception as e:
        out.append("NA" if _na(e) else "CRASH:" + type(e).__name__)
    return out


def _check_particles(ev, info, rows, reg):
    for k, p in enumerate(info):
        tag = rows[k][0]
        ref = make_particle(tag)._metadata if tag >= 1 else None
        if ref is None:
            return "particle %d has tag %d" % (k, tag)
        for key, val in ref.items():
            if key not in p:
                return "particle key %s missing" % key
            got = p[key]
            if isinstance(val, str):
                if got != val:
                    return "particle tag %d key %s: %r != %r" % (tag, key, got, val)
            elif float(got) != float(val):
                return "particle tag %d key %s: %r != %r" % (tag, key, got, val)
    if len(info):
        en = ev.get_particle_info("energy")
        vx = ev.get_particle_info("vertex")
        dr = ev.get_particle_info("direction")
        nm = ev.get_particle_info("particle_name")
        ii = ev.get_particle_info("interaction_info")
        for k, p in enumerate(info):
            if (float(en[k]) != p["energy"] or list(vx[k]) != [p["vertex_x"], p["vertex_y"], p["vertex_z"]] or
                    list(dr[k]) != [p["direction_x"], p["direction_y"], p["direction_z"]] or
                    nm[k] != p["particle_name"] or ii["interaction_kind"][k] != p["interaction_kind"]
                    or ii["interaction_name"][k] != p["interaction_name"]):
                return "attribute accessors differ from dict form for particle %d" % k
        first = info[0]["particle_name"]
        if ev.is_neutrino != ("neutrino" in first):
            return "is_neutrino"
        if ev.flavor != (first.split("_")[0] if "neutrino" in first else ""):
            return "flavor"
        if ev.is_nubar != (info[0]["particle_id"] < 0):
            return "is_nubar"
    return ""


def observe_light(ev):
    """Cheap observation (raw per-event chunk data) used for the access-path sweeps."""
    return observe_event(ev, deep=False)


def flatten_obs(obs):
    out = []
    for t in obs:
        if t == "NA":
            out.append(-1)
        elif isinstance(t, str):
            out.append(-2)
        else:
            out.append(len(t))
            for row in t:
                out.append(len(row))
                out.extend(row)
    return out


def fp_obs(obs):
    h = 0
    for x in flatten_obs(obs):
        h = (h * HASH_B + x + 7) % HASH_P
    return h


# ------------------------------------------------------------------------- queries
def run_query(q, paths, deep=False):
    """Run one reader query on the implementation.  Returns ["ok", [fingerprints...]] or
    ["err", ExcName] (for gen: ["ok", [[tags...], count] ...] then the stop marker)."""
    pyrex = _pyrex()
    kind = q[0]
    try:
        if kind == "gen":
            _, k, fids = q
            g = pyrex.generation.FileGenerator([paths[i] for i in fids], slice_range=k)
            res = []
            try:
                for _ in range(10000):
                    try:
                        ev = g.create_event()
                    except StopIteration:
                        res.append("stop")
                        break
                    parts = []
                    for p in ev:
                        tag = int(p.energy)
                        ref = make_particle(tag)
                        ok = (p.id == ref.id and list(p.vertex) == list(ref.vertex) and
                              list(p.direction) == list(ref.direction) and p.energy == ref.energy and
                              p.interaction.kind == ref.interaction.kind and
                              p.interaction.inelasticity == ref.interaction.inelasticity and
                              p.interaction.em_frac == ref.interaction.em_frac and
                              p.interaction.had_frac == ref.interaction.had_frac and
                              p.survival_weight == ref.survival_weight and
                              p.interaction_weight == ref.interaction_weight and p.weight == ref.weight)
                        parts.append(tag if ok else -tag)
                    res.append([parts, int(g.count)])
            finally:
                try:
                    g._file.close()
                except Exception:
                    pass
            return ["ok", res]
        fid = q[1]
        k = q[2]
        kw = {} if k is None else {"slice_range": k}
        with pyrex.File(paths[fid], "r", **kw) as f:
            if kind == "len":
                return ["ok", [len(f)]]
            if kind == "iter":
                return ["ok", [fp_obs(observe_event(ev, deep=deep)) for ev in f]]
            if kind == "int":
                return ["ok", [fp_obs(observe_event(f[q[3]], deep=deep))]]
            if kind == "slice":
                a, b, s = q[3], q[4], q[5]
                return ["ok", [fp_obs(observe_event(ev, deep=deep)) for ev in f[slice(a, b, s)]]]
        raise ValueError("unknown query %r" % (q,))
    except Exception as e:
        return ["err", type(e).__name__]


# ------------------------------------------------------------------- implementation
def run_impl(case, scratch, tag="c"):
    """Everything the correspondence compares, from the implementation."""
    d = os.path.join(scratch, "files_%s" % tag)
    os.makedirs(d, exist_ok=True)
    paths, files = [], []
    for i, fc in enumerate(case["files"]):
        path = os.path.join(d, "f%d.h5" % i)
        paths.append(path)
        w = write_file(fc, path)
        rec = {"ctor": w["ctor"], "outcomes": w["outcomes"], "counters": w["counters"]}
        if w["ctor"] is None:
            rec.update(raw_view(path))
            rec["events"] = read_all(path)
        files.append(rec)
    queries = [run_query(q, paths) for q in case.get("queries", [])]
    shutil.rmtree(d, ignore_errors=True)
    return {"files": files, "queries": queries}


def read_all(path):
    """Sequential pass with the default slice_range, full (deep) observation."""
    pyrex = _pyrex()
    try:
        with pyrex.File(path, "r") as f:
            n = len(f)
            if n == 0:
                return ["ok", 0, []]
            evs = [observe_event(ev, deep=True) for ev in f]
            return ["ok", n, evs]
    except Exception as e:
        return ["err", type(e).__name__, traceback.format_exc()[-600:]]


# --------------------------------------------------------------------- Coq literals
def zl(x):
    return str(x) if x >= 0 else "(%d)" % x


def zlist(xs):
    return "[" + "; ".join(zl(x) for x in xs) + "]"


def blist(xs):
    return "[" + "; ".join("true" if x else "false" for x in xs) + "]"


def coq_bool(b):
    return "true" if b else "false"


def coq_trig(t):
    if t is None:
        return "TNone"
    if isinstance(t, bool):
        return "(TBool %s)" % coq_bool(t)
    if t == "bad":
        return "TBad"
    g = t.get("g")
    gs = "None" if g is None else "(Some %s)" % coq_bool(g)
    xs = []
    for name, val in t.get("x", []):
        if isinstance(val, bool):
            xs.append("(%d, XBool %s)" % (name_bit(name), coq_bool(val)))
        else:
            xs.append("(%d, XList %s)" % (name_bit(name), blist(val)))
    return "(TDict %s [%s])" % (gs, "; ".join(xs))


def coq_pols(p):
    if p == "ok":
        return "PolOk"
    if p == "none":
        return "PolNone"
    if p == "outer":
        return "PolOuter"
    if p[0] == "inner":
        return "(PolInner %d)" % p[1]
    return "(PolVec %d %d)" % (p[1], p[2])


def coq_add(a):
    rays = a.get("rays")
    rs = "None" if rays is None else "(Some [%s])" % "; ".join(zlist(l) for l in rays)
    fault = {None: "FNone", "meta": "FMeta", "noise": "FNoise", "wave": "FWave"}[a.get("fault")]
    return "(mkAdd %s %s [%s] %s %s %s %s %s)" % (
        zlist(a["parts"]), coq_trig(a["trig"]), "; ".join(zlist(l) for l in a["waves"]), rs,
        coq_pols(a.get("pols", "ok")), zlist(a["noise"]), zl(a.get("thrown", 1)), fault)


def coq_opts(o):
    r = o["require_trigger"]
    if isinstance(r, bool):
        rs = "(RBool %s)" % coq_bool(r)
    else:
        if isinstance(r, str):
            r = [r]
        rs = "(RList [%s])" % "; ".join(OKEY_COQ[k] for k in r if k != "")
    return "(mkOpts %s %s %s %s %s %s %s)" % tuple(
        [coq_bool(o["write_" + k]) for k in ["particles", "triggers", "antenna_triggers", "rays", "noise", "waveforms"]] + [rs])


def coq_file(fc):
    ops = []
    for s, session in enumerate(fc["sessions"]):
        if s:
            ops.append("Reopen")
        ops.extend("Add " + coq_add(a) for a in session)
    return "(mkFile %d %s %s [%s])" % (fc["det"], coq_bool(not fc.get("nodet")), coq_opts(fc["opts"]), "; ".join(ops))


def coq_oz(x):
    return "None" if x is None else "(Some %s)" % zl(x)


def coq_query(q):
    kind = q[0]
    if kind == "gen":
        return "(QGen %s %s)" % (zl(q[1]), zlist(q[2]))
    fid, k = q[1], q[2]
    if kind == "len":
        return "(QLen %d)" % fid
    if kind == "iter":
        return "(QIter %d %s)" % (fid, coq_oz(k))
    if kind == "int":
        return "(QInt %d %s %s)" % (fid, coq_oz(k), zl(q[3]))
    if kind == "slice":
        return "(QSlice %d %s %s %s %s)" % (fid, coq_oz(k), coq_oz(q[3]), coq_oz(q[4]), coq_oz(q[5]))
    raise ValueError(q)


def model_expr(case):
    return "run_case [%s] [%s]" % ("; ".join(coq_file(f) for f in case["files"]),
                                   "; ".join(coq_query(q) for q in case.get("queries", [])))


COQ_IMPORTS = ("From Coq Require Import List ZArith Bool.\nFrom PyrexModel Require Import IOModel.\n"
               "Import ListNotations.\nOpen Scope Z_scope.\n")


# ---------------------------------------------------------- canonical comparison
EXC_CODE = {"ValueError": 1, "TypeError": 2, "IndexError": 3, "AttributeError": 4, "KeyError": 5, "StopIteration": 6}


def canon_impl(res):
    """Implementation result -> the nested python structure mirroring the model's output."""
    files = []
    for f in res["files"]:
        if f["ctor"] is not None:
            files.append(("ctor", EXC_CODE.get(f["ctor"], 99)))
            continue
        evs = f["events"]
        if evs[0] == "ok":
            events = ("ok", evs[1], [[_canon_tobs(t) for t in ev] for ev in evs[2]])
        else:
            events = ("err", EXC_CODE.get(evs[1], 99))
        files.append(("file", [0 if o == "ok" else EXC_CODE.get(o, 99) for o in f["outcomes"]],
                      f["counters"], [TABLES.index(c) if c in TABLES else 99 for c in f["cols"]],
                      f["index"], f["nrows"], f["exists"], f["thrown"], events))
    qs = []
    for q in res["queries"]:
        if q[0] == "err":
            qs.append(("err", EXC_CODE.get(q[1], 99)))
        else:
            qs.append(("ok", q[1]))
    return files, qs


def _canon_tobs(t):
    if t == "NA":
        return "NA"
    if isinstance(t, str):
        return t
    return t


def _tok(s):
    return re.findall(r"[A-Za-z_][A-Za-z_0-9]*|-?\d+|[\[\]();,]", s)


def parse_coq(s):
    """Parse a printed Coq value (lists, tuples, constructor applications, ints, bools)
    into nested python lists; constructor applications become [name, args...]."""
    toks = _tok(s)
    pos = [0]

    def atom():
        t = toks[pos[0]]
        if t == "[":
            pos[0] += 1
            items = []
            if toks[pos[0]] == "]":
                pos[0] += 1
                return items
            while True:
                items.append(expr())
                if toks[pos[0]] == ";":
                    pos[0] += 1
                    continue
                assert toks[pos[0]] == "]", toks[pos[0]:pos[0] + 5]
                pos[0] += 1
                return items
        if t == "(":
            pos[0] += 1
            items = [expr()]
            while toks[pos[0]] == ",":
                pos[0] += 1
                items.append(expr())
            assert toks[pos[0]] == ")", toks[pos[0]:pos[0] + 5]
            pos[0] += 1
            return items[0] if len(items) == 1 else ("tuple", items)
        pos[0] += 1
        if re.match(r"-?\d+$", t):
            return int(t)
        if t == "true":
            return True
        if t == "false":
            return False
        return ("con", t)

    def expr():
        head = atom()
        if isinstance(head, tuple) and head[0] == "con":
            args = []
            while pos[0] < len(toks) and toks[pos[0]] not in ("]", ")", ";", ","):
                args.append(atom())
            return [head[1]] + args
        return head

    v = expr()
    assert pos[0] == len(toks), "trailing tokens: %r" % toks[pos[0]:pos[0] + 8]
    return v


def _flat_tuple(v):
    """Coq prints (a, b, c) for ((a, b), c): our parser already yields one flat tuple."""
    return list(v[1]) if isinstance(v, tuple) and v[0] == "tuple" else [v]


def canon_model(s):
    """Printed value of run_case -> same structure as canon_impl."""
    v = parse_coq(s)
    fs, qs = _flat_tuple(v)
    files = []
    for f in fs:
        if f[0] == "RCtor":
            files.append(("ctor", f[1]))
            continue
        assert f[0] == "RFile", f[0]
        _, outcomes, counters, cols, index, nrows, exists, thrown, events = f
        if events[0] == "EvOk":
            evs = ("ok", events[1], [[_model_tobs(t) for t in _flat_tuple(ev)] for ev in events[2]])
        else:
            evs = ("err", events[1])
        files.append(("file", outcomes, [list(_flat_tuple(c)) if isinstance(c, tuple) else c for c in counters],
                      cols, [[list(_flat_tuple(p)) for p in row] for row in index], nrows, exists, thrown, evs))
    out_q = []
    for q in qs:
        if q[0] == "QErr":
            out_q.append(("err", q[1]))
        elif q[0] == "QOk":
            out_q.append(("ok", q[1]))
        elif q[0] == "QGenOk":
            items = [[list(_flat_tuple(e))[0], list(_flat_tuple(e))[1]] for e in q[1]]
            out_q.append(("ok", items + (["stop"] if q[2] else [])))
        else:
            raise ValueError(q[0])
    return files, out_q


def _model_tobs(t):
    if t[0] == "NA":
        return "NA"
    if t[0] == "Crash":
        return "CRASH"
    return t[1]


def diff(a, b, path=""):
    """First difference between two nested structures, as a short string ('' if equal)."""
    if isinstance(a, str) and isinstance(b, str) and a.startswith("CRASH") and b.startswith("CRASH"):
        return ""
    if isinstance(a, (list, tuple)) and isinstance(b, (list, tuple)):
        if len(a) != len(b):
            return "%s: length %d (impl) vs %d (model): %s | %s" % (path, len(a), len(b), json.dumps(a, default=str)[:300], json.dumps(b, default=str)[:300])
        for i, (x, y) in enumerate(zip(a, b)):
            d = diff(x, y, "%s[%d]" % (path, i))
            if d:
                return d
        return ""
    if isinstance(a, bool) or isinstance(b, bool):
        return "" if bool(a) == bool(b) and type(a) == type(b) else "%s: %r (impl) vs %r (model)" % (path, a, b)
    if a != b:
        return "%s: %r (impl) vs %r (model)" % (path, a, b)
    return ""
