From Coq Require Import String List Bool.
From PyrexLib Require Import Namespace CompatTable.
From PyrexGen Require Import Gen_refs.
Import ListNotations.

(* finite domain, enumerated completely: every reference collected from the package
   source resolves in the namespace of the installed libraries *)
Lemma all_refs_resolve_lemma : forallb (resolve env) refs = true.
Proof. vm_compute. reflexivity. Qed.

Lemma all_refs_Resolve_lemma : Forall (Resolves env) refs.
Proof.
  apply Forall_forall. intros c Hc. apply resolve_sound.
  pose proof all_refs_resolve_lemma as H. rewrite forallb_forall in H. apply H. exact Hc.
Qed.

Lemma no_undeclared_imports_lemma : undeclared_imports = [].
Proof. vm_compute. reflexivity. Qed.

Lemma refs_counted_lemma : length refs = n_refs.
Proof. vm_compute. reflexivity. Qed.

Lemma no_restricted_refs_lemma : forallb unrestricted refs = true.
Proof. vm_compute. reflexivity. Qed.

Lemma no_removed_methods_lemma : forallb method_ok method_names = true.
Proof. vm_compute. reflexivity. Qed.

Lemma all_dirs_packaged_lemma : unpackaged_dirs = [].
Proof. vm_compute. reflexivity. Qed.
