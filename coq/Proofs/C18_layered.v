(* C18, layered ice: enumeration of level sequences, Snell / mirror law at the junctions, chain
   continuity, unit transmission and unchanged angle at an equal-index boundary. *)
From Coq Require Import Reals List Bool ZArith Lra Lia Psatz.
From PyrexLib Require Import RealPrims ListR.
From PyrexGen Require Import Gen_layered.
From PyrexModel Require Import LayeredPath.
Import ListNotations.

(* ------------------------------------------------------------------ _build_path enumerates the walks *)
Section Walks.
  Variable M : Z.               (* max_level *)
  Hypothesis HM : (0 <= M)%Z.

  (* complete walks from a state: a level sequence that moves one level in the current direction
     or turns (repeats the level, reverses, spends one reflection), turns at the outermost level
     while reflections remain, and ends at the outermost level with none left *)
  Inductive cwalk : Z -> Z -> nat -> list Z -> Prop :=
  | cw_end level d : at_end level d M = true -> cwalk level d O []
  | cw_bounce level d r s : at_end level d M = true -> cwalk level (- d) r s -> cwalk level d (S r) (level :: s)
  | cw_move level d r s : at_end level d M = false -> cwalk (level + d) d r s -> cwalk level d r ((level + d) :: s)%Z
  | cw_turn level d r s : at_end level d M = false -> cwalk level (- d) r s -> cwalk level d (S r) (level :: s).

  Definition dist (level d : Z) : nat := if (d =? 1)%Z then Z.to_nat (M - level) else Z.to_nat level.
  Definition valid (level d : Z) : Prop := (0 <= level <= M)%Z /\ (d = 1 \/ d = -1)%Z.

  Lemma at_end_dist level d : valid level d -> (at_end level d M = true <-> dist level d = O).
  Proof.
    intros [Hl [-> | ->]]; unfold at_end, dist; simpl.
    - rewrite andb_false_r, orb_false_l, andb_true_r. rewrite Z.eqb_eq. lia.
    - rewrite andb_false_r, orb_false_r, andb_true_r. rewrite Z.eqb_eq. lia.
  Qed.

  Lemma valid_move level d : valid level d -> at_end level d M = false ->
    valid (level + d) d /\ S (dist (level + d) d) = dist level d.
  Proof.
    intros Hv He. pose proof (at_end_dist level d Hv) as H.
    assert (dist level d <> O) by (intros E; apply H in E; congruence).
    destruct Hv as [Hl [-> | ->]]; unfold valid, dist in *; simpl in *; split; try lia.
  Qed.

  Lemma valid_turn level d : valid level d -> valid level (- d) /\ (dist level (- d) <= Z.to_nat M)%nat.
  Proof. intros [Hl [-> | ->]]; unfold valid, dist; simpl; split; lia. Qed.

  Theorem build_path_spec fuel : forall path level d refl q,
    valid level d ->
    (dist level d + 1 + need_refl (Z.to_nat M) refl <= fuel)%nat ->
    (In q (build_path fuel path level d refl M) <-> exists s, q = path ++ s /\ cwalk level d refl s).
  Proof.
    induction fuel; intros path level d refl q Hv Hf; [lia|].
    simpl build_path.
    destruct (at_end level d M) eqn:He.
    - destruct refl as [|r].
      + simpl. split.
        * intros [<-|[]]. exists []. rewrite app_nil_r. split; [reflexivity|constructor; assumption].
        * intros (s & -> & Hw). inversion Hw; subst; try congruence. left. rewrite app_nil_r. reflexivity.
      + destruct (valid_turn level d Hv) as [Hv' Hd'].
        rewrite IHfuel by (try assumption; simpl in Hf; lia).
        split.
        * intros (s & -> & Hw). exists (level :: s). rewrite <- app_assoc. split; [reflexivity|]. apply cw_bounce; assumption.
        * intros (s & -> & Hw). inversion Hw; subst; try congruence.
          eexists. rewrite <- app_assoc. split; [reflexivity|assumption].
    - destruct (valid_move level d Hv He) as [Hv1 Hd1].
      destruct refl as [|r].
      + rewrite IHfuel by (try assumption; simpl in *; lia).
        split.
        * intros (s & -> & Hw). exists ((level + d)%Z :: s). rewrite <- app_assoc. split; [reflexivity|]. apply cw_move; assumption.
        * intros (s & -> & Hw). inversion Hw; subst; try congruence.
          eexists. rewrite <- app_assoc. split; [reflexivity|assumption].
      + destruct (valid_turn level d Hv) as [Hv' Hd'].
        rewrite in_app_iff.
        rewrite (IHfuel (path ++ [(level + d)%Z])) by (try assumption; simpl in *; lia).
        rewrite (IHfuel (path ++ [level])) by (try assumption; simpl in *; lia).
        split.
        * intros [(s & -> & Hw)|(s & -> & Hw)].
          -- exists ((level + d)%Z :: s). rewrite <- app_assoc. split; [reflexivity|]. apply cw_move; assumption.
          -- exists (level :: s). rewrite <- app_assoc. split; [reflexivity|]. apply cw_turn; assumption.
        * intros (s & -> & Hw). inversion Hw; subst; try congruence.
          -- left. eexists. rewrite <- app_assoc. split; [reflexivity|assumption].
          -- right. eexists. rewrite <- app_assoc. split; [reflexivity|assumption].
  Qed.

  Lemma dist_le level d : valid level d -> (dist level d <= Z.to_nat M)%nat.
  Proof. intros [Hl [-> | ->]]; unfold dist; simpl; lia. Qed.

  (* the enumeration of LayeredRayTracer._build_path, as called by _potential_paths *)
  Theorem build_path_enumerates start d refl q : valid start d ->
    (In q (build_path_top start d refl M) <-> exists s, q = start :: s /\ cwalk start d refl s).
  Proof.
    intros Hv. unfold build_path_top, build_fuel.
    rewrite build_path_spec by (try assumption; pose proof (dist_le start d Hv); lia).
    reflexivity.
  Qed.

  (* more fuel never changes the result: the model's fuel is only a device for structural recursion *)
  Theorem build_path_fuel_irrelevant fuel1 fuel2 path level d refl : valid level d ->
    (dist level d + 1 + need_refl (Z.to_nat M) refl <= fuel1)%nat ->
    (dist level d + 1 + need_refl (Z.to_nat M) refl <= fuel2)%nat ->
    forall q, In q (build_path fuel1 path level d refl M) <-> In q (build_path fuel2 path level d refl M).
  Proof. intros Hv H1 H2 q. rewrite !build_path_spec by assumption. reflexivity. Qed.

  (* every enumerated sequence stays inside the stack, consecutive levels differ by at most one,
     and it contains exactly `refl` repeated levels (turns) *)
  Fixpoint turns (prev : Z) (s : list Z) : nat :=
    match s with [] => O | x :: s' => (if (x =? prev)%Z then 1 else 0) + turns x s' end.

  Lemma cwalk_shape level d refl s : valid level d -> cwalk level d refl s ->
    Forall (fun x => (0 <= x <= M)%Z) s /\ turns level s = refl.
  Proof.
    intros Hv Hw. induction Hw.
    - split; [constructor|reflexivity].
    - destruct (valid_turn level d Hv) as [Hv' _]. destruct (IHHw Hv') as [A B2].
      split; [constructor; [destruct Hv; lia|assumption]|]. simpl. rewrite Z.eqb_refl, B2. reflexivity.
    - destruct (valid_move level d Hv H) as [Hv1 _]. destruct (IHHw Hv1) as [A B2].
      split; [constructor; [destruct Hv1; lia|assumption]|]. simpl.
      assert ((level + d =? level)%Z = false) by (apply Z.eqb_neq; destruct Hv as [_ [-> | ->]]; lia).
      rewrite H0, B2. reflexivity.
    - destruct (valid_turn level d Hv) as [Hv' _]. destruct (IHHw Hv') as [A B2].
      split; [constructor; [destruct Hv; lia|assumption]|]. simpl. rewrite Z.eqb_refl, B2. reflexivity.
  Qed.
End Walks.

(* non-vacuity: three layers, start in the middle going down the indices (= up in the ice), one reflection *)
Example build_path_example :
  build_path_top 1 (-1) 1 2 = [[1; 0; 0; 1; 2]; [1; 1; 2]]%Z.
Proof. vm_compute. reflexivity. Qed.

Example potential_paths_example :
  potential_paths 1 2 (-1) 1 2 = [[1; 0; 0; 1; 2]; [1; 1; 2]]%Z.
Proof. vm_compute. reflexivity. Qed.

(* ------------------------------------------------------------------ chain of sub-paths *)
(* a list of segments in which each one starts where the previous one ended *)
Inductive chained {A} : A -> A -> list (A * A) -> Prop :=
| chained_one a b : chained a b [(a, b)]
| chained_cons a b e c : chained b e c -> chained a e ((a, b) :: c).

Lemma last_default_irrelevant {A} (l : list A) d1 d2 : l <> [] -> last l d1 = last l d2.
Proof.
  induction l as [|x l IH]; [contradiction|]. intros _.
  destruct l; [reflexivity|]. simpl in *. apply IH. discriminate.
Qed.

Lemma chain_continuous_lemma {A} (l : list A) : forall a, l <> [] -> chained a (last l a) (chain (a :: l)).
Proof.
  induction l as [|b l IH]; intros a Hne; [contradiction|].
  destruct l as [|b' l].
  - apply chained_one.
  - unfold chain in *. rewrite consecutive_cons.
    apply chained_cons.
    replace (last (b :: b' :: l) a) with (last (b' :: l) b).
    + apply IH. discriminate.
    + change (last (b :: b' :: l) a) with (last (b' :: l) a). apply last_default_irrelevant. discriminate.
Qed.

Open Scope R_scope.

(* ------------------------------------------------------------------ junctions of _trace_path *)
Section Junctions.
  Variable self : LTracer.

  Lemma asin_sin_up a : 0 <= a <= PI / 2 -> asin (sin a) = a.
  Proof. intros H. apply asin_sin. pose proof PI_RGT_0. lra. Qed.
  Lemma asin_sin_down a : PI / 2 <= a <= PI -> asin (sin a) = PI - a.
  Proof.
    intros H. replace (sin a) with (sin (PI - a)) by (rewrite sin_PI_x; reflexivity).
    apply asin_sin. pose proof PI_RGT_0. lra.
  Qed.

  Lemma sin_range a : 0 <= a <= PI -> 0 <= sin a <= 1.
  Proof. intros H. split; [apply sin_ge_0; lra|apply SIN_bound]. Qed.

  Lemma asin_range s : 0 <= s <= 1 -> 0 <= asin s <= PI / 2.
  Proof.
    intros H. pose proof (asin_bound s) as Hb. split; [|lra].
    destruct (Rle_lt_dec 0 (asin s)) as [|Hneg]; [assumption|exfalso].
    assert (sin (asin s) < 0) by (apply sin_lt_0_var; pose proof PI_RGT_0; lra).
    rewrite sin_asin in H0 by lra. lra.
  Qed.

  (* transmission: Snell's law, the ray keeps its vertical sense *)
  Theorem snell_at_transmission angle nh nn a' :
    0 <= angle <= PI -> 0 < nh -> 0 < nn ->
    next_angle self false angle (Transmit nh nn) = Some a' ->
    nn * sin a' = nh * sin angle /\
    (angle < PI / 2 -> 0 <= a' <= PI / 2) /\ (PI / 2 <= angle -> PI / 2 <= a' <= PI).
  Proof.
    intros Ha Hh Hn. unfold next_angle, LayeredRayTracer_trace_path__transmit_sin,
      LayeredRayTracer_trace_path__total_internal, LayeredRayTracer_trace_path__is_upward,
      LayeredRayTracer_trace_path__transmit_up, LayeredRayTracer_trace_path__transmit_down.
    set (s := sin angle * nh / nn).
    pose proof (sin_range angle Ha) as Hs.
    assert (Hs0 : 0 <= s).
    { unfold s. apply Rmult_le_pos; [apply Rmult_le_pos; lra|]. left. apply Rinv_0_lt_compat. assumption. }
    destruct (Rgtb s 1) eqn:E; [discriminate|]. apply Rgtb_false in E.
    pose proof (asin_range s (conj Hs0 E)) as Hr.
    assert (Hss : sin (asin s) = s) by (apply sin_asin; lra).
    destruct (Rltb angle (PI / 2)) eqn:E2; intros H; injection H as <-.
    - apply Rltb_true in E2. rewrite Hss. repeat split; try lra. unfold s. field. lra.
    - apply Rltb_false in E2. rewrite sin_PI_x, Hss. repeat split; try lra. unfold s. field. lra.
  Qed.

  (* reflection: same n sin(angle) at the boundary (mirror law for the angle the ray has THERE),
     the vertical sense is reversed *)
  Theorem mirror_at_reflection angle nh nb a' :
    0 <= angle <= PI -> 0 < nh -> 0 < nb -> sin angle * nh / nb <= 1 ->
    next_angle self false angle (Reflect nh nb) = Some a' ->
    nb * sin a' = nh * sin angle /\
    (angle < PI / 2 -> PI / 2 <= a' <= PI) /\ (PI / 2 <= angle -> 0 <= a' <= PI / 2).
  Proof.
    intros Ha Hh Hn Hle. unfold next_angle, LayeredRayTracer_trace_path__reflect_sin,
      LayeredRayTracer_trace_path__is_upward_refl,
      LayeredRayTracer_trace_path__reflect_from_up, LayeredRayTracer_trace_path__reflect_from_down.
    set (s := sin angle * nh / nb) in *.
    pose proof (sin_range angle Ha) as Hs.
    assert (Hs0 : 0 <= s).
    { unfold s. apply Rmult_le_pos; [apply Rmult_le_pos; lra|]. left. apply Rinv_0_lt_compat. assumption. }
    pose proof (asin_range s (conj Hs0 Hle)) as Hr.
    assert (Hss : sin (asin s) = s) by (apply sin_asin; lra).
    destruct (Rltb angle (PI / 2)) eqn:E2; intros H; injection H as <-.
    - apply Rltb_true in E2. rewrite sin_PI_x, Hss. repeat split; try lra. unfold s. field. lra.
    - apply Rltb_false in E2. rewrite Hss. repeat split; try lra. unfold s. field. lra.
  Qed.

  (* in a layer of constant index the reflected angle is pi - angle *)
  Theorem reflection_uniform_layer angle n : 0 <= angle <= PI -> 0 < n ->
    next_angle self false angle (Reflect n n) = Some (PI - angle).
  Proof.
    intros Ha Hn. unfold next_angle, LayeredRayTracer_trace_path__reflect_sin,
      LayeredRayTracer_trace_path__is_upward_refl,
      LayeredRayTracer_trace_path__reflect_from_up, LayeredRayTracer_trace_path__reflect_from_down.
    replace (sin angle * n / n) with (sin angle) by (field; lra).
    destruct (Rltb angle (PI / 2)) eqn:E2.
    - apply Rltb_true in E2. rewrite asin_sin_up by lra. reflexivity.
    - apply Rltb_false in E2. rewrite asin_sin_down by lra. reflexivity.
  Qed.

  (* splitting a homogeneous medium: the boundary between two layers of equal index does not
     change the angle, never totally reflects, and the radial distances of the parts add up to the
     radial distance of the unsplit layer *)
  Theorem split_uniform_is_same_angle angle n : 0 <= angle <= PI -> 0 < n ->
    next_angle self false angle (Transmit n n) = Some angle.
  Proof.
    intros Ha Hn. unfold next_angle, LayeredRayTracer_trace_path__transmit_sin,
      LayeredRayTracer_trace_path__total_internal, LayeredRayTracer_trace_path__is_upward,
      LayeredRayTracer_trace_path__transmit_up, LayeredRayTracer_trace_path__transmit_down.
    replace (sin angle * n / n) with (sin angle) by (field; lra).
    pose proof (sin_range angle Ha) as Hs.
    destruct (Rgtb (sin angle) 1) eqn:E. { apply Rgtb_true in E. lra. }
    destruct (Rltb angle (PI / 2)) eqn:E2.
    - apply Rltb_true in E2. rewrite asin_sin_up by lra. reflexivity.
    - apply Rltb_false in E2. rewrite asin_sin_down by lra. f_equal. ring.
  Qed.

  Theorem split_uniform_radial_additive angle dz1 dz2 :
    LayeredRayTracer_get_radial_distance__uniform self angle dz1 +
    LayeredRayTracer_get_radial_distance__uniform self angle dz2 =
    LayeredRayTracer_get_radial_distance__uniform self angle (dz1 + dz2).
  Proof. unfold LayeredRayTracer_get_radial_distance__uniform. ring. Qed.

  (* in-layer turn of a gradient layer handled by the layer's own tracer: the section after it
     continues with the mirrored angle *)
  Theorem turn_in_layer_mirror angle : 
    sin (LayeredRayTracer_trace_path__turn_in_layer self angle) = sin angle /\
    cos (LayeredRayTracer_trace_path__turn_in_layer self angle) = - cos angle.
  Proof.
    unfold LayeredRayTracer_trace_path__turn_in_layer. split.
    - apply sin_PI_x.
    - rewrite cos_minus, cos_PI, sin_PI. ring.
  Qed.
End Junctions.

(* ------------------------------------------------------------------ Fresnel transmission at equal index *)
Theorem unit_transmission_at_equal_index_lemma n theta_1 : 0 < n -> 0 <= theta_1 < PI / 2 ->
  let sin_2 := LayeredRayTracePath_fresnel__transmit_sin_2 n n theta_1 in
  let cos_1 := LayeredRayTracePath_fresnel__cos_1 theta_1 in
  let cos_2 := LayeredRayTracePath_fresnel__transmit_cos_2 sin_2 in
  LayeredRayTracePath_fresnel__real_branch sin_2 = true /\
  LayeredRayTracePath_fresnel__t_s n n cos_1 cos_2 = 1 /\
  LayeredRayTracePath_fresnel__t_p n n cos_1 cos_2 = 1.
Proof.
  intros Hn Ht.
  unfold LayeredRayTracePath_fresnel__transmit_sin_2, LayeredRayTracePath_fresnel__cos_1,
    LayeredRayTracePath_fresnel__transmit_cos_2, LayeredRayTracePath_fresnel__real_branch,
    LayeredRayTracePath_fresnel__t_s, LayeredRayTracePath_fresnel__t_p.
  replace (n / n * sin theta_1) with (sin theta_1) by (field; lra).
  assert (Hc : 0 < cos theta_1) by (apply cos_gt_0; pose proof PI_RGT_0; lra).
  assert (Hcos2 : sqrt (1 - sin theta_1 ^ 2) = cos theta_1).
  { replace (1 - sin theta_1 ^ 2) with (Rsqr (cos theta_1)).
    - apply sqrt_Rsqr. lra.
    - pose proof (sin2_cos2 theta_1) as H. unfold Rsqr in *. simpl. lra. }
  cbv zeta. rewrite Hcos2.
  split; [apply Rleb_true; apply SIN_bound|].
  split; field; nra.
Qed.
