(* C08: antenna response is linear, rotation-covariant, scales fields by the antenna factor.
   The definitions Antenna_* / DipoleAntenna_* / AntennaSystem_* are regenerated from
   pyrex/antenna.py and pyrex/detector.py on every run (Gen/Gen_antenna.v). *)
From Coq Require Import Reals List Bool ZArith Lra Lia Psatz.
From PyrexLib Require Import RealPrims Vec3Facts CPair SignalAlg.
From PyrexModel Require Import ButterModel AntennaResponseModel.
From PyrexGen Require Import Gen_antenna.
Import ListNotations.
Open Scope R_scope.

(* ---------------------------------------------------------------------------------------
   Specification side (independent of the generated text). *)

(* spherical coordinates of a relative position in the frame (x, z cross x, z) *)
Definition sph_coords (xax zax rel : vec3) : R * R * R :=
  let x := vdot xax rel in
  let y := vdot (vcross zax xax) rel in
  let z := vdot zax rel in
  let r := sqrt (x * x + y * y + z * z) in
  if Reqb r 0 then (0, 0, 0) else (r, acos (z / r), Rmod (atan2 y x) (2 * PI)).

(* what an antenna does to a filtered signal: scale by g, or g / antenna factor for a field,
   refuse anything else *)
Definition response_spec (filtered : Sig) (g af : R) (vt : Z) : option Sig :=
  if Z.eqb vt ty_voltage then Some (sig_scale g filtered)
  else if Z.eqb vt ty_field then Some (sig_scale (g / af) filtered)
  else None.

Definition prefilter (signal : Sig) : Sig := sig_set_type ty_voltage (sig_copy signal).

(* the gains as the property describes them *)
Definition ant_dgain (self : Ant) (direction : option vec3) : R := 1.
Definition ant_pgain (self : Ant) (polarization : option vec3) : R := 1.
Definition dip_dgain (self : Ant) (direction : option vec3) : R :=
  match direction with
  | None => 1
  | Some d => let '(_, theta, _) := sph_coords (Ant_x_axis self) (Ant_z_axis self) (vopp (vnormalize d)) in sin theta
  end.
Definition dip_pgain (self : Ant) (polarization : option vec3) : R :=
  match polarization with None => 1 | Some p => vdot (Ant_z_axis self) (vnormalize p) end.

Lemma enum_values : SignalType_voltage = ty_voltage /\ SignalType_field = ty_field /\
  SignalType_power = ty_power /\ SignalType_undefined = ty_undefined /\ SignalType_unknown = ty_undefined.
Proof. repeat split; reflexivity. Qed.

(* ---------------------------------------------------------------------------------------
   _convert_to_antenna_coordinates is sph_coords of the relative position. *)
Lemma vsub_sub_self p u : vsub (vsub p u) p = vopp u.
Proof. apply vec3_eq; unfold vsub, vopp, vx, vy, vz; simpl; ring. Qed.

Lemma ant_convert_spec self point :
  Antenna_convert_to_antenna_coordinates self point
  = sph_coords (Ant_x_axis self) (Ant_z_axis self) (vsub point (Ant_position self)).
Proof.
  unfold Antenna_convert_to_antenna_coordinates, sph_coords. cbv zeta. simpl fst; simpl snd.
  replace (vdot (Ant_x_axis self) (vsub point (Ant_position self)) ^ 2
           + vdot (vcross (Ant_z_axis self) (Ant_x_axis self)) (vsub point (Ant_position self)) ^ 2
           + vdot (Ant_z_axis self) (vsub point (Ant_position self)) ^ 2)
    with (vdot (Ant_x_axis self) (vsub point (Ant_position self)) * vdot (Ant_x_axis self) (vsub point (Ant_position self))
          + vdot (vcross (Ant_z_axis self) (Ant_x_axis self)) (vsub point (Ant_position self))
            * vdot (vcross (Ant_z_axis self) (Ant_x_axis self)) (vsub point (Ant_position self))
          + vdot (Ant_z_axis self) (vsub point (Ant_position self)) * vdot (Ant_z_axis self) (vsub point (Ant_position self)))
    by ring.
  reflexivity.
Qed.

Lemma dip_convert_spec self point :
  DipoleAntenna_convert_to_antenna_coordinates self point
  = sph_coords (Ant_x_axis self) (Ant_z_axis self) (vsub point (Ant_position self)).
Proof. exact (ant_convert_spec self point). Qed.

(* rotating frame and relative position together leaves (r, theta, phi) unchanged *)
Lemma sph_coords_rot a b c d xax zax rel : qn2 a b c d = 1 ->
  sph_coords (qrot a b c d xax) (qrot a b c d zax) (qrot a b c d rel) = sph_coords xax zax rel.
Proof.
  intros Hq. unfold sph_coords.
  rewrite (rot_cross a b c d Hq), !(rot_dot a b c d Hq). reflexivity.
Qed.

(* ---------------------------------------------------------------------------------------
   response_factor *)
Lemma antenna_response_factor filt self signal direction polarization fr :
  Antenna_apply_response filt self signal direction polarization fr
  = response_spec (filt (fun _ => cofR 1) fr (prefilter signal))
      (ant_dgain self direction * ant_pgain self polarization * Ant_efficiency self)
      (Ant_antenna_factor self) (sg_type signal).
Proof.
  unfold Antenna_apply_response, response_spec, prefilter, ant_dgain, ant_pgain,
    Antenna_frequency_response, Antenna_directional_gain, Antenna_polarization_gain, ty_voltage, ty_field.
  cbv zeta.
  assert (D : (match direction with
               | None => 1
               | Some direction_v =>
                   let '(_, theta, phi) := Antenna_convert_to_antenna_coordinates self
                        (vsub (Ant_position self) (vnormalize direction_v)) in 1
               end) = 1).
  { destruct direction; [|reflexivity].
    destruct (Antenna_convert_to_antenna_coordinates self _) as [[? ?] ?]. reflexivity. }
  rewrite D.
  assert (P : (match polarization with None => 1 | Some _ => 1 end) = 1) by (destruct polarization; reflexivity).
  rewrite P.
  destruct (Z.eqb (sg_type signal) 1); [reflexivity|].
  destruct (Z.eqb (sg_type signal) 2); reflexivity.
Qed.

Lemma dipole_response_factor filt self signal direction polarization fr :
  DipoleAntenna_apply_response filt self signal direction polarization fr
  = response_spec (filt (fun f => DipoleAntenna_frequency_response self f) fr (prefilter signal))
      (dip_dgain self direction * dip_pgain self polarization * Ant_efficiency self)
      (Ant_antenna_factor self) (sg_type signal).
Proof.
  unfold DipoleAntenna_apply_response, response_spec, prefilter, dip_dgain, dip_pgain,
    DipoleAntenna_directional_gain, DipoleAntenna_polarization_gain, ty_voltage, ty_field.
  cbv zeta.
  assert (D : (match direction with
               | None => 1
               | Some direction_v =>
                   let '(_, theta, phi) := DipoleAntenna_convert_to_antenna_coordinates self
                        (vsub (Ant_position self) (vnormalize direction_v)) in sin theta
               end)
              = match direction with
                | None => 1
                | Some d => let '(_, theta, _) := sph_coords (Ant_x_axis self) (Ant_z_axis self) (vopp (vnormalize d)) in sin theta
                end).
  { destruct direction as [dv|]; [|reflexivity].
    rewrite dip_convert_spec, vsub_sub_self. reflexivity. }
  rewrite D.
  destruct (Z.eqb (sg_type signal) 1); [reflexivity|].
  destruct (Z.eqb (sg_type signal) 2); reflexivity.
Qed.

(* consequences spelled out: exactly the two admitted types, the factor, the output type *)
Lemma response_spec_cases filtered g af vt :
  (vt = ty_voltage -> response_spec filtered g af vt = Some (sig_scale g filtered)) /\
  (vt = ty_field -> response_spec filtered g af vt = Some (sig_scale (g / af) filtered)) /\
  (vt <> ty_voltage -> vt <> ty_field -> response_spec filtered g af vt = None).
Proof.
  unfold response_spec. repeat split; intros.
  - subst; reflexivity.
  - subst; reflexivity.
  - destruct (Z.eqb_spec vt ty_voltage); [contradiction|].
    destruct (Z.eqb_spec vt ty_field); [contradiction|reflexivity].
Qed.

(* ---------------------------------------------------------------------------------------
   rotation covariance *)
Definition rot_ant (a b c d : R) (pos' : vec3) (s : Ant) : Ant :=
  mkAnt pos' (qrot a b c d (Ant_z_axis s)) (qrot a b c d (Ant_x_axis s))
        (Ant_antenna_factor s) (Ant_efficiency s) (Ant_filter_coeffs s).

Lemma dip_dgain_rot a b c d pos' self direction : qn2 a b c d = 1 ->
  dip_dgain (rot_ant a b c d pos' self) (option_map (qrot a b c d) direction) = dip_dgain self direction.
Proof.
  intros Hq. destruct direction as [dv|]; [|reflexivity]. simpl.
  rewrite (rot_normalize a b c d Hq), <- qrot_opp, (sph_coords_rot a b c d _ _ _ Hq). reflexivity.
Qed.

Lemma dip_pgain_rot a b c d pos' self pol : qn2 a b c d = 1 ->
  dip_pgain (rot_ant a b c d pos' self) (option_map (qrot a b c d) pol) = dip_pgain self pol.
Proof.
  intros Hq. destruct pol as [p|]; [|reflexivity]. simpl.
  rewrite (rot_normalize a b c d Hq), (rot_dot a b c d Hq). reflexivity.
Qed.

Lemma antenna_rotation_covariant filt a b c d pos' self signal direction polarization fr :
  qn2 a b c d = 1 ->
  Antenna_apply_response filt (rot_ant a b c d pos' self) signal
      (option_map (qrot a b c d) direction) (option_map (qrot a b c d) polarization) fr
  = Antenna_apply_response filt self signal direction polarization fr.
Proof. intros Hq. rewrite !antenna_response_factor. reflexivity. Qed.

Lemma dipole_rotation_covariant filt a b c d pos' self signal direction polarization fr :
  qn2 a b c d = 1 ->
  DipoleAntenna_apply_response filt (rot_ant a b c d pos' self) signal
      (option_map (qrot a b c d) direction) (option_map (qrot a b c d) polarization) fr
  = DipoleAntenna_apply_response filt self signal direction polarization fr.
Proof.
  intros Hq. rewrite !dipole_response_factor.
  rewrite (dip_dgain_rot a b c d pos' self direction Hq), (dip_pgain_rot a b c d pos' self polarization Hq).
  reflexivity.
Qed.

(* the coordinates the antenna computes for the arrival direction are themselves invariant *)
Lemma coordinates_rotation_invariant a b c d pos' self dv : qn2 a b c d = 1 ->
  Antenna_convert_to_antenna_coordinates (rot_ant a b c d pos' self)
      (vsub pos' (vnormalize (qrot a b c d dv)))
  = Antenna_convert_to_antenna_coordinates self (vsub (Ant_position self) (vnormalize dv)).
Proof.
  intros Hq. rewrite !ant_convert_spec. simpl Ant_position. rewrite !vsub_sub_self. simpl.
  rewrite (rot_normalize a b c d Hq), <- qrot_opp. apply sph_coords_rot; assumption.
Qed.

(* ---------------------------------------------------------------------------------------
   dipole gains: sin(theta) from the axis, projection of the polarization on the axis *)
Definition orthonormal_axes (s : Ant) : Prop :=
  vdot (Ant_z_axis s) (Ant_z_axis s) = 1 /\ vdot (Ant_x_axis s) (Ant_x_axis s) = 1 /\
  vdot (Ant_z_axis s) (Ant_x_axis s) = 0.

Lemma sqr_le_1_abs u : u * u <= 1 -> -1 <= u <= 1.
Proof. intros H. split; nra. Qed.

Lemma dipole_directional_gain self dv :
  orthonormal_axes self -> vnorm dv <> 0 ->
  let dhat := vnormalize dv in
  dip_dgain self (Some dv) = sqrt (1 - vdot (Ant_z_axis self) dhat * vdot (Ant_z_axis self) dhat) /\
  dip_dgain self (Some dv) = vnorm (vcross (Ant_z_axis self) dhat) /\
  (exists theta, 0 <= theta <= PI /\ cos theta = vdot (Ant_z_axis self) (vopp dhat) /\ dip_dgain self (Some dv) = sin theta).
Proof.
  intros (Hz & Hx & Hzx) Hd dhat.
  assert (U : vdot dhat dhat = 1) by (apply vnormalize_unit; assumption).
  assert (Uo : vdot (vopp dhat) (vopp dhat) = 1).
  { rewrite <- U. unfold vdot, vopp, vx, vy, vz; simpl; ring. }
  pose proof (frame_complete (Ant_x_axis self) (Ant_z_axis self) (vopp dhat) Hx Hz Hzx) as FC.
  rewrite Uo in FC.
  unfold dip_dgain, sph_coords. fold dhat. cbv zeta.
  rewrite FC, sqrt_1.
  destruct (Reqb 1 0) eqn:E; [apply Reqb_true in E; lra|].
  set (zc := vdot (Ant_z_axis self) (vopp dhat)) in *.
  assert (Hzc : zc * zc <= 1).
  { pose proof (Rle_0_sqr (vdot (Ant_x_axis self) (vopp dhat))).
    pose proof (Rle_0_sqr (vdot (vcross (Ant_z_axis self) (Ant_x_axis self)) (vopp dhat))).
    unfold Rsqr in *. lra. }
  pose proof (sqr_le_1_abs zc Hzc) as Hr.
  replace (zc / 1) with zc by field.
  rewrite sin_acos by assumption.
  assert (Ezc : zc = - vdot (Ant_z_axis self) dhat) by (unfold zc; apply vdot_opp_r).
  assert (S1 : sqrt (1 - zc²) = sqrt (1 - vdot (Ant_z_axis self) dhat * vdot (Ant_z_axis self) dhat)).
  { f_equal. rewrite Ezc. unfold Rsqr. ring. }
  repeat split.
  - exact S1.
  - rewrite S1. unfold vnorm. rewrite lagrange, Hz, U. f_equal. ring.
  - exists (acos zc). split; [apply acos_bound|]. split; [apply cos_acos; assumption|].
    symmetry. apply sin_acos. assumption.
Qed.

Lemma dipole_polarization_gain self p :
  dip_pgain self (Some p) = vdot (Ant_z_axis self) (vnormalize p).
Proof. reflexivity. Qed.

(* ---------------------------------------------------------------------------------------
   Butterworth band-pass is passive *)
Lemma butter_freqs_value w_lo w_hi w :
  let '(b, a) := butter1_bandpass_analog w_lo w_hi in
  snd (freqs b a w) = cdiv (0, (w_hi - w_lo) * w) (w_lo * w_hi - w * w, (w_hi - w_lo) * w).
Proof.
  unfold butter1_bandpass_analog, freqs, cpolyval, cadd, cmul, cofR, cre, cim; simpl.
  f_equal; f_equal; ring.
Qed.

Lemma butter_passive_lemma w_lo w_hi w : 0 < w_lo -> w_lo < w_hi ->
  let '(b, a) := butter1_bandpass_analog w_lo w_hi in cabs2 (snd (freqs b a w)) <= 1.
Proof.
  intros H0 H1. pose proof (butter_freqs_value w_lo w_hi w) as E.
  unfold butter1_bandpass_analog in *. rewrite E. clear E.
  set (B := w_hi - w_lo). set (D := w_lo * w_hi - w * w).
  assert (HB : 0 < B) by (unfold B; lra).
  assert (Hden : 0 < cabs2 (D, B * w)).
  { unfold cabs2, cre, cim; simpl.
    destruct (Req_dec w 0) as [W|W].
    - subst w. unfold D. assert (0 < w_lo * w_hi) by nra. nra.
    - assert (0 < (B * w) * (B * w)) by (apply Rsqr_pos_lt; nra). nra. }
  rewrite cabs2_div by lra.
  apply Rmult_le_reg_r with (cabs2 (D, B * w)); [assumption|].
  unfold Rdiv. rewrite Rmult_assoc, Rinv_l by lra.
  unfold cabs2, cre, cim; simpl. nra.
Qed.

(* the translated DipoleAntenna.frequency_response with the coefficients its constructor computes *)
Definition dipole_of_params (pos z x : vec3) (eff fc bw : R) (eh : option R) : Ant :=
  let '(_, af, _, coeffs) := DipoleAntenna_init_params fc bw eh in mkAnt pos z x af eff coeffs.

Lemma dipole_response_passive pos z x eff fc bw eh f :
  0 < fc - bw / 2 -> 0 < bw ->
  cabs (DipoleAntenna_frequency_response (dipole_of_params pos z x eff fc bw eh) f) <= 1.
Proof.
  intros H0 H1. apply cabs_le_1.
  unfold dipole_of_params, DipoleAntenna_init_params, DipoleAntenna_frequency_response. cbv zeta.
  simpl fst; simpl snd.
  pose proof (butter_passive_lemma (2 * PI * (fc - bw / 2)) (2 * PI * (fc + bw / 2)) (f * 2 * PI)) as P.
  assert (Hpi : 0 < PI) by apply PI_RGT_0.
  assert (A : 0 < 2 * PI * (fc - bw / 2)) by nra.
  assert (Bq : 2 * PI * (fc - bw / 2) < 2 * PI * (fc + bw / 2)) by nra.
  specialize (P A Bq).
  unfold butter1_bandpass_analog in *. simpl. exact P.
Qed.

Lemma dipole_antenna_factor pos z x eff fc bw :
  Ant_antenna_factor (dipole_of_params pos z x eff fc bw None) = 1 / (speed_of_light / fc / 2).
Proof. reflexivity. Qed.

(* ---------------------------------------------------------------------------------------
   Linearity and passivity, relative to C05's facts about Signal.filter_frequencies.
   F times values g force_real  is C05's model of the filter (Model/FilterModel.v,
   filter_frequencies); the three hypotheses are C05's theorems filter_linear /
   filter_frequencies_length / filter_passive (coq/Props/C05.v), restated for this file's
   complex-pair and energy definitions. *)
Section WithFilter.
  Variable F : list R -> list R -> (R -> R * R) -> bool -> list R.
  Hypothesis filter_length : forall times xs g fr,
    (length times <= 2 * length xs)%nat -> length (F times xs g fr) = length times.
  Hypothesis filter_linear : forall times xs ys a b g fr n,
    length xs = length ys -> length times = length xs -> (n < length times)%nat ->
    nth n (F times (lincomb a b xs ys) g fr) 0 = a * nth n (F times xs g fr) 0 + b * nth n (F times ys g fr) 0.
  Hypothesis filter_passive : forall times xs g fr,
    length times = length xs -> (forall u, cabs (g u) <= 1) -> energy (F times xs g fr) <= energy xs.

  (* Signal.filter_frequencies is in place and touches only .values *)
  Definition sig_filter_of (g : R -> R * R) (fr : bool) (s : Sig) : Sig :=
    mkSig (sg_times s) (F (sg_times s) (sg_values s) g fr) (sg_type s).

  Lemma filter_linear_list times xs ys a b g fr :
    length xs = length ys -> length times = length xs ->
    F times (lincomb a b xs ys) g fr = lincomb a b (F times xs g fr) (F times ys g fr).
  Proof.
    intros L1 L2.
    assert (La : length (F times (lincomb a b xs ys) g fr) = length times).
    { apply filter_length. rewrite lincomb_length by assumption. lia. }
    assert (Lx : length (F times xs g fr) = length times) by (apply filter_length; lia).
    assert (Ly : length (F times ys g fr) = length times) by (apply filter_length; lia).
    apply nth_ext_R.
    - rewrite La, lincomb_length by congruence. congruence.
    - intros n Hn. rewrite La in Hn. rewrite nth_lincomb by congruence.
      apply filter_linear; assumption.
  Qed.

  Definition well_formed (s : Sig) : Prop := length (sg_times s) = length (sg_values s).
  Definition sig_lincomb (a b : R) (x y : Sig) : Sig :=
    mkSig (sg_times x) (lincomb a b (sg_values x) (sg_values y)) (sg_type x).
  Definition opt_lincomb (a b : R) (ox oy : option Sig) : option Sig :=
    match ox, oy with Some x, Some y => Some (sig_lincomb a b x y) | _, _ => None end.

  Lemma response_spec_linear g0 fr (c af : R) a b x y :
    well_formed x -> sg_times y = sg_times x -> sg_type y = sg_type x ->
    length (sg_values y) = length (sg_values x) ->
    response_spec (sig_filter_of g0 fr (prefilter (sig_lincomb a b x y))) c af (sg_type x)
    = opt_lincomb a b (response_spec (sig_filter_of g0 fr (prefilter x)) c af (sg_type x))
                      (response_spec (sig_filter_of g0 fr (prefilter y)) c af (sg_type x)).
  Proof.
    intros W T Ty L. unfold response_spec.
    assert (K : forall k, sig_scale k (sig_filter_of g0 fr (prefilter (sig_lincomb a b x y)))
              = sig_lincomb a b (sig_scale k (sig_filter_of g0 fr (prefilter x)))
                                (sig_scale k (sig_filter_of g0 fr (prefilter y)))).
    { intros k. unfold sig_scale, sig_filter_of, prefilter, sig_set_type, sig_copy, sig_lincomb; simpl.
      rewrite T. f_equal.
      rewrite filter_linear_list by (unfold well_formed in W; congruence).
      apply map_scale_lincomb. }
    destruct (Z.eqb (sg_type x) ty_voltage); [simpl; f_equal; apply K|].
    destruct (Z.eqb (sg_type x) ty_field); [simpl; f_equal; apply K|reflexivity].
  Qed.

  Lemma antenna_response_linear self dir pol fr a b x y :
    well_formed x -> sg_times y = sg_times x -> sg_type y = sg_type x ->
    length (sg_values y) = length (sg_values x) ->
    Antenna_apply_response sig_filter_of self (sig_lincomb a b x y) dir pol fr
    = opt_lincomb a b (Antenna_apply_response sig_filter_of self x dir pol fr)
                      (Antenna_apply_response sig_filter_of self y dir pol fr).
  Proof.
    intros W T Ty L. rewrite !antenna_response_factor. rewrite Ty.
    change (sg_type (sig_lincomb a b x y)) with (sg_type x).
    apply response_spec_linear; assumption.
  Qed.

  Lemma dipole_response_linear self dir pol fr a b x y :
    well_formed x -> sg_times y = sg_times x -> sg_type y = sg_type x ->
    length (sg_values y) = length (sg_values x) ->
    DipoleAntenna_apply_response sig_filter_of self (sig_lincomb a b x y) dir pol fr
    = opt_lincomb a b (DipoleAntenna_apply_response sig_filter_of self x dir pol fr)
                      (DipoleAntenna_apply_response sig_filter_of self y dir pol fr).
  Proof.
    intros W T Ty L. rewrite !dipole_response_factor. rewrite Ty.
    change (sg_type (sig_lincomb a b x y)) with (sg_type x).
    apply response_spec_linear; assumption.
  Qed.

  (* the output keeps the time grid, is a voltage, and for a dipole built by its constructor
     carries at most factor^2 times the input energy *)
  Lemma response_shape g0 fr c af s o :
    response_spec (sig_filter_of g0 fr (prefilter s)) c af (sg_type s) = Some o ->
    sg_times o = sg_times s /\ sg_type o = ty_voltage /\
    exists k, (k = c \/ k = c / af) /\ sg_values o = map (Rmult k) (F (sg_times s) (sg_values s) g0 fr).
  Proof.
    unfold response_spec. intros H.
    destruct (Z.eqb (sg_type s) ty_voltage).
    - inversion H; subst; simpl. repeat split. exists c; split; [left|]; reflexivity.
    - destruct (Z.eqb (sg_type s) ty_field); [|discriminate].
      inversion H; subst; simpl. repeat split. exists (c / af); split; [right|]; reflexivity.
  Qed.

  Lemma dipole_energy_bound pos z x eff fc bw eh s dir pol fr o :
    0 < fc - bw / 2 -> 0 < bw -> well_formed s ->
    DipoleAntenna_apply_response sig_filter_of (dipole_of_params pos z x eff fc bw eh) s dir pol fr = Some o ->
    exists k, sg_values o = map (Rmult k) (F (sg_times s) (sg_values s)
                 (fun f => DipoleAntenna_frequency_response (dipole_of_params pos z x eff fc bw eh) f) fr)
              /\ energy (sg_values o) <= k * k * energy (sg_values s).
  Proof.
    intros H0 H1 W H. rewrite dipole_response_factor in H.
    apply response_shape in H. destruct H as (_ & _ & k & _ & V).
    exists k. split; [exact V|]. rewrite V, energy_scale.
    apply Rmult_le_compat_l; [nra|].
    apply filter_passive; [exact W|]. intros u. apply dipole_response_passive; assumption.
  Qed.
End WithFilter.

(* ---------------------------------------------------------------------------------------
   AntennaSystem forwards to its antenna *)
Lemma system_delegates_lemma filt sys signal direction polarization fr z x :
  AntennaSystem_Antenna_apply_response filt sys signal direction polarization fr
    = Antenna_apply_response filt (Sys_antenna sys) signal direction polarization fr /\
  AntennaSystem_DipoleAntenna_apply_response filt sys signal direction polarization fr
    = DipoleAntenna_apply_response filt (Sys_antenna sys) signal direction polarization fr /\
  AntennaSystem_Antenna_set_orientation sys z x = Antenna_set_orientation (Sys_antenna sys) z x /\
  AntennaSystem_DipoleAntenna_set_orientation sys z x = DipoleAntenna_set_orientation (Sys_antenna sys) z x.
Proof. repeat split; reflexivity. Qed.

(* set_orientation stores the normalised axes and accepts them only when perpendicular *)
Lemma set_orientation_spec self z x :
  Antenna_set_orientation self z x
  = if Rleb (Rabs (vdot (vnormalize z) (vnormalize x))) 1e-8 then Some (vnormalize z, vnormalize x) else None.
Proof.
  unfold Antenna_set_orientation, isclose. cbv zeta.
  replace (vdot (vnormalize z) (vnormalize x) - 0) with (vdot (vnormalize z) (vnormalize x)) by ring.
  replace (1e-8 + 0 * Rabs 0) with 1e-8 by ring.
  destruct (Rleb _ _); reflexivity.
Qed.

(* ---------------------------------------------------------------------------------------
   receive: all-or-nothing, and the stored signal is the sum of the responses *)
Lemma apply_all_none {P} (apply : Sig -> P -> option Sig) l :
  (exists s p, In (s, p) l /\ apply s p = None) -> apply_all apply l = None.
Proof.
  induction l as [|[s p] t IH]; intros (s0 & p0 & Hin & Hn).
  - destruct Hin.
  - simpl. destruct Hin as [E|Hin].
    + inversion E; subst. rewrite Hn. reflexivity.
    + destruct (apply s p); [|reflexivity]. rewrite IH; [reflexivity|]. eauto.
Qed.

Lemma receive_rejects_atomically {P} (apply : Sig -> P -> option Sig) signals lens_ok inputs :
  (exists s p, In (s, p) inputs /\ apply s p = None) ->
  receive_model apply signals lens_ok inputs = (signals, RecvValueError).
Proof.
  intros H. unfold receive_model. destruct lens_ok; [|reflexivity]. simpl.
  rewrite apply_all_none by assumption. reflexivity.
Qed.

Lemma receive_state_cases {P} (apply : Sig -> P -> option Sig) signals lens_ok inputs :
  let '(st, r) := receive_model apply signals lens_ok inputs in
  (r = RecvOk /\ exists total, st = signals ++ [total]) \/ (r <> RecvOk /\ st = signals).
Proof.
  unfold receive_model. destruct lens_ok; simpl; [|right; split; [discriminate|reflexivity]].
  destruct (apply_all apply inputs) as [[|o os]|]; try (right; split; [discriminate|reflexivity]).
  destruct (sum_from o os); [left; split; [reflexivity|eauto] | right; split; [discriminate|reflexivity]].
Qed.

Lemma receive_single {P} (apply : Sig -> P -> option Sig) signals s p o :
  apply s p = Some o -> receive_model apply signals true [(s, p)] = (signals ++ [o], RecvOk).
Proof. intros H. unfold receive_model; simpl. rewrite H. reflexivity. Qed.

Lemma list_Reqb_refl l : list_Reqb l l = true.
Proof.
  induction l; simpl; [reflexivity|]. rewrite IHl.
  assert (Reqb a a = true) by (apply Reqb_true; reflexivity). rewrite H. reflexivity.
Qed.

Lemma receive_pair {P} (apply : Sig -> P -> option Sig) signals s1 p1 s2 p2 o1 o2 :
  apply s1 p1 = Some o1 -> apply s2 p2 = Some o2 ->
  sg_times o1 = sg_times o2 -> sg_type o1 = ty_voltage -> sg_type o2 = ty_voltage ->
  receive_model apply signals true [(s1, p1); (s2, p2)]
  = (signals ++ [mkSig (sg_times o1) (vals_add (sg_values o1) (sg_values o2)) ty_voltage], RecvOk).
Proof.
  intros H1 H2 T Y1 Y2. unfold receive_model; simpl. rewrite H1, H2. simpl.
  unfold sig_add. rewrite T, list_Reqb_refl, Y1, Y2. simpl. reflexivity.
Qed.

(* ---------------------------------------------------------------------------------------
   Non-vacuity: concrete instances of the hypotheses used above. *)
Example unit_quaternion_exists : qn2 (1/2) (1/2) (1/2) (1/2) = 1 /\
  qrot (1/2) (1/2) (1/2) (1/2) (1, 0, 0) = (0, 1, 0).
Proof. split; [unfold qn2; field|]. apply vec3_eq; unfold qrot, vx, vy, vz; simpl; field. Qed.

Example orthonormal_axes_exist : orthonormal_axes (mkAnt (0,0,0) (0,0,1) (1,0,0) 1 1 ([], [])).
Proof. unfold orthonormal_axes, vdot, vx, vy, vz; simpl. repeat split; ring. Qed.

Example dipole_band_exists : 0 < 250e6 - 100e6 / 2 /\ 0 < 100e6.
Proof. split; lra. Qed.

Example filter_hypotheses_satisfiable :
  let F := fun (times xs : list R) (g : R -> R * R) (fr : bool) => if Nat.eqb (length times) (length xs) then xs else map (fun _ => 0) times in
  (forall times xs g fr, length times = length xs -> (forall u, cabs (g u) <= 1) -> energy (F times xs g fr) <= energy xs).
Proof. intros F times xs g fr L _. unfold F. rewrite L, Nat.eqb_refl. lra. Qed.

(* ---- assembled statements (the Props file only says `exact`) ---- *)
Lemma response_linear_antenna_stmt :
  forall F : list R -> list R -> (R -> R * R) -> bool -> list R,
  (forall times xs g fr, (length times <= 2 * length xs)%nat -> length (F times xs g fr) = length times) ->
  (forall times xs ys a b g fr n, length xs = length ys -> length times = length xs -> (n < length times)%nat ->
     nth n (F times (lincomb a b xs ys) g fr) 0 = a * nth n (F times xs g fr) 0 + b * nth n (F times ys g fr) 0) ->
  forall self dir pol fr a b x y,
  well_formed x -> sg_times y = sg_times x -> sg_type y = sg_type x -> length (sg_values y) = length (sg_values x) ->
  Antenna_apply_response (sig_filter_of F) self (sig_lincomb a b x y) dir pol fr
  = opt_lincomb a b (Antenna_apply_response (sig_filter_of F) self x dir pol fr)
                    (Antenna_apply_response (sig_filter_of F) self y dir pol fr).
Proof.
  intros F H1 H2. exact (antenna_response_linear F H1 H2).
Qed.

Lemma response_linear_dipole_stmt :
  forall F : list R -> list R -> (R -> R * R) -> bool -> list R,
  (forall times xs g fr, (length times <= 2 * length xs)%nat -> length (F times xs g fr) = length times) ->
  (forall times xs ys a b g fr n, length xs = length ys -> length times = length xs -> (n < length times)%nat ->
     nth n (F times (lincomb a b xs ys) g fr) 0 = a * nth n (F times xs g fr) 0 + b * nth n (F times ys g fr) 0) ->
  forall self dir pol fr a b x y,
  well_formed x -> sg_times y = sg_times x -> sg_type y = sg_type x -> length (sg_values y) = length (sg_values x) ->
  DipoleAntenna_apply_response (sig_filter_of F) self (sig_lincomb a b x y) dir pol fr
  = opt_lincomb a b (DipoleAntenna_apply_response (sig_filter_of F) self x dir pol fr)
                    (DipoleAntenna_apply_response (sig_filter_of F) self y dir pol fr).
Proof.
  intros F H1 H2. exact (dipole_response_linear F H1 H2).
Qed.

Lemma rotation_identities_stmt : forall a b c d u v,
  vdot (qrot a b c d u) (qrot a b c d v) = qn2 a b c d * qn2 a b c d * vdot u v /\
  vcross (qrot a b c d u) (qrot a b c d v) = vscale (qn2 a b c d) (qrot a b c d (vcross u v)).
Proof.
  intros. split; [apply qrot_dot | apply qrot_cross].
Qed.

Lemma dipole_gains_stmt : forall self dv p,
  orthonormal_axes self -> vnorm dv <> 0 ->
  let dhat := vnormalize dv in
  dip_dgain self (Some dv) = vnorm (vcross (Ant_z_axis self) dhat) /\
  dip_dgain self (Some dv) = sqrt (1 - vdot (Ant_z_axis self) dhat * vdot (Ant_z_axis self) dhat) /\
  (exists theta, 0 <= theta <= PI /\ cos theta = vdot (Ant_z_axis self) (vopp dhat) /\ dip_dgain self (Some dv) = sin theta) /\
  dip_pgain self (Some p) = vdot (Ant_z_axis self) (vnormalize p).
Proof.
  intros self dv p H1 H2. destruct (dipole_directional_gain self dv H1 H2) as (A & B & C).
  repeat split; try assumption.
Qed.

Lemma dipole_output_energy_bound_stmt :
  forall F : list R -> list R -> (R -> R * R) -> bool -> list R,
  (forall times xs g fr, length times = length xs -> (forall u, cabs (g u) <= 1) -> energy (F times xs g fr) <= energy xs) ->
  forall pos z x eff fc bw eh s dir pol fr o,
  0 < fc - bw / 2 -> 0 < bw -> well_formed s ->
  DipoleAntenna_apply_response (sig_filter_of F) (dipole_of_params pos z x eff fc bw eh) s dir pol fr = Some o ->
  exists k, sg_values o = map (Rmult k) (F (sg_times s) (sg_values s)
               (fun f => DipoleAntenna_frequency_response (dipole_of_params pos z x eff fc bw eh) f) fr)
            /\ energy (sg_values o) <= k * k * energy (sg_values s).
Proof.
  intros F H. exact (dipole_energy_bound F H).
Qed.

Lemma receive_rejects_before_state_change_stmt : forall (P : Type) (apply : Sig -> P -> option Sig) signals lens_ok inputs,
  (exists s p, In (s, p) inputs /\ apply s p = None) ->
  receive_model apply signals lens_ok inputs = (signals, RecvValueError).
Proof.
  intros P. exact (@receive_rejects_atomically P).
Qed.

Lemma receive_appends_one_or_nothing_stmt : forall (P : Type) (apply : Sig -> P -> option Sig) signals lens_ok inputs,
  let '(st, r) := receive_model apply signals lens_ok inputs in
  (r = RecvOk /\ exists total, st = signals ++ [total]) \/ (r <> RecvOk /\ st = signals).
Proof.
  intros P. exact (@receive_state_cases P).
Qed.

Lemma receive_sums_components_stmt : forall (P : Type) (apply : Sig -> P -> option Sig) signals s1 p1 s2 p2 o1 o2,
  apply s1 p1 = Some o1 -> apply s2 p2 = Some o2 ->
  sg_times o1 = sg_times o2 -> sg_type o1 = ty_voltage -> sg_type o2 = ty_voltage ->
  receive_model apply signals true [(s1, p1)] = (signals ++ [o1], RecvOk) /\
  receive_model apply signals true [(s1, p1); (s2, p2)]
  = (signals ++ [mkSig (sg_times o1) (vals_add (sg_values o1) (sg_values o2)) ty_voltage], RecvOk).
Proof.
  intros P apply signals s1 p1 s2 p2 o1 o2 H1 H2 T Y1 Y2. split.
  - apply receive_single; assumption.
  - apply receive_pair; assumption.
Qed.
