"""C08: antenna response is linear, rotation-covariant, scales fields by the antenna factor.

gen   : tools/gen_antenna.py translates pyrex/antenna.py (Antenna, DipoleAntenna) and the
        AntennaSystem delegation of pyrex/detector.py to coq/Gen/Gen_antenna.v (fail-closed)
prove : coq/Props/C08.v
corr  : the generated definitions run as OCaml floats against the real objects
        (coordinates, gains, frequency response / filter coefficients, apply_response, receive)
probe : the property itself on the implementation with independent oracles (direct DFT
        filter, vector geometry, rotation matrices built two ways)
"""
import importlib
import json
import math
import os
import sys

import logging

import numpy as np

from harness import common, realextract as rx
from harness.common import REPO, ROOT

sys.path.insert(0, os.path.join(ROOT, "tools"))

logging.getLogger("pyrex").setLevel(logging.ERROR)   # the probe subclass's one-sided response makes pyrex warn
EPS = 2.0 ** -52
PIN_FILE = os.path.join(ROOT, "harness", "pins", "C08.json")
PINNED = [("pyrex/antenna.py", "Antenna.receive"), ("pyrex/signals.py", "Signal.__add__"),
          ("pyrex/signals.py", "Signal.__radd__"), ("pyrex/signals.py", "Signal.__imul__"),
          ("pyrex/signals.py", "Signal.copy")]
TYPE_NAMES = {0: "undefined", 1: "voltage", 2: "field", 3: "power"}


def gen_files(scratch):
    import gen_antenna
    importlib.reload(gen_antenna)
    text, hashes = gen_antenna.generate(REPO)
    return {"Gen_antenna": text}, hashes


def current_pins():
    from py2coq import ast_pin
    return {q: ast_pin(REPO, src, q) for src, q in PINNED}


# ---------------------------------------------------------------------------- numeric helpers
def quat_matrix(q):
    a, b, c, d = q
    return np.array([[a * a + b * b - c * c - d * d, 2 * (b * c - a * d), 2 * (b * d + a * c)],
                     [2 * (b * c + a * d), a * a - b * b + c * c - d * d, 2 * (c * d - a * b)],
                     [2 * (b * d - a * c), 2 * (c * d + a * b), a * a - b * b - c * c + d * d]])


def rodrigues(axis, angle):
    """rotation about a unit axis by angle (independent of the quaternion formula)"""
    k = np.asarray(axis, float)
    k = k / np.linalg.norm(k)
    K = np.array([[0, -k[2], k[1]], [k[2], 0, -k[0]], [-k[1], k[0], 0]])
    return np.eye(3) + math.sin(angle) * K + (1 - math.cos(angle)) * (K @ K)


def rand_unit(rng):
    while True:
        v = np.array([rng.gauss(0, 1) for _ in range(3)])
        n = np.linalg.norm(v)
        if n > 1e-3:
            return v / n


def vscale(rng):
    """lengths for axis / direction / polarization vectors: unit, far from unit, and within 1e-5 of unit (a vector that is
    'almost normalised' must be treated like any other)"""
    return rng.choice([1.0, 1.0, 7.0, 0.2, 3.0, 1 + 1e-6, 1 - 3e-6, 1 + 9e-6, 1 - 8e-6, 1 + 1.2e-5, 1 - 4e-7])


def rand_dir(rng):
    """a direction: exact-unit random, float32-rounded unit (length off by ~1e-8), or a short-decimal near-unit vector"""
    r = rng.random()
    if r < 0.6:
        return rand_unit(rng)
    if r < 0.85:
        return np.asarray(rand_unit(rng), dtype=np.float32).astype(float)
    v = [0.6, 0.8, 0.003]
    rng.shuffle(v)
    return np.array([c * rng.choice([1.0, -1.0]) for c in v])


def rand_rotation(rng):
    if rng.random() < 0.5:
        q = np.array([rng.gauss(0, 1) for _ in range(4)])
        q = q / np.linalg.norm(q)
        return quat_matrix(q), {"quaternion": [float(x) for x in q]}
    axis, ang = rand_unit(rng), rng.uniform(-math.pi, math.pi)
    return rodrigues(axis, ang), {"axis": [float(x) for x in axis], "angle": ang}


def rotation_from(desc):
    if "quaternion" in desc:
        return quat_matrix(desc["quaternion"])
    return rodrigues(desc["axis"], desc["angle"])


def rand_frame(rng):
    """orthonormal (z, x) as a random rotation of the standard frame; sometimes axis-aligned"""
    r = rng.random()
    if r < 0.1:
        return np.array([0.0, 0.0, 1.0]), np.array([1.0, 0.0, 0.0])
    if r < 0.4:
        # a signed permutation of the coordinate axes, exactly or tilted by a small angle
        # (code that special-cases "vertical" / axis-aligned antennas shows up here)
        i, j = rng.sample([0, 1, 2], 2)
        z, x = np.zeros(3), np.zeros(3)
        z[i], x[j] = rng.choice([1.0, -1.0]), rng.choice([1.0, -1.0])
        if rng.random() < 0.7:
            Rm = rodrigues(rand_unit(rng), 10 ** rng.uniform(-6, -1.2))
            z, x = Rm @ z, Rm @ x
        return z, x
    Rm, _ = rand_rotation(rng)
    return Rm @ np.array([0.0, 0.0, 1.0]), Rm @ np.array([1.0, 0.0, 0.0])


def rand_signal_data(rng, n=None):
    n = n or rng.choice([2, 3, 4, 5, 8, 16, 31, 64])
    dt = rng.choice([1e-9, 0.5e-9, 2e-9, 1e-10, 1.0])
    t0 = rng.choice([0.0, 0.0, 1e-7, -3e-8, 5.0])
    times = t0 + dt * np.arange(n)
    kind = rng.random()
    if kind < 0.2:
        vals = np.zeros(n)
        vals[rng.randrange(n)] = rng.choice([1.0, -2.5])
    elif kind < 0.4:
        f = rng.uniform(0.02, 0.45) / dt
        vals = np.sin(2 * np.pi * f * (times - t0) + rng.uniform(0, 6)) * rng.uniform(0.1, 10)
    else:
        vals = np.array([rng.gauss(0, 1) for _ in range(n)]) * 10 ** rng.uniform(-6, 3)
    return times, vals


def oracle_filter(times, values, H, force_real):
    """Signal.filter_frequencies as the property describes it (zero-pad to 2N, multiply the
    spectrum by the response, back-transform, keep the first N real parts), by direct O(N^2)
    sums -- independent of scipy.fft and of the implementation."""
    n = len(values)
    m = 2 * n
    dt = times[1] - times[0]
    k = np.arange(m)
    f = np.where(k <= (m - 1) // 2, k, k - m) / (m * dt)
    if force_real:
        resp = np.asarray(H(np.abs(f)), dtype=complex)
        resp = np.where(f < 0, np.conj(resp), resp)
    else:
        resp = np.asarray(H(f), dtype=complex)
    x = np.concatenate([values, np.zeros(n)])
    nn = np.arange(m)
    W = np.exp(-2j * np.pi * np.outer(k, nn) / m)
    X = W @ x
    y = (np.conj(W) @ (resp * X)) / m
    return np.real(y[:n]), float(np.max(np.abs(resp))) if m else 1.0


def butter_H(f_lo, f_hi):
    wl, wh = 2 * np.pi * f_lo, 2 * np.pi * f_hi
    B, w0sq = wh - wl, wl * wh

    def H(f):
        w = 2 * np.pi * np.asarray(f, float)
        return (1j * B * w) / (w0sq - w * w + 1j * B * w)
    return H


def filter_tol(values, hmax, factor):
    """upper bound of |FFT-based - direct-DFT| filtering error: both are sums of 2N products
    with relative error <= 8 eps each; (2N)^2 * 8 eps * max|x| * max|H| * |factor|, floored"""
    n = len(values)
    return ((2 * n) ** 2 * 8 * EPS * float(np.max(np.abs(values))) * max(hmax, 1.0) + 1e-300) * abs(factor) * 4 + 1e-300


# ---------------------------------------------------------------------------- antenna builders
class Maker:
    """Builds real antennas (deterministically: numpy's global RNG is seeded per object)."""

    def __init__(self, rng):
        self.rng = rng

    def params(self, cls):
        rng = self.rng
        z, x = rand_frame(rng)
        scale_z, scale_x = vscale(rng), vscale(rng)
        pos = [rng.choice([0.0, 0.0, rng.uniform(-1e3, 1e3)]) for _ in range(3)]
        p = {"cls": cls, "position": pos, "z": [float(v) for v in z * scale_z], "x": [float(v) for v in x * scale_x],
             "np_seed": rng.randrange(2 ** 31)}
        if cls in ("Antenna", "ProbeAntenna"):
            p["antenna_factor"] = rng.choice([1.0, 2.0, 0.37, 10 ** rng.uniform(-2, 2)])
            p["efficiency"] = rng.choice([1.0, 0.5, rng.uniform(0.05, 1.5), rng.uniform(0.05, 1.5), 0, 0.0, 1])
        else:
            fc = rng.choice([250e6, 500e6, 10 ** rng.uniform(7.5, 9)])
            p["center_frequency"] = fc
            p["bandwidth"] = fc * rng.choice([0.8, 0.4, 0.1, rng.uniform(0.05, 1.5)])
            p["effective_height"] = rng.choice([None, None, 1.0, rng.uniform(0.1, 3)])
        return p

    def build(self, p):
        import pyrex
        np.random.seed(p["np_seed"])
        if p["cls"] == "Antenna":
            return pyrex.Antenna(position=list(p["position"]), z_axis=p["z"], x_axis=p["x"],
                                 antenna_factor=p["antenna_factor"], efficiency=p["efficiency"], noisy=False)
        if p["cls"] == "ProbeAntenna":
            return probe_antenna_class()(position=list(p["position"]), z_axis=p["z"], x_axis=p["x"],
                                         antenna_factor=p["antenna_factor"], efficiency=p["efficiency"], noisy=False)
        return pyrex.DipoleAntenna(name="d", position=list(p["position"]), center_frequency=p["center_frequency"],
                                   bandwidth=p["bandwidth"], temperature=300, resistance=100, orientation=p["z"],
                                   effective_height=p["effective_height"], noisy=False)

    def wrap(self, ant):
        import pyrex
        return pyrex.AntennaSystem(ant)


_PROBE = {}


def probe_antenna_class():
    """An Antenna subclass whose gains depend on theta, phi, the polarization's x-component, and
    whose frequency response is not conjugate-symmetric (so force_real matters): used to see
    that AntennaSystem forwards every argument and that covariance holds for phi-dependent gains."""
    if "cls" not in _PROBE:
        import pyrex

        class ProbeAntenna(pyrex.Antenna):
            def directional_gain(self, theta, phi):
                return 1 + 0.3 * np.cos(theta) + 0.2 * np.sin(theta) * np.cos(phi - 0.4)

            def polarization_gain(self, polarization):
                return np.vdot(self.x_axis, polarization) + 0.5 * np.vdot(self.z_axis, polarization)

            def frequency_response(self, frequencies):
                f = np.asarray(frequencies, float)
                return np.where(f >= 0, 0.9 * np.exp(-1j * 0.3) * np.ones_like(f), 0.4 * np.ones_like(f))
        _PROBE["cls"] = ProbeAntenna
    return _PROBE["cls"]


def make_signal(times, vals, vt):
    import pyrex
    if vt is None:
        return pyrex.Signal(times, vals)
    return pyrex.Signal(times, vals, value_type=pyrex.Signal.Type(vt) if vt != 0 else pyrex.Signal.Type.undefined)


class _Axes:
    """the three attributes the gain oracle needs, for axes that are known from the requests made"""
    def __init__(self, z_axis, x_axis, position):
        self.z_axis, self.x_axis, self.position = np.asarray(z_axis, float), np.asarray(x_axis, float), np.asarray(position, float)


COMPONENT_KINDS = ["signal", "signal", "empty", "function", "function"]


def hist_fn(h):
    """an earlier frequency filter of a component (attenuation x Fresnel-like: real, even in f)"""
    def H(f):
        return h["c"] * np.exp(-np.abs(np.asarray(f, float)) / h["fc"])
    H.__name__ = "history_filter"
    return H


def oracle_filter_multi(times, values, filters):
    """FunctionSignal semantics of several filters [(H, force_real), ...]: the responses are multiplied and applied in ONE
    zero-padded transform pair (no truncation in between); direct O(N^2) sums"""
    n = len(values)
    m = 2 * n
    dt = times[1] - times[0]
    k = np.arange(m)
    f = np.where(k <= (m - 1) // 2, k, k - m) / (m * dt)
    resp = np.ones(m, dtype=complex)
    for H, fr in filters:
        if fr:
            r = np.asarray(H(np.abs(f)), dtype=complex)
            r = np.where(f < 0, np.conj(r), r)
        else:
            r = np.asarray(H(f), dtype=complex)
        resp = resp * r
    x = np.concatenate([values, np.zeros(n)])
    W = np.exp(-2j * np.pi * np.outer(k, np.arange(m)) / m)
    y = (np.conj(W) @ (resp * (W @ x))) / m
    return np.real(y[:n]), float(np.max(np.abs(resp))) if m else 1.0


def component_response(times, vals, fp, H, fr):
    """what the antenna's filter makes of one component: for a FunctionSignal with earlier filters, those and the antenna's
    response in one transform pair"""
    hist = (fp or {}).get("history") or []
    if not hist:
        return oracle_filter(times, vals, H, fr)
    return oracle_filter_multi(times, vals, [(hist_fn(h), h["force_real"]) for h in hist] + [(H, fr)])


def pulse_fn(fp):
    def g(t):
        return fp["amp"] * np.exp(-((t - fp["tc"]) / fp["w"]) ** 2) * np.cos(2 * np.pi * fp["f0"] * (t - fp["tc"]))
    return g


def rand_component(rng, times):
    """(component kind, value type or None, samples known independently of the object, function parameters)"""
    ckind = rng.choice(COMPONENT_KINDS)
    vt = rng.choice([1, 2, 1, 2, 1, 2, 0, 3, None])
    n, dt = len(times), times[1] - times[0]
    fp = None
    if ckind == "empty":
        vals = np.zeros(n)
    elif ckind == "function":
        fp = {"amp": 10 ** rng.uniform(-2, 2), "tc": float(times[0] + rng.uniform(0.2, 0.8) * n * dt), "w": float(rng.uniform(1, 3) * dt),
              "f0": float(rng.uniform(0.05, 0.3) / dt)}
        if rng.random() < 0.6:
            # an earlier filter history (like the s / p outputs of propagate with different Fresnel factors)
            fp["history"] = [{"c": rng.choice([0.9, 0.4, -0.3, 1.0]), "fc": float(rng.uniform(0.1, 2.0) / dt), "force_real": rng.random() < 0.5}
                             for _h in range(rng.choice([1, 1, 2]))]
        vals = pulse_fn(fp)(times)
    else:
        _, vals = rand_signal_data(rng, n)
    return ckind, vt, np.asarray(vals, float), fp


def make_component(ckind, times, vals, vt, fp):
    import pyrex
    ty = None if vt is None else pyrex.Signal.Type(vt)
    if ckind == "empty":
        return pyrex.EmptySignal(times, value_type=ty)
    if ckind == "function":
        sig = pyrex.FunctionSignal(times, pulse_fn(fp), value_type=ty)
        for h in fp.get("history") or []:
            sig.filter_frequencies(hist_fn(h), force_real=h["force_real"])
        return sig
    return pyrex.Signal(times, vals, value_type=ty)


def oracle_axes(ant, p):
    """axes for the gain oracle from the constructor arguments (normalised here, exactly), not read back from the object;
    the dipole draws its own x-axis, which its gains do not involve"""
    z = np.asarray(p["z"], float)
    x = np.asarray(ant.x_axis, float) if p["cls"] == "DipoleAntenna" else np.asarray(p["x"], float)
    return _Axes(z / np.linalg.norm(z), x / np.linalg.norm(x), ant.position)


def expected_gains(ant, p, direction, pol):
    """gains by vector geometry, independent of the code's coordinate conversion"""
    z = np.asarray(ant.z_axis, float)
    x = np.asarray(ant.x_axis, float)
    y = np.cross(z, x)
    if p["cls"] == "Antenna":
        return 1.0, 1.0, 0.0, 0.0
    dd = pp = 0.0   # error bounds of the gains
    if direction is None:
        d = 1.0
    else:
        dh = np.asarray(direction, float) / np.linalg.norm(direction)
        src = -dh                      # where the signal comes from, seen from the antenna
        if p["cls"] == "DipoleAntenna":
            d = float(np.linalg.norm(np.cross(z, dh)))
        else:
            ct = float(np.dot(z, src))
            st = float(np.linalg.norm(np.cross(z, src)))
            phi = math.atan2(float(np.dot(y, src)), float(np.dot(x, src)))
            d = 1 + 0.3 * ct + 0.2 * st * math.cos(phi - 0.4)
        # cancellation position - n - position and the acos/sin round trip near the axis
        delta = 8 * EPS * (8 + 2 * float(np.max(np.abs(ant.position))))
        st_ = float(np.linalg.norm(np.cross(z, dh)))
        dd = min(math.sqrt(2 * delta), delta / max(st_, 1e-300)) + delta
        if p["cls"] == "ProbeAntenna":
            dd = 4 * dd + (delta / max(st_, 1e-300) if st_ > 1e-6 else 1.0) * 0.2 * st_ + 4 * delta
    if pol is None:
        pg = 1.0
    else:
        ph = np.asarray(pol, float) / np.linalg.norm(pol)
        pg = float(np.dot(z, ph)) if p["cls"] == "DipoleAntenna" else float(np.dot(x, ph) + 0.5 * np.dot(z, ph))
        pp = 64 * EPS
    return d, pg, dd, pp


def response_H(p):
    if p["cls"] == "Antenna":
        return lambda f: np.ones(len(np.atleast_1d(f)))
    if p["cls"] == "ProbeAntenna":
        return lambda f: np.where(np.asarray(f) >= 0, 0.9 * np.exp(-1j * 0.3), 0.4 + 0j)
    return butter_H(p["center_frequency"] - p["bandwidth"] / 2, p["center_frequency"] + p["bandwidth"] / 2)


def antenna_factor_expected(p):
    if p["cls"] in ("Antenna", "ProbeAntenna"):
        return p["antenna_factor"], p["efficiency"]
    eh = p["effective_height"] if p["effective_height"] is not None else 299792458.0 / p["center_frequency"] / 2
    return 1 / eh, 1.0


# ---------------------------------------------------------------------------- OCaml literals
def ov(v):
    return "((%s, %s), %s)" % (rx.ocf(v[0]), rx.ocf(v[1]), rx.ocf(v[2]))


def oopt(v):
    return "None" if v is None else "(Some %s)" % ov(v)


def olist(xs):
    return "[" + "; ".join(rx.ocf(x) for x in xs) + "]"


def oz(n):
    if n == 0:
        return "M.Z0"
    bits = bin(abs(n))[3:]
    e = "M.XH"
    for b in bits:
        e = "(M.%s %s)" % ("XI" if b == "1" else "XO", e)
    return "(M.Zpos %s)" % e if n > 0 else "(M.Zneg %s)" % e


def oant(ant, coeffs=None):
    b, a = coeffs if coeffs is not None else ([], [])
    return ("{M.ant_position=%s; M.ant_z_axis=%s; M.ant_x_axis=%s; M.ant_antenna_factor=%s; M.ant_efficiency=%s; "
            "M.ant_filter_coeffs=(%s, %s)}") % (ov(ant.position), ov(ant.z_axis), ov(ant.x_axis), rx.ocf(ant.antenna_factor),
                                                 rx.ocf(ant.efficiency), olist(b), olist(a))


def osig(times, vals, vt):
    return "{M.sg_times=%s; M.sg_values=%s; M.sg_type=%s}" % (olist(times), olist(vals), oz(vt))


OCAML_EXTRA = r'''
let prsig = function None -> print_string "None\n"
  | Some o -> (Printf.printf "%h " (z_to_float o.M.sg_type); List.iter (Printf.printf "%h ") o.M.sg_values;
               List.iter (Printf.printf "%h ") o.M.sg_times; print_newline ())
let ident_filter _ _ s = s
let const_filter vals _ _ s = {s with M.sg_values = vals}
let table_filter tbl _ _ s = {s with M.sg_values = List.assoc s.M.sg_values tbl}
let pr_opt_axes = function None -> print_string "None\n"
  | Some (((a,b),c), ((d,e),f)) -> Printf.printf "%h %h %h %h %h %h\n" a b c d e f
let tagf = function M.RecvOk -> 0.0 | M.RecvValueError -> 1.0 | M.RecvDegenerate -> 2.0
let pr_c (a, b) = Printf.printf "%h %h\n" a b
let pr_init (((eh, af), (lo, hi)), (b, a)) =
  Printf.printf "%h %h %h %h " eh af lo hi; List.iter (Printf.printf "%h ") b; List.iter (Printf.printf "%h ") a; print_newline ()
'''

FUNCS = ["Antenna_convert_to_antenna_coordinates", "DipoleAntenna_directional_gain", "DipoleAntenna_polarization_gain",
         "DipoleAntenna_frequency_response", "DipoleAntenna_init_params", "Antenna_apply_response",
         "DipoleAntenna_apply_response", "AntennaSystem_Antenna_apply_response", "AntennaSystem_DipoleAntenna_apply_response",
         "Antenna_set_orientation", "AntennaSystem_Antenna_set_orientation", "DipoleAntenna_set_orientation",
         "AntennaSystem_DipoleAntenna_set_orientation", "receive_model"]


def ang_diff(a, b):
    d = abs(a - b) % (2 * math.pi)
    return min(d, 2 * math.pi - d)


# ---------------------------------------------------------------------------- correspondence
def correspondence(ctx):
    import pyrex
    rng = ctx.rng
    mk = Maker(rng)
    cases, checks = [], []
    dist = {"coords": 0, "coords_degenerate": 0, "gains": 0, "freq_response": 0, "init_params": 0,
            "apply_response": {}, "set_orientation": {"accepted": 0, "rejected": 0}, "receive_steps": {}}

    # (a) coordinates and dipole gains
    for _ in range(ctx.n(40, 1500)):
        p = mk.params(rng.choice(["Antenna", "DipoleAntenna"]))
        ant = mk.build(p)
        kind = rng.random()
        if kind < 0.1:
            point = np.array(ant.position, float)                     # r == 0 branch
            dist["coords_degenerate"] += 1
        elif kind < 0.3:
            s = rng.choice([1.0, -1.0, 3.5])
            point = np.array(ant.position, float) + s * np.asarray(rng.choice([ant.z_axis, ant.x_axis]))   # on an axis
            dist["coords_degenerate"] += 1
        elif kind < 0.6:
            point = np.array(ant.position, float) - rand_unit(rng)    # what apply_response passes
        else:
            point = np.array([rng.uniform(-500, 500) for _ in range(3)])
        with np.errstate(all="ignore"):
            r, th, ph = ant._convert_to_antenna_coordinates(point)
        cases.append("pr3 (M.antenna_convert_to_antenna_coordinates %s %s)" % (oant(ant), ov(point)))
        checks.append(("coords", {"params": p, "point": [float(v) for v in point]}, (float(r), float(th), float(ph)), ant))
        dist["coords"] += 1
        if p["cls"] == "DipoleAntenna":
            th_, ph_ = rng.uniform(0, math.pi), rng.uniform(0, 2 * math.pi)
            pol = rand_dir(rng) * vscale(rng)
            cases.append("pr (M.dipoleAntenna_directional_gain %s %s %s)" % (oant(ant), rx.ocf(th_), rx.ocf(ph_)))
            checks.append(("gain", {"params": p, "theta": th_, "phi": ph_}, (float(ant.directional_gain(th_, ph_)),), None))
            cases.append("pr (M.dipoleAntenna_polarization_gain %s %s)" % (oant(ant), ov(pol)))
            checks.append(("gain", {"params": p, "pol": [float(v) for v in pol]}, (float(ant.polarization_gain(pol)),), None))
            dist["gains"] += 2

    # (b) DipoleAntenna constructor arithmetic and frequency response (vs scipy.signal.butter / freqs)
    for _ in range(ctx.n(12, 300)):
        p = mk.params("DipoleAntenna")
        ant = mk.build(p)
        b, a = ant.filter_coeffs
        eh = p["effective_height"]
        cases.append("pr_init (M.dipoleAntenna_init_params %s %s %s)" % (
            rx.ocf(p["center_frequency"]), rx.ocf(p["bandwidth"]), "None" if eh is None else "(Some %s)" % rx.ocf(eh)))
        exp = (float(ant.effective_height), float(ant.antenna_factor), float(ant.freq_range[0]), float(ant.freq_range[1])) + \
            tuple(float(np.real(v)) for v in b) + tuple(float(np.real(v)) for v in a)
        checks.append(("init", {"params": p}, exp, None))
        dist["init_params"] += 1
        f_lo, f_hi = ant.freq_range
        fs = [0.0, f_lo, f_hi, math.sqrt(abs(f_lo * f_hi)), -p["center_frequency"], p["center_frequency"] * 1e-6,
              p["center_frequency"] * 1e3] + [rng.uniform(-3, 3) * p["center_frequency"] for _ in range(4)]
        hs = ant.frequency_response(np.array(fs))
        for f, h in zip(fs, hs):
            cases.append("pr_c (M.dipoleAntenna_frequency_response %s %s)" % (oant(ant, (np.real(b), np.real(a))), rx.ocf(f)))
            wl, wh, w = 2 * np.pi * f_lo, 2 * np.pi * f_hi, 2 * np.pi * f
            den = math.hypot(wl * wh - w * w, (wh - wl) * w)
            tol = 64 * EPS * (1 + (abs(wl * wh) + w * w) / max(den, 1e-300))
            checks.append(("freq", {"params": p, "f": f, "tol": tol}, (float(np.real(h)), float(np.imag(h))), None))
            dist["freq_response"] += 1

    # (c) set_orientation
    for _ in range(ctx.n(20, 400)):
        p = mk.params("Antenna")
        ant = mk.build(p)
        z, x = rand_frame(rng)
        k = rng.random()
        if k < 0.3:
            x = x + rng.choice([1e-9, 1e-8, 0.99e-8, 1.01e-8, 1e-7, 0.3]) * z     # around the 1e-8 tolerance
        z, x = z * vscale(rng), x * vscale(rng)
        sysw = rng.random() < 0.5
        obj = mk.wrap(ant) if sysw else ant
        try:
            obj.set_orientation(z_axis=z, x_axis=x)
            got = tuple(float(v) for v in ant.z_axis) + tuple(float(v) for v in ant.x_axis)
            dist["set_orientation"]["accepted"] += 1
        except ValueError:
            got = "None"
            dist["set_orientation"]["rejected"] += 1
        zn, xn = z / np.linalg.norm(z), x / np.linalg.norm(x)
        margin = abs(abs(float(np.dot(zn, xn))) - 1e-8)
        fn = "M.antennaSystem_Antenna_set_orientation (%s)" % oant(ant) if sysw else "M.antenna_set_orientation %s" % oant(ant)
        cases.append("pr_opt_axes (%s %s %s)" % (fn, ov(z), ov(x)))
        checks.append(("orient", {"params": p, "z": [float(v) for v in z], "x": [float(v) for v in x], "through_system": sysw,
                                  "decision_margin": margin}, got, None))

    # (d) apply_response, all classes, all value types, with / without direction and polarization
    for _ in range(ctx.n(60, 2500)):
        cls = rng.choice(["Antenna", "DipoleAntenna", "DipoleAntenna"])
        p = mk.params(cls)
        ant = mk.build(p)
        sysw = rng.random() < 0.4
        obj = mk.wrap(ant) if sysw else ant
        times, vals = rand_signal_data(rng)
        vt = rng.choice([1, 2, 1, 2, 0, 3, None])
        direction = None if rng.random() < 0.2 else rand_dir(rng) * vscale(rng)
        if direction is not None and rng.random() < 0.1:
            direction = np.asarray(ant.z_axis) * rng.choice([1.0, -1.0])         # along the dipole axis
        pol = None if rng.random() < 0.2 else rand_dir(rng) * vscale(rng)
        fr = rng.random() < 0.5
        sig = make_signal(times, vals, vt)
        vti = 0 if vt is None else vt
        key = "%s%s:%s" % ("Sys:" if sysw else "", cls, TYPE_NAMES[vti])
        dist["apply_response"][key] = dist["apply_response"].get(key, 0) + 1
        try:
            with np.errstate(all="ignore"):
                out = obj.apply_response(sig, direction=direction, polarization=pol, force_real=fr)
            got = (float(out.value_type.value),) + tuple(float(v) for v in out.values) + tuple(float(v) for v in out.times)
        except ValueError:
            got = "None"
        H = response_H(p)
        filtered, hmax = oracle_filter(times, vals, H, fr)
        if cls == "Antenna":
            filt = "ident_filter"
            coeffs = None
        else:
            filt = "(const_filter %s)" % olist(filtered)
            coeffs = (np.real(ant.filter_coeffs[0]), np.real(ant.filter_coeffs[1]))
        name = {"Antenna": "antenna", "DipoleAntenna": "dipoleAntenna"}[cls]
        if sysw:
            call = "M.antennaSystem_%s_apply_response %s (%s)" % (cls, filt, oant(ant, coeffs))
        else:
            call = "M.%s_apply_response %s %s" % (name, filt, oant(ant, coeffs))
        cases.append("prsig (%s %s %s %s %s)" % (call, osig(times, vals, vti), oopt(direction), oopt(pol), "true" if fr else "false"))
        d, pg, dd, pp = expected_gains(oracle_axes(ant, p), p, direction, pol)
        af, eff = antenna_factor_expected(p)
        fac = eff / (af if vti == 2 else 1.0)
        fmax = float(np.max(np.abs(filtered))) if len(filtered) else 0.0
        tol = filter_tol(vals, hmax, d * pg * fac) + (dd * abs(pg) + abs(d) * pp + 64 * EPS * abs(d * pg)) * abs(fac) * max(fmax, float(np.max(np.abs(vals))))
        checks.append(("apply", {"params": p, "times": [float(t) for t in times], "values": [float(v) for v in vals], "value_type": vt,
                                 "direction": None if direction is None else [float(v) for v in direction],
                                 "polarization": None if pol is None else [float(v) for v in pol], "force_real": fr,
                                 "through_system": sysw, "tol": tol}, got, None))

    # (d2) histories: construct, re-orient one or more times (directly or through the system), then respond.
    #      The model folds its own set_orientation over the same requests and responds with the axes it reached.
    dist["history"] = {}
    for _ in range(ctx.n(30, 800)):
        cls = rng.choice(["Antenna", "DipoleAntenna", "DipoleAntenna"])
        p = mk.params(cls)
        ant = mk.build(p)
        sysw = rng.random() < 0.5
        sysobj = mk.wrap(ant) if sysw else None
        coeffs = None if cls == "Antenna" else (np.real(ant.filter_coeffs[0]), np.real(ant.filter_coeffs[1]))
        start = oant(ant, coeffs)
        steps = []
        for _k in range(rng.randint(1, 3)):
            z, x = rand_frame(rng)
            z, x = z * vscale(rng), x * vscale(rng)
            via = sysw and rng.random() < 0.6
            (sysobj if via else ant).set_orientation(z_axis=z, x_axis=x)
            steps.append({"z": [float(v) for v in z], "x": [float(v) for v in x], "via_system": bool(via)})
        times, vals = rand_signal_data(rng, rng.choice([2, 4, 8, 16]))
        vt = rng.choice([1, 2])
        direction = rand_dir(rng) * vscale(rng)
        pol = rand_dir(rng) * vscale(rng)
        fr = rng.random() < 0.5
        obj = sysobj if (sysw and rng.random() < 0.5) else ant
        with np.errstate(all="ignore"):
            out = obj.apply_response(make_signal(times, vals, vt), direction=direction, polarization=pol, force_real=fr)
        got = (float(out.value_type.value),) + tuple(float(v) for v in out.values) + tuple(float(v) for v in out.times)
        H = response_H(p)
        filtered, hmax = oracle_filter(times, vals, H, fr)
        filt = "ident_filter" if cls == "Antenna" else "(const_filter %s)" % olist(filtered)
        name = {"Antenna": "antenna", "DipoleAntenna": "dipoleAntenna"}[cls]
        code = ["let a0 = %s in" % start]
        for i, st in enumerate(steps):
            fn = ("M.antennaSystem_%s_set_orientation" % cls) if st["via_system"] else ("M.%s_set_orientation" % name)
            code.append("let a%d = (match %s a%d %s %s with Some (z, x) -> {a%d with M.ant_z_axis = z; M.ant_x_axis = x} | None -> failwith \"rejected\") in" % (
                i + 1, fn, i, ov(st["z"]), ov(st["x"]), i))
        code.append("prsig (M.%s_apply_response %s a%d %s %s %s %s)" % (name, filt, len(steps), osig(times, vals, vt), oopt(direction), oopt(pol), "true" if fr else "false"))
        cases.append("(" + " ".join(code) + ")")
        zn = np.asarray(steps[-1]["z"]) / np.linalg.norm(steps[-1]["z"])
        xn = np.asarray(steps[-1]["x"]) / np.linalg.norm(steps[-1]["x"])
        shim = _Axes(zn, xn, ant.position)
        d, pg, dd, pp = expected_gains(shim, p, direction, pol)
        af, eff = antenna_factor_expected(p)
        fac = eff / (af if vt == 2 else 1.0)
        fmax = float(np.max(np.abs(filtered))) if len(filtered) else 0.0
        tol = filter_tol(vals, hmax, d * pg * fac) + (dd * abs(pg) + abs(d) * pp + 64 * EPS * abs(d * pg)) * abs(fac) * max(fmax, float(np.max(np.abs(vals))))
        checks.append(("history", {"params": p, "steps": steps, "times": [float(t) for t in times], "values": [float(v) for v in vals], "value_type": vt,
                                   "direction": [float(v) for v in direction], "polarization": [float(v) for v in pol], "force_real": fr,
                                   "through_system": obj is sysobj, "tol": tol}, got, None))
        kk = "%s:%d steps:%s" % (cls, len(steps), "system" if any(st["via_system"] for st in steps) else "direct")
        dist["history"][kk] = dist["history"].get(kk, 0) + 1

    # (e) receive sequences on the base Antenna (its filter is the identity), mixed types / lengths
    pins = current_pins()
    recorded = json.load(open(PIN_FILE)) if os.path.exists(PIN_FILE) else {}
    changed = [k for k in pins if recorded.get(k) != pins[k]]
    ctx.extra["pins"] = {"current": pins, "changed_since_validation": changed}
    for _ in range(ctx.n(30, 700) * (4 if changed else 1)):
        cls = rng.choice(["Antenna", "DipoleAntenna"])
        p = mk.params(cls)
        ant = mk.build(p)
        sysw = rng.random() < 0.35
        obj = mk.wrap(ant) if sysw else ant
        n = rng.choice([2, 3, 5, 8])
        times, _ = rand_signal_data(rng, n)
        direction = None if rng.random() < 0.3 else rand_unit(rng)
        fr = rng.random() < 0.5
        H = response_H(p)
        coeffs = None if cls == "Antenna" else (np.real(ant.filter_coeffs[0]), np.real(ant.filter_coeffs[1]))
        mname = {"Antenna": "antenna", "DipoleAntenna": "dipoleAntenna"}[cls]
        af, eff = antenna_factor_expected(p)
        steps, code, expect = [], [], []
        code.append("let st = [] in")
        for si in range(rng.randint(1, 4)):
            kind = rng.choice(["single", "single", "pair", "pair", "pair", "triple", "triple", "len_mismatch", "pol_not_list", "times_mismatch"])
            ncomp = {"single": 1, "pair": 2, "triple": 3, "len_mismatch": 2, "pol_not_list": 2, "times_mismatch": 2}[kind]
            comps = []
            for ci in range(ncomp):
                ckind, vt, vals, fp = rand_component(rng, times)
                tt = times + (1e-9 if (kind == "times_mismatch" and ci == 1) else 0.0)
                if ckind == "function" and kind == "times_mismatch" and ci == 1:
                    vals = pulse_fn(fp)(tt)
                pol = None if (kind == "single" and rng.random() < 0.3) else rand_unit(rng)
                comps.append((tt, vals, vt, pol, ckind, fp))
            sigs = [make_component(ck, tt, vals, vt, fp) for tt, vals, vt, _, ck, fp in comps]
            pols = [c[3] for c in comps]
            before = list(ant.signals)
            try:
                with np.errstate(all="ignore"):
                    if kind == "single":
                        obj.receive(sigs[0], direction=direction, polarization=pols[0], force_real=fr)
                    elif kind == "len_mismatch":
                        obj.receive(sigs, direction=direction, polarization=pols[:1], force_real=fr)
                    elif kind == "pol_not_list":
                        obj.receive(sigs, direction=direction, polarization=None, force_real=fr)
                    else:
                        obj.receive(sigs, direction=direction, polarization=pols, force_real=fr)
                tag = 0.0
            except ValueError:
                tag = 1.0
            same_prefix = len(ant.signals) >= len(before) and all(a is b for a, b in zip(ant.signals, before))
            stored = tag == 0.0 and len(ant.signals) > 0
            with np.errstate(all="ignore"):
                last = tuple(float(v) for v in ant.signals[-1].values) if stored else ()
            # what the components' filtered values are (direct DFT), and the rounding allowance of this step
            table, tol = [], 1e-300
            for tt, vals, vt, pol, ck, fp in comps:
                has_hist = bool((fp or {}).get("history"))
                filtered, hmax = component_response(tt, vals, fp, H, fr) if (cls != "Antenna" or has_hist) else (vals, 1.0)
                table.append("(%s, %s)" % (olist(vals), olist(filtered)))
                tol += filter_tol(vals, hmax, max(1.0, eff / af, eff)) if np.max(np.abs(vals)) > 0 else 0.0
            expect.append((float(len(ant.signals)), tag, last, same_prefix,
                           float(ant.signals[-1].value_type.value) if stored else None, tol))
            lens_ok = kind not in ("len_mismatch", "pol_not_list")
            inputs = "[" + "; ".join("(%s, %s)" % (osig(tt, vals, 0 if vt is None else vt), oopt(pol)) for tt, vals, vt, pol, _, _ in comps) + "]"
            any_hist = any((c_[5] or {}).get("history") for c_ in comps)
            filt = "ident_filter" if (cls == "Antenna" and not any_hist) else "(table_filter [%s])" % "; ".join(table)
            code.append("let (st, r) = M.receive_model (fun s p -> M.%s_apply_response %s %s s %s p %s) st %s %s in" % (
                mname, filt, oant(ant, coeffs), oopt(direction), "true" if fr else "false", "true" if lens_ok else "false", inputs))
            code.append("Printf.printf \"%h %h \" (float_of_int (List.length st)) (tagf r);")
            code.append("(if r = M.RecvOk then List.iter (Printf.printf \"%h \") (List.nth st (List.length st - 1)).M.sg_values);")
            steps.append({"kind": kind, "components": [{"times": [float(t) for t in tt], "values": [float(v) for v in vals], "value_type": vt,
                                                         "polarization": None if pol is None else [float(v) for v in pol],
                                                         "component_kind": ck, "function": fp}
                                                        for tt, vals, vt, pol, ck, fp in comps]})
            kk = "%s:%s" % (kind, "ok" if tag == 0.0 else "rejected")
            dist["receive_steps"][kk] = dist["receive_steps"].get(kk, 0) + 1
            for ci, c in enumerate(comps):
                ck2 = "%s@%d:%s" % (c[4], ci, TYPE_NAMES[0 if c[2] is None else c[2]])
                dist.setdefault("receive_components", {})[ck2] = dist.setdefault("receive_components", {}).get(ck2, 0) + 1
        code.append("print_newline ()")
        cases.append("(" + " ".join(code) + ")")
        checks.append(("receive", {"params": p, "direction": None if direction is None else [float(v) for v in direction],
                                   "force_real": fr, "through_system": sysw, "steps": steps, "n": n}, expect, None))

    old = rx.OCAML_PRELUDE
    rx.OCAML_PRELUDE = old + OCAML_EXTRA
    try:
        res = rx.run(ctx, "From PyrexGen Require Import Gen_antenna.\nFrom PyrexModel Require Import AntennaResponseModel.", FUNCS, cases, name="ant")
    finally:
        rx.OCAML_PRELUDE = old

    bad = {}

    def disagree(kind, meta, model, impl, why=""):
        bad[kind] = bad.get(kind, 0) + 1
        if bad[kind] <= 3:
            ctx.oblige("corr:%s" % kind, False, "generated model and implementation disagree%s: model=%r impl=%r at %s" % (
                why, model, impl, json.dumps(meta, default=str)[:1200]))

    for (kind, meta, exp, ant), r in zip(checks, res):
        ctx.case(key=(kind, json.dumps(meta, sort_keys=True, default=str)), sample={"kind": kind, "case": meta, "model": r, "impl": exp})
        if r == "EXC":
            disagree(kind, meta, r, exp)
            continue
        if kind == "coords":
            (mr, mt, mp), (ir, it, ip) = r, exp
            scale = float(np.linalg.norm(np.asarray(meta["point"]) - np.asarray(ant.position))) + float(np.max(np.abs(ant.position))) + 1.0
            delta = 16 * EPS * scale / max(ir, 1e-300) if ir > 0 else 0.0
            ok = abs(mr - ir) <= 16 * EPS * scale
            if ir > 0 and mr > 0:
                st = math.sin(it)
                ok &= abs(mt - it) <= min(math.sqrt(2 * delta), delta / max(abs(st), 1e-300)) + 8 * EPS
                if abs(st) > 1e-6:
                    ok &= ang_diff(mp, ip) <= delta / abs(st) + 16 * EPS
            elif ir == 0 or mr == 0:
                ok &= (ir == 0 and mr == 0 and (mt, mp) == (0.0, 0.0) and (it, ip) == (0.0, 0.0)) or (max(ir, mr) <= 16 * EPS * scale)
            if not ok:
                disagree(kind, meta, r, exp)
        elif kind in ("gain",):
            if not abs(r[0] - exp[0]) <= 16 * EPS * max(1.0, abs(exp[0])):
                disagree(kind, meta, r, exp)
        elif kind == "init":
            ok = len(r) == len(exp) and all(abs(a - b) <= 1e-12 * max(abs(a), abs(b)) + (1e-300 if i != 5 else 1e-30)
                                            for i, (a, b) in enumerate(zip(r, exp)))
            # b[1] of scipy's butter is exactly 0
            if not ok:
                disagree(kind, meta, r, exp)
        elif kind == "freq":
            if not (abs(r[0] - exp[0]) <= meta["tol"] and abs(r[1] - exp[1]) <= meta["tol"]):
                disagree(kind, meta, r, exp)
        elif kind == "orient":
            if meta["decision_margin"] < 1e-12:
                continue   # the float dot product may fall on either side of the tolerance
            if (r == "None") != (exp == "None"):
                disagree(kind, meta, r, exp)
            elif r != "None" and not all(abs(a - b) <= 8 * EPS for a, b in zip(r, exp)):
                disagree(kind, meta, r, exp)
        elif kind in ("apply", "history"):
            if (r == "None") != (exp == "None"):
                disagree(kind, meta, r, exp, " (accept/reject)")
            elif r != "None":
                n = len(meta["values"])
                ok = len(r) == len(exp) == 1 + 2 * n and r[0] == exp[0] == 1.0
                ok = ok and all(abs(a - b) <= meta["tol"] for a, b in zip(r[1:1 + n], exp[1:1 + n]))
                ok = ok and all(a == b for a, b in zip(r[1 + n:], exp[1 + n:]))
                if not ok:
                    disagree(kind, meta, r, exp)
        elif kind == "receive":
            vals = list(r) if r not in ("None",) else []
            pos, ok = 0, True
            for (ln, tag, last, same_prefix, vt_out, step_tol) in exp:
                if pos + 2 > len(vals) or vals[pos] != ln or vals[pos + 1] != tag or not same_prefix:
                    ok = False
                    break
                pos += 2
                if tag == 0.0:
                    mv = vals[pos:pos + meta["n"]]
                    pos += meta["n"]
                    scale = max([abs(v) for v in last] + [1e-300])
                    if len(mv) != len(last) or any(abs(a - b) > 1e-12 * scale + step_tol for a, b in zip(mv, last)) or vt_out != 1.0:
                        ok = False
                        break
            if not ok or pos != len(vals):
                disagree(kind, meta, r, exp)
                ctx.fail("receive:%s" % json.dumps(meta, sort_keys=True, default=str)[:300],
                         "%s.receive history disagrees with the model (receive = sum of apply_response of every component, refusal before any state change): impl=%r model=%r" % (meta["params"]["cls"], exp, r),
                         {"kind": "receive", **meta})
    for k in ("coords", "gain", "init", "freq", "orient", "apply", "history", "receive"):
        ctx.oblige("corr:%s(%d cases)" % (k, sum(1 for c in checks if c[0] == k)), bad.get(k, 0) == 0, "%d disagreements" % bad.get(k, 0))
    ctx.extra["correspondence_distribution"] = dist
    ctx.extra["correspondence_tolerance"] = ("coordinates: 16 eps x scale, angles conditioned by 1/sin(theta); gains 16 eps; constructor arithmetic 1e-12 rel; "
                                             "H(f): 64 eps (1 + (w0^2+w^2)/|den|); apply_response: (2N)^2 8 eps max|x| max|H| |factor| x4 + gain error bounds; "
                                             "receive: lengths / accept-reject exact, values 1e-12 rel")
    return not bad


# ---------------------------------------------------------------------------- probes
def probes(ctx):
    """The property as stated, on the implementation, judged by independent oracles."""
    import pyrex
    rng = ctx.rng
    mk = Maker(rng)
    nrun = ctx.n(60, 1500)
    stats = {"linearity": 0, "factor": 0, "rejected": 0, "rotation": 0, "coords": 0, "delegation": 0, "receive_sum": 0}
    for it in range(nrun):
        cls = rng.choice(["Antenna", "DipoleAntenna", "DipoleAntenna", "ProbeAntenna"])
        p = mk.params(cls)
        ant = mk.build(p)
        sysw = rng.random() < 0.4
        obj = mk.wrap(ant) if sysw else ant
        times, x = rand_signal_data(rng)
        _, y = rand_signal_data(rng, len(x))
        a, b = rng.choice([1.0, -1.0, 2.0, rng.uniform(-3, 3)]), rng.choice([1.0, 0.0, rng.uniform(-3, 3)])
        vt = rng.choice([1, 2])
        direction = None if rng.random() < 0.15 else rand_dir(rng) * vscale(rng)
        if direction is not None and cls == "DipoleAntenna" and rng.random() < 0.08:
            direction = np.asarray(ant.z_axis) * rng.choice([1.0, -1.0])
        pol = None if rng.random() < 0.15 else rand_dir(rng) * vscale(rng)
        fr = rng.random() < 0.5
        base = {"params": p, "times": [float(t) for t in times], "x": [float(v) for v in x], "y": [float(v) for v in y], "a": a, "b": b,
                "value_type": vt, "direction": None if direction is None else [float(v) for v in direction],
                "polarization": None if pol is None else [float(v) for v in pol], "force_real": fr, "through_system": sysw}
        H = response_H(p)
        d, pg, dd, pp = expected_gains(oracle_axes(ant, p), p, direction, pol)
        af, eff = antenna_factor_expected(p)
        fac = d * pg * eff / (af if vt == 2 else 1.0)

        def resp(vals, vt_=vt, obj_=obj, direction_=direction, pol_=pol):
            s = make_signal(times, vals, vt_)
            with np.errstate(all="ignore"):
                return obj_.apply_response(s, direction=direction_, polarization=pol_, force_real=fr), s
        try:
            (rx_, sx), (ry_, _), (rxy, _) = resp(x), resp(y), resp(a * x + b * y)
        except Exception as e:
            ctx.fail("probe-exception:%s" % cls, "apply_response raised %r on a %s signal" % (e, TYPE_NAMES[vt]), {"kind": "linearity", **base})
            continue
        # inputs untouched, output grid and type
        ctx.case(key=("probe", it))
        if not (np.array_equal(sx.values, x) and np.array_equal(sx.times, times) and sx.value_type == pyrex.Signal.Type(vt)):
            ctx.fail("input-modified:%s" % cls, "apply_response modified its input signal", {"kind": "factor", **base})
        if not (np.array_equal(rx_.times, times) and rx_.value_type == pyrex.Signal.Type.voltage and len(rx_.values) == len(x)):
            ctx.fail("output-shape:%s" % cls, "apply_response output is not a voltage signal on the input time grid", {"kind": "factor", **base})
        # (1) linearity
        fx, hmax = oracle_filter(times, x, H, fr)
        fy, _ = oracle_filter(times, y, H, fr)
        scale = abs(a) * float(np.max(np.abs(rx_.values))) + abs(b) * float(np.max(np.abs(ry_.values)))
        lin_tol = 1e-9 * scale + 4 * (filter_tol(x, hmax, a * fac) + filter_tol(y, hmax, b * fac))
        err = float(np.max(np.abs(rxy.values - (a * rx_.values + b * ry_.values))))
        stats["linearity"] += 1
        if not err <= lin_tol:
            ctx.fail("linearity:%s:%d" % (cls, it), "%s.apply_response is not linear: |R(a x + b y) - a R(x) - b R(y)| = %.3g > %.3g" % (cls, err, lin_tol),
                     {"kind": "linearity", **base})
        # (2) the factor: filtered x gains x efficiency (/ antenna factor iff field)
        want = fx * fac
        tol = filter_tol(x, hmax, fac) + (dd * abs(pg) + abs(d) * pp + 64 * EPS * abs(d * pg)) * abs(eff / (af if vt == 2 else 1.0)) * \
            max(float(np.max(np.abs(fx))), float(np.max(np.abs(x)))) + 1e-9 * float(np.max(np.abs(want)))
        err = float(np.max(np.abs(rx_.values - want)))
        stats["factor"] += 1
        if not err <= tol:
            ctx.fail("factor:%s:%s:%d" % (cls, TYPE_NAMES[vt], it),
                     "%s.apply_response(%s signal) differs from filtered x directional gain %.6g x polarization gain %.6g x efficiency %.6g%s: max error %.3g > %.3g" % (
                         cls, TYPE_NAMES[vt], d, pg, eff, " / antenna factor %.6g" % af if vt == 2 else "", err, tol),
                     {"kind": "factor", **base, "expected_gains": [d, pg, eff, af]})
        # (3) other value types are refused, nothing changes
        for bad_vt in (0, 3, None):
            s = make_signal(times, x, bad_vt)
            before = list(ant.signals)
            raised = False
            try:
                with np.errstate(all="ignore"):
                    if rng.random() < 0.5:
                        obj.apply_response(s, direction=direction, polarization=pol, force_real=fr)
                    else:
                        obj.receive(s, direction=direction, polarization=pol, force_real=fr)
            except ValueError:
                raised = True
            stats["rejected"] += 1
            unchanged = len(ant.signals) == len(before) and all(u is v for u, v in zip(ant.signals, before)) and np.array_equal(s.values, x)
            if not (raised and unchanged):
                ctx.fail("other-type:%s:%s" % (cls, TYPE_NAMES[0 if bad_vt is None else bad_vt]),
                         "a %s signal was %s by %s%s" % (TYPE_NAMES[0 if bad_vt is None else bad_vt], "rejected" if raised else "accepted", cls,
                                                        "" if unchanged else " and the antenna / input state changed"),
                         {"kind": "other_type", **base, "bad_type": bad_vt})
        # (4) joint rotation (axes, direction, polarization), antenna moved elsewhere
        Rm, rdesc = rand_rotation(rng)
        p2 = dict(p)
        p2["z"], p2["x"] = [float(v) for v in Rm @ np.asarray(p["z"])], [float(v) for v in Rm @ np.asarray(p["x"])]
        p2["position"] = [rng.choice([0.0, rng.uniform(-1e3, 1e3)]) for _ in range(3)]
        ant2 = mk.build(p2)
        if cls == "DipoleAntenna":
            # the constructor draws its own x-axis: rotate the one the first antenna got
            ant2.set_orientation(z_axis=Rm @ np.asarray(ant.z_axis), x_axis=Rm @ np.asarray(ant.x_axis))
        obj2 = mk.wrap(ant2) if sysw else ant2
        d2 = None if direction is None else Rm @ direction
        pol2 = None if pol is None else Rm @ pol
        with np.errstate(all="ignore"):
            r2 = obj2.apply_response(make_signal(times, x, vt), direction=d2, polarization=pol2, force_real=fr)
        d_2, pg_2, dd2, pp2 = expected_gains(oracle_axes(ant2, p2), p2, d2, pol2)
        rot_tol = ((dd + dd2 + 64 * EPS) * abs(pg) + abs(d) * (pp + pp2 + 64 * EPS) + 64 * EPS * abs(d * pg)) * abs(eff / (af if vt == 2 else 1.0)) * \
            max(float(np.max(np.abs(fx))), float(np.max(np.abs(x)))) + 1e-9 * float(np.max(np.abs(rx_.values))) + 1e-300
        err = float(np.max(np.abs(r2.values - rx_.values)))
        stats["rotation"] += 1
        if not err <= rot_tol:
            ctx.fail("rotation:%s:%d" % (cls, it), "%s response changes under a joint rotation of axes, direction and polarization: max difference %.3g > %.3g" % (cls, err, rot_tol),
                     {"kind": "rotation", **base, "rotation": rdesc, "position2": p2["position"]})
        # (5) the coordinate conversion against vector geometry (right-handed frame x, z cross x, z)
        point = np.array([rng.uniform(-50, 50) for _ in range(3)])
        with np.errstate(all="ignore"):
            r_, th_, ph_ = ant._convert_to_antenna_coordinates(point)
        rel = point - np.asarray(ant.position, float)
        zax, xax = np.asarray(ant.z_axis, float), np.asarray(ant.x_axis, float)
        yax = np.cross(zax, xax)
        r_o = float(np.linalg.norm(rel))
        th_o = math.atan2(float(np.linalg.norm(np.cross(zax, rel))), float(np.dot(zax, rel)))
        ph_o = math.atan2(float(np.dot(yax, rel)), float(np.dot(xax, rel))) % (2 * math.pi)
        scale = r_o + float(np.max(np.abs(ant.position))) + 1
        delta = 64 * EPS * scale / max(r_o, 1e-300) + 1e-7      # set_orientation tolerates 1e-8 non-orthogonality
        st = abs(math.sin(th_o))
        okc = abs(r_ - r_o) <= 1e-7 * scale and abs(th_ - th_o) <= min(math.sqrt(2 * delta), delta / max(st, 1e-300)) + 1e-7 \
            and (st < 1e-3 or ang_diff(ph_, ph_o) <= delta / st + 1e-7)
        stats["coords"] += 1
        if not okc:
            ctx.fail("coords:%s:%d" % (cls, it), "_convert_to_antenna_coordinates gives (r,theta,phi)=(%r,%r,%r), geometry gives (%r,%r,%r)" % (r_, th_, ph_, r_o, th_o, ph_o),
                     {"kind": "coords", **base, "point": [float(v) for v in point]})
        # (6) AntennaSystem forwards everything: identical results to the bare antenna
        sysobj = mk.wrap(ant)
        with np.errstate(all="ignore"):
            ra = ant.apply_response(make_signal(times, x, vt), direction=direction, polarization=pol, force_real=fr)
            rs = sysobj.apply_response(make_signal(times, x, vt), direction=direction, polarization=pol, force_real=fr)
        stats["delegation"] += 1
        if not (np.array_equal(ra.values, rs.values) and np.array_equal(ra.times, rs.times) and ra.value_type == rs.value_type):
            ctx.fail("delegation:apply_response:%s" % cls, "AntennaSystem.apply_response differs from its antenna's apply_response (max difference %.3g)" % float(np.max(np.abs(ra.values - rs.values))),
                     {"kind": "delegation", **base})
        n0 = len(ant.signals)
        with np.errstate(all="ignore"):
            sysobj.receive([make_signal(times, x, vt), make_signal(times, y, 1)], direction=direction, polarization=[pol if pol is not None else rand_unit(rng)] * 2, force_real=fr)
        if len(ant.signals) != n0 + 1:
            ctx.fail("delegation:receive:%s" % cls, "AntennaSystem.receive did not store exactly one signal in its antenna", {"kind": "delegation", **base})
        else:
            stats["receive_sum"] += 1
            tot = ant.signals[-1]
            polr = pol if pol is not None else None
            if pol is not None:
                with np.errstate(all="ignore"):
                    r_y = ant.apply_response(make_signal(times, y, 1), direction=direction, polarization=pol, force_real=fr)
                err = float(np.max(np.abs(tot.values - (ra.values + r_y.values))))
                if not err <= 64 * EPS * (float(np.max(np.abs(ra.values))) + float(np.max(np.abs(r_y.values)))) + 1e-300:
                    ctx.fail("receive-sum:%s" % cls, "the stored signal is not the sum of the components' responses (max difference %.3g)" % err,
                             {"kind": "receive_sum", **base})
        zz, xx = rand_frame(rng)
        sysobj.set_orientation(z_axis=zz * 2, x_axis=xx)
        if not (np.allclose(ant.z_axis, zz, atol=1e-14) and np.allclose(ant.x_axis, xx, atol=1e-14)):
            ctx.fail("delegation:set_orientation:%s" % cls, "AntennaSystem.set_orientation did not set its antenna's axes", {"kind": "delegation", **base})
    ctx.extra["probe_counts"] = stats
    ctx.extra["probe_oracles"] = ("direct O(N^2) DFT filter; analytic Butterworth H = iBw/(w0^2-w^2+iBw); gains |z x d|, z.p by vector algebra; "
                                  "rotations from quaternions and from Rodrigues' formula; tolerances = first-order rounding bounds (see harness/props/c08.py) + 1e-9 relative")


def probe_histories(ctx):
    """Multi-step histories: construct (also through AntennaSystem.setup_antenna), respond, re-orient one or more times
    (directly or through the system), respond again.  Every response is judged against the gain oracle for the axes
    REQUESTED LAST (never read back from the object), against a freshly constructed antenna with those axes, and
    under a joint rotation of the current axes, direction and polarization."""
    import pyrex
    rng = ctx.rng
    mk = Maker(rng)
    stats = {"histories": 0, "responses": 0, "reorientations": {"direct": 0, "system": 0}, "fresh": 0, "rotation": 0, "receive": 0, "setup_antenna": 0}
    for it in range(ctx.n(40, 1000)):
        cls = rng.choice(["Antenna", "DipoleAntenna", "DipoleAntenna", "ProbeAntenna"])
        p = mk.params(cls)
        mode = rng.choice(["bare", "wrapped", "setup"])
        if mode == "setup" and cls != "ProbeAntenna":
            np.random.seed(p["np_seed"])
            if cls == "Antenna":
                sysobj = pyrex.AntennaSystem(pyrex.Antenna)
                sysobj.setup_antenna(position=list(p["position"]), z_axis=p["z"], x_axis=p["x"], antenna_factor=p["antenna_factor"],
                                     efficiency=p["efficiency"], noisy=False)
            else:
                sysobj = pyrex.AntennaSystem(pyrex.DipoleAntenna)
                sysobj.setup_antenna(name="d", position=list(p["position"]), center_frequency=p["center_frequency"], bandwidth=p["bandwidth"],
                                     temperature=300, resistance=100, orientation=p["z"], effective_height=p["effective_height"], noisy=False)
            ant = sysobj.antenna
            stats["setup_antenna"] += 1
        else:
            ant = mk.build(p)
            sysobj = mk.wrap(ant) if mode != "bare" else None
        cur_z = np.asarray(p["z"], float) / np.linalg.norm(p["z"])
        cur_x = None if cls == "DipoleAntenna" else np.asarray(p["x"], float) / np.linalg.norm(p["x"])   # the dipole draws its own x-axis
        H = response_H(p)
        af, eff = antenna_factor_expected(p)
        history = []
        stats["histories"] += 1
        nsteps = rng.randint(2, 5)
        for step in range(nsteps):
            do_orient = step > 0 and (rng.random() < 0.7 or step == 1)
            if do_orient:
                z, x = rand_frame(rng)
                z, x = z * vscale(rng), x * vscale(rng)
                via = sysobj is not None and rng.random() < 0.6
                (sysobj if via else ant).set_orientation(z_axis=z, x_axis=x)
                cur_z, cur_x = z / np.linalg.norm(z), x / np.linalg.norm(x)
                history.append({"op": "set_orientation", "z": [float(v) for v in z], "x": [float(v) for v in x], "via_system": bool(via)})
                stats["reorientations"]["system" if via else "direct"] += 1
            # respond
            times, xv = rand_signal_data(rng, rng.choice([2, 4, 8, 16, 32]))
            vt = rng.choice([1, 2])
            direction = rand_dir(rng) * vscale(rng)
            pol = rand_dir(rng) * vscale(rng)
            fr = rng.random() < 0.5
            obj = sysobj if (sysobj is not None and rng.random() < 0.6) else ant
            use_receive = rng.random() < 0.4
            history.append({"op": "receive" if use_receive else "apply_response", "times": [float(t) for t in times], "values": [float(v) for v in xv],
                            "value_type": vt, "direction": [float(v) for v in direction], "polarization": [float(v) for v in pol], "force_real": fr,
                            "through_system": obj is sysobj})
            rep = {"kind": "history", "params": p, "mode": mode, "history": [dict(h) for h in history]}
            ctx.case(key=("history", it, step))
            n0 = len(ant.signals)
            try:
                with np.errstate(all="ignore"):
                    if use_receive:
                        obj.receive(make_signal(times, xv, vt), direction=direction, polarization=pol, force_real=fr)
                        out = ant.signals[-1] if len(ant.signals) == n0 + 1 else None
                    else:
                        out = obj.apply_response(make_signal(times, xv, vt), direction=direction, polarization=pol, force_real=fr)
            except Exception as ex:
                ctx.fail("history-raises:%s" % cls, "%s raised %r in step %d of a construct / re-orient / respond history" % (cls, ex, step), rep)
                break
            stats["responses"] += 1
            if use_receive:
                stats["receive"] += 1
                if out is None:
                    ctx.fail("history-receive-count:%s" % cls, "receive did not store exactly one signal (step %d)" % step, rep)
                    break
            # (a) the oracle for the axes requested last
            fx, hmax = oracle_filter(times, xv, H, fr)
            x_for_oracle = cur_x if cur_x is not None else np.asarray(ant.x_axis, float)     # the dipole's gains do not involve x
            d, pg, dd, pp = expected_gains(_Axes(cur_z, x_for_oracle, ant.position), p, direction, pol)
            k = eff / (af if vt == 2 else 1.0)
            want = fx * d * pg * k
            scale = max(float(np.max(np.abs(fx))), float(np.max(np.abs(xv))))
            tol = filter_tol(xv, hmax, d * pg * k) + (dd * abs(pg) + abs(d) * pp + 64 * EPS * abs(d * pg)) * abs(k) * scale + 1e-9 * float(np.max(np.abs(want))) + 1e-300
            err = float(np.max(np.abs(np.asarray(out.values, float) - want)))
            if not err <= tol:
                ctx.fail("history-factor:%s:%d" % (cls, it),
                         "%s after %d re-orientation(s): the response does not use the gains of the CURRENT axes (directional %.6g x polarization %.6g expected; max error %.3g > %.3g)" % (
                             cls, sum(1 for h in history if h["op"] == "set_orientation"), d, pg, err, tol), rep)
                break
            # (b) a freshly constructed antenna with the current axes answers the same
            p_f = dict(p)
            p_f["z"] = [float(v) for v in cur_z]
            if cur_x is not None:
                p_f["x"] = [float(v) for v in cur_x]
            fresh = mk.build(p_f)
            with np.errstate(all="ignore"):
                r_f = fresh.apply_response(make_signal(times, xv, vt), direction=direction, polarization=pol, force_real=fr)
            stats["fresh"] += 1
            ftol = 2 * ((dd + 64 * EPS) * abs(pg) + abs(d) * (pp + 64 * EPS) + 64 * EPS * abs(d * pg)) * abs(k) * scale + 1e-9 * float(np.max(np.abs(want))) + 1e-300
            err = float(np.max(np.abs(np.asarray(out.values, float) - np.asarray(r_f.values, float))))
            if not err <= ftol:
                ctx.fail("history-fresh:%s:%d" % (cls, it), "%s re-oriented to given axes responds differently from a new %s constructed with those axes (max difference %.3g > %.3g)" % (
                    cls, cls, err, ftol), rep)
                break
            # (c) joint rotation of the CURRENT axes, the direction and the polarization
            if rng.random() < 0.6:
                Rm, rdesc = rand_rotation(rng)
                other = mk.build(p)                      # starts with the construction-time axes, is then re-oriented
                o_obj = mk.wrap(other) if rng.random() < 0.5 else other
                o_obj.set_orientation(z_axis=Rm @ cur_z, x_axis=Rm @ (cur_x if cur_x is not None else np.asarray(ant.x_axis, float)))
                with np.errstate(all="ignore"):
                    r_r = o_obj.apply_response(make_signal(times, xv, vt), direction=Rm @ direction, polarization=Rm @ pol, force_real=fr)
                stats["rotation"] += 1
                err = float(np.max(np.abs(np.asarray(out.values, float) - np.asarray(r_r.values, float))))
                if not err <= ftol:
                    ctx.fail("history-rotation:%s:%d" % (cls, it), "%s: after re-orientation the response is not invariant under a joint rotation of axes, direction and polarization (max difference %.3g > %.3g)" % (
                        cls, err, ftol), dict(rep, rotation=rdesc))
                    break
    ctx.extra["history_probe_counts"] = stats


def probe_receive(ctx):
    """receive() with polarized components of every Signal kind (plain, EmptySignal, FunctionSignal) and every value
    type (incl. undefined / None / power) in every position: the antenna must store exactly one voltage signal equal
    to the SUM of the components' responses (direct-DFT filter x geometric gains x efficiency / antenna factor for
    fields), or -- when any component is neither field nor voltage -- raise ValueError and leave `signals` untouched,
    whatever the order of the components."""
    import pyrex
    rng = ctx.rng
    mk = Maker(rng)
    stats = {"calls": 0, "stored": 0, "refused": 0, "by_first_component": {}, "permutations": 0}
    for it in range(ctx.n(60, 1500)):
        cls = rng.choice(["Antenna", "DipoleAntenna", "DipoleAntenna", "ProbeAntenna"])
        p = mk.params(cls)
        ant = mk.build(p)
        obj = mk.wrap(ant) if rng.random() < 0.4 else ant
        n = rng.choice([2, 4, 8, 16])
        times, _ = rand_signal_data(rng, n)
        direction = None if rng.random() < 0.2 else rand_dir(rng) * vscale(rng)
        fr = rng.random() < 0.5
        H = response_H(p)
        af, eff = antenna_factor_expected(p)
        ncomp = rng.choice([1, 2, 2, 3])
        comps = []
        all_functions = rng.random() < 0.35            # polarized components as propagate() delivers them for lazy pulses
        for ci in range(ncomp):
            ckind, vt, vals, fp = rand_component(rng, times)
            while all_functions and ckind != "function":
                ckind, vt, vals, fp = rand_component(rng, times)
            if all_functions:
                vt = comps[0]["value_type"] if comps else rng.choice([1, 2])
            if rng.random() < 0.6 and vt not in (1, 2):
                vt = rng.choice([1, 2])                      # keep a good share of fully valid lists
            comps.append({"component_kind": ckind, "value_type": vt, "values": [float(v) for v in vals], "function": fp,
                          "polarization": [float(v) for v in rand_dir(rng) * vscale(rng)]})
        orders = [list(range(ncomp))]
        if ncomp > 1:
            perm = list(range(ncomp))
            rng.shuffle(perm)
            if perm != orders[0]:
                orders.append(perm)
                stats["permutations"] += 1
        results = []
        for order in orders:
            cs = [comps[i] for i in order]
            rep = {"kind": "receive_components", "params": p, "through_system": obj is not ant, "times": [float(t) for t in times],
                   "direction": None if direction is None else [float(v) for v in direction], "force_real": fr, "components": cs}
            ctx.case(key=("receive_components", it, tuple(order)))
            sigs = [make_component(c["component_kind"], times, np.asarray(c["values"]), c["value_type"], c["function"]) for c in cs]
            pols = [c["polarization"] for c in cs]
            before = list(ant.signals)
            stats["calls"] += 1
            fk = "%s:%s" % (cs[0]["component_kind"], TYPE_NAMES[0 if cs[0]["value_type"] is None else cs[0]["value_type"]])
            stats["by_first_component"][fk] = stats["by_first_component"].get(fk, 0) + 1
            raised = False
            try:
                with np.errstate(all="ignore"):
                    if ncomp == 1 and rng.random() < 0.5:
                        obj.receive(sigs[0], direction=direction, polarization=pols[0], force_real=fr)
                    else:
                        obj.receive(sigs, direction=direction, polarization=pols, force_real=fr)
            except ValueError:
                raised = True
            valid = all(c["value_type"] in (1, 2) for c in cs)
            untouched = len(ant.signals) == len(before) and all(a is b for a, b in zip(ant.signals, before))
            if not valid:
                stats["refused"] += 1
                if not (raised and untouched):
                    bad = [(c["component_kind"], TYPE_NAMES[0 if c["value_type"] is None else c["value_type"]]) for c in cs]
                    ctx.fail("receive-refusal:%s:%s" % (cls, fk),
                             "%s.receive with components %s (one is neither field nor voltage) %s%s" % (
                                 cls, bad, "raised ValueError" if raised else "was accepted", "" if untouched else " and changed the stored signals"), rep)
                continue
            if raised or len(ant.signals) != len(before) + 1 or not all(a is b for a, b in zip(ant.signals, before)):
                ctx.fail("receive-count:%s:%s" % (cls, fk), "%s.receive of valid components %s" % (cls, "raised ValueError" if raised else "did not append exactly one signal"), rep)
                continue
            stats["stored"] += 1
            out = ant.signals[-1]
            want, tol = np.zeros(n), 1e-300
            for c in cs:
                vals = np.asarray(c["values"])
                fx, hmax = component_response(times, vals, c["function"], H, fr)
                d, pg, dd, pp = expected_gains(oracle_axes(ant, p), p, direction, c["polarization"])
                k = eff / (af if c["value_type"] == 2 else 1.0)
                want += fx * d * pg * k
                sc = max(float(np.max(np.abs(fx))), float(np.max(np.abs(vals))))
                tol += filter_tol(vals, hmax, d * pg * k) + (dd * abs(pg) + abs(d) * pp + 64 * EPS * abs(d * pg)) * abs(k) * sc + 1e-9 * float(np.max(np.abs(fx * d * pg * k)))
            with np.errstate(all="ignore"):
                got = np.asarray(out.values, float)
            err = float(np.max(np.abs(got - want))) if len(got) == n else float("inf")
            if not (err <= tol and out.value_type == pyrex.Signal.Type.voltage and np.array_equal(np.asarray(out.times, float), times)):
                ctx.fail("receive-sum:%s:%s" % (cls, fk),
                         "%s.receive stored a signal that is not the sum of its %d components' responses (first component: %s; max error %.3g > %.3g; type %s)" % (
                             cls, len(cs), fk, err, tol, out.value_type), rep)
            results.append(got)
            if all(c["component_kind"] == "function" for c in cs):
                # the stored sum of function signals on ANOTHER grid (extended on both sides, same dt): every component is
                # its own function with its own filters, re-evaluated there
                dt_ = times[1] - times[0]
                na, nb = rng.choice([1, 3, 5]), rng.choice([0, 2, 4])
                new_times = np.concatenate((times[0] - dt_ * np.arange(na, 0, -1), times, times[-1] + dt_ * np.arange(1, nb + 1)))
                want2, tol2 = np.zeros(len(new_times)), 1e-300
                for c in cs:
                    v2 = pulse_fn(c["function"])(new_times)
                    fx2, hmax2 = component_response(new_times, v2, c["function"], H, fr)
                    d, pg, dd, pp = expected_gains(oracle_axes(ant, p), p, direction, c["polarization"])
                    k = eff / (af if c["value_type"] == 2 else 1.0)
                    want2 += fx2 * d * pg * k
                    sc2 = max(float(np.max(np.abs(fx2))), float(np.max(np.abs(v2))))
                    tol2 += filter_tol(v2, hmax2, d * pg * k) + (dd * abs(pg) + abs(d) * pp + 64 * EPS * abs(d * pg)) * abs(k) * sc2 + 1e-9 * float(np.max(np.abs(fx2 * d * pg * k)))
                with np.errstate(all="ignore"):
                    got2 = np.asarray(out.with_times(new_times).values, float)
                    same_grid = np.asarray(out.with_times(times).values, float)
                stats["regridded"] = stats.get("regridded", 0) + 1
                err2 = float(np.max(np.abs(got2 - want2))) if len(got2) == len(want2) else float("inf")
                if not (err2 <= tol2 and float(np.max(np.abs(same_grid - got))) <= 64 * EPS * (float(np.max(np.abs(got))) + 1e-300)):
                    ctx.fail("receive-regrid:%s:%s" % (cls, fk),
                             "%s: the stored sum of %d function-signal components, evaluated on an extended time grid, is not the sum of the components' responses there (max error %.3g > %.3g)" % (
                                 cls, len(cs), err2, tol2), dict(rep, new_times=[float(t) for t in new_times]))
                # the caller adds the components first (they carry different filter histories), then one apply_response
                if len(cs) >= 2 and len({c["value_type"] for c in cs}) == 1:
                    pol_c = cs[0]["polarization"]
                    total = None
                    for c in cs:
                        sg = make_component(c["component_kind"], times, np.asarray(c["values"]), c["value_type"], c["function"])
                        total = sg if total is None else total + sg
                    with np.errstate(all="ignore"):
                        r_sum = np.asarray(obj.apply_response(total, direction=direction, polarization=pol_c, force_real=fr).values, float)
                    want3, tol3 = np.zeros(n), 1e-300
                    for c in cs:
                        vals = np.asarray(c["values"])
                        fx, hmax = component_response(times, vals, c["function"], H, fr)
                        d, pg, dd, pp = expected_gains(oracle_axes(ant, p), p, direction, pol_c)
                        k = eff / (af if c["value_type"] == 2 else 1.0)
                        want3 += fx * d * pg * k
                        tol3 += filter_tol(vals, hmax, d * pg * k) + (dd * abs(pg) + abs(d) * pp + 64 * EPS * abs(d * pg)) * abs(k) * max(float(np.max(np.abs(fx))), float(np.max(np.abs(vals)))) + 1e-9 * float(np.max(np.abs(fx * d * pg * k)))
                    stats["caller_sums"] = stats.get("caller_sums", 0) + 1
                    err3 = float(np.max(np.abs(r_sum - want3)))
                    if not err3 <= tol3:
                        ctx.fail("response-of-sum:%s:%s" % (cls, fk),
                                 "%s.apply_response(s1 + s2 + ...) of function signals with different filter histories is not the sum of their responses (max error %.3g > %.3g)" % (cls, err3, tol3),
                                 dict(rep, summed_by_caller=True))
        if len(results) == 2:
            sc = float(np.max(np.abs(results[0]))) + 1e-300
            if not float(np.max(np.abs(results[0] - results[1]))) <= 64 * EPS * sc * len(comps) + 1e-300:
                ctx.fail("receive-order:%s" % cls, "%s.receive: the stored sum depends on the order of the polarized components" % cls,
                         {"kind": "receive_components", "params": p, "through_system": obj is not ant, "times": [float(t) for t in times],
                          "direction": None if direction is None else [float(v) for v in direction], "force_real": fr, "components": comps})
    ctx.extra["receive_probe_counts"] = stats


def probe_orientation(ctx):
    """set_orientation with x-axes that are slightly non-perpendicular to z: |z.x| from 1e-9 up to just below and just
    above the tolerance np.isclose(., 0, rtol=0) = 1e-8, and beyond.  Within the tolerance the stored axes must be the
    normalised requested ones (z_axis exactly: a dipole's response must not depend on x); beyond it ValueError."""
    import pyrex
    rng = ctx.rng
    mk = Maker(rng)
    stats = {"accepted": 0, "refused": 0, "by_overlap": {}}
    overlaps = [0.0, 1e-9, 5e-9, 0.99e-8, 1.01e-8, 2e-8, 1e-7, 1e-6, 1e-5, 5e-5, 0.99e-4, 2e-4, 1e-2]
    for it in range(ctx.n(40, 800)):
        cls = rng.choice(["Antenna", "DipoleAntenna", "DipoleAntenna"])
        p = mk.params(cls)
        ant = mk.build(p)
        obj = mk.wrap(ant) if rng.random() < 0.4 else ant
        z, x = rand_frame(rng)
        ov_ = overlaps[it % len(overlaps)] * rng.choice([1.0, -1.0])
        eps_ = ov_ / math.sqrt(max(1 - ov_ * ov_, 1e-300))               # (x + eps z).z / |x + eps z| = ov_
        xr = (x + eps_ * z) * vscale(rng)
        zr = z * vscale(rng)
        zn, xn = zr / np.linalg.norm(zr), xr / np.linalg.norm(xr)
        dot = abs(float(np.dot(zn, xn)))
        if abs(dot - 1e-8) < 1e-12:
            continue
        rep = {"kind": "orientation", "params": p, "through_system": obj is not ant, "z": [float(v) for v in zr], "x": [float(v) for v in xr], "overlap": dot}
        ctx.case(key=("orientation", it))
        kk = "%.0e" % abs(ov_)
        stats["by_overlap"][kk] = stats["by_overlap"].get(kk, 0) + 1
        try:
            obj.set_orientation(z_axis=zr, x_axis=xr)
            raised = False
        except ValueError:
            raised = True
        if dot > 1e-8:
            stats["refused"] += 1
            if not raised:
                ctx.fail("orientation-accepted:%s:%s" % (cls, kk), "%s.set_orientation accepted an x-axis with |z.x| = %.3g > 1e-8 (axes must be perpendicular)" % (cls, dot), rep)
            continue
        stats["accepted"] += 1
        if raised:
            ctx.fail("orientation-refused:%s:%s" % (cls, kk), "%s.set_orientation refused an x-axis with |z.x| = %.3g <= 1e-8" % (cls, dot), rep)
            continue
        ez = float(np.max(np.abs(np.asarray(ant.z_axis, float) - zn)))
        ex = float(np.max(np.abs(np.asarray(ant.x_axis, float) - xn)))
        if not (ez <= 4 * EPS and ex <= 4 * EPS):
            ctx.fail("orientation-axes:%s:%s" % (cls, kk), "%s.set_orientation stored axes that are not the normalised requested ones (z off by %.3g, x off by %.3g) for |z.x| = %.3g" % (cls, ez, ex, dot), rep)
            continue
        # the response uses the requested z-axis
        times, xv = rand_signal_data(rng, 8)
        direction, pol = rand_unit(rng), rand_unit(rng)
        with np.errstate(all="ignore"):
            out = obj.apply_response(make_signal(times, xv, 1), direction=direction, polarization=pol, force_real=True)
        fx, hmax = oracle_filter(times, xv, response_H(p), True)
        d, pg, dd, pp = expected_gains(_Axes(zn, xn, ant.position), p, direction, pol)
        af, eff = antenna_factor_expected(p)
        want = fx * d * pg * eff
        tol = filter_tol(xv, hmax, d * pg * eff) + (dd * abs(pg) + abs(d) * pp + 64 * EPS * abs(d * pg)) * eff * max(float(np.max(np.abs(fx))), float(np.max(np.abs(xv)))) + 1e-9 * float(np.max(np.abs(want))) + 1e-300
        # the accepted non-orthogonality enters the polar angle through r^2 = x^2 + y^2 + z^2 = 1 + O(|z.x|):
        # |delta sin(theta)| <= |z.x| cos^2(theta) / sin(theta) to first order (factor 2 kept as margin)
        tol += 2 * dot / max(abs(d), 1e-9) * abs(pg) * eff * float(np.max(np.abs(fx)))
        if not float(np.max(np.abs(np.asarray(out.values, float) - want))) <= tol:
            ctx.fail("orientation-response:%s:%s" % (cls, kk), "%s: after set_orientation with |z.x| = %.3g the response does not follow the requested z-axis" % (cls, dot), rep)
    ctx.extra["orientation_probe_counts"] = stats


def probe_shared_signal(ctx):
    """ONE signal object (FunctionSignal with one or two function groups, or a plain Signal) handed to several antennas, or
    several times to the same antenna, through apply_response / receive, directly and through AntennaSystem: every
    response is judged by the independent oracle for that antenna alone, and the caller's signal must stay what it was."""
    import pyrex
    rng = ctx.rng
    mk = Maker(rng)
    stats = {"histories": 0, "uses": 0, "by_input": {}, "same_antenna_twice": 0}
    for it in range(ctx.n(40, 800)):
        n = rng.choice([4, 8, 16, 32])
        times, xv = rand_signal_data(rng, n)
        dt = times[1] - times[0]
        vt = rng.choice([1, 2])
        ikind = rng.choice(["function", "function", "function:sum", "signal"])
        ty = pyrex.Signal.Type(vt)
        if ikind == "signal":
            sig, known = pyrex.Signal(times, xv, value_type=ty), np.asarray(xv, float)
            desc_in = {"input": "signal", "values": [float(v) for v in xv]}
        else:
            fps = []
            for _g in range(2 if ikind.endswith("sum") else 1):
                fps.append({"amp": 10 ** rng.uniform(-2, 2), "tc": float(times[0] + rng.uniform(0.2, 0.8) * n * dt), "w": float(rng.uniform(1, 3) * dt),
                            "f0": float(rng.uniform(0.05, 0.3) / dt)})
            sig = pyrex.FunctionSignal(times, pulse_fn(fps[0]), value_type=ty)
            known = pulse_fn(fps[0])(times)
            if len(fps) == 2:
                sig = sig + pyrex.FunctionSignal(times, pulse_fn(fps[1]), value_type=ty)
                known = known + pulse_fn(fps[1])(times)
            desc_in = {"input": ikind, "functions": fps}
        stats["by_input"][ikind] = stats["by_input"].get(ikind, 0) + 1
        # two antennas with different bands / gains; dipoles and the phi-dependent subclass change a signal visibly
        ants = []
        for _a in range(2):
            cls = rng.choice(["DipoleAntenna", "DipoleAntenna", "ProbeAntenna", "Antenna"])
            p = mk.params(cls)
            if cls == "DipoleAntenna":
                p["center_frequency"] = rng.uniform(0.08, 0.3) / dt
                p["bandwidth"] = p["center_frequency"] * rng.choice([0.3, 0.8])
            a_ = mk.build(p)
            ants.append((p, a_, mk.wrap(a_)))
        stats["histories"] += 1
        uses, prev = [], None
        for step in range(rng.randint(2, 4)):
            ai = rng.choice([0, 1]) if step else 0
            if prev == ai:
                stats["same_antenna_twice"] += 1
            prev = ai
            p, a_, sys_ = ants[ai]
            via = rng.random() < 0.5
            op = rng.choice(["apply_response", "receive"])
            direction = rand_unit(rng)
            pol = rand_dir(rng) * vscale(rng)
            fr = rng.random() < 0.5
            uses.append({"antenna": ai, "op": op, "through_system": via, "direction": [float(v) for v in direction],
                         "polarization": [float(v) for v in pol], "force_real": fr})
            rep = {"kind": "shared_signal", "times": [float(t) for t in times], "value_type": vt, **desc_in,
                   "antennas": [ants[0][0], ants[1][0]], "uses": [dict(u) for u in uses]}
            ctx.case(key=("shared", it, step))
            tgt = sys_ if via else a_
            n0 = len(a_.signals)
            try:
                with np.errstate(all="ignore"):
                    if op == "receive":
                        tgt.receive(sig, direction=direction, polarization=pol, force_real=fr)
                        out = a_.signals[-1] if len(a_.signals) == n0 + 1 else None
                    else:
                        out = tgt.apply_response(sig, direction=direction, polarization=pol, force_real=fr)
                    got = None if out is None else np.asarray(out.values, float)
            except Exception as ex:
                ctx.fail("shared-raises:%s" % p["cls"], "%s.%s raised %r when given a signal that had been used before" % (p["cls"], op, ex), rep)
                break
            stats["uses"] += 1
            if got is None:
                ctx.fail("shared-receive-count:%s" % p["cls"], "receive did not store exactly one signal", rep)
                break
            fx, hmax = oracle_filter(times, known, response_H(p), fr)
            d, pg, dd, pp = expected_gains(oracle_axes(a_, p), p, direction, pol)
            af, eff = antenna_factor_expected(p)
            k = eff / (af if vt == 2 else 1.0)
            want = fx * d * pg * k
            sc = max(float(np.max(np.abs(fx))), float(np.max(np.abs(known))))
            tol = 2 * filter_tol(known, hmax, d * pg * k) + (dd * abs(pg) + abs(d) * pp + 64 * EPS * abs(d * pg)) * abs(k) * sc + 1e-9 * float(np.max(np.abs(want))) + 1e-300
            err = float(np.max(np.abs(got - want))) if len(got) == n else float("inf")
            if not err <= tol:
                ctx.fail("shared-response:%s:%s:%d" % (p["cls"], ikind, step),
                         "use %d of the same %s object (%s by antenna %d, a %s%s): the response is not this antenna's filter x gains applied to the caller's signal (max error %.3g > %.3g)" % (
                             step + 1, desc_in["input"], op, ai, p["cls"], " through AntennaSystem" if via else "", err, tol), rep)
                break
            with np.errstate(all="ignore"):
                fresh = np.asarray(sig.copy().values, float)
                cached = np.asarray(sig.values, float)
            itol = 64 * EPS * float(np.max(np.abs(known))) * 2 + 1e-300
            if not (np.array_equal(np.asarray(sig.times, float), times) and sig.value_type == ty
                    and float(np.max(np.abs(fresh - known))) <= itol and float(np.max(np.abs(cached - known))) <= itol):
                ctx.fail("shared-input-modified:%s:%s" % (p["cls"], ikind),
                         "%s.%s modified the caller's %s (its values now differ from the original samples by %.3g)" % (
                             p["cls"], op, desc_in["input"], float(max(np.max(np.abs(fresh - known)), np.max(np.abs(cached - known))))), rep)
                break
    ctx.extra["shared_signal_probe_counts"] = stats


def probe_system_histories(ctx):
    """receive / read / clear histories THROUGH AntennaSystem: after every step `system.signals` must hold exactly the
    signals received since the last clear(), each equal to the antenna's response to THAT signal (the base system's front
    end passes signals through)."""
    import pyrex
    rng = ctx.rng
    mk = Maker(rng)
    stats = {"histories": 0, "ops": {}}
    for it in range(ctx.n(30, 600)):
        cls = rng.choice(["Antenna", "DipoleAntenna", "DipoleAntenna", "ProbeAntenna"])
        p = mk.params(cls)
        ant = mk.build(p)
        sysobj = mk.wrap(ant)
        H = response_H(p)
        af, eff = antenna_factor_expected(p)
        n = rng.choice([4, 8, 16])
        times, _ = rand_signal_data(rng, n)
        expected = []                     # (want, tol) of every signal received since the last clear
        history = []
        stats["histories"] += 1
        ok = True
        for step in range(rng.randint(3, 8)):
            op = rng.choice(["receive", "receive", "read", "read", "clear"])
            stats["ops"][op] = stats["ops"].get(op, 0) + 1
            if op == "receive":
                _, xv = rand_signal_data(rng, n)
                vt = rng.choice([1, 2])
                direction, pol = rand_dir(rng) * vscale(rng), rand_dir(rng) * vscale(rng)
                fr = rng.random() < 0.5
                with np.errstate(all="ignore"):
                    sysobj.receive(make_signal(times, xv, vt), direction=direction, polarization=pol, force_real=fr)
                fx, hmax = oracle_filter(times, xv, H, fr)
                d, pg, dd, pp = expected_gains(oracle_axes(ant, p), p, direction, pol)
                k = eff / (af if vt == 2 else 1.0)
                want = fx * d * pg * k
                tol = filter_tol(xv, hmax, d * pg * k) + (dd * abs(pg) + abs(d) * pp + 64 * EPS * abs(d * pg)) * abs(k) * max(float(np.max(np.abs(fx))), float(np.max(np.abs(xv)))) \
                    + 1e-9 * float(np.max(np.abs(want))) + 1e-300
                expected.append((want, tol))
                history.append({"op": "receive", "values": [float(v) for v in xv], "value_type": vt, "direction": [float(v) for v in direction],
                                "polarization": [float(v) for v in pol], "force_real": fr})
            elif op == "clear":
                sysobj.clear(reset_noise=rng.random() < 0.3)
                expected = []
                history.append({"op": "clear"})
            else:
                history.append({"op": "read"})
            if op != "read" and rng.random() < 0.5:
                continue                                   # not every change is followed by a read
            rep = {"kind": "system_history", "params": p, "times": [float(t) for t in times], "history": [dict(h) for h in history]}
            ctx.case(key=("system_history", it, step))
            with np.errstate(all="ignore"):
                got = list(sysobj.signals)
            if len(got) != len(expected) or len(ant.signals) != len(expected):
                ctx.fail("system-signals-count:%s" % cls, "after %s: AntennaSystem.signals holds %d signals (its antenna %d), %d were received since the last clear()" % (
                    [h["op"] for h in history], len(got), len(ant.signals), len(expected)), rep)
                ok = False
                break
            for j, (g_, (want, tol)) in enumerate(zip(got, expected)):
                err = float(np.max(np.abs(np.asarray(g_.values, float) - want)))
                if not (err <= tol and np.array_equal(np.asarray(g_.times, float), times)):
                    ctx.fail("system-signals-stale:%s" % cls,
                             "after %s: AntennaSystem.signals[%d] is not the response to the signal received at that position since the last clear() (max error %.3g > %.3g)" % (
                                 [h["op"] for h in history], j, err, tol), rep)
                    ok = False
                    break
            if not ok:
                break
    ctx.extra["system_history_counts"] = stats


# ---------------------------------------------------------------------------- entry points
def run(ctx):
    ctx.rule = ("correspondence cases: (class, constructor parameters, orientation, point / signal / value type / direction / polarization / force_real), "
                "receive histories of 1-4 calls with 1-3 polarized components incl. refused types, container-length and time-grid mismatches; "
                "non-trivial = distinct inputs; probes: linearity, factor, refusal, joint rotation, coordinates, delegation on Antenna, DipoleAntenna, "
                "a phi-dependent subclass, each also through AntennaSystem")
    ctx.trusted += ["Coq 8.16.1 kernel", "tools/py2coq.py + tools/gen_antenna.py (translator; meaning of the NumPy whitelist, scalar reading of frequency_response)",
                    "harness/realextract.py extraction directives (R -> OCaml float), correspondence only",
                    "Model/ButterModel.v (scipy.signal.butter order 1 analog band-pass, scipy.signal.freqs) and Model/AntennaResponseModel.v (Antenna.receive, Signal.__add__) are hand-written: validated by correspondence, receive pinned by AST hash"]
    ctx.assumptions += ["theorems are over the real numbers; binary64 rounding is covered by the numeric correspondence and probes only",
                        "the linearity / energy statements exist in two forms: for any filter with C05's three properties (hypotheses), and hypothesis-free for C05's concrete model of Signal.filter_frequencies (response_linear_and_energy_concrete, via Proofs/FilterBridge.v); what remains assumed is only that FilterModel.v models the NumPy/SciPy FFT pipeline (C05's correspondence)",
                        "every proper rotation is the rotation of a unit quaternion (standard fact, not proved here)",
                        "signal values and gains are real (Antenna and DipoleAntenna return real gains)"]
    ctx.partial += []
    try:
        files, hashes = gen_files(ctx.scratch)
        for k, v in files.items():
            ctx.write_gen(k, v)
        ctx.oblige("gen:Gen_antenna", True)
        ctx.extra["translated_functions"] = hashes
    except Exception as e:
        ctx.oblige("gen:Gen_antenna", False, "translation failed (fail-closed): %s" % e)
        probes(ctx)
        probe_histories(ctx)
        probe_receive(ctx)
        probe_orientation(ctx)
        probe_shared_signal(ctx)
        probe_system_histories(ctx)
        return
    ok = ctx.coq_build("C08")
    if ok:
        try:
            ok = correspondence(ctx)
        except Exception as e:
            ctx.oblige("corr:antenna", False, repr(e)[-1500:])
    probes(ctx)
    probe_histories(ctx)
    probe_receive(ctx)
    probe_orientation(ctx)
    probe_shared_signal(ctx)
    probe_system_histories(ctx)


def replay(ctx, obj):
    import pyrex
    print(json.dumps(obj, indent=1, default=str)[:3000])
    mk = Maker(ctx.rng)
    if obj.get("kind") == "shared_signal":
        times = np.asarray(obj["times"])
        ty = pyrex.Signal.Type(obj["value_type"])
        if obj["input"] == "signal":
            sig, known = pyrex.Signal(times, np.asarray(obj["values"]), value_type=ty), np.asarray(obj["values"])
        else:
            fps = obj["functions"]
            sig, known = pyrex.FunctionSignal(times, pulse_fn(fps[0]), value_type=ty), pulse_fn(fps[0])(times)
            for fp in fps[1:]:
                sig, known = sig + pyrex.FunctionSignal(times, pulse_fn(fp), value_type=ty), known + pulse_fn(fp)(times)
        built = [mk.build(q) for q in obj["antennas"]]
        for i, u in enumerate(obj["uses"]):
            q, a_ = obj["antennas"][u["antenna"]], built[u["antenna"]]
            tgt = mk.wrap(a_) if u["through_system"] else a_
            if u["op"] == "receive":
                tgt.receive(sig, direction=u["direction"], polarization=u["polarization"], force_real=u["force_real"])
                out = a_.signals[-1]
            else:
                out = tgt.apply_response(sig, direction=u["direction"], polarization=u["polarization"], force_real=u["force_real"])
            fx, _ = oracle_filter(times, known, response_H(q), u["force_real"])
            d, pg, _, _ = expected_gains(a_, q, u["direction"], u["polarization"])
            af, eff = antenna_factor_expected(q)
            k = eff / (af if obj["value_type"] == 2 else 1.0)
            print("use %d: %s by antenna %d (%s) -> %s\n        expected %s\n        caller's signal now (fresh evaluation) %s, originally %s" % (
                i + 1, u["op"], u["antenna"], q["cls"], np.asarray(out.values)[:5], (fx * d * pg * k)[:5], np.asarray(sig.copy().values)[:5], known[:5]))
        return 1
    if "params" not in obj:
        return 1
    p = obj["params"]
    ant = mk.build(p)
    o = mk.wrap(ant) if obj.get("through_system") else ant
    print("antenna:", ant, "z_axis", ant.z_axis, "x_axis", ant.x_axis, "antenna_factor", ant.antenna_factor, "efficiency", ant.efficiency)
    if obj.get("kind") == "orientation":
        try:
            o.set_orientation(z_axis=obj["z"], x_axis=obj["x"])
            print("set_orientation accepted; stored z_axis", ant.z_axis, "x_axis", ant.x_axis)
        except ValueError as e:
            print("set_orientation -> ValueError:", e)
        zn, xn = np.asarray(obj["z"]) / np.linalg.norm(obj["z"]), np.asarray(obj["x"]) / np.linalg.norm(obj["x"])
        print("requested (normalised) z", zn, "x", xn, "|z.x| = %.3g; expected: %s" % (abs(float(np.dot(zn, xn))),
              "accepted with exactly these axes" if abs(float(np.dot(zn, xn))) <= 1e-8 else "ValueError"))
        return 1
    if "x" in obj and obj.get("kind") not in ("orientation", "shared_signal", "receive_components", "history"):
        times = np.asarray(obj["times"])
        for vt in [obj.get("value_type", 1), obj.get("bad_type", None)]:
            try:
                s = make_signal(times, np.asarray(obj["x"]), vt)
                r = o.apply_response(s, direction=obj.get("direction"), polarization=obj.get("polarization"), force_real=obj.get("force_real", False))
                H = response_H(p)
                f, _ = oracle_filter(times, np.asarray(obj["x"]), H, obj.get("force_real", False))
                d, pg, _, _ = expected_gains(ant, p, obj.get("direction"), obj.get("polarization"))
                af, eff = antenna_factor_expected(p)
                print("value_type", vt, "implementation:", r.values[:8], "\n   expected (filtered x %.6g x %.6g x %.6g%s):" % (d, pg, eff, " / %.6g" % af if vt == 2 else ""),
                      (f * d * pg * eff / (af if vt == 2 else 1))[:8])
            except ValueError as e:
                print("value_type", vt, "-> ValueError:", e)
    if "point" in obj:
        print("coords:", ant._convert_to_antenna_coordinates(np.asarray(obj["point"])))
    if obj.get("kind") == "receive_components":
        times = np.asarray(obj["times"])
        cs = obj["components"]
        sigs = [make_component(c["component_kind"], times, np.asarray(c["values"]), c["value_type"], c["function"]) for c in cs]
        before = len(ant.signals)
        try:
            o.receive(sigs, direction=obj.get("direction"), polarization=[c["polarization"] for c in cs], force_real=obj.get("force_real", False))
            res = "accepted"
        except ValueError as e:
            res = "ValueError(%s)" % e
        print("components:", [(c["component_kind"], c["value_type"]) for c in cs], "->", res, "; signals %d -> %d" % (before, len(ant.signals)))
        H = response_H(p)
        af, eff = antenna_factor_expected(p)
        if all(c["value_type"] in (1, 2) for c in cs):
            want = np.zeros(len(times))
            for c in cs:
                fx, _ = component_response(times, np.asarray(c["values"]), c.get("function"), H, obj.get("force_real", False))
                d, pg, _, _ = expected_gains(oracle_axes(ant, p), p, obj.get("direction"), c["polarization"])
                want += fx * d * pg * eff / (af if c["value_type"] == 2 else 1.0)
            print("expected stored signal (sum of the components' responses):", want[:6])
            if len(ant.signals) > before:
                print("stored signal:", np.asarray(ant.signals[-1].values)[:6], "type", ant.signals[-1].value_type)
        else:
            print("expected: ValueError and `signals` unchanged (a component is neither field nor voltage)")
        return 1
    if "history" in obj:
        # construct / re-orient / respond history: replay it, show the response next to the oracle for the axes requested last
        sysobj = o if obj.get("through_system") else (mk.wrap(ant) if obj.get("mode") in ("wrapped", "setup") else None)
        cur_z = np.asarray(p["z"], float) / np.linalg.norm(p["z"])
        cur_x = np.asarray(ant.x_axis, float)
        H = response_H(p)
        af, eff = antenna_factor_expected(p)
        for i, h in enumerate(obj["history"]):
            if h["op"] == "set_orientation":
                tgt = sysobj if (h["via_system"] and sysobj is not None) else ant
                tgt.set_orientation(z_axis=h["z"], x_axis=h["x"])
                cur_z, cur_x = np.asarray(h["z"]) / np.linalg.norm(h["z"]), np.asarray(h["x"]) / np.linalg.norm(h["x"])
                print("step %d: set_orientation%s -> z_axis %s x_axis %s" % (i, " (through AntennaSystem)" if h["via_system"] else "", ant.z_axis, ant.x_axis))
                continue
            tgt = sysobj if (h["through_system"] and sysobj is not None) else ant
            times, xv = np.asarray(h["times"]), np.asarray(h["values"])
            sig = make_signal(times, xv, h["value_type"])
            if h["op"] == "receive":
                tgt.receive(sig, direction=h["direction"], polarization=h["polarization"], force_real=h["force_real"])
                out = ant.signals[-1]
            else:
                out = tgt.apply_response(sig, direction=h["direction"], polarization=h["polarization"], force_real=h["force_real"])
            fx, _ = oracle_filter(times, xv, H, h["force_real"])
            d, pg, _, _ = expected_gains(_Axes(cur_z, cur_x, ant.position), p, h["direction"], h["polarization"])
            k = eff / (af if h["value_type"] == 2 else 1.0)
            print("step %d: %s -> implementation %s\n         expected for the current axes (directional %.6g x polarization %.6g x %.6g): %s" % (
                i, h["op"], np.asarray(out.values)[:6], d, pg, k, (fx * d * pg * k)[:6]))
        return 1
    if "steps" in obj:
        # a receive history: replay it and show what the antenna stored / refused
        for i, st in enumerate(obj["steps"]):
            comps = st["components"]
            sigs = [make_component(c.get("component_kind", "signal"), np.asarray(c["times"]), np.asarray(c["values"]), c["value_type"], c.get("function"))
                    for c in comps]
            pols = [c["polarization"] for c in comps]
            before = len(ant.signals)
            try:
                if st["kind"] == "single":
                    o.receive(sigs[0], direction=obj.get("direction"), polarization=pols[0], force_real=obj.get("force_real", False))
                elif st["kind"] == "len_mismatch":
                    o.receive(sigs, direction=obj.get("direction"), polarization=pols[:1], force_real=obj.get("force_real", False))
                elif st["kind"] == "pol_not_list":
                    o.receive(sigs, direction=obj.get("direction"), polarization=None, force_real=obj.get("force_real", False))
                else:
                    o.receive(sigs, direction=obj.get("direction"), polarization=pols, force_real=obj.get("force_real", False))
                res = "stored"
            except ValueError as e:
                res = "ValueError(%s)" % e
            print("step %d (%s, components %s): %s; signals %d -> %d%s" % (i, st["kind"], [(c.get("component_kind", "signal"), c["value_type"]) for c in comps], res, before, len(ant.signals),
                                                                       "" if res != "stored" else "; last values %s" % ant.signals[-1].values[:6]))
        print("model: a refused call leaves `signals` unchanged; an accepted call appends exactly one signal, the sum of the components' responses")
    return 1
