From Coq Require Import List ZArith.
From PyrexModel Require Import IOModel.
Theorem placeholder_C11 : n_events init_state = 0%Z.
Proof. reflexivity. Qed.
Print Assumptions placeholder_C11.
