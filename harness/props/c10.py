"""C10: Event kernel delivers one time-aligned signal per ray solution, any component.

Theorems: coq/Props/C10.v over coq/Model/KernelModel.v (all events / antenna sets /
oracles) + the interface table generated from the source (coq/Gen/Gen_iface.v).
Tie 1: recording stub components drive the real EventKernel.event; the ordered call log
       (tracer constructions, signal model calls, propagate calls, receive calls, trigger
       calls, writer.add arguments, return value) is compared exactly with KernelModel.run.
Tie 2: the real component matrix (4 ray tracers x matching ice x 3 Askaryan models x
       generators, with and without attenuation_interpolation) is run on tiny events and the
       statement itself is checked on the real objects.
"""
import json
import os
import sys
import tempfile

import numpy as np

from harness import common
from harness.common import REPO, ROOT
from harness.props.c19 import norm, lst, zl, ast_pins

IMPORTS = ("From Coq Require Import List ZArith Bool.\nImport ListNotations.\n"
           "From PyrexModel Require Import KernelModel.\nOpen Scope Z_scope.\n")

INTERP = {0: None, 1: 0.1, 2: 0.5}
TRIG_KEYS = {0: "global", 1: "a", 2: "b"}
AXES = [(1, 0, 0), (-1, 0, 0), (0, 1, 0), (0, -1, 0), (0, 0, 1), (0, 0, -1)]
NGRID = 8
# weights are dyadic so that float products are exact; the model sees them scaled by 2**64
W_SCALE = 2 ** 64
W_VALUES = [None, None, 0.0, 2.0 ** -30, 1 / 16, 1 / 8, 1 / 4, 1 / 2, 1.0]
W_THRESH = [2.0 ** -40, 1 / 32, 1 / 8, 1 / 4, 1 / 2]


def wz(x):
    """exact scaled integer of a dyadic weight"""
    from fractions import Fraction
    v = Fraction(x) * W_SCALE
    assert v.denominator == 1, x
    return int(v)


def true_weight(q):
    """oracle for the documented total weight, from the stored partial weights only:
    the forced weight if given, else survival * interaction with an unset weight counting as 1"""
    from fractions import Fraction
    if q.get("forced") is not None:
        return Fraction(q["forced"])
    w = Fraction(1)
    for k in ("surv", "int"):
        if q[k] is not None:
            w *= Fraction(q[k])
    return w


PINNED = [("pyrex/kernel.py", ["EventKernel.event", "EventKernel.__init__"])]
PINS = {   # values for the source the model was written against
    "pyrex/kernel.py:EventKernel.event": "a950b15619091164",
    "pyrex/kernel.py:EventKernel.__init__": "6ee235c7c157f3c4",
}


def pins_changed():
    now = {}
    for rel, names in PINNED:
        try:
            now.update({rel + ":" + k: v for k, v in ast_pins(rel, names).items()})
        except Exception as e:
            now[rel] = "unreadable: %s" % e
    return [k for k in now if PINS.get(k) != now[k]], now


# ------------------------------------------------------------------ generated interface table
def gen_files(scratch):
    out_v = os.path.join(scratch, "Gen_iface.v")
    out_json = os.path.join(scratch, "iface.json")
    rc, out = common.sh([sys.executable, "-W", "ignore", os.path.join(ROOT, "tools", "iface_table.py"), REPO, out_v, out_json])
    if rc:
        raise RuntimeError(out[-1500:])
    files = {"Gen_iface": open(out_v).read()}
    data = json.load(open(out_json))
    # the propagate() models the linked theorem (Props/C10_link.v) is about: regenerated from the source by
    # C03's translator (identical text to what the C03 check installs)
    try:
        from harness.props import c03
        files2, side = c03.gen_files(scratch)
        files.update(files2)
        data["prop_gen"] = "ok"
    except Exception as e:
        data["prop_gen"] = "failed: %s" % str(e)[-800:]
    return files, data


def py_accepts(sg, site):
    """independent re-statement of 'Python accepts this call' used to name a failing pair"""
    params = [p for p, _ in sg["params"]]
    for k in site["kw"]:
        if k in params:
            if params.index(k) < site["npos"]:
                return False, "multiple values for %r" % k
        elif not sg["varkw"]:
            return False, "unexpected keyword argument %r" % k
    if site["npos"] > len(params) and not sg["varargs"]:
        return False, "too many positional arguments"
    for i, (p, d) in enumerate(sg["params"]):
        if not d and i >= site["npos"] and p not in site["kw"]:
            return False, "missing argument %r" % p
    return True, ""


# ------------------------------------------------------------------ scenarios for the stub correspondence
def gen_scenario(rng, big):
    """A kernel configuration + a few events, all data integer/dyadic."""
    nants = rng.choice([0, 1, 2, 2, 3, 4] if big else [1, 2, 2, 3])
    ants = list(range(1, nants + 1))
    sc = {"ants": ants, "t0": rng.choice([-16, 0, 8]), "omax": rng.choice([None, 20, 40, 100, 150]),
          "interp": rng.choice([0, 1, 2]), "writer": rng.random() < 0.7}
    r = rng.random()
    if r < 0.2:
        sc["wmin"] = None
    elif r < 0.65:
        sc["wmin"] = ("scalar", rng.choice(W_THRESH))
    else:
        sc["wmin"] = (rng.choice(["tuple", "list"]), rng.choice([0.0] + W_THRESH), rng.choice([0.0] + W_THRESH))
    r = rng.random()
    if r < 0.3:
        sc["trig"] = None
    elif r < 0.6:
        sc["trig"] = ("fun", rng.random() < 0.5)
    else:
        keys = [k for k in (1, 0, 2) if rng.random() < 0.75]
        rng.shuffle(keys)
        sc["trig"] = ("dict", [(k, rng.random() < 0.5) for k in keys])
    nev = rng.randint(1, 3)
    events, trace, sigfail = [], [], []
    pid, pth, count = 0, 100, rng.randint(0, 5)
    sc["count0"] = count
    for e in range(nev):
        qs = []
        for _ in range(rng.choice([0, 1, 1, 2, 3, 4] if big else [1, 1, 2, 3])):
            pid += 1
            # partial weights as the generators store them: unset, exactly 0 (underflow), tiny,
            # below / at / above the thresholds, 1; now and then a forced total weight
            q = {"id": pid, "surv": rng.choice(W_VALUES), "int": rng.choice(W_VALUES),
                 "forced": rng.choice(W_VALUES[1:]) if rng.random() < 0.15 else None,
                 "dir": rng.choice(AXES), "thc": rng.choice([60, 60, 0])}
            qs.append(q)
            for a in ants:
                r = rng.random()
                if r < 0.2:
                    trace.append((pid, a, None))              # rt.exists is False
                    continue
                sols = []
                for _ in range(rng.choice([0, 1, 2, 2, 3])):
                    pth += 1
                    # unique tof and path length per path: the stubs recover the path from them
                    sols.append({"id": pth, "tof": pth * 4 + rng.randint(0, 3), "emit": rng.choice(AXES),
                                 "recv": rng.randint(1, 9), "len": pth * 16})
                    if rng.random() < 0.2:
                        sigfail.append((pid, pth))
                trace.append((pid, a, sols))
        count += rng.randint(1, 4)
        events.append({"id": 1000 + e, "qs": qs, "count": count})
    sc.update(events=events, trace=trace, sigfail=sigfail)
    return sc


def coq_vec(v):
    return "(%s, %s, %s)" % tuple(zl(x) for x in v)


def coq_opt(x):
    return "None" if x is None else "(Some %s)" % zl(x)


def scenario_coq(sc):
    def path(p):
        return "(mkpath %s %s %s %s %s)" % (zl(p["id"]), zl(p["tof"]), coq_vec(p["emit"]), zl(p["recv"]), zl(p["len"]))
    tr = lst("(%s, %s, %s)" % (zl(p), zl(a), "None" if s is None else "(Some %s)" % lst(path(x) for x in s)) for p, a, s in sc["trace"])
    sf = lst("(%s, %s)" % (zl(p), zl(h)) for p, h in sc["sigfail"])
    w = sc["wmin"]
    wm = "(WScalar 0)" if w is None else "(WScalar %s)" % zl(wz(w[1])) if w[0] == "scalar" else "(WPair %s %s)" % (zl(wz(w[1])), zl(wz(w[2])))
    t = sc["trig"]
    b = lambda x: "true" if x else "false"
    tg = "TNone" if t is None else "(TFun %s)" % b(t[1]) if t[0] == "fun" else "(TDict %s)" % lst("(%s, %s)" % (zl(k), b(v)) for k, v in t[1])
    cfg = "(mkcfg %s (tbl_trace %s) (tbl_sig %s) %s %s %s %s %s %s)" % (
        lst(zl(a) for a in sc["ants"]), tr, sf, zl(180 if sc["omax"] is None else sc["omax"]), wm, zl(sc["interp"]), tg,
        b(sc["writer"]), zl(sc["t0"]))

    def part(q):
        return "(mkpart %s %s %s %s %s %s)" % (zl(q["id"]), zl(wz(true_weight(q))),
                                                coq_opt(None if q["surv"] is None else wz(q["surv"])),
                                                coq_opt(None if q["int"] is None else wz(q["int"])), coq_vec(q["dir"]), zl(q["thc"]))
    evs = lst("(%s, %s, %s)" % (zl(e["id"]), lst(part(q) for q in e["qs"]), zl(e["count"])) for e in sc["events"])
    return "run %s %s %s" % (cfg, zl(sc["count0"]), evs)


# ------------------------------------------------------------------ recording stubs around the real kernel
def run_kernel(sc):
    """Drive the real EventKernel with recording stubs; returns [(log, ret)] per event."""
    from pyrex.kernel import EventKernel
    from pyrex.signals import EmptySignal, Signal
    log = []
    grid = np.arange(NGRID, dtype=float) * 0.5 + sc["t0"]
    trace = {(p, a): s for p, a, s in sc["trace"]}
    sigfail = set(map(tuple, sc["sigfail"]))
    by_tof = {s["tof"]: s for v in trace.values() if v for s in v}
    by_len = {s["len"]: s for v in trace.values() if v for s in v}
    holder = {}

    class Ice:
        def index(self, z):
            return 2.0 if z > -150 else 1.0       # arccos(1/2) = 60 deg, arccos(1) = 0
    ice = Ice()

    class Path:
        def __init__(self, s):
            self.s = s
            self.tof = float(s["tof"])
            self.emitted_direction = np.array(s["emit"], dtype=float)
            self.received_direction = np.array([s["recv"], 0, 0], dtype=float)
            self.path_length = float(s["len"])

        def propagate(self, **kw):
            keys = sorted(kw)
            interp = [k for k, v in INTERP.items() if v == kw.get("attenuation_interpolation", "missing")]
            pol = kw.get("polarization")
            pulse = kw.get("signal")
            ok = keys == ["attenuation_interpolation", "polarization", "signal"] and isinstance(pulse, Pulse)
            log.append("CPropagate %s %s %s %s" % (zl(self.s["id"]), zl(pulse.pid if ok else -1),
                                                    coq_vec([int(x) for x in pol]) if ok and all(float(x).is_integer() for x in pol) else "(9, 9, 9)",
                                                    zl(interp[0] if interp else -1)))
            out = (Out(self, pulse, "s"), Out(self, pulse, "p"))
            pols = (("pol", self.s["id"], "s"), ("pol", self.s["id"], "p"))
            holder[id(out)] = pols
            return out, pols

    class Out:
        def __init__(self, path, pulse, which):
            self.path, self.pulse, self.which = path, pulse, which

    class Pulse:
        def __init__(self, pid, s):
            self.pid, self.s = pid, s

    class Tracer:
        def __init__(self, from_point, to_point, **kw):
            pid, aid = int(from_point[0]), int(to_point[0])
            ok = list(kw) == ["ice_model"] and kw["ice_model"] is ice
            log.append("CTrace %s %s" % (zl(pid if ok else -1), zl(aid)))
            sols = trace.get((pid, aid))
            self.exists = sols is not None
            self.solutions = [Path(s) for s in (sols or [])]

    def signal_model(**kw):
        ok = sorted(kw) == ["ice_model", "particle", "times", "viewing_angle", "viewing_distance"] and kw["ice_model"] is ice
        q = kw["particle"]
        s = by_len.get(kw["viewing_distance"])
        t = kw["times"]
        t0 = int(t[0]) if (ok and np.array_equal(t, grid)) else -999
        psi = np.degrees(kw["viewing_angle"])
        log.append("CSignal %s %s %s %s %s" % (zl(q.pid), zl(s["id"] if s else -1), zl(int(round(psi))),
                                                zl(int(kw["viewing_distance"])), zl(t0)))
        if s and (q.pid, s["id"]) in sigfail:
            raise ValueError("scripted signal model failure")
        return Pulse(q.pid, s)

    class Ant:
        def __init__(self, aid):
            self.aid = aid
            self.position = np.array([aid, 0, -50], dtype=float)

        def receive(self, signal, direction=None, polarization=None, **kw):
            if isinstance(signal, EmptySignal):
                tof = signal.times[0] - grid[0]
                s = by_tof.get(tof)
                ok = (not kw and direction is None and polarization is None and s is not None
                      and np.array_equal(signal.times, grid + tof) and not np.any(signal.values)
                      and signal.value_type == Signal.Type.field)
                log.append("CRecvEmpty %s %s %s" % (zl(self.aid), zl(s["id"] if ok else -1), zl(int(signal.times[0]))))
            else:
                ok = (not kw and isinstance(signal, tuple) and len(signal) == 2 and all(isinstance(x, Out) for x in signal)
                      and signal[0].path is signal[1].path and holder.get(id(signal)) is polarization
                      and direction is signal[0].path.received_direction)
                if ok:
                    log.append("CRecv %s %s %s %s" % (zl(self.aid), zl(signal[0].path.s["id"]), zl(signal[0].pulse.pid),
                                                       zl(signal[0].path.s["recv"])))
                else:
                    log.append("CRecv %s -1 -1 -1" % zl(self.aid))

    from pyrex.particle import Particle as RealParticle, Event as RealEvent

    def make_particle(q):
        """a real pyrex Particle carrying the stored partial weights (and, rarely, a forced weight)"""
        p = RealParticle(particle_id="electron_neutrino", vertex=[q["id"], 0, -100 if q["thc"] == 60 else -200],
                         direction=q["dir"], energy=1e9, interaction_type="cc", weight=q.get("forced"))
        p.survival_weight = q["surv"]
        p.interaction_weight = q["int"]
        p.pid = q["id"]
        return p

    class EmptyEvent:
        def __iter__(self):
            return iter(())

    def make_event(e):
        ev = RealEvent([make_particle(q) for q in e["qs"]]) if e["qs"] else EmptyEvent()
        ev.eid = e["id"]
        return ev

    class Gen:
        def __init__(self):
            self.count = sc["count0"]
            self.i = 0

        def create_event(self):
            log.append("CCreate")
            e = sc["events"][self.i]
            self.i += 1
            self.count = e["count"]
            self.last = make_event(e)
            return self.last

    class Writer:
        is_open = True
        has_detector = True

        def create_analysis_metadataset(self, *a, **k):
            pass

        def add_analysis_metadata(self, *a, **k):
            pass

        def add(self, **kw):
            ok = sorted(kw) == ["event", "events_thrown", "polarizations", "ray_paths", "triggered"] and kw["event"] is gen.last
            t = kw["triggered"]
            b = lambda x: "true" if x else "false"
            if t is None:
                tr = "TRNone"
            elif isinstance(t, dict):
                tr = "(TRDict %s)" % lst("(%s, %s)" % (zl(KCODE[k]), b(v)) for k, v in t.items())
            else:
                tr = "(TRBool %s)" % b(t)
            rps = lst(lst(zl(p.s["id"]) for p in l) for l in kw["ray_paths"])
            pls = lst(lst(coq_vec([int(x) for x in v]) if all(float(x).is_integer() for x in v) else "(9, 9, 9)" for v in l)
                      for l in kw["polarizations"])
            log.append("CWrite %s %s %s %s" % (tr, rps, pls, zl(kw["events_thrown"] if ok else -1)))

    KCODE = {v: k for k, v in TRIG_KEYS.items()}
    ants = [Ant(a) for a in sc["ants"]]

    def mk_trig(code, val):
        def f(arg):
            log.append("CTrig %s" % zl(code if arg is ants else -99))
            return val
        return f
    t = sc["trig"]
    triggers = None if t is None else mk_trig(-1, t[1]) if t[0] == "fun" else {TRIG_KEYS[k]: mk_trig(k, v) for k, v in t[1]}
    w = sc["wmin"]
    wmin = None if w is None else w[1] if w[0] == "scalar" else (tuple if w[0] == "tuple" else list)((w[1], w[2]))
    gen = Gen()
    kernel = EventKernel(gen, ants, ice_model=ice, ray_tracer=Tracer, signal_model=signal_model, signal_times=grid,
                         event_writer=Writer() if sc["writer"] else None, triggers=triggers, offcone_max=sc["omax"],
                         weight_min=wmin, attenuation_interpolation=INTERP[sc["interp"]])
    out = []
    for e in sc["events"]:
        del log[:]
        try:
            r = kernel.event()
            if isinstance(r, tuple):
                ret = "RetPair %s %s" % (zl(r[0].eid if r[0] is gen.last else -1), "true" if r[1] else "false")
            else:
                ret = "RetEvent %s" % zl(r.eid if r is gen.last else -1)
        except KeyError:
            ret = "RetKeyError"
        except Exception as ex:      # an outcome the model never produces
            ret = "RetException_%s" % type(ex).__name__
        out.append((list(log), ret))
    return out


def split_top(s, sep=";"):
    s = s.strip()
    assert s[0] == "[" and s[-1] == "]", s[:60]
    s = s[1:-1]
    parts, depth, cur = [], 0, []
    for ch in s:
        if ch in "[(":
            depth += 1
        elif ch in "])":
            depth -= 1
        if ch == sep and depth == 0:
            parts.append("".join(cur))
            cur = []
        else:
            cur.append(ch)
    if "".join(cur).strip():
        parts.append("".join(cur))
    return parts


def model_events(val):
    """printed [list (list call * ret)] -> [(calls, ret)] of normalised strings"""
    out = []
    for ev in split_top(val):
        ev = ev.strip()
        assert ev[0] == "(" and ev[-1] == ")"
        inner = ev[1:-1]
        # calls list is the first bracket group
        depth, end = 0, None
        for i, ch in enumerate(inner):
            if ch == "[":
                depth += 1
            elif ch == "]":
                depth -= 1
                if depth == 0:
                    end = i
                    break
        calls = [norm(c) for c in split_top(inner[:end + 1])]
        ret = norm(inner[end + 1:].lstrip().lstrip(","))
        out.append((calls, ret))
    return out


def compare(ctx, sc, impl, val, tag):
    m = model_events(val)
    p = [([norm(c) for c in calls], norm(ret)) for calls, ret in impl]
    if m == p:
        return True
    for e, (a, b) in enumerate(zip(p, m)):
        if a != b:
            k = next((i for i in range(min(len(a[0]), len(b[0]))) if a[0][i] != b[0][i]), min(len(a[0]), len(b[0])))
            what = ("EventKernel.event disagrees with the model in event %d at call %d: implementation %s | model %s ; return %s | %s" % (
                e, k, a[0][k] if k < len(a[0]) else "<end>", b[0][k] if k < len(b[0]) else "<end>", a[1], b[1]))
            break
    else:
        what = "different number of events"
    ctx.fail("corr:%s:%s" % (tag, json.dumps(sc, sort_keys=True)[:300]), what, {"kind": "scenario", "scenario": sc}, witness=True)
    return False


# ------------------------------------------------------------------ real component matrix
def matrix_cells(thorough):
    from pyrex.ray_tracing import SpecializedRayTracer, BasicRayTracer, UniformRayTracer
    from pyrex.custom.layered_ice.ray_tracing import LayeredRayTracer
    from pyrex.custom.layered_ice.ice_model import LayeredIce
    from pyrex.ice_model import AntarcticIce, UniformIce
    from pyrex.askaryan import ARZAskaryanSignal, AVZAskaryanSignal, ZHSAskaryanSignal
    ice_l = LayeredIce([UniformIce(1.4, valid_range=(-100, 0)), UniformIce(1.6, valid_range=(-3000, -100))])
    tracers = [("Specialized", SpecializedRayTracer, AntarcticIce()), ("Basic", BasicRayTracer, AntarcticIce()),
               ("Uniform", UniformRayTracer, UniformIce(1.5)), ("Layered", LayeredRayTracer, ice_l)]
    models = [("ARZ", ARZAskaryanSignal), ("AVZ", AVZAskaryanSignal), ("ZHS", ZHSAskaryanSignal)]
    gens = ["List", "Cylindrical", "Rectangular", "File"] if thorough else ["List", "Cylindrical"]
    cells = []
    for tn, tr, ice in tracers:
        for mn, sm in models:
            for g in gens:
                if not thorough and g != "List" and (tn, mn) not in (("Uniform", "ZHS"), ("Specialized", "ARZ"), ("Layered", "AVZ")):
                    continue
                for interp in (0.1, None):
                    cells.append((tn, tr, ice, mn, sm, g, interp))
    return cells


def make_generator(kind, rng, tmpdir, ice, light=False, ant_pos=(), bounds=()):
    """tiny generators; returns (generator, description)"""
    from pyrex.particle import Particle, Event
    from pyrex.generation import ListGenerator, CylindricalGenerator, RectangularGenerator, FileGenerator
    seed = rng.randrange(2 ** 31)
    np.random.seed(seed)
    # shadow=False: up-going neutrinos are kept and weighted; at 1e12 GeV the survival weight of the steep
    # ones underflows to exactly 0.0
    energy = rng.choice([1e8, 1e12])
    if kind == "Cylindrical":
        return CylindricalGenerator(dr=300, dz=600, energy=energy, shadow=False), {"np_seed": seed, "energy": energy}
    if kind == "Rectangular":
        return RectangularGenerator(dx=400, dy=400, dz=600, energy=energy, shadow=False), {"np_seed": seed, "energy": energy}
    weigher = CylindricalGenerator(dr=5000, dz=3200, energy=1e12, shadow=False)

    def rand_event():
        parts = []
        for _ in range(1 if light else rng.choice([1, 1, 2])):
            d = np.array([rng.uniform(-1, 1), rng.uniform(-1, 1), rng.uniform(-1, 1)])
            vertex = [rng.uniform(-250, 250), rng.uniform(-250, 250), rng.uniform(-550, -60)]
            r = rng.random()
            if r < 0.2:
                # far and shallow: in the shadow zone of the depth-dependent ice models
                vertex = [rng.uniform(1500, 3000), rng.uniform(-100, 100), -rng.uniform(5, 40)]
            elif r < 0.35 and bounds:
                # exactly at the bottom of the ice (the closed valid range includes it)
                vertex = [rng.uniform(-250, 250), rng.uniform(-250, 250), bounds[0]]
            elif r < 0.5 and ant_pos:
                # exactly below / above an antenna (same x, y): a vertex on the axis of a string
                ax, ay, az = rng.choice(list(ant_pos))
                vz = az + rng.choice([-1, 1]) * rng.uniform(20, 250)
                vertex = [ax, ay, vz if vz < -10 else az - rng.uniform(20, 250)]
            energy = 10 ** rng.uniform(7, 9)
            generator_weights = rng.random() < 0.5
            if generator_weights and rng.random() < 0.5:
                # up-going ultra-high-energy neutrino: survival probability through the Earth underflows to 0.0
                d = np.array([rng.uniform(-0.2, 0.2), rng.uniform(-0.2, 0.2), 1.0])
                energy = 1e12
            p = Particle(particle_id=rng.choice(["electron_neutrino", "muon_antineutrino"]),
                         vertex=vertex,
                         direction=d, energy=energy,
                         interaction_type=rng.choice(["cc", "nc"]),
                         weight=None if generator_weights else rng.choice([1.0, 0.5, 0.01]))
            if generator_weights:
                # exactly what Generator.create_event does when shadow=False
                p.survival_weight, p.interaction_weight = weigher.get_weights(p)
            parts.append(p)
        return Event(parts)
    events = [rand_event() for _ in range(3)]
    if kind == "List":
        return ListGenerator(events), {"np_seed": seed}
    # File: write the events with the real writer, read them back with FileGenerator
    from pyrex.io import File
    from pyrex.antenna import Antenna
    fn = os.path.join(tmpdir, "gen_%d.h5" % seed)
    with File(fn, "w", write_particles=True, write_triggers=False, write_antenna_triggers=False, write_rays=False,
              write_noise=False, write_waveforms=False, require_trigger=False) as f:
        f.set_detector([Antenna(position=(0, 0, -100), noisy=False)])
        for e in events:
            f.add(e)
    return FileGenerator(fn), {"np_seed": seed, "file": True}



# ------------------------------------------------------------------ independent ray-count oracles
_GL = np.polynomial.legendre.leggauss(48)


def _r_segment(ice, beta, za, zb):
    """horizontal distance of rays with Snell invariants beta = n(z) sin(theta) (array) between depths za
    and zb >= za (array), by Gauss-Legendre quadrature after z = zb - u^2 (removes the turning-point
    singularity at zb)"""
    umax = np.sqrt(np.maximum(zb - za, 0.0))[:, None]
    u = 0.5 * umax * (_GL[0][None, :] + 1)
    n = ice.index(zb[:, None] - u * u)
    b = beta[:, None]
    val = 2 * u * b / np.sqrt(np.maximum(n * n - b * b, 1e-300))
    return 0.5 * umax[:, 0] * np.sum(_GL[1][None, :] * val, axis=1)


def snell_count(ice, p0, p1):
    """Number of rays between two points in ice whose index decreases monotonically towards the surface
    (AntarcticIce-like), counted independently of pyrex's ray tracers: direct ray + rays that turn over /
    reflect off the surface, as roots of r(beta) = rho found by a scan over the Snell invariant.  Returns
    None when rho is within 3% of the shadow boundary (no verdict)."""
    z0, z1 = sorted([float(p0[2]), float(p1[2])])
    if not (z0 < 0 and z1 < 0):
        return None
    rho = float(np.hypot(p1[0] - p0[0], p1[1] - p0[1]))
    if rho == 0:
        return 2            # vertical: straight up/down, and up to the surface and back
    n1 = float(ice.index(z1))
    nsurf = float(ice.index(-1e-9))
    betas = n1 * (1 - np.logspace(-9, 0, 500))[:-1]     # dense towards beta -> n(z1)
    # turning depth n(zt) = beta by bisection on the ice model (surface when the ray reaches it)
    lo = np.full(betas.shape, z1)
    hi = np.zeros(betas.shape)
    for _ in range(60):
        mid = 0.5 * (lo + hi)
        up = ice.index(mid) > betas
        lo = np.where(up, mid, lo)
        hi = np.where(up, hi, mid)
    zt = np.where(betas > nsurf, lo, 0.0)
    r = _r_segment(ice, betas, np.full(betas.shape, z0), zt) + _r_segment(ice, betas, np.full(betas.shape, z1), zt)
    peak = float(np.max(r))
    if rho < 0.97 * peak:
        return 2
    if rho > 1.03 * peak:
        return 0
    return None


def layered_count(ice, p0, p1):
    """Number of distinct rays with at most one reflection between two points of a two-layer stack of
    uniform ice (interface at zb, reflecting surface at 0, nothing reflecting below): every topology
    (sequence of straight segments) has exactly one Snell solution for rho > 0, so the rays are counted by
    enumerating topologies; a reflection at a boundary on which an endpoint lies is the direct ray."""
    if len(ice.layers) != 2:
        return None
    zb = float(ice.layers[0].valid_range[0])
    zmin = float(ice.layers[-1].valid_range[0])
    z0, z1 = float(p0[2]), float(p1[2])
    rho = float(np.hypot(p1[0] - p0[0], p1[1] - p0[1]))
    if rho == 0 or not (zmin <= z0 <= 0 and zmin <= z1 <= 0) or (z0 == z1 and z0 in (zb, 0.0)):
        return None
    n = 1                                             # direct (transmitted through the interface if needed)
    if z0 < 0 and z1 < 0:
        n += 1                                        # reflected off the surface
    if (z0 < zb and z1 < zb) or (z0 > zb and z1 > zb):
        n += 1                                        # reflected off the interface, from below / from above
    return n


def uniform_count(ice, tracer, p0, p1):
    """Number of rays of the straight-line tracer in uniform ice: the direct line exists for endpoints in the
    CLOSED valid range; r reflections (1..max_reflections) starting upward / downward exist when the
    boundaries involved reflect (index_above / index_below given)."""
    zmin, zmax = float(ice.valid_range[0]), float(ice.valid_range[1])
    if not (zmin <= float(p0[2]) <= zmax and zmin <= float(p1[2]) <= zmax):
        return 0
    n = 1
    above, below = ice._index_above is not None, ice._index_below is not None
    for r in range(1, int(getattr(tracer, "max_reflections", 0)) + 1):
        for first_up in (True, False):
            uses_above = first_up if r == 1 else True
            uses_below = (not first_up) if r == 1 else True
            if (above or not uses_above) and (below or not uses_below):
                n += 1
    return n


def tof_bracket(ice, sol, p0, p1):
    """Physical bracket for the time of flight of a DIRECT ray (depth monotone along the ray) in ice whose
    index decreases monotonically towards the surface, from the endpoints and the reported launch direction
    only:  n_min * L_min / c <= tof <= n_max * L_max / c  with n_min / n_max the index at the shallower /
    deeper endpoint (the ray stays between them), L_min = max(straight distance, dz / cos(theta) at the deeper
    end) and L_max = dz / cos(theta) at the shallower end (theta grows towards the surface by Snell's law,
    beta = n sin(theta) constant).  Every term is a bound, not an estimate; 1e-12 relative covers the
    rounding of these few operations.  Returns None when the bracket is not applicable."""
    import scipy.constants
    c = scipy.constants.c
    z_lo, z_hi = sorted([float(p0[2]), float(p1[2])])
    if not getattr(sol, "direct", False) or z_hi >= 0:
        return None
    d = float(np.linalg.norm(np.asarray(p1, dtype=float) - np.asarray(p0, dtype=float)))
    dz = z_hi - z_lo
    n_lo, n_hi = float(ice.index(z_lo)), float(ice.index(z_hi))     # n_lo >= n_hi
    if not n_lo >= n_hi > 0:
        return None
    e = np.asarray(sol.emitted_direction, dtype=float)
    sin_e = float(np.hypot(e[0], e[1]) / np.linalg.norm(e))
    beta = float(ice.index(float(p0[2]))) * sin_e
    lower = n_hi * d / c
    upper = np.inf
    if beta < n_hi * (1 - 1e-9):
        cos_lo = np.sqrt(1 - (beta / n_lo) ** 2)
        cos_hi = np.sqrt(1 - (beta / n_hi) ** 2)
        lower = n_hi * max(d, dz / cos_lo) / c
        upper = n_lo * (dz / cos_hi) / c
    return lower * (1 - 1e-12), upper * (1 + 1e-12)


def uniform_tofs(ice, tracer, p0, p1):
    """Times of flight of the straight-line tracer's rays in uniform ice by the image-source construction
    (independent of the tracer's points): a ray with r reflections starting upward / downward travels the
    vertical distance D = first leg + (r - 1) * thickness + last leg, its length is sqrt(rho^2 + D^2) and
    tof = n * length / c.  Same enumeration order and admission rules as uniform_count."""
    import scipy.constants
    zmin, zmax = float(ice.valid_range[0]), float(ice.valid_range[1])
    z0, z1 = float(p0[2]), float(p1[2])
    if not (zmin <= z0 <= zmax and zmin <= z1 <= zmax):
        return []
    rho2 = float(p1[0] - p0[0]) ** 2 + float(p1[1] - p0[1]) ** 2
    n = float(ice.index(0.5 * (zmin + zmax)))
    out = [n * np.sqrt(rho2 + (z1 - z0) ** 2) / scipy.constants.c]
    above, below = ice._index_above is not None, ice._index_below is not None
    for r in range(1, int(getattr(tracer, "max_reflections", 0)) + 1):
        for first_up in (True, False):
            uses_above = first_up if r == 1 else True
            uses_below = (not first_up) if r == 1 else True
            if not ((above or not uses_above) and (below or not uses_below)):
                continue
            last_up = first_up if r % 2 == 0 else not first_up      # direction of the last leg
            D = ((zmax - z0) if first_up else (z0 - zmin)) + (r - 1) * (zmax - zmin) + \
                ((z1 - zmin) if last_up else (zmax - z1))
            out.append(n * np.sqrt(rho2 + D * D) / scipy.constants.c)
    return out


def polyline_tof(ice, sol):
    """integral of n ds / c along the REPORTED ray of a piecewise-uniform ice model: the ray is the polyline
    sol.coordinates, the index is constant on each segment (taken at its midpoint)"""
    import scipy.constants
    xs, ys, zs = (np.asarray(v, dtype=float) for v in sol.coordinates)
    pts = np.column_stack([xs, ys, zs])
    total = 0.0
    for a, b in zip(pts[:-1], pts[1:]):
        seg = float(np.sqrt(np.sum((b - a) ** 2)))
        if seg > 0:
            total += float(ice.index(0.5 * (a[2] + b[2]))) * seg
    return total / scipy.constants.c


def run_cell(cell, seed, tmpdir, case=None):
    """Run one cell of the real component matrix (two events) with its own PRNG; returns
    (stats, failure-or-None) where failure = (what, description)."""
    import random
    from pyrex.kernel import EventKernel
    from pyrex.antenna import Antenna
    tn, tr, ice, mn, sm, gk, interp = cell
    rng = random.Random(seed)
    times = np.linspace(-20e-9, 80e-9, 128, endpoint=False)
    stats = {"events": 0, "signals": 0, "empty": 0, "no_path": 0, "cut": 0}
    offc = rng.choice([None, 40, 10])
    wmin = rng.choice([None, 1e-6, 1e-6, 0.1, (0.2, 0.2), (1e-6, 1e-6)])
    desc = {"tracer": tn, "model": mn, "generator": gk, "attenuation_interpolation": interp, "offcone_max": offc,
            "weight_min": list(wmin) if isinstance(wmin, tuple) else wmin, "cell_seed": seed}
    gen = None
    try:
        # FunctionSignal.__add__ deep-copies the propagation filters, which for the layered
        # tracer drags the whole path/tracer object graph along (seconds per received pulse):
        # the layered cells are kept to one single-particle event on two antennas
        uni_refl = rng.choice([0, 1, 1, 2]) if tn == "Uniform" else 0
        light = tn == "Layered" or uni_refl >= 1      # reflected uniform paths: same copying cost
        ant_pos = [(0, 0, -150), (40, 10, -60), (-30, 5, -300)][:2 if light else 3]
        if tn == "Layered" and rng.random() < 0.6:
            # an antenna exactly on the boundary between the two layers
            ant_pos[1] = (40, 10, float(ice.layers[0].valid_range[0]))
        bounds = ()
        if tn in ("Specialized", "Basic"):
            r = rng.random()
            if r < 0.4:
                ant_pos[-1] = (-30, 5, -rng.uniform(780, 950))
            elif r < 0.75:
                # a shallower ice sheet with an antenna frozen to the bed: endpoints exactly on the lower
                # bound of the ice model's valid range (vertices on the bed come from make_generator)
                from pyrex.ice_model import AntarcticIce
                ice = AntarcticIce(valid_range=(-500, 0))
                bounds = (-500.0,)
                if rng.random() < 0.6:
                    ant_pos[-1] = (-30, 5, -500.0)
        if tn == "Uniform":
            # reflections off the surface / the bed (max_reflections 0..2), with and without a reflecting bed
            from pyrex.ice_model import UniformIce
            ice = UniformIce(1.5, valid_range=(-rng.choice([2850, 600]), 0), index_above=1,
                             index_below=rng.choice([None, 2.0]))
            tr = type("UniformRayTracer%d" % 0, (tr,), {"max_reflections": uni_refl})
            desc["max_reflections"] = tr.max_reflections
            bounds = (float(ice.valid_range[0]),)
        elif tn == "Layered":
            bounds = (float(ice.layers[-1].valid_range[0]),)
        if bounds and rng.random() < 0.5:
            # an antenna exactly at the surface (legal: only z > 0 is rejected)
            ant_pos[0] = (0, 0, 0.0)
        gen0, gd = make_generator(gk, rng, tmpdir, ice, light, ant_pos, bounds)

        class GenWrap:
            """remembers the last event so that a component failure can be reproduced outside the kernel"""
            last = None
            count = property(lambda self: gen0.count)

            def create_event(self):
                self.last = gen0.create_event()
                return self.last
        gen = GenWrap()
        ants = [Antenna(position=pp, noisy=False) for pp in ant_pos]
        cont = ants
        if rng.random() < 0.5:
            # the antennas object is a real (combined, nested) Detector instead of a list
            from pyrex.detector import Detector

            class Str(Detector):
                def set_positions(self, ps):
                    self.antenna_positions.extend(ps)
            ps = [tuple(a.position) for a in ants]
            if rng.random() < 0.5 or len(ps) < 3:
                cont = Str(ps[:1]) + Str(ps[1:])
                cont.build_antennas(Antenna, noisy=False)
                ants = list(cont)
                desc["antennas"] = "CombinedDetector"
            else:
                # a detector combined with a plain LIST of antennas (a list subset): the kernel sizes its
                # per-antenna slots with len() and walks them by iteration
                first = Str(ps[:1])
                first.build_antennas(Antenna, noisy=False)
                loose = [Antenna(position=q, noisy=False) for q in ps[1:]]
                cont = first + loose
                ants = list(first) + loose         # the antennas in construction order, not through len/iter
                desc["antennas"] = "CombinedDetector with a list subset"
                if len(cont) != len(ants) or [x for x in cont] != ants:
                    return stats, ("real components %s: the antenna set (detector + list of %d antennas) has len %d and "
                                   "iterates %d objects, %d antennas were put in" % (
                                       desc, len(loose), len(cont), len(list(cont)), len(ants)), desc)
        rec = []

        class W:
            is_open = True
            has_detector = True
            def create_analysis_metadataset(self, *a, **k): pass
            def add_analysis_metadata(self, *a, **k): pass
            def add(self, **kw): rec.append(kw)
        trig_calls = []

        def trig(a):
            trig_calls.append(a)
            return any(len(x.signals) > 0 for x in a)
        kernel = EventKernel(gen, cont, ice_model=ice, ray_tracer=tr, signal_model=sm, signal_times=times,
                             event_writer=W(), triggers=trig, offcone_max=offc, weight_min=wmin,
                             attenuation_interpolation=interp)
        for _ in range(1 if light else 2):
            before = [len(a.signals) for a in ants]
            r = kernel.event()
            stats["events"] += 1
            ev, tg = r
            kw = rec[-1]
            bad = None
            if kw["event"] is not ev or kw["triggered"] is not tg or trig_calls[-1] is not cont:
                bad = "writer/trigger did not get the generator's event / the supplied trigger on the antennas"
            # independent recomputation of which particles pass the cut
            passing = []
            for p in ev:
                if isinstance(wmin, tuple):
                    cut = ((p.survival_weight is not None and p.survival_weight < wmin[0]) or
                           (p.interaction_weight is not None and p.interaction_weight < wmin[1]))
                else:
                    # documented total weight from the stored partial weights (None counts as 1),
                    # not through Particle.weight
                    forced = getattr(p, "_forced_weight", None)
                    if forced is not None:
                        total = forced
                    else:
                        total = 1.0
                        for part in (p.survival_weight, p.interaction_weight):
                            if part is not None:
                                total = total * float(part)
                    cut = total < (0 if wmin is None else wmin)
                    if total == 0:
                        stats["zero_weight"] = stats.get("zero_weight", 0) + 1
                if cut:
                    stats["cut"] += 1
                else:
                    passing.append(p)
            for i, a in enumerate(ants):
                if bad:
                    break
                new = a.signals[before[i]:]
                paths, pols = kw["ray_paths"][i], kw["polarizations"][i]
                # expected solutions from fresh tracer objects
                exp = []
                for p in passing:
                    rt = tr(p.vertex, a.position, ice_model=ice)
                    sols = list(rt.solutions) if rt.exists else []
                    if rt.exists:
                        exp += [(p, s) for s in sols]
                    else:
                        stats["no_path"] += 1
                    # the ray solutions themselves, judged independently of the tracer's bookkeeping
                    geo = "vertex %s -> antenna %s" % ([float(x) for x in p.vertex], [float(x) for x in a.position])
                    if bool(rt.exists) != bool(sols):
                        bad = "%s: tracer.exists is %s but it lists %d solutions" % (geo, rt.exists, len(sols))
                    for j1 in range(len(sols)):
                        for j2 in range(j1 + 1, len(sols)):
                            if (abs(sols[j1].tof - sols[j2].tof) <= 1e-9 * abs(sols[j1].tof) and
                                    np.allclose(sols[j1].emitted_direction, sols[j2].emitted_direction, rtol=0, atol=1e-9) and
                                    np.allclose(sols[j1].received_direction, sols[j2].received_direction, rtol=0, atol=1e-9)):
                                bad = "%s: the same ray (tof %r, same directions) is listed twice among %d solutions" % (geo, sols[j1].tof, len(sols))
                    want = None
                    if tn in ("Uniform", "Layered"):
                        # piecewise-uniform ice: tof must be the integral of n ds / c along the reported ray
                        # (fewer than 100 rounded operations: 1e-12 relative covers the rounding)
                        for sol in sols:
                            want_t = polyline_tof(ice, sol)
                            stats["tof_polyline"] = stats.get("tof_polyline", 0) + 1
                            if abs(sol.tof - want_t) > 1e-12 * want_t and not bad:
                                bad = ("%s: time of flight %.9e s of a reported ray, but n ds / c along that ray "
                                       "(its own coordinates) is %.9e s" % (geo, sol.tof, want_t))
                    if tn == "Uniform":
                        want_ts = sorted(uniform_tofs(ice, tr, p.vertex, a.position))
                        got_ts = sorted(float(x.tof) for x in sols)
                        if len(want_ts) == len(got_ts) and not bad:
                            for g_t, w_t in zip(got_ts, want_ts):
                                if abs(g_t - w_t) > 1e-12 * w_t:
                                    bad = ("%s: times of flight %s, the image-source construction gives %s" % (
                                        geo, ["%.9e" % x for x in got_ts], ["%.9e" % x for x in want_ts]))
                                    break
                    if tn in ("Specialized", "Basic"):
                        # "delayed by that solution's time of flight": the delay must be physically possible
                        for sol in sols:
                            br = tof_bracket(ice, sol, p.vertex, a.position)
                            if br is not None:
                                stats["tof_bracket"] = stats.get("tof_bracket", 0) + 1
                                if not (br[0] <= sol.tof <= br[1]) and not bad:
                                    bad = ("%s: the direct ray's time of flight %.6e s is outside the physical bracket "
                                           "[%.6e, %.6e] s (index between the endpoints x length of the reported ray)" % (
                                               geo, sol.tof, br[0], br[1]))
                        if len(sols) not in (0, 2):
                            bad = "%s: %d ray solutions (the depth-dependent tracers have none or two)" % (geo, len(sols))
                        zr = [float(v) for v in ice.valid_range]
                        if all(zr[0] <= float(z) <= zr[1] for z in (p.vertex[2], a.position[2])):
                            want = snell_count(ice, p.vertex, a.position)
                        else:
                            want = 0          # an endpoint outside the CLOSED valid range of the ice model
                    elif tn == "Layered":
                        want = layered_count(ice, p.vertex, a.position)
                    elif tn == "Uniform":
                        want = uniform_count(ice, tr, p.vertex, a.position)
                    if float(a.position[2]) == 0.0 or any(float(p.vertex[2]) == float(b) for b in bounds):
                        stats["on_bound"] = stats.get("on_bound", 0) + 1
                    if want is not None:
                        stats["count_oracle"] = stats.get("count_oracle", 0) + 1
                        if np.hypot(*(np.array(p.vertex[:2], dtype=float) - a.position[:2])) == 0:
                            stats["vertical"] = stats.get("vertical", 0) + 1
                        if want != len(sols) and not bad:
                            bad = "%s: the tracer lists %d ray solutions, the independent ray count is %d" % (geo, len(sols), want)
                            step = float(getattr(rt, "dz", 1.0))
                            if (tn == "Basic" and want == 2 and not sols
                                    and abs(float(p.vertex[2]) - float(a.position[2])) <= 1.05 * step):
                                # known class (a defect of the numeric tracer itself, property C01): the
                                # BasicRayTracer finds no ray when the endpoints are closer in depth than its
                                # integration step; confirmed on the analytic tracer before being keyed
                                from pyrex.ray_tracing import SpecializedRayTracer
                                ref = SpecializedRayTracer(p.vertex, a.position, ice_model=ice)
                                if ref.exists and len(ref.solutions) == 2:
                                    desc["known_class"] = "component-misses-rays:BasicRayTracer:depth-difference-below-dz"
                    if bad:
                        break
                if bad:
                    break
                if not (len(new) == len(paths) == len(pols) == len(exp)):
                    bad = "antenna %d: %d signals, %d ray paths, %d polarizations, %d ray solutions" % (i, len(new), len(paths), len(pols), len(exp))
                    break
                for sgl, path, pol, (p, s) in zip(new, paths, pols, exp):
                    stats["signals"] += 1
                    if abs(path.tof - s.tof) > 1e-12 * abs(s.tof) + 1e-15:
                        bad = "antenna %d: reported ray path does not match the ray solution (tof %r vs %r)" % (i, path.tof, s.tof)
                        break
                    # grid: times + tof, computed as the code does (one float addition per sample)
                    if not np.array_equal(sgl.times, times + path.tof):
                        bad = "antenna %d: signal times are not signal_times + tof" % i
                        break
                    psi = np.arccos(np.vdot(p.direction, path.emitted_direction))
                    theta_c = np.arccos(1 / ice.index(p.vertex[2]))
                    off = offc is not None and abs(psi - theta_c) > np.radians(offc)
                    margin = offc is None or abs(abs(psi - theta_c) - np.radians(offc)) > 1e-9
                    is_zero = not np.any(sgl.values)
                    if off and margin and not is_zero:
                        bad = "antenna %d: off-cone view (%.2f deg) still produced a pulse" % (i, np.degrees(abs(psi - theta_c)))
                        break
                    if is_zero:
                        stats["empty"] += 1
                    ex = np.vdot(path.emitted_direction, p.direction) * path.emitted_direction - p.direction
                    nrm = np.linalg.norm(ex)
                    ex = ex / nrm if nrm > 0 else ex
                    if not np.allclose(pol, ex, rtol=0, atol=1e-12):
                        bad = "antenna %d: reported polarization is not the one of its ray path" % i
                        break
            if case:
                case(stats["events"], sum(len(x) for x in kw["ray_paths"]) > 0, [len(a.signals) for a in ants])
            if bad:
                return stats, ("real components %s: %s" % (desc, bad), desc)
    except Exception as e:
        desc["error"] = type(e).__name__
        # is it the component itself that fails, independently of the kernel?  (ray tracer used directly
        # on the same vertex / antenna position)
        try:
            for p in ((gen.last if gen is not None else None) or []):
                for a in ants:
                    try:
                        rt = tr(p.vertex, a.position, ice_model=ice)
                        if rt.exists:
                            list(rt.solutions)
                    except Exception as e2:
                        if type(e2) is type(e) and str(e2) == str(e):
                            desc["component_failure"] = {"tracer": tn, "vertex": [float(x) for x in p.vertex],
                                                         "antenna": [float(x) for x in a.position]}
                            raise StopIteration
        except StopIteration:
            pass
        return stats, ("real components %s: running the cell (generator construction or EventKernel.event) raised %s: %s" % (desc, type(e).__name__, str(e)[:200]), desc)
    return stats, None


def run_matrix(ctx, tmpdir):
    import time as _time
    cells = matrix_cells(ctx.thorough)
    stats = {"cells": 0, "events": 0, "signals": 0, "empty": 0, "no_path": 0, "cut": 0, "slowest": []}
    reps = ctx.n(2 if pins_changed()[0] else 1, 4)
    for ci, cell in enumerate(cells):
        key = "matrix:%s:%s:%s:%s" % (cell[0], cell[3], cell[5], cell[6])
        for rep in range(reps):
            t0 = _time.time()
            st, bad = run_cell(cell, (ctx.seed * 1000 + ci) * 10 + rep, tmpdir,
                               case=lambda n, nt, sig: ctx.case(key=(key, rep, n), nontrivial=nt, sample={"cell": key, "signals": sig}))
            stats["cells"] += 1
            for k, v in st.items():
                stats[k] = stats.get(k, 0) + v
            stats["slowest"] = sorted(stats["slowest"] + [(round(_time.time() - t0, 2), key)], reverse=True)[:3]
            if bad:
                cf = bad[1].get("component_failure")
                if bad[1].get("known_class"):
                    ctx.fail(bad[1]["known_class"], bad[0], {"kind": "matrix", "cell_index": ci, "thorough": ctx.thorough, **bad[1]})
                elif cf:
                    # the shipped ray tracer itself raises for this geometry when used directly: a defect of
                    # that tracer's numerics (property C01), which event() can only propagate.  One key per
                    # (tracer, exception) class; a systematic failure (> 2 cells) is reported under a distinct key.
                    stats.setdefault("component_failures", []).append(cf)
                    nfail = sum(1 for x in stats["component_failures"] if x["tracer"] == cf["tracer"])
                    fkey = "component-raises:%sRayTracer:%s" % (cf["tracer"], bad[1]["error"])
                    if nfail > 2:
                        fkey += ":systematic:" + key
                    ctx.fail(fkey, bad[0], {"kind": "matrix", "cell_index": ci, "thorough": ctx.thorough, **bad[1]})
                else:
                    ctx.fail(key, bad[0], {"kind": "matrix", "cell_index": ci, "thorough": ctx.thorough, **bad[1]})
                break
    return stats



# ------------------------------------------------------------------ sequences of events, AntennaSystem antennas
SEQ_IMPORTS = ("From Coq Require Import List ZArith Bool.\nImport ListNotations.\n"
               "From PyrexModel Require Import KernelModel KernelSeqModel.\nOpen Scope Z_scope.\n")


def gen_sequence(seed, big):
    """One kernel + one detector used for several events with reads and clears in between, on REAL components
    (ray tracer, Askaryan model, AntennaSystem with a front end / plain Antenna).  Returns (description,
    coq expression of the model run, implementation outputs as printed Coq values) or None (ambiguous tofs)."""
    import random
    from pyrex.kernel import EventKernel
    from pyrex.antenna import Antenna
    from pyrex.detector import AntennaSystem
    from pyrex.particle import Particle, Event
    from pyrex.generation import ListGenerator
    from pyrex.ray_tracing import SpecializedRayTracer, UniformRayTracer
    from pyrex.ice_model import AntarcticIce, UniformIce
    from pyrex.askaryan import ZHSAskaryanSignal, AVZAskaryanSignal
    rng = random.Random(seed)
    np.random.seed(seed % (2 ** 31))
    if rng.random() < 0.7:
        tn, tr, ice = "Uniform", UniformRayTracer, UniformIce(1.6)
    else:
        tn, tr, ice = "Specialized", SpecializedRayTracer, AntarcticIce()
    # FunctionSignal copies deep-copy the propagation filters of the specialized tracer (seconds once a few
    # pulses have accumulated on an antenna): those sequences are kept short
    small = tn == "Specialized"
    mn, sm = rng.choice([("ZHS", ZHSAskaryanSignal), ("AVZ", AVZAskaryanSignal)])
    grid = np.linspace(-20e-9, 80e-9, 128, endpoint=False)

    class FrontEndSystem(AntennaSystem):
        """antenna system in the style of the shipped ones: lead-in time, amplifying front end"""
        lead_in_time = 5e-9

        def __init__(self, position):
            super().__init__(Antenna)
            self.position = np.array(position, dtype=float)
            self.setup_antenna(position=position, noisy=False)

        def front_end(self, signal):
            return signal * 2

    nant = rng.choice([1, 2]) if small else rng.choice([1, 2, 2, 3])
    kinds, ants = [], []
    for i in range(nant):
        pos = (rng.uniform(-40, 40), rng.uniform(-40, 40), -rng.uniform(40, 400))
        k = rng.choice(["sys", "sys", "plain"])
        kinds.append(k)
        ants.append(FrontEndSystem(pos) if k == "sys" else Antenna(position=pos, noisy=False))
    nev = 2 if small else rng.randint(2, 5 if big else 4)
    events = []
    for e in range(nev):
        parts = [Particle(particle_id="electron_neutrino",
                          vertex=[rng.uniform(-300, 300), rng.uniform(-300, 300), -rng.uniform(50, 900)],
                          direction=[rng.uniform(-1, 1), rng.uniform(-1, 1), rng.uniform(-1, 1)],
                          energy=10 ** rng.uniform(8, 9), interaction_type="cc")
                 for _ in range(1 if small else rng.choice([1, 1, 2]))]
        events.append(Event(parts))
    gen = ListGenerator(events)
    kernel = EventKernel(gen, ants, ice_model=ice, ray_tracer=tr, signal_model=sm, signal_times=grid,
                         offcone_max=None, attenuation_interpolation=rng.choice([0.1, None]))
    # expected ray solutions from fresh tracers: ids, and the grid origin that identifies each
    pid_of, trace_rows, key2id, next_path, next_pid = {}, [], [{} for _ in ants], 100, 0
    ev_parts = []
    for ev in events:
        ids = []
        for p in ev:
            next_pid += 1
            pid_of[id(p)] = next_pid
            ids.append(next_pid)
            for ai, a in enumerate(ants):
                rt = tr(p.vertex, a.position, ice_model=ice)
                if not rt.exists:
                    trace_rows.append("(%d, %d, None)" % (next_pid, ai + 1))
                    continue
                paths = []
                for sol in rt.solutions:
                    next_path += 1
                    key = float(grid[0] + sol.tof)
                    if key in key2id[ai]:
                        return None                      # two rays with the same arrival grid: not identifiable
                    key2id[ai][key] = (next_path, sol.tof)
                    paths.append("(mkpath %d 0 (0, 0, 1) 0 0)" % next_path)
                trace_rows.append("(%d, %d, Some %s)" % (next_pid, ai + 1, lst(paths)))
        ev_parts.append(ids)

    def ident(ai, sig):
        hit = key2id[ai].get(float(sig.times[0]))
        if hit is None:
            return -1                                    # a signal on no ray solution's grid
        return hit[0] if np.array_equal(sig.times, grid + hit[1]) else -2

    # history
    ops, outs, coq_ops = [], [], []
    remaining = list(range(nev))

    def do(op):
        ops.append(op)
        k = op[0]
        if k == "SEvent":
            e = remaining.pop(0)
            r = kernel.event()
            outs.append("ORet (RetEvent %d)" % (events.index(r) if r in events else -1))
            coq_ops.append("SEvent %d %s %d" % (e, lst("(mkpart %d 1 None None (0, 0, 1) 0)" % q for q in ev_parts[e]), e + 1))
            return
        ai = op[1] if len(op) > 1 else None
        coq_ops.append(k if ai is None else "%s %d" % (k, ai + 1))
        if k == "SSignals":
            outs.append("OList %s" % lst(zl(ident(ai, x)) for x in ants[ai].signals))
        elif k == "SAllWaves":
            outs.append("OList %s" % lst(zl(ident(ai, x)) for x in ants[ai].all_waveforms))
        elif k == "SWaves":
            outs.append("OList %s" % lst(zl(ident(ai, x)) for x in ants[ai].waveforms))
        elif k == "SIsHit":
            outs.append("OBool %s" % ("true" if ants[ai].is_hit else "false"))
        elif k == "SClear":
            ants[ai].clear()
            outs.append("ODone")
        elif k == "SClearAll":
            for a in ants:
                a.clear()
            outs.append("ODone")

    def reads(p):
        for ai in range(nant):
            for k in ("SSignals", "SAllWaves", "SWaves", "SIsHit"):
                if rng.random() < p:
                    do((k, ai))
    while remaining:
        do(("SEvent",))
        reads(0.45)
        r = rng.random()
        if r < 0.55:
            do(("SClearAll",))               # the simulation loop
        elif r < 0.75:
            do(("SClear", rng.randrange(nant)))
        if rng.random() < 0.3:
            reads(0.3)                       # reads of a cleared detector
    reads(0.6)
    expr = ("srun (mkcfg %s (tbl_trace %s) (tbl_sig []) 180 (WScalar 0) 0 TNone false 0) (fun _ => true) (k_init 0) %s" % (
        lst(str(i + 1) for i in range(nant)), lst(trace_rows), lst(coq_ops)))
    desc = {"seq_seed": seed, "tracer": tn, "model": mn, "antennas": kinds, "events": nev, "ops": [list(o) for o in ops]}
    return desc, expr, outs


def run_sequences(ctx):
    n = ctx.n(24, 300)
    scs = []
    import signal as _signal

    def _alarm(*a):
        raise TimeoutError()
    timeouts = 0
    old_handler = _signal.signal(_signal.SIGALRM, _alarm)
    try:
        for i in range(n):
            _signal.alarm(30)          # guard against pathological copying cost; a skipped sequence is not a verdict
            try:
                r = gen_sequence(ctx.seed * 100003 + i, ctx.thorough)
            except TimeoutError:
                timeouts += 1
                r = None
            finally:
                _signal.alarm(0)
            if r is not None:
                scs.append(r)
    finally:
        _signal.signal(_signal.SIGALRM, old_handler)
    stats = {"sequences": len(scs), "ops": sum(len(d["ops"]) for d, _, _ in scs),
             "system_antennas": sum(d["antennas"].count("sys") for d, _, _ in scs), "skipped_slow": timeouts}
    try:
        vals = ctx.coq_eval_exprs(SEQ_IMPORTS, [e for _, e, _ in scs], chunk=60)
    except Exception as e:
        ctx.oblige("corr:seq-model-eval", False, str(e)[-1500:])
        return stats
    nbad = 0
    for (desc, _, outs), v in zip(scs, vals):
        m = [norm(x) for x in split_top(v)]
        p = [norm(x) for x in outs]
        ctx.case(key=("seq", desc["seq_seed"]), nontrivial=len(p) > 3, sample={"sequence": desc, "outputs": p[:12]})
        if m != p:
            nbad += 1
            k = next((i for i in range(min(len(m), len(p))) if m[i] != p[i]), min(len(m), len(p)))
            ctx.fail("seq:%d" % desc["seq_seed"],
                     "sequence of events on one kernel/detector (%s, %s, antennas %s): after ops %s the implementation answers %s, "
                     "the model (one signal per ray solution of the events since the last clear) %s" % (
                         desc["tracer"], desc["model"], desc["antennas"], desc["ops"][:k + 1][-6:],
                         p[k] if k < len(p) else "<end>", m[k] if k < len(m) else "<end>"),
                     {"kind": "sequence", "seq_seed": desc["seq_seed"], "thorough": ctx.thorough})
    ctx.oblige("corr:event-sequences", nbad == 0, "%d sequences disagree" % nbad if nbad else "")
    return stats


# ------------------------------------------------------------------ check
def run(ctx):
    ctx.rule = ("(1) random kernel configurations with recording stub components (generator with scripted multi-particle events and "
                "counts, ray tracer with scripted exists/solutions/tof, signal model with scripted ValueErrors, antennas, writer, "
                "function/dict triggers, scalar/pair weight cuts, offcone_max, attenuation_interpolation), 1-3 events per kernel: the "
                "ordered call log and return value of the real EventKernel.event vs KernelModel.run, exact; non-trivial = distinct "
                "scenario with at least one ray solution. (2) real component matrix {Specialized,Basic,Uniform,Layered tracer} x ice x "
                "{ARZ,AVZ,ZHS} x generators x attenuation_interpolation on tiny events, statement checked on the real objects")
    ctx.trusted += ["Coq 8.16.1 kernel; vm_compute (interface table, model runs)",
                    "tools/iface_table.py (ast walk: class/method discovery by naming convention *RayTracer, *AskaryanSignal, *Path.propagate, receive)",
                    "harness/props/c10.py: recording stubs, scenario generator, printing of the call log in Coq syntax"]
    ctx.assumptions += [
        "the antennas object is a sequence whose len() equals the number of antennas it yields (C19 proves this for Detector)",
        "directions in the stub correspondence are axis-aligned unit vectors (normalize and arccos are then exact); the real "
        "component matrix covers general directions numerically",
        "grid_is_times_plus_tof keeps both component contracts as hypotheses; Props/C10_link.v discharges the propagate "
        "contract for the shipped Basic/Specialized/Uniform/Layered propagate (generated from source, via C03/C05); the "
        "signal-model contract (pulse on the times it was given) stays a hypothesis, checked on the shipped models by the matrix run",
        "exceptions other than ValueError raised by components propagate out of event() and are not modelled"]
    import logging
    logging.disable(logging.CRITICAL)
    data = None
    try:
        files, data = gen_files(ctx.scratch)
        for k, v in files.items():
            ctx.write_gen(k, v)
        ctx.oblige("gen:iface", True)
    except Exception as e:
        ctx.oblige("gen:iface", False, str(e)[-1500:])
    ok = ctx.coq_build("C10")
    # propagate contract discharged for the shipped propagate() methods (on top of C03 / C05)
    if data is not None:
        ctx.oblige("gen:prop (C03 translator)", data.get("prop_gen") == "ok", data.get("prop_gen", ""))
    ok_link = ctx.coq_build("C10_link")
    # sequences of events with AntennaSystem antennas, reads and clears in between
    ok_seq = ctx.coq_build("C10_seq")
    ok = ok and ok_link and ok_seq
    if data:
        ctx.extra["interface_pairs"] = len(data["table"])
        ctx.extra["kernel_call_sites"] = data["sites"]
        for row in data["table"]:
            good, why = py_accepts(row["signature"], row["site"])
            ctx.case(key=("iface", row["callee"], row["site"]["line"]), sample=None)
            if not good:
                ctx.fail("iface:%s@%d" % (row["callee"], row["site"]["line"]),
                         "%s does not accept the call made at kernel.py:%d (%s)" % (row["callee"], row["site"]["line"], why),
                         {"kind": "iface", "callee": row["callee"], "site": row["site"], "signature": row["signature"]})
    # stub correspondence
    n = ctx.n(200, 4000)
    changed, now = pins_changed()
    ctx.extra["ast_pins"] = {"changed": changed, "current": now}
    if changed and not ctx.thorough:
        n = 1500          # the hand-modelled source was edited since the model was validated: escalate
    scs = []
    cdir = os.path.join(ROOT, "corpus", "C10")
    if os.path.isdir(cdir):
        for f in sorted(os.listdir(cdir)):
            if f.endswith(".json"):
                scs.append(("corpus/" + f, fix_scenario(json.load(open(os.path.join(cdir, f)))["scenario"])))
    for t in range(n):
        scs.append(("gen%d" % t, gen_scenario(ctx.rng, ctx.thorough)))
    impl = [run_kernel(sc) for _, sc in scs]
    corr_ok = True
    try:
        vals = ctx.coq_eval_exprs(IMPORTS, [scenario_coq(sc) for _, sc in scs], chunk=150)
    except Exception as e:
        ctx.oblige("corr:model-eval", False, str(e)[-1500:])
        vals = None
        corr_ok = False
    cov = {}
    if vals is not None:
        nbad = 0
        for (tag, sc), im, v in zip(scs, impl, vals):
            npaths = sum(len(s) for _, _, s in sc["trace"] if s)
            ctx.case(key=json.dumps(sc, sort_keys=True), nontrivial=npaths > 0,
                     sample={"scenario": {k: sc[k] for k in ("ants", "omax", "wmin", "trig", "writer", "interp")},
                             "first_event_log": im[0][0][:10], "ret": im[0][1]})
            for calls, ret in im:
                for c in calls:
                    cov[c.split()[0]] = cov.get(c.split()[0], 0) + 1
                cov[ret.split()[0]] = cov.get(ret.split()[0], 0) + 1
            if not compare(ctx, sc, im, v, tag):
                nbad += 1
                if nbad >= 3:
                    break
        corr_ok = nbad == 0
        ctx.oblige("corr:kernel-call-log", corr_ok, "%d scenarios disagree" % nbad if nbad else "")
    ctx.extra["correspondence"] = {"scenarios": len(scs), "events": sum(len(sc["events"]) for _, sc in scs), "call_kinds": cov}
    try:
        ctx.extra["sequences"] = run_sequences(ctx)
    except Exception:
        import traceback
        ctx.oblige("corr:event-sequences", False, traceback.format_exc()[-1500:])
    # real matrix (always: it is cheap)
    tmpdir = tempfile.mkdtemp(prefix="c10-", dir=ctx.scratch)
    try:
        stats = run_matrix(ctx, tmpdir)
        ctx.extra["matrix"] = stats
        ctx.oblige("matrix:ran", stats["cells"] > 0 and stats["signals"] > 0, json.dumps(stats))
    except Exception as e:
        import traceback
        ctx.oblige("matrix:ran", False, traceback.format_exc()[-1500:])


def fix_scenario(sc):
    sc["trace"] = [(p, a, s) for p, a, s in sc["trace"]]
    sc["sigfail"] = [tuple(x) for x in sc["sigfail"]]
    for _, _, s in sc["trace"]:
        for x in s or []:
            x["emit"] = tuple(x["emit"])
    for e in sc["events"]:
        for q in e["qs"]:
            q["dir"] = tuple(q["dir"])
    if sc["wmin"] is not None:
        sc["wmin"] = tuple(sc["wmin"])
    if sc["trig"] is not None:
        sc["trig"] = (sc["trig"][0], sc["trig"][1] if sc["trig"][0] == "fun" else [tuple(x) for x in sc["trig"][1]])
    return sc


def replay(ctx, obj):
    if obj.get("kind") == "scenario":
        sc = fix_scenario(obj["scenario"])
        im = run_kernel(sc)
        print("implementation:")
        for calls, ret in im:
            for c in calls:
                print("   ", norm(c))
            print("  ->", ret)
        try:
            v = ctx.coq_eval_exprs(IMPORTS, [scenario_coq(sc)])[0]
            m = model_events(v)
            print("model:")
            for calls, ret in m:
                for c in calls:
                    print("   ", c)
                print("  ->", ret)
            same = m == [([norm(c) for c in calls], norm(ret)) for calls, ret in im]
        except Exception as e:
            print("model evaluation failed:", str(e)[-500:])
            same = False
        print("AGREE" if same else "DISAGREE")
        return 0 if same else 1
    if obj.get("kind") == "iface":
        good, why = py_accepts(obj["signature"], obj["site"])
        print("%s called at kernel.py:%d with %d positional and keywords %s: %s" % (
            obj["callee"], obj["site"]["line"], obj["site"]["npos"], obj["site"]["kw"], "accepted" if good else "REJECTED: " + why))
        return 0 if good else 1
    if obj.get("kind") == "sequence":
        import logging
        logging.disable(logging.CRITICAL)
        desc, expr, outs = gen_sequence(obj["seq_seed"], obj.get("thorough", False))
        p = [norm(x) for x in outs]
        v = ctx.coq_eval_exprs(SEQ_IMPORTS, [expr])[0]
        m = [norm(x) for x in split_top(v)]
        for o, a, b in zip(desc["ops"], p, m):
            print("  %-22s implementation %-40s model %s%s" % (o, a, b, "" if a == b else "   <-- differs"))
        print("AGREE" if p == m else "DISAGREE")
        return 0 if p == m else 1
    if obj.get("kind") == "matrix":
        import logging
        logging.disable(logging.CRITICAL)
        cell = matrix_cells(obj["thorough"])[obj["cell_index"]]
        tmpdir = tempfile.mkdtemp(prefix="c10-", dir=ctx.scratch)
        st, bad = run_cell(cell, obj["cell_seed"], tmpdir)
        print("real components %s/%s/%s attenuation_interpolation=%s: %s" % (cell[0], cell[3], cell[5], cell[6],
              "statement holds on %d signals" % st["signals"] if not bad else bad[0]))
        return 1 if bad else 0
    print(json.dumps(obj, indent=1))
    return 1
