(* C20: only library interfaces present in the declared dependency range.
   Statements only; proofs are in Proofs/C20_proofs.v. *)
From Coq Require Import String List Bool.
From PyrexLib Require Import Namespace CompatTable.
From PyrexGen Require Import Gen_refs.
From PyrexProofs Require Import C20_proofs.
Import ListNotations.

(* every dotted reference into numpy / scipy / h5py / the standard library / pyrex made
   anywhere in the package names, at every step, an attribute that exists *)
Theorem all_refs_resolve : Forall (Resolves env) refs.
Proof. exact all_refs_Resolve_lemma. Qed.
Print Assumptions all_refs_resolve.

(* the boolean decision procedure agrees with the relational reading, for all inputs *)
Theorem resolve_decides : forall chain e, resolve e chain = true <-> Resolves e chain.
Proof. exact resolve_sound. Qed.
Print Assumptions resolve_decides.

(* no module is imported that is neither standard library, declared in setup.py,
   nor a documented optional dependency imported under an availability guard *)
Theorem no_undeclared_imports : undeclared_imports = [].
Proof. exact no_undeclared_imports_lemma. Qed.
Print Assumptions no_undeclared_imports.

(* non-vacuity: the reference list is the complete, non-empty enumeration *)
Theorem refs_counted : length refs = n_refs.
Proof. exact refs_counted_lemma. Qed.
Print Assumptions refs_counted.

(* no reference uses a name known to be missing from part of the declared version range *)
Theorem no_restricted_refs : forallb unrestricted refs = true.
Proof. exact no_restricted_refs_lemma. Qed.
Print Assumptions no_restricted_refs.

(* no attribute name used on a value of unknown type is one of the names removed from numpy
   arrays / h5py objects / builtins inside the declared range (name-based heuristic) *)
Theorem no_removed_methods : forallb method_ok method_names = true.
Proof. exact no_removed_methods_lemma. Qed.
Print Assumptions no_removed_methods.

(* every directory of the package that contains modules is listed in setup.py `packages`,
   so that an installed copy can import each sub-package *)
Theorem all_dirs_packaged : unpackaged_dirs = [].
Proof. exact all_dirs_packaged_lemma. Qed.
Print Assumptions all_dirs_packaged.
