(* Hand model of the parts of pyrex/generation.py that the translator cannot express (loops with
   early exit, mutable lists, object construction); pinned by AST hash in harness/pins/C13.json and
   validated by correspondence in harness/props/c13.py.  No proofs here. *)
From Coq Require Import Reals List Bool ZArith.
From PyrexLib Require Import RealPrims.
Import ListNotations.
Open Scope R_scope.

Definition vnth (v : vec3) (i : nat) : R :=
  match i with O => vx v | S O => vy v | _ => vz v end.

Definition both_some {A} (st : option A * option A) : option (A * A) :=
  match st with (Some a, Some b) => Some (a, b) | _ => None end.

(* ------------------------------------------------------------------------------------------
   RectangularGenerator.get_exit_points

     sides = ((-dx/2, dx/2), (-dy/2, dy/2), (-dz, 0))
     for count in range(6):
         coord = int(count/2); min_max = count%2
         if particle.direction[coord]==0: continue
         scale = (sides[coord][min_max] - particle.vertex[coord]) / particle.direction[coord]
         intersection = particle.vertex + particle.direction * scale
         valid = True
         for i, pair in enumerate(sides):
             if i==coord: continue
             if intersection[i]<pair[0] or intersection[i]>pair[1]: valid = False
         if valid:
             sign = 1 if min_max==1 else -1
             if sign*particle.direction[coord]<0: enter_point = intersection
             else: exit_point = intersection
         if enter_point is not None and exit_point is not None: return enter_point, exit_point
     raise ValueError
   ------------------------------------------------------------------------------------------ *)
Definition box_sides (dx dy dz : R) (coord : nat) : R * R :=
  match coord with O => (- dx / 2, dx / 2) | S O => (- dy / 2, dy / 2) | _ => (- dz, 0) end.

Definition box_valid (dx dy dz : R) (coord : nat) (p : vec3) : bool :=
  forallb (fun i => Nat.eqb i coord ||
                    negb (Rltb (vnth p i) (fst (box_sides dx dy dz i)) || Rgtb (vnth p i) (snd (box_sides dx dy dz i))))
          [0%nat; 1%nat; 2%nat].

Definition box_state : Type := (option vec3 * option vec3)%type.

(* one iteration; the boolean says "return now" *)
Definition box_face (dx dy dz : R) (v d : vec3) (coord : nat) (is_max : bool) (st : box_state) : box_state * bool :=
  if Reqb (vnth d coord) 0 then (st, false)
  else
    let side := if is_max then snd (box_sides dx dy dz coord) else fst (box_sides dx dy dz coord) in
    let scale := (side - vnth v coord) / vnth d coord in
    let p := (vx v + vx d * scale, vy v + vy d * scale, vz v + vz d * scale) in
    let st' := if box_valid dx dy dz coord p
               then (if Rltb ((if is_max then 1 else -1) * vnth d coord) 0 then (Some p, snd st) else (fst st, Some p))
               else st in
    (st', match both_some st' with Some _ => true | None => false end).

Fixpoint box_loop (dx dy dz : R) (v d : vec3) (faces : list (nat * bool)) (st : box_state) : option (vec3 * vec3) :=
  match faces with
  | [] => None                                                     (* raise ValueError *)
  | (c, m) :: rest =>
      let '(st', ret) := box_face dx dy dz v d c m st in
      if ret then both_some st' else box_loop dx dy dz v d rest st'
  end.

Definition box_faces : list (nat * bool) :=
  [(0%nat, false); (0%nat, true); (1%nat, false); (1%nat, true); (2%nat, false); (2%nat, true)].

Definition box_exit_points (dx dy dz : R) (v d : vec3) : option (vec3 * vec3) :=
  box_loop dx dy dz v d box_faces (None, None).

(* ------------------------------------------------------------------------------------------
   CylindricalGenerator.get_exit_points  (transliteration; see the source for the formulas)
   ------------------------------------------------------------------------------------------ *)
Definition cyl_side_points (dr : R) (v d : vec3) : vec3 * vec3 :=
  if Reqb (vx d) 0 then
    let x0 := vx v in
    let y0 := - sqrt (dr ^ 2 - x0 ^ 2) in
    let z0 := vz v + (y0 - vy v) * vz d / vy d in
    let x1 := vx v in
    let y1 := sqrt (dr ^ 2 - x1 ^ 2) in
    let z1 := vz v + (y1 - vy v) * vz d / vy d in
    ((x0, y0, z0), (x1, y1, z1))
  else
    let slope := vy d / vx d in
    let a := 1 + slope ^ 2 in
    let b := vy v - slope * vx v in
    let x0 := (- (slope * b + sqrt ((- (b ^ 2)) + a * dr ^ 2))) / a in
    let y0 := (vy v - slope * (vx v + sqrt ((- (b ^ 2)) + a * dr ^ 2))) / a in
    let z0 := vz v + (x0 - vx v) * vz d / vx d in
    let x1 := ((- slope) * b + sqrt ((- (b ^ 2)) + a * dr ^ 2)) / a in
    let y1 := (vy v + slope * ((- vx v) + sqrt ((- (b ^ 2)) + a * dr ^ 2))) / a in
    let z1 := vz v + (x1 - vx v) * vz d / vx d in
    ((x0, y0, z0), (x1, y1, z1)).

(* intersections with the top / bottom supersede a side intersection outside the height range *)
Definition cyl_cap (dz : R) (v d pt : vec3) : vec3 :=
  let zc := if Rgtb (vz pt) 0 then Some 0 else if Rltb (vz pt) (- dz) then Some (- dz) else None in
  match zc with
  | None => pt
  | Some z => (vx v + (z - vz v) * vx d / vz d, vy v + (z - vz v) * vy d / vz d, z)
  end.

(* np.all(P((pt[nonzero]-vertex[nonzero])/direction[nonzero])), nonzero = direction != 0 *)
Definition ratios_all (P : R -> bool) (v d pt : vec3) : bool :=
  forallb (fun i => Reqb (vnth d i) 0 || P ((vnth pt i - vnth v i) / vnth d i)) [0%nat; 1%nat; 2%nat].

Definition cyl_sort (v d pt : vec3) (st : box_state) : box_state :=
  if ratios_all (fun r => Rltb r 0) v d pt then (Some pt, snd st)
  else if ratios_all (fun r => Rgtb r 0) v d pt then (fst st, Some pt)
  else if ratios_all (fun r => Reqb r 0) v d pt then
    ((match fst st with None => Some pt | s => s end), (match snd st with None => Some pt | s => s end))
  else st.

Definition cyl_exit_points (dr dz : R) (v d : vec3) : option (vec3 * vec3) :=
  let '(p0, p1) := cyl_side_points dr v d in
  let st0 := cyl_sort v d (cyl_cap dz v d p0) (None, None) in
  let st1 := cyl_sort v d (cyl_cap dz v d p1) st0 in
  both_some st1.

(* ------------------------------------------------------------------------------------------
   Generator.create_event: every throw increments count; without shadowing the first throw is
   returned with its weights; with shadowing one more variate u is drawn and the throw is returned
   (survival weight set to 1) iff u < survival weight, otherwise create_event is called again.
   A throw is modelled by its payload, its survival weight and the accept variate.
   ------------------------------------------------------------------------------------------ *)
Section CreateEvent.
  Context {T : Type}.
  Definition throw : Type := (T * R * R)%type.         (* payload, survival weight, accept variate *)

  Fixpoint create_event (shadow : bool) (fuel : nat) (count : Z) (throws : list throw)
    : option (T * R * Z * list throw) :=
    match fuel with
    | O => None
    | S f =>
        match throws with
        | [] => None
        | (p, w, u) :: rest =>
            let count' := (count + 1)%Z in
            if negb shadow then Some (p, w, count', rest)
            else if Rltb u w then Some (p, 1, count', rest)
            else create_event shadow f count' rest
        end
    end.
End CreateEvent.

(* ------------------------------------------------------------------------------------------
   ListGenerator: _index, _additional_counts; count = _index + _additional_counts;
   count.setter: _additional_counts = c - _index;
   create_event: if not loop and _index >= len(events): raise StopIteration
                 _index += 1; return events[(_index-1) % len(events)]
   ------------------------------------------------------------------------------------------ *)
Record lstate := mkL { l_index : Z; l_add : Z }.
Inductive lop := Create | SetCount (c : Z) | GetCount.
Inductive lout := Ev (i : Z) | Stop | Cnt (c : Z) | Done.

Definition l_init : lstate := mkL 0 0.
Definition l_count (s : lstate) : Z := (l_index s + l_add s)%Z.

Definition l_step (n : Z) (loop : bool) (s : lstate) (o : lop) : lstate * lout :=
  match o with
  | Create =>
      if negb loop && (l_index s >=? n)%Z then (s, Stop)
      else (mkL (l_index s + 1) (l_add s), Ev ((l_index s + 1 - 1) mod n)%Z)
  | SetCount c => (mkL (l_index s) (c - l_index s), Done)
  | GetCount => (s, Cnt (l_count s))
  end.

Fixpoint l_run (n : Z) (loop : bool) (s : lstate) (ops : list lop) : lstate * list lout :=
  match ops with
  | [] => (s, [])
  | o :: r => let '(s', out) := l_step n loop s o in
              let '(s'', outs) := l_run n loop s' r in (s'', out :: outs)
  end.
